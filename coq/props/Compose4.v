(** Compose4 - bridge B8: the concurrency slice (C16) connected to the sequential slices
    (C01 / C03 / C19 ingest, C04 diff, C05 merge).  Only statements, each closed by [exact] of a
    lemma from proofs/BridgePoolIngest_proofs.v; definitions in model/BridgePoolIngest.v.

    ---------------------------------------------------------------------------------------
    B8a (C16 -> C01/C03).  The ingest model (Ingest.v) replaces the worker pool of
    ingestTableFromBlocks by an abstract function [arrive] and C01_lossless / C03_ingest_wf
    quantify over every [arrive] that permutes its argument ([any_arrival]).  The pool model
    (Pool.v) has the goroutines, the mutex, the channels and the WaitGroup but moves blocks that
    are only (offset, row count).  The bridge runs the pool model on the blocks the SORTER
    MODEL emits ([pool_run c sched bs], [pblk_of_sblock]) and reads the arrival function off the
    final state: [pool_arrival c sched bs] lists the saved blocks in the order of the appends to
    Inserter.asyncBlocks ([Pool.ab]).  [pool_ingest_table] / [pool_ingest_from_sorter] are
    Ingest.ingest_table / ingest_from_sorter with that semantics in place of [arrive]:
    sortBlocks and `tbl.RowsCount = i.rowsCount` are applied to the POOL's result
    ([pool_table]: Blocks / BlockIndices / table index looked up by offset in the saved blocks,
    RowsCount as the pool counted it).

      inclusion 1 (needed)   every schedule, any number of workers: [pool_arrival] is an
                             [any_arrival] function, it maps the saved blocks to exactly the
                             pool's asyncBlocks, and the table assembled from the pool's result
                             is the ingest model's table under that arrival
                             (Compose_pool_blocks, Compose_pool_ingest_table, _from_sorter);
      inclusion 2            every permutation of the saved blocks is [pool_arrival] of some
                             complete run (Compose_pool_order_realised, _arrival_realised) - with
                             one worker per block.  With fewer workers than blocks one expects
                             that NOT every permutation is reachable (a block can be overtaken
                             only by blocks held by other workers at the same time; not proved
                             here), so C01 / C03 quantify over a superset of the reachable
                             orders: sound by inclusion 1, and exact for w >= #blocks.
      corollaries            Compose_pool_ingest_lossless (C16 o C01), Compose_pool_ingest_wf and
                             Compose_pool_sorter_wf (C16 o C03).

    DISCREPANCY between the slices, made explicit here: Inserter.rowsCount is a uint32 and the
    pool model wraps it ([Pool.wrap32]); the ingest model counts in unbounded N (its header says
    so: "not modelled: uint32 wrap of RowsCount").  The composed theorems therefore carry
    [wrap_rowscount] / [wrap32], equal the C01 / C03 conclusions below 2^32 input rows, and
    Compose_pool_rowscount_wraps shows that from 2^32 stored rows on the table written is NOT
    sound in C03's sense (RowsCount <> number of rows; diagnose reports IssRowsCount): C01_lossless
    and C03_ingest_wf as stated (no bound on the rows) hold of Ingest.v but not of the composed
    model.  Second, smaller one: the ingest model's write list puts each block's two objects next
    to each other in arrival order; in the pool the SaveBlock / SaveBlockIndex of different
    workers interleave and do not follow the arrival order (Compose_pool_store_order_example);
    only "every block and index object is in the store before sortBlocks" carries over
    (last clause of Compose_pool_blocks), which is all the crash-prefix arguments of B3 use.

    Hypotheses left: those of C16 ([skeleton_ok] of the translator's strings, discharged in
    gen/Tie_C16.v; at least one worker) and those of C01 / C03 (sort_ok, key names distinct
    columns, one cell per column, cells within the limit).  No store errors (the ingest model
    has none; C16_no_hang covers them on the pool side).

    ---------------------------------------------------------------------------------------
    B8b (C16 -> C04 -> C05).  PoolFlow.v groups abstract events; [flow_dev kh] maps an event of
    the diff model to one ([kh] = the key hash, injective).  Compose_pool_flow_differ_is_spec:
    PoolFlow's own abstract differ is exactly the image of the diff SPECIFICATION with
    emitUnchanged, so C16_dataflow_differ was about the right streams.
    Compose_pool_flow_dataflow_model: for well-formed stored tables the streams are those the
    diff MODEL emits (C04_diff_correct) and C16_dataflow holds of them with its [old_agree]
    premise discharged.  Compose_pool_flow_merge_view / _collector_input: for every interleaving
    of the per-layer streams, mergeTables' map holds for every key exactly [Merge.mk_mrec]
    (base sum, sum of every layer; [rh] = the row hash, injective) and the records handed to the
    resolver are the (key, record) pairs of [Merge.merge_records] - the object C05's table-level
    theorems are about.  Compose_pool_flow_model_collector_input: the same starting from the diff
    model run on the stored form of the merge model's tables ([diff_view_of]).
    Not covered: offsets of the records (BaseOffset / OtherOffsets are grouped by PoolFlow but do
    not exist in Merge.v), the resolver and the collector themselves (C05, B5). *)
From Coq Require Import String.
From W.lib Require Import Tree Bytes.
From W.model Require Sorter SorterSpec Ingest IngestSpec Pool PoolSpec PoolFlow Diff DiffSpec Merge.
From W.model Require Import BridgePoolIngest.
From W.model Require BridgeIngestDiff.
From W.proofs Require BridgePoolIngest_proofs PoolRefute_proofs.
From Coq Require Import List NArith Sorting.Permutation.
Import ListNotations.

(** * B8a: the pool's completion orders and the ingest model's arrival orders *)

(** For EVERY order of offsets the induced arrival function satisfies the premise of C01 / C03. *)
Theorem Compose_pool_arrival_any : forall order, IngestSpec.any_arrival (arrive_in_order order).
Proof. exact BridgePoolIngest_proofs.arrive_in_order_any. Qed.
Print Assumptions Compose_pool_arrival_any.

(** The two models of Inserter.sortBlocks agree under the abstraction (distinct offsets). *)
Theorem Compose_pool_sort_blocks : forall l,
  NoDup (map Ingest.ab_offset l) ->
  map pblk_of_ab (Ingest.sort_blocks l) = Pool.sort_blocks (map pblk_of_ab l).
Proof. exact BridgePoolIngest_proofs.sort_blocks_commute. Qed.
Print Assumptions Compose_pool_sort_blocks.

(** BLOCK LEVEL.  The sorter model's blocks [bs] (any chunking of any kept rows), any worker
    count, any schedule: no Go panic; the induced arrival is a permutation function; the run can
    be completed; and once the caller has returned: the ingest model's async blocks under that
    arrival ARE the pool's asyncBlocks, its rowsCount is the pool's (mod 2^32), its sorted async
    blocks are the pool's table, the table object assembled from the pool's result is the
    ingest model's table, and every block / index object the ingest model writes is in the
    pool's store. *)
Theorem Compose_pool_blocks :
  forall (acc post outer : list String.string) (cap send : String.string) (w : nat),
  Pool.skeleton_ok acc post outer cap send = true -> 1 <= w ->
  forall H columns pk rem kept bs,
  SorterSpec.chunked (length columns) pk rem 0 kept bs ->
  exists c, Pool.cfg_of_skeleton acc post outer cap send w = Some c /\
  forall sched,
    let s := pool_run c sched bs in
    let arrive := pool_arrival c sched bs in
    let saved := map (Ingest.save_block H pk) bs in
    Pool.panicked s = false /\ IngestSpec.any_arrival arrive /\
    (exists more, Pool.main_done (pool_run c (sched ++ more) bs) = true) /\
    (Pool.main_done s = true ->
       map pblk_of_ab (arrive saved) = Pool.ab s /\
       exists T tidx wr,
         Ingest.ingest_blocks H arrive columns pk bs = (T, tidx, wr) /\
         Pool.rc s = Pool.wrap32 (Ingest.t_rowscount T) /\
         Pool.result s = Some (Pool.ROk (Pool.wrap32 (Ingest.t_rowscount T))
                                        (map pblk_of_ab (Ingest.sort_blocks (arrive saved)))) /\
         pool_ingest_blocks H c sched columns pk bs = PIOk (wrap_rowscount T) tidx /\
         (forall a, In a (arrive saved) ->
            In (Pool.OBlk (N.of_nat (Ingest.ab_offset a))) (Pool.store s) /\
            In (Pool.OIdx (N.of_nat (Ingest.ab_offset a))) (Pool.store s))).
Proof. exact BridgePoolIngest_proofs.pool_blocks. Qed.
Print Assumptions Compose_pool_blocks.

(** ingest.IngestTable through the pool: for every schedule, either the caller has not returned
    yet ([PIRunning], and some continuation makes it return), or the result is the table of
    [Ingest.ingest_table] under an [any_arrival] function - the function C01 / C03 are proved
    about - with RowsCount as a uint32 ([pool_agrees]). *)
Theorem Compose_pool_ingest_table :
  forall (acc post outer : list String.string) (cap send : String.string) (w : nat),
  Pool.skeleton_ok acc post outer cap send = true -> 1 <= w ->
  forall H sort_rows run_size columns pknames rows,
  SorterSpec.sort_ok (length columns) sort_rows ->
  incl pknames columns -> NoDup pknames ->
  SorterSpec.wf_rows (length columns) rows -> SorterSpec.cells_in_limit rows ->
  exists c, Pool.cfg_of_skeleton acc post outer cap send w = Some c /\
  forall sched,
    pool_agrees (pool_ingest_table H sort_rows c sched run_size columns pknames rows)
                (fun arrive => Ingest.ingest_table H sort_rows arrive run_size columns pknames rows) /\
    exists more, pool_ingest_table H sort_rows c (sched ++ more) run_size columns pknames rows <> PIRunning.
Proof. exact BridgePoolIngest_proofs.pool_ingest_table_top. Qed.
Print Assumptions Compose_pool_ingest_table.

(** ... and IngestTableFromSorter (merge commit, doctor re-ingest): any sorted runs. *)
Theorem Compose_pool_ingest_from_sorter :
  forall (acc post outer : list String.string) (cap send : String.string) (w : nat),
  Pool.skeleton_ok acc post outer cap send = true -> 1 <= w ->
  forall H sort_rows columns pk s rows,
  NoDup pk -> SorterSpec.wf_rows (length columns) rows ->
  Permutation (concat (Sorter.runs_of sort_rows pk s)) rows ->
  Forall (SorterSpec.run_sorted pk) (Sorter.runs_of sort_rows pk s) ->
  exists c, Pool.cfg_of_skeleton acc post outer cap send w = Some c /\
  forall sched,
    pool_agrees (pool_ingest_from_sorter H sort_rows c sched columns pk s)
                (fun arrive => Ingest.ingest_from_sorter H sort_rows arrive columns pk s) /\
    exists more, pool_ingest_from_sorter H sort_rows c (sched ++ more) columns pk s <> PIRunning.
Proof. exact BridgePoolIngest_proofs.pool_from_sorter_top. Qed.
Print Assumptions Compose_pool_ingest_from_sorter.

(** C16 o C01.  Ingesting a CSV through the pool under ANY schedule and worker count: when the
    caller returns, the table holds the CSV's header and key, rows with strictly ascending keys
    (one row per key), each an input row, every input key present, and with unique keys exactly
    the input rows; RowsCount is the number of stored rows modulo 2^32 - the number itself below
    2^32 input rows.  (The full-strength clause "t_rowscount T = number of rows" of C01_lossless
    does not survive the composition: see Compose_pool_rowscount_wraps.) *)
Theorem Compose_pool_ingest_lossless :
  forall (acc post outer : list String.string) (cap send : String.string) (w : nat),
  Pool.skeleton_ok acc post outer cap send = true -> 1 <= w ->
  forall H sort_rows run_size columns pknames rows,
  SorterSpec.sort_ok (length columns) sort_rows ->
  incl pknames columns -> NoDup pknames ->
  SorterSpec.wf_rows (length columns) rows -> SorterSpec.cells_in_limit rows ->
  exists c pk, Pool.cfg_of_skeleton acc post outer cap send w = Some c /\
               Ingest.key_indices columns pknames = Some pk /\
  forall sched,
    (exists more, pool_ingest_table H sort_rows c (sched ++ more) run_size columns pknames rows <> PIRunning) /\
    (pool_ingest_table H sort_rows c sched run_size columns pknames rows = PIRunning \/
     exists T tidx,
       pool_ingest_table H sort_rows c sched run_size columns pknames rows = PIOk T tidx /\
       Ingest.t_columns T = Ingest.ensure_names columns /\ Ingest.t_pk T = pk /\
       Ingest.t_rowscount T = Pool.wrap32 (N.of_nat (length (Ingest.rows_of T))) /\
       ((N.of_nat (length rows) < 4294967296)%N ->
        Ingest.t_rowscount T = N.of_nat (length (Ingest.rows_of T))) /\
       SorterSpec.keys_strictly_ascending (length columns) pk (Ingest.rows_of T) /\
       (forall r, In r (Ingest.rows_of T) -> In r rows) /\
       (forall r, In r rows -> exists p, In p (Ingest.rows_of T) /\
          SorterSpec.dkey (length columns) pk p = SorterSpec.dkey (length columns) pk r) /\
       (NoDup (map (SorterSpec.dkey (length columns) pk) rows) -> Permutation rows (Ingest.rows_of T))).
Proof. exact BridgePoolIngest_proofs.pool_ingest_lossless. Qed.
Print Assumptions Compose_pool_ingest_lossless.

(** C16 o C03.  ... and the table is, up to its RowsCount field being reduced modulo 2^32, a
    table that is sound in C03's sense; below 2^32 input rows it is that table. *)
Theorem Compose_pool_ingest_wf :
  forall (acc post outer : list String.string) (cap send : String.string) (w : nat),
  Pool.skeleton_ok acc post outer cap send = true -> 1 <= w ->
  forall H sort_rows run_size columns pknames rows,
  SorterSpec.sort_ok (length columns) sort_rows ->
  incl pknames columns -> NoDup pknames ->
  SorterSpec.wf_rows (length columns) rows -> SorterSpec.cells_in_limit rows ->
  exists c, Pool.cfg_of_skeleton acc post outer cap send w = Some c /\
  forall sched,
    (exists more, pool_ingest_table H sort_rows c (sched ++ more) run_size columns pknames rows <> PIRunning) /\
    (pool_ingest_table H sort_rows c sched run_size columns pknames rows = PIRunning \/
     exists T tidx,
       pool_ingest_table H sort_rows c sched run_size columns pknames rows = PIOk (wrap_rowscount T) tidx /\
       IngestSpec.WF_table H T tidx /\
       ((N.of_nat (length rows) < 4294967296)%N -> wrap_rowscount T = T)).
Proof. exact BridgePoolIngest_proofs.pool_ingest_wf. Qed.
Print Assumptions Compose_pool_ingest_wf.

(** C16 o C03_sorter_any_rows_wf: any rows handed to a sorter in any way, then
    IngestTableFromSorter through the pool. *)
Theorem Compose_pool_sorter_wf :
  forall (acc post outer : list String.string) (cap send : String.string) (w : nat),
  Pool.skeleton_ok acc post outer cap send = true -> 1 <= w ->
  forall H sort_rows columns pk s rows,
  SorterSpec.wf_pk (length columns) pk -> NoDup pk -> SorterSpec.wf_rows (length columns) rows ->
  Permutation (concat (Sorter.runs_of sort_rows pk s)) rows ->
  Forall (SorterSpec.run_sorted pk) (Sorter.runs_of sort_rows pk s) ->
  exists c, Pool.cfg_of_skeleton acc post outer cap send w = Some c /\
  forall sched,
    (exists more, pool_ingest_from_sorter H sort_rows c (sched ++ more) columns pk s <> PIRunning) /\
    (pool_ingest_from_sorter H sort_rows c sched columns pk s = PIRunning \/
     exists T tidx,
       pool_ingest_from_sorter H sort_rows c sched columns pk s = PIOk (wrap_rowscount T) tidx /\
       IngestSpec.WF_table H T tidx /\
       ((N.of_nat (length rows) < 4294967296)%N -> wrap_rowscount T = T)).
Proof. exact BridgePoolIngest_proofs.pool_sorter_wf. Qed.
Print Assumptions Compose_pool_sorter_wf.

(** The discrepancy: a sound table of 2^32 rows or more, its RowsCount taken from the pool's
    uint32 counter, is not sound, and the repository's own diagnosis says so. *)
Theorem Compose_pool_rowscount_wraps : forall H T tidx,
  IngestSpec.WF_table H T tidx -> (4294967296 <= N.of_nat (length (Ingest.rows_of T)))%N ->
  ~ IngestSpec.WF_table H (wrap_rowscount T) tidx /\
  Ingest.diagnose (wrap_rowscount T) = Some Ingest.IssRowsCount.
Proof. exact BridgePoolIngest_proofs.wrap_rowscount_unsound. Qed.
Print Assumptions Compose_pool_rowscount_wraps.

(** Inclusion 2, pool level: EVERY order [p] of the blocks is the order of the appends to
    asyncBlocks under an explicit schedule ([sched_of_order]), given one worker per block. *)
Theorem Compose_pool_order_realised :
  forall (acc post outer : list String.string) (cap send : String.string),
  Pool.skeleton_ok acc post outer cap send = true ->
  forall blocks p w,
  NoDup (map Pool.b_off blocks) -> Forall (fun b => Pool.b_fail b = Pool.FNone) blocks ->
  Permutation p blocks -> 1 <= w -> length blocks <= w ->
  exists c, Pool.cfg_of_skeleton acc post outer cap send w = Some c /\
    let s := Pool.runs c (sched_of_order c (length blocks) (order_positions blocks p))
                       (Pool.init c (map Pool.PBlk blocks)) in
    Pool.main_done s = true /\ Pool.ab s = p.
Proof. exact BridgePoolIngest_proofs.order_realised. Qed.
Print Assumptions Compose_pool_order_realised.

(** Inclusion 2, ingest level: every permutation [q] of the saved blocks is what the arrival
    function of some complete pool run makes of them - the quantifier [any_arrival] of C01 / C03
    ranges over nothing the pool cannot do (w >= number of blocks). *)
Theorem Compose_pool_arrival_realised :
  forall (acc post outer : list String.string) (cap send : String.string),
  Pool.skeleton_ok acc post outer cap send = true ->
  forall H (columns : list bytes) pk rem kept bs q w,
  SorterSpec.chunked (length columns) pk rem 0 kept bs ->
  Permutation q (map (Ingest.save_block H pk) bs) -> 1 <= w -> length bs <= w ->
  exists c sched, Pool.cfg_of_skeleton acc post outer cap send w = Some c /\
    Pool.main_done (pool_run c sched bs) = true /\
    pool_arrival c sched bs (map (Ingest.save_block H pk) bs) = q.
Proof. exact BridgePoolIngest_proofs.arrival_realised. Qed.
Print Assumptions Compose_pool_arrival_realised.

(* ---- non-vacuity (B8a) *)

Definition ex_cfg (w : nat) : Pool.cfg :=
  PoolRefute_proofs.the_cfg PoolRefute_proofs.skel_locked PoolRefute_proofs.skel_post
                            PoolRefute_proofs.skel_outer "numWorkers"%string "select-send"%string w.
Definition ex_wid (k : nat) : nat := S (S (S k)).
(** 600 rows with two-byte keys, in descending key order *)
Definition ex_rows600 : list Sorter.row :=
  map (fun i => let x := N.of_nat i in [[(x / 256)%N; (x mod 256)%N]; [(x mod 7)%N]]) (rev (seq 0 600)).
(** worker k takes block k (k = 0, 1, 2); worker 2 finishes first, then 1, then 0 *)
Definition ex_sched_rev : list nat :=
  [0; 1; ex_wid 0; 1; ex_wid 1; 1; ex_wid 2]
  ++ repeat (ex_wid 2) 8 ++ repeat (ex_wid 1) 8 ++ repeat (ex_wid 0) 8
  ++ PoolRefute_proofs.round_robin 3 12.

(** the skeleton extracted today passes the checks, and [ex_cfg] is its configuration *)
Example Compose_pool_cfg_today :
  Pool.skeleton_ok PoolRefute_proofs.skel_locked PoolRefute_proofs.skel_post PoolRefute_proofs.skel_outer
                   "numWorkers"%string "select-send"%string = true /\
  Pool.cfg_of_skeleton PoolRefute_proofs.skel_locked PoolRefute_proofs.skel_post PoolRefute_proofs.skel_outer
                       "numWorkers"%string "select-send"%string 3 = Some (ex_cfg 3).
Proof. vm_compute. split; reflexivity. Qed.

(** a 600-row CSV (3 blocks: 255 + 255 + 90 rows), 3 workers, the blocks completed in the order
    2, 1, 0: the pool-driven ingest returns exactly the table of the ingest model under the
    arrival function [rev]; a schedule that stops early is [PIRunning] *)
Example Compose_pool_ingest_nonvacuous :
  let columns : list bytes := [[97%N]; [98%N]] in
  pool_ingest_order Sorter.isort_rows (ex_cfg 3) ex_sched_rev 4096 columns [[97%N]] ex_rows600
    = Some [2%N; 1%N; 0%N] /\
  pool_ingest_table Ingest.no_hash Sorter.isort_rows (ex_cfg 3) ex_sched_rev 4096 columns [[97%N]] ex_rows600
    = match fst (Ingest.ingest_table Ingest.no_hash Sorter.isort_rows (@rev Ingest.asyncblock) 4096
                                     columns [[97%N]] ex_rows600) with
      | Ingest.IOk T tidx => PIOk T tidx
      | _ => PIErr
      end /\
  match pool_ingest_table Ingest.no_hash Sorter.isort_rows (ex_cfg 3) ex_sched_rev 4096 columns [[97%N]] ex_rows600 with
  | PIOk T tidx => Some (Ingest.t_rowscount T, map (@length Sorter.row) (Ingest.t_blocks T), tidx)
  | _ => None
  end = Some (600%N, [255; 255; 90], [[[0%N; 0%N]]; [[0%N; 255%N]]; [[1%N; 254%N]]]) /\
  pool_ingest_table Ingest.no_hash Sorter.isort_rows (ex_cfg 3) [0; 1; 1] 4096 columns [[97%N]] ex_rows600
    = PIRunning.
Proof. vm_compute. repeat split; reflexivity. Qed.

(** four blocks, four workers, the order 2, 0, 3, 1 realised by [sched_of_order] *)
Example Compose_pool_order_nonvacuous :
  let b (i r : N) := Pool.mk_blk i r Pool.FNone in
  let blocks := [b 0 255; b 1 255; b 2 255; b 3 17]%N in
  let p := [b 2 255; b 0 255; b 3 17; b 1 255]%N in
  let s := Pool.runs (ex_cfg 4) (sched_of_order (ex_cfg 4) 4 (order_positions blocks p))
                     (Pool.init (ex_cfg 4) (map Pool.PBlk blocks)) in
  order_positions blocks p = [2; 0; 3; 1] /\
  Pool.main_done s = true /\ Pool.ab s = p /\ Pool.result s = Some (Pool.ROk 782 blocks).
Proof. vm_compute. repeat split; reflexivity. Qed.

(** the order of the store writes: two workers, two blocks arriving in the order 0, 1; the
    objects reach the store as block 0, block 1, index 1, index 0 - neither [pool_objs] of the
    arrival order (what Ingest.v's write list says) nor of the other order *)
Example Compose_pool_store_order_example :
  let b (i r : N) := Pool.mk_blk i r Pool.FNone in
  let sched := [0; 1; ex_wid 0; ex_wid 0; 1; ex_wid 1; ex_wid 1; ex_wid 1; ex_wid 0]
               ++ PoolRefute_proofs.round_robin 2 30 in
  let s := Pool.runs (ex_cfg 2) sched (Pool.init (ex_cfg 2) (map Pool.PBlk [b 0 5; b 1 7]%N)) in
  Pool.main_done s = true /\ map Pool.b_off (Pool.ab s) = [0; 1]%N /\
  rev (Pool.store s) = [Pool.OBlk 0; Pool.OBlk 1; Pool.OIdx 1; Pool.OIdx 0] /\
  [Pool.OBlk 0; Pool.OIdx 0; Pool.OBlk 1; Pool.OIdx 1] <> rev (Pool.store s) /\
  [Pool.OBlk 1; Pool.OIdx 1; Pool.OBlk 0; Pool.OIdx 0] <> rev (Pool.store s).
Proof. vm_compute. repeat split; try reflexivity; discriminate. Qed.

(** * B8b: the merge dataflow on the events of the diff model *)

(** PoolFlow's abstract differ = the image of the diff specification with emitUnchanged
    (t1 = the layer, t2 = the base, as Merger.Start calls diffTables). *)
Theorem Compose_pool_flow_differ_is_spec : forall (kh : Diff.key -> N),
  (forall a b, kh a = kh b -> a = b) ->
  forall ce l1 l2,
  map (flow_dev kh) (DiffSpec.spec_diff_rows true ce l1 l2) =
  PoolFlow.diff_events (flow_rows kh l2) (flow_rows kh l1).
Proof. exact BridgePoolIngest_proofs.flow_spec_events. Qed.
Print Assumptions Compose_pool_flow_differ_is_spec.

(** C16_dataflow o C04.  Well-formed stored tables: every layer's stream is what the diff MODEL
    emits (= its specification), the streams satisfy C16_dataflow's premise, and for every
    interleaving mergeTables' grouping is that of the single-threaded order. *)
Theorem Compose_pool_flow_dataflow_model : forall (kh : Diff.key -> N),
  (forall a b, kh a = kh b -> a = b) ->
  forall base others s,
  DiffSpec.WF_table 255 base -> Forall (DiffSpec.WF_table 255) others ->
  PoolFlow.interleave (flow_streams kh base others) s ->
  let ls := flow_streams kh base others in
  Forall2 (fun o l => Diff.diff_tables 255 true o base = Diff.Ok (DiffSpec.spec_diff true o base) /\
                      l = map (flow_dev kh) (DiffSpec.spec_diff true o base)) others ls /\
  (forall k, PoolFlow.lookup k (PoolFlow.group (length ls) s) =
             PoolFlow.lookup k (PoolFlow.group (length ls) (PoolFlow.sequential ls))) /\
  Permutation (PoolFlow.group (length ls) s) (PoolFlow.group (length ls) (PoolFlow.sequential ls)) /\
  Permutation (PoolFlow.emitted (PoolFlow.group (length ls) s))
              (PoolFlow.emitted (PoolFlow.group (length ls) (PoolFlow.sequential ls))).
Proof. exact BridgePoolIngest_proofs.flow_dataflow_model. Qed.
Print Assumptions Compose_pool_flow_dataflow_model.

(** C16_dataflow -> C05.  Tables of the merge model with distinct keys, injective key / row
    hashes, the streams of Merger.Start ([merge_streams]: the diff specification per layer, a
    layer whose guard fails emits nothing): for EVERY interleaving and EVERY key the map of
    mergeTables holds a record iff some layer emits an event for the key, and then the record is
    [Merge.mk_mrec] (base sum and the sum of every layer; offsets projected away). *)
Theorem Compose_pool_flow_merge_view :
  forall (kh : list bytes -> N) (rh : Merge.row -> N),
  (forall a b, kh a = kh b -> a = b) ->
  forall base others,
  NoDup (map (Merge.key_of base) (Merge.t_rows base)) ->
  Forall (fun o => NoDup (map (Merge.key_of o) (Merge.t_rows o))) others ->
  forall s k,
  PoolFlow.interleave (merge_streams kh rh base others) s ->
  option_map strip (PoolFlow.lookup (kh k) (PoolFlow.group (length others) s)) =
  if key_emitted base others k then Some (merge_view kh rh base others k) else None.
Proof. exact BridgePoolIngest_proofs.merge_group_view. Qed.
Print Assumptions Compose_pool_flow_merge_view.

(** ... hence the records handed to the resolver are, for every interleaving, the (key, record)
    pairs of the merge model, which are those of [Merge.merge_records]. *)
Theorem Compose_pool_flow_collector_input :
  forall (kh : list bytes -> N) (rh : Merge.row -> N),
  (forall a b, kh a = kh b -> a = b) -> (forall a b, rh a = rh b -> a = b) ->
  forall base others,
  NoDup (map (Merge.key_of base) (Merge.t_rows base)) ->
  Forall (fun o => NoDup (map (Merge.key_of o) (Merge.t_rows o))) others ->
  forall s,
  PoolFlow.interleave (merge_streams kh rh base others) s ->
  Permutation (map strip (PoolFlow.emitted (PoolFlow.group (length others) s)))
              (map (fun km => merge_view kh rh base others (fst km)) (collector_input base others)).
Proof. exact BridgePoolIngest_proofs.merge_collector_input. Qed.
Print Assumptions Compose_pool_flow_collector_input.

Theorem Compose_pool_flow_merge_records : forall base others cd,
  map (fun kr => (Merge.k_key kr, Merge.k_m kr)) (Merge.merge_records cd base others)
  = collector_input base others.
Proof. exact BridgePoolIngest_proofs.merge_records_input. Qed.
Print Assumptions Compose_pool_flow_merge_records.

(** C16_dataflow o C04 -> C05.  The same with the streams of the diff MODEL run on the stored
    form of the tables ([diff_view_of]: same key names and columns, rows keyed by Merge.key_of,
    well-formed in C04's sense - what B1 gives for ingested tables). *)
Theorem Compose_pool_flow_model_collector_input :
  forall (kh : list bytes -> N) (rh : Merge.row -> N),
  (forall a b, kh a = kh b -> a = b) -> (forall a b, rh a = rh b -> a = b) ->
  forall base others db dos s,
  diff_view_of rh base db -> Forall2 (diff_view_of rh) others dos ->
  DiffSpec.WF_table 255 db -> Forall (DiffSpec.WF_table 255) dos ->
  PoolFlow.interleave (flow_streams kh db dos) s ->
  flow_streams kh db dos = merge_streams kh rh base others /\
  (forall k, option_map strip (PoolFlow.lookup (kh k) (PoolFlow.group (length others) s)) =
             if key_emitted base others k then Some (merge_view kh rh base others k) else None) /\
  Permutation (map strip (PoolFlow.emitted (PoolFlow.group (length others) s)))
              (map (fun km => merge_view kh rh base others (fst km)) (collector_input base others)) /\
  (forall cd, map (fun kr => (Merge.k_key kr, Merge.k_m kr)) (Merge.merge_records cd base others)
              = collector_input base others).
Proof. exact BridgePoolIngest_proofs.merge_model_collector_input. Qed.
Print Assumptions Compose_pool_flow_model_collector_input.

(* ---- non-vacuity (B8b) *)

Definition ex_tb (rows : list Merge.row) : Merge.table :=
  {| Merge.t_cols := [[107%N]; [118%N]]; Merge.t_pk := [[107%N]]; Merge.t_rows := rows |}.
Definition ex_base : Merge.table := ex_tb [[[49]; [97]]; [[50]; [98]]; [[51]; [99]]]%N.
Definition ex_o1 : Merge.table := ex_tb [[[49]; [97]]; [[50]; [120]]; [[52]; [100]]]%N.   (* 2 changed, 3 removed, 4 added *)
Definition ex_o2 : Merge.table := ex_tb [[[49]; [97]]; [[50]; [98]]; [[51]; [121]]]%N.    (* 3 changed *)
Definition ex_dv (t : Merge.table) : Diff.tbl :=
  Diff.mk_tbl (Merge.t_pk t) (Merge.t_cols t) (Diff.chunk 255 (merge_rows BridgeIngestDiff.ex_rid t)).

(** two layers, an interleaving chosen by picks: the streams of the diff model on the stored
    tables are the merge streams, the tables are well-formed, and the records handed to the
    resolver (keys 2, 3, 4; key 1 is unchanged everywhere and dropped) are the merge model's *)
Example Compose_pool_flow_nonvacuous :
  let kh := BridgeIngestDiff.ex_rid in
  let rh := BridgeIngestDiff.ex_rid in
  let streams := merge_streams kh rh ex_base [ex_o1; ex_o2] in
  let s := PoolFlow.weave 20 [1; 0; 1; 1; 0; 0; 1] streams in
  flow_streams kh (ex_dv ex_base) [ex_dv ex_o1; ex_dv ex_o2] = streams /\
  forallb (fun t => DiffSpec.wf_blocksb 255 (Diff.t_blocks (ex_dv t))) [ex_base; ex_o1; ex_o2] = true /\
  map (@length PoolFlow.dev) streams = [4; 3] /\ map fst s = [1; 0; 1; 1; 0; 0; 0] /\
  map strip (PoolFlow.emitted (PoolFlow.group 2 s))
    = map (fun km => merge_view kh rh ex_base [ex_o1; ex_o2] (fst km)) (collector_input ex_base [ex_o1; ex_o2]) /\
  map fst (collector_input ex_base [ex_o1; ex_o2]) = [[[50%N]]; [[51%N]]; [[52%N]]] /\
  map (key_emitted ex_base [ex_o1; ex_o2]) [[[49%N]]; [[52%N]]; [[53%N]]] = [true; true; false].
Proof. vm_compute. repeat split; reflexivity. Qed.
