(** C03 - every stored table is structurally sound and its indices agree with its rows.
    Only statements, each closed by [exact] of a lemma from proofs/.

    [WF_table H T tidx] (model/IngestSpec.v) says of a stored table T with table index
    tidx: the recorded row count equals the rows present; every block has 1..255 rows
    and every block but the last exactly 255; keys strictly increase across the whole
    table; block i's index is [index_block H pk] of exactly block i's rows (for every
    row position: hash of the key, hash of the row; positions sorted by key hash);
    there are as many block indices as blocks; the table index lists the key of the
    first row of every block; key indices are columns, rows have one cell per column
    and key column names are non-empty.  [H] is the hash of a cell list (MeowHash of
    its StrList encoding), a parameter.

    Producers named by the property and how each is covered:
      - commit (ingest.IngestTable, wrgl commit): THEOREM C03_ingest_wf + correspondence
        (harness kinds 0, 1).
      - any rows handed to a sorter, then IngestTableFromSorter / IngestTableFromBlocks
        (the path shared by the merge commit and the doctor re-ingest): THEOREM
        C03_sorter_any_rows_wf, for every family of sorted runs + correspondence (kind 2).
      - merge commit: the real merge (merge.NewMerger / Start, automatic resolution only,
        same columns, key first - outside that guard the merge has the known C05 findings)
        committed as cmd/wrgl commitMergeResult does: CORRESPONDENCE (kind 4).  The model
        ingests the three-way merge of the tables computed by the harness, i.e. the theorem
        applies to the row multiset the collector hands to its sorter; that the collector
        hands over exactly the merged rows is C05's obligation and is checked here by the
        oracle only.
      - doctor re-ingest: a table written object by object with duplicated rows / keys,
        repaired by doctor.Diagnose + Resolve: CORRESPONDENCE (kind 5); the model ingests
        the stored rows in their stored order (resolver.ingestTable feeds them to a sorter,
        so the theorem applies to that step).
      - receipt over the wire (ObjectSender -> packfile -> ObjectReceiver, indices rebuilt
        by ingest.IndexTable): CORRESPONDENCE ONLY (kind 6): the received table is judged
        by the same oracle, compared with the model's table for the sent CSV and with the
        sender's objects; ObjectReceiver itself is not modelled here (C07/C17).
    Agreement of IndexBlock (decoded rows) with IndexBlockFromBytes (bytes) is checked by
    the harness through ingest.IndexTable and by re-indexing every block (byte level is
    C06's). *)
From W.lib Require Import Tree Bytes.
From W.model Require Import Sorter SorterSpec Ingest IngestSpec.
From W.proofs Require Import Sorter_proofs Ingest_proofs.
From Coq Require Import Sorting.Sorted Sorting.Permutation.
Local Open Scope N_scope.

(** Ingesting a CSV: every header, key choice (no column named twice), rows within the limit, run size,
    in-memory sort and arrival order of blocks gives a sound table. *)
Theorem C03_ingest_wf : forall H sort_rows arrive run_size columns pknames rows,
  sort_ok (length columns) sort_rows -> any_arrival arrive ->
  incl pknames columns -> NoDup pknames -> wf_rows (length columns) rows -> cells_in_limit rows ->
  exists T tidx w,
    ingest_table H sort_rows arrive run_size columns pknames rows = (IOk T tidx, w) /\
    WF_table H T tidx.
Proof. exact Ingest_proofs.ingest_wf. Qed.
Print Assumptions C03_ingest_wf.

(** Any rows handed to a sorter in any way (every family of sorted runs whose union is
    the row multiset), then IngestTableFromSorter: a sound table, table object last. *)
Theorem C03_sorter_any_rows_wf : forall H sort_rows arrive columns pk s rows,
  any_arrival arrive -> wf_pk (length columns) pk -> NoDup pk -> wf_rows (length columns) rows ->
  Permutation (concat (runs_of sort_rows pk s)) rows ->
  Forall (run_sorted pk) (runs_of sort_rows pk s) ->
  exists T tidx w,
    ingest_from_sorter H sort_rows arrive columns pk s = (IOk T tidx, w) /\
    WF_table H T tidx /\ table_written_last w T.
Proof. exact Ingest_proofs.sorter_any_rows_wf. Qed.
Print Assumptions C03_sorter_any_rows_wf.

(** Number of blocks: an ingested table of n stored rows has exactly ceil(n/255) blocks
    and as many block indices, for every n (no bound: in particular beyond the decoders'
    pre-allocation cap of 1024 blocks); with unique keys n is the number of input rows. *)
Theorem C03_block_count : forall H sort_rows arrive run_size columns pknames rows,
  sort_ok (length columns) sort_rows -> any_arrival arrive ->
  incl pknames columns -> NoDup pknames -> wf_rows (length columns) rows -> cells_in_limit rows ->
  exists T tidx w,
    ingest_table H sort_rows arrive run_size columns pknames rows = (IOk T tidx, w) /\
    length (t_blocks T) = Nat.div (Nat.add (length (rows_of T)) 254%nat) 255%nat /\
    length (t_blockidx T) = length (t_blocks T) /\
    (NoDup (map (dkey (length columns)
                      (match key_indices columns pknames with Some pk => pk | None => [] end)) rows) ->
     length (rows_of T) = length rows).
Proof. exact Ingest_proofs.ingest_block_count. Qed.
Print Assumptions C03_block_count.

(** With an injective hash, block i's index maps the hash of every row's key to that
    row's position and hash (BlockIndex.Get), and the hash of any key absent from the
    block to nothing. *)
Theorem C03_block_index_exact : forall H T tidx i blk idx,
  (forall a b, H a = H b -> a = b) -> WF_table H T tidx ->
  nth_error (t_blocks T) i = Some blk -> nth_error (t_blockidx T) i = Some idx ->
  (forall j r, nth_error blk j = Some r ->
     idx_get idx (H (dkey (length (t_columns T)) (t_pk T) r)) = Some (j, H r)) /\
  (forall k, (forall r, In r blk -> dkey (length (t_columns T)) (t_pk T) r <> k) ->
     idx_get idx (H k) = None).
Proof. exact Ingest_proofs.wf_table_block_index. Qed.
Print Assumptions C03_block_index_exact.

(** The repository's own diagnosis (diagnoseCommit, with its first-row flag) reports no
    issue for a sound table. *)
Theorem C03_diagnose_clean : forall H T tidx, WF_table H T tidx -> diagnose T = None.
Proof. exact Ingest_proofs.diagnose_clean. Qed.
Print Assumptions C03_diagnose_clean.

(** Row addressing by offset: RowToBlockAndOffset (i*255+j) = (i, j), and in a sound
    table that offset holds row j of block i. *)
Theorem C03_row_addr : forall i j,
  (j < block_size)%nat -> row_to_block_and_offset (i * block_size + j) = (i, j).
Proof. exact Ingest_proofs.row_addr. Qed.
Print Assumptions C03_row_addr.

Theorem C03_row_addr_table : forall H T tidx i j d,
  WF_table H T tidx -> (i < length (t_blocks T))%nat -> (j < length (nth i (t_blocks T) []))%nat ->
  nth (i * block_size + j) (rows_of T) d = nth j (nth i (t_blocks T) []) d.
Proof. exact Ingest_proofs.row_addr_table. Qed.
Print Assumptions C03_row_addr_table.

(** Non-vacuity: a table whose first row has all cells empty, with a duplicate key, is
    ingested into a table that the diagnosis accepts; its table index is the first key. *)
Example C03_example :
  let columns : list bytes := [[97]; [98]] in
  let rows : list row := [[[120]; [50]]; [[]; []]; [[120]; [51]]] in
  match fst (ingest_table no_hash isort_rows (fun l => l) 1 columns [[97]] rows) with
  | IOk T tidx => Some (t_rowscount T, tidx, length (t_blockidx T), diagnose T)
  | _ => None
  end = Some (2, [[[]]], 1%nat, None).
Proof. vm_compute. reflexivity. Qed.
