(** Composition fragment B5 (C20 -> C05): the merge collector's discarded-key set is the
    on-disk hash set of C20.  Only statements, each closed by [exact] of a lemma from
    proofs/BridgeHashSetMerge_proofs.v.

    THE GAP.  model/Merge.v (C05) represents the collector's [discardedRows *index.HashSet]
    by a list of key-cell lists queried with [existsb (keqb ..)], "justified by C20" in a
    comment only; C20 (model/HashSet.v) proves, separately, that the file-backed hash set
    refines an abstract set of 128-bit numbers.  Nothing connected the two.

    THE BRIDGE.  model/BridgeHashSetMerge.v re-states the collector ([hs_collected_rows],
    [hs_result_rows], [hs_run_merge]: copies of Merge.collected_rows / result_rows / run_merge
    that differ ONLY in how the untouched base rows are selected) on top of the C20
    implementation model: the call sequence of pkg/merge/row_collector.go
        NewHashSet(f, bsz); Add(sum k) for every discarded key k; Flush();
        Has(sum (key cells of r)) for every base row r, row re-added iff the answer is false
    is executed by [HashSet.run_ops (HashSet.hs_new bsz)], any [RErr] output fails the
    collector.  Proved:
      - Compose_discard_refines   that run is the abstract-set run (instance of C20_refines);
      - Compose_discard_set       all Adds and the Flush succeed and the i-th Has answers list
                                  membership of the i-th queried key among the added keys, i.e.
                                  exactly the semantics Merge.v gives its [discarded] list;
      - Compose_discard_member    the same for one query, derived from C20_member itself;
      - Compose_discard_any_order the order and multiplicity of the Add calls are irrelevant
                                  (Go map iteration order; collector goroutine vs caller);
      - Compose_merge_run_eq      [hs_run_merge] = [Merge.run_merge] for ALL inputs (every layout,
                                  keyless or not, any policy, both result paths) - so every
                                  statement of props/C05.v about [run_merge] (including the
                                  refuted clauses) holds verbatim for the collector on the hash set;
      - Compose_merge_*           the table-level theorems of C05 restated on [hs_run_merge]:
                                  they no longer rest on the informal remark.

    REMAINING HYPOTHESES (explicit premises; [hk] and [bsz] are universally quantified):
      - [sums_ok hk (merge_keys base others)]: on the finitely many keys whose sums reach the
        hash set in this merge (keys of the Merge records + key cells of the base rows) the
        key sum [hk] is below 2^128 (C20's [wf_hash]: a 16-byte value) and collision-free.
        This replaces "key sums are injective": global injectivity into 16 bytes is
        unsatisfiable, so it is demanded on the keys of the merge at hand only.  Both parts
        are needed (Compose_collision_matters, Compose_wide_sum_matters).
      - [keyless_ok base others] (general bridge only; implied by C05's guard): if the base
        has no key column, no discarded key is the empty cell list.  The Go code then queries
        the sum of the empty cell list, which Merge.v short-cuts to "never found"; on a
        keyless table WITHOUT columns the two legitimately differ
        (Compose_keyless_empty_row_differs), so the bridge is restricted there.
      - the C05 theorems keep their own premises ([guard], [policy < 2]).
    ASSUMED BY THE MODELS, not by these theorems' premises: the file behaves as modelled in
    HashSet.v (reads return what was written, a write past the end zero-fills, no I/O error:
    C20 proves that no operation of the model errs, a failing disk is outside it); Add / Flush /
    Has are called sequentially (the Go HashSet.Add is not synchronised); [hk] stands for
    meow128 over the strlist encoding of the cells, the same function for Add (diff's key sum,
    for keyless tables the row sum) and Has - MeowHash itself never enters Coq.
    Any batch size [bsz] (0 selects 1024, CreateRowCollector passes 0). *)
From W.lib Require Tree Bytes GoSlice.
From W.model Require ColDiff Merge MergeSpec HashSet HashSetSpec BridgeHashSetMerge.
From W.proofs Require HashSet_proofs Merge_witness_proofs BridgeHashSetMerge_proofs.
From Coq Require Import List NArith Permutation Sorting.Sorted.
Import ListNotations.

(** ---------- set level: the collector's call sequence on the C20 model ---------- *)

(** the implementation run of the collector's sequence is the run of C20's abstract set *)
Theorem Compose_discard_refines :
  forall (hk : list Tree.bytes -> HashSet.hash) (bsz : nat) (adds queries : list (list Tree.bytes)),
  (forall k, In k (adds ++ queries) -> HashSetSpec.wf_hash (hk k)) ->
  BridgeHashSetMerge.discard_outs hk bsz adds queries
  = HashSetSpec.spec_run (HashSetSpec.spec_new bsz) (BridgeHashSetMerge.discard_ops hk adds queries).
Proof. exact BridgeHashSetMerge_proofs.discard_outs_refines. Qed.
Print Assumptions Compose_discard_refines.

(** ... its Has answers are [HashSetSpec.mem] on the flushed content of the abstract set *)
Theorem Compose_discard_mem :
  forall (hk : list Tree.bytes -> HashSet.hash) (bsz : nat) (adds queries : list (list Tree.bytes)),
  (forall k, In k (adds ++ queries) -> HashSetSpec.wf_hash (hk k)) ->
  BridgeHashSetMerge.discard_outs hk bsz adds queries
  = repeat HashSet.RUnit (S (length adds)) ++
    map (fun q => HashSet.RBool (HashSetSpec.mem (hk q)
                    (BridgeHashSetMerge_proofs.flushed bsz (map hk adds)))) queries.
Proof. exact BridgeHashSetMerge_proofs.discard_outs_mem. Qed.
Print Assumptions Compose_discard_mem.

(** ... which is Merge.v's semantics of the discarded list: no call errs, and every Has
    answers "the queried key is one of the added keys" *)
Theorem Compose_discard_set :
  forall (hk : list Tree.bytes -> HashSet.hash) (bsz : nat) (adds queries : list (list Tree.bytes)),
  BridgeHashSetMerge.sums_ok hk (adds ++ queries) ->
  BridgeHashSetMerge.discard_outs hk bsz adds queries
  = repeat HashSet.RUnit (S (length adds)) ++
    map (fun q => HashSet.RBool (existsb (Bytes.keqb q) adds)) queries.
Proof. exact BridgeHashSetMerge_proofs.discard_outs_set. Qed.
Print Assumptions Compose_discard_set.

(** one query, in the shape of C20_member and proved from it *)
Theorem Compose_discard_member :
  forall (hk : list Tree.bytes -> HashSet.hash) (bsz : nat) (adds : list (list Tree.bytes)) (q : list Tree.bytes),
  BridgeHashSetMerge.sums_ok hk (q :: adds) ->
  last (BridgeHashSetMerge.discard_outs hk bsz adds [q]) HashSet.RErr
  = HashSet.RBool (existsb (Bytes.keqb q) adds).
Proof. exact BridgeHashSetMerge_proofs.discard_member. Qed.
Print Assumptions Compose_discard_member.

(** the untouched rows selected through the hash set are those Merge.v selects *)
Theorem Compose_discard_untouched :
  forall (hk : list Tree.bytes -> HashSet.hash) (bsz : nat)
         (adds : list (list Tree.bytes)) (idx : list nat) (rows : list Merge.row),
  BridgeHashSetMerge.sums_ok hk (adds ++ map (Merge.pick idx) rows) ->
  BridgeHashSetMerge.hs_untouched hk bsz adds idx rows
  = GoSlice.Ok (filter (fun r => negb (existsb (Bytes.keqb (Merge.pick idx r)) adds)) rows).
Proof. exact BridgeHashSetMerge_proofs.hs_untouched_eq. Qed.
Print Assumptions Compose_discard_untouched.

(** the order in which the keys are added, and adding a key twice, change nothing *)
Theorem Compose_discard_any_order :
  forall (hk : list Tree.bytes -> HashSet.hash) (bsz : nat)
         (adds adds' : list (list Tree.bytes)) (idx : list nat) (rows : list Merge.row),
  (forall k, In k adds <-> In k adds') ->
  BridgeHashSetMerge.sums_ok hk (adds ++ map (Merge.pick idx) rows) ->
  BridgeHashSetMerge.hs_untouched hk bsz adds' idx rows = BridgeHashSetMerge.hs_untouched hk bsz adds idx rows.
Proof. exact BridgeHashSetMerge_proofs.hs_untouched_any_order. Qed.
Print Assumptions Compose_discard_any_order.

(** decidable form of the premise, for concrete instances *)
Theorem Compose_sums_okb :
  forall (hk : list Tree.bytes -> HashSet.hash) (ks : list (list Tree.bytes)),
  BridgeHashSetMerge.sums_okb hk ks = true -> BridgeHashSetMerge.sums_ok hk ks.
Proof. exact BridgeHashSetMerge_proofs.sums_okb_ok. Qed.
Print Assumptions Compose_sums_okb.

(** ---------- merge level: model/Merge.v's collector = the collector on the hash set ---------- *)

Theorem Compose_merge_collector :
  forall (hk : list Tree.bytes -> HashSet.hash) (bsz : nat)
         (base : Merge.table) (others : list Merge.table) (recs : list Merge.keyrec) (policy : nat),
  BridgeHashSetMerge.sums_ok hk (BridgeHashSetMerge.merge_keys base others) ->
  BridgeHashSetMerge.keyless_ok base others ->
  (forall kr, In kr recs -> In (Merge.k_key kr) (Merge.all_keys base others)) ->
  BridgeHashSetMerge.hs_collected_rows hk bsz base recs policy
  = GoSlice.Ok (Merge.collected_rows base recs policy).
Proof. exact BridgeHashSetMerge_proofs.hs_collected_rows_eq. Qed.
Print Assumptions Compose_merge_collector.

(** every input: any layouts, keyed or keyless, any policy, SortedRows and SortedBlocks *)
Theorem Compose_merge_run_eq :
  forall (hk : list Tree.bytes -> HashSet.hash) (bsz : nat)
         (base : Merge.table) (others : list Merge.table) (policy remmode : nat) (blocks : bool),
  BridgeHashSetMerge.sums_ok hk (BridgeHashSetMerge.merge_keys base others) ->
  BridgeHashSetMerge.keyless_ok base others ->
  BridgeHashSetMerge.hs_run_merge hk bsz base others policy remmode blocks
  = Merge.run_merge base others policy remmode blocks.
Proof. exact BridgeHashSetMerge_proofs.hs_run_merge_eq. Qed.
Print Assumptions Compose_merge_run_eq.

(** C05's guard implies the keyless side condition *)
Theorem Compose_guard_keyless_ok :
  forall cols pk base others others',
  MergeSpec.guard cols pk base others -> BridgeHashSetMerge.keyless_ok base others'.
Proof. exact BridgeHashSetMerge_proofs.guard_keyless_ok. Qed.
Print Assumptions Compose_guard_keyless_ok.

(** ---------- the table-level theorems of C05, collector on the C20 hash set ---------- *)

(** C05_merge_guard_partial *)
Theorem Compose_merge_guard_partial :
  forall (hk : list Tree.bytes -> HashSet.hash) (bsz : nat) cols pk base others policy remmode blocks,
  BridgeHashSetMerge.sums_ok hk (BridgeHashSetMerge.merge_keys base others) ->
  MergeSpec.guard cols pk base others -> policy < 2 ->
  exists o, BridgeHashSetMerge.hs_run_merge hk bsz base others policy remmode blocks = GoSlice.Ok o /\
    Merge.mo_cols o = cols /\ ColDiff.cd_names (Merge.mo_cd o) = cols /\
    forall r, In r (Merge.mo_rows o) <->
              exists k, MergeSpec.table_keys pk base others k /\
                        MergeSpec.final_row cols base others policy k = Some r.
Proof. exact BridgeHashSetMerge_proofs.hs_merge_guard. Qed.
Print Assumptions Compose_merge_guard_partial.

(** C05_result_sorted *)
Theorem Compose_merge_result_sorted :
  forall (hk : list Tree.bytes -> HashSet.hash) (bsz : nat) cols pk base others policy remmode blocks o,
  BridgeHashSetMerge.sums_ok hk (BridgeHashSetMerge.merge_keys base others) ->
  MergeSpec.guard cols pk base others -> policy < 2 ->
  BridgeHashSetMerge.hs_run_merge hk bsz base others policy remmode blocks = GoSlice.Ok o ->
  StronglySorted (fun a b => Bytes.klt (MergeSpec.kf (length pk) a) (MergeSpec.kf (length pk) b) = true)
                 (Merge.mo_rows o).
Proof. exact BridgeHashSetMerge_proofs.hs_result_sorted. Qed.
Print Assumptions Compose_merge_result_sorted.

(** C05_identity *)
Theorem Compose_merge_identity :
  forall (hk : list Tree.bytes -> HashSet.hash) (bsz : nat) cols pk base X policy remmode blocks,
  BridgeHashSetMerge.sums_ok hk (BridgeHashSetMerge.merge_keys base [X; base]) ->
  MergeSpec.guard cols pk base [X; base] -> policy < 2 ->
  exists o, BridgeHashSetMerge.hs_run_merge hk bsz base [X; base] policy remmode blocks = GoSlice.Ok o /\
    Merge.mo_cols o = cols /\ forall r, In r (Merge.mo_rows o) <-> In r (Merge.t_rows X).
Proof. exact BridgeHashSetMerge_proofs.hs_identity. Qed.
Print Assumptions Compose_merge_identity.

(** C05_identity_left *)
Theorem Compose_merge_identity_left :
  forall (hk : list Tree.bytes -> HashSet.hash) (bsz : nat) cols pk base X policy remmode blocks,
  BridgeHashSetMerge.sums_ok hk (BridgeHashSetMerge.merge_keys base [base; X]) ->
  MergeSpec.guard cols pk base [base; X] -> policy < 2 ->
  exists o, BridgeHashSetMerge.hs_run_merge hk bsz base [base; X] policy remmode blocks = GoSlice.Ok o /\
    Merge.mo_cols o = cols /\ forall r, In r (Merge.mo_rows o) <-> In r (Merge.t_rows X).
Proof. exact BridgeHashSetMerge_proofs.hs_identity_left. Qed.
Print Assumptions Compose_merge_identity_left.

(** C05_idem *)
Theorem Compose_merge_idem :
  forall (hk : list Tree.bytes -> HashSet.hash) (bsz : nat) cols pk base X policy remmode blocks,
  BridgeHashSetMerge.sums_ok hk (BridgeHashSetMerge.merge_keys base [X; X]) ->
  MergeSpec.guard cols pk base [X; X] -> policy < 2 ->
  exists o, BridgeHashSetMerge.hs_run_merge hk bsz base [X; X] policy remmode blocks = GoSlice.Ok o /\
    Merge.mo_cols o = cols /\ forall r, In r (Merge.mo_rows o) <-> In r (Merge.t_rows X).
Proof. exact BridgeHashSetMerge_proofs.hs_idem. Qed.
Print Assumptions Compose_merge_idem.

(** C05_disjoint *)
Theorem Compose_merge_disjoint :
  forall (hk : list Tree.bytes -> HashSet.hash) (bsz : nat) cols pk base X Y policy remmode blocks,
  BridgeHashSetMerge.sums_ok hk (BridgeHashSetMerge.merge_keys base [X; Y]) ->
  MergeSpec.guard cols pk base [X; Y] -> policy < 2 ->
  (forall k, MergeSpec.disjoint_at (length cols) (Merge.lookup base k) (Merge.lookup X k) (Merge.lookup Y k)) ->
  exists o, BridgeHashSetMerge.hs_run_merge hk bsz base [X; Y] policy remmode blocks = GoSlice.Ok o /\
    Merge.mo_cols o = cols /\
    Forall (fun kr => Merge.r_resolved (Merge.k_res kr) = true) (Merge.mo_recs o) /\
    forall r, In r (Merge.mo_rows o) <->
      exists k, MergeSpec.table_keys pk base [X; Y] k /\
                MergeSpec.combined (length cols) (Merge.lookup base k) (Merge.lookup X k) (Merge.lookup Y k) = Some r.
Proof. exact BridgeHashSetMerge_proofs.hs_disjoint. Qed.
Print Assumptions Compose_merge_disjoint.

(** C05_untouched_rows *)
Theorem Compose_merge_untouched_rows :
  forall (hk : list Tree.bytes -> HashSet.hash) (bsz : nat) cols pk base others policy remmode blocks r,
  BridgeHashSetMerge.sums_ok hk (BridgeHashSetMerge.merge_keys base others) ->
  MergeSpec.guard cols pk base others -> policy < 2 ->
  In r (Merge.t_rows base) -> (forall o, In o others -> In r (Merge.t_rows o)) ->
  exists o, BridgeHashSetMerge.hs_run_merge hk bsz base others policy remmode blocks = GoSlice.Ok o /\
    Merge.mo_cols o = cols /\ In r (Merge.mo_rows o).
Proof. exact BridgeHashSetMerge_proofs.hs_untouched_rows. Qed.
Print Assumptions Compose_merge_untouched_rows.

(** C05_untouched_cells *)
Theorem Compose_merge_untouched_cells :
  forall (hk : list Tree.bytes -> HashSet.hash) (bsz : nat) cols pk base others policy remmode blocks br i,
  BridgeHashSetMerge.sums_ok hk (BridgeHashSetMerge.merge_keys base others) ->
  MergeSpec.guard cols pk base others -> policy < 2 ->
  In br (Merge.t_rows base) -> i < length cols ->
  (forall o, In o others -> exists ro, Merge.lookup o (MergeSpec.kf (length pk) br) = Some ro /\
                                       nth i ro [] = nth i br []) ->
  exists o, BridgeHashSetMerge.hs_run_merge hk bsz base others policy remmode blocks = GoSlice.Ok o /\
    forall r, In r (Merge.mo_rows o) -> MergeSpec.kf (length pk) r = MergeSpec.kf (length pk) br ->
              nth i r [] = nth i br [].
Proof. exact BridgeHashSetMerge_proofs.hs_untouched_cells. Qed.
Print Assumptions Compose_merge_untouched_cells.

(** C05_order (the premise on the key sums is needed for one listing only: the keys reaching
    the hash set do not depend on the order of the branches) *)
Theorem Compose_merge_order :
  forall (hk : list Tree.bytes -> HashSet.hash) (bsz : nat) cols pk base others others' policy remmode blocks,
  BridgeHashSetMerge.sums_ok hk (BridgeHashSetMerge.merge_keys base others) ->
  MergeSpec.guard cols pk base others -> Permutation others others' -> policy < 2 ->
  exists o o', BridgeHashSetMerge.hs_run_merge hk bsz base others policy remmode blocks = GoSlice.Ok o /\
               BridgeHashSetMerge.hs_run_merge hk bsz base others' policy remmode blocks = GoSlice.Ok o' /\
               Merge.mo_cols o = Merge.mo_cols o' /\
               forall r, In r (Merge.mo_rows o) <-> In r (Merge.mo_rows o').
Proof. exact BridgeHashSetMerge_proofs.hs_order. Qed.
Print Assumptions Compose_merge_order.

(** ---------- non-vacuity (vm_compute on concrete instances, proofs/ section 5) ---------- *)

(** set level (the Compose_discard theorems): batch size 2, four Adds with a repeat (the third Add
    flushes by itself), three queries: hit, miss, hit; and the untouched rows of the
    TestMergerAutoResolve base table for the added keys 3, 2, 1 *)
Example Compose_discard_nonvacuous :
  BridgeHashSetMerge.sums_ok BridgeHashSetMerge.hk_toy
    ([[Merge_witness_proofs.s_1]; [Merge_witness_proofs.s_2]; [Merge_witness_proofs.s_3]; [Merge_witness_proofs.s_2]]
     ++ [[Merge_witness_proofs.s_1]; [Merge_witness_proofs.s_4]; [Merge_witness_proofs.s_3]]) /\
  BridgeHashSetMerge.discard_outs BridgeHashSetMerge.hk_toy 2
    [[Merge_witness_proofs.s_1]; [Merge_witness_proofs.s_2]; [Merge_witness_proofs.s_3]; [Merge_witness_proofs.s_2]]
    [[Merge_witness_proofs.s_1]; [Merge_witness_proofs.s_4]; [Merge_witness_proofs.s_3]]
  = [HashSet.RUnit; HashSet.RUnit; HashSet.RUnit; HashSet.RUnit; HashSet.RUnit;
     HashSet.RBool true; HashSet.RBool false; HashSet.RBool true] /\
  BridgeHashSetMerge.hs_untouched BridgeHashSetMerge.hk_toy 2
    [[Merge_witness_proofs.s_3]; [Merge_witness_proofs.s_2]; [Merge_witness_proofs.s_1]] [0]
    (Merge.t_rows Merge_witness_proofs.ar_base)
  = GoSlice.Ok [[Merge_witness_proofs.s_4; Merge_witness_proofs.s_r; Merge_witness_proofs.s_t]].
Proof. exact BridgeHashSetMerge_proofs.nv_discard. Qed.
Print Assumptions Compose_discard_nonvacuous.

(** the premises of every Compose_merge_* theorem hold for the TestMergerAutoResolve tables
    in the listings [b1;b2] (guard_partial, result_sorted, disjoint, untouched_*, order),
    [b2;b1] (order), [b1;base] (identity), [base;b1] (identity_left), [b1;b1] (idem) *)
Example Compose_merge_premises_nonvacuous :
  forall others, In others BridgeHashSetMerge_proofs.nv_branch_lists ->
  BridgeHashSetMerge.sums_ok BridgeHashSetMerge.hk_toy
    (BridgeHashSetMerge.merge_keys Merge_witness_proofs.ar_base others) /\
  MergeSpec.guard Merge_witness_proofs.ar_cols [Merge_witness_proofs.s_a] Merge_witness_proofs.ar_base others.
Proof. exact BridgeHashSetMerge_proofs.nv_premises. Qed.
Print Assumptions Compose_merge_premises_nonvacuous.

Example Compose_merge_disjoint_nonvacuous :
  forall k, MergeSpec.disjoint_at (length Merge_witness_proofs.ar_cols)
              (Merge.lookup Merge_witness_proofs.ar_base k)
              (Merge.lookup Merge_witness_proofs.ar_b1 k) (Merge.lookup Merge_witness_proofs.ar_b2 k).
Proof. exact BridgeHashSetMerge_proofs.ar_disjoint. Qed.
Print Assumptions Compose_merge_disjoint_nonvacuous.

(** ... and the merge on the hash set computes the rows the repository's test expects
    (keys 1 and 3 resolved, key 2 removed, key 4 untouched: found through Has = false) *)
Example Compose_merge_run_nonvacuous :
  exists o, BridgeHashSetMerge.hs_run_merge BridgeHashSetMerge.hk_toy 0 Merge_witness_proofs.ar_base
              [Merge_witness_proofs.ar_b1; Merge_witness_proofs.ar_b2] 1 1 false = GoSlice.Ok o /\
    Merge.mo_rows o = [[Merge_witness_proofs.s_1; Merge_witness_proofs.s_e; Merge_witness_proofs.s_r];
                       [Merge_witness_proofs.s_3; Merge_witness_proofs.s_s; Merge_witness_proofs.s_d];
                       [Merge_witness_proofs.s_4; Merge_witness_proofs.s_r; Merge_witness_proofs.s_t]] /\
    Forall (fun kr => Merge.r_resolved (Merge.k_res kr) = true) (Merge.mo_recs o).
Proof. exact BridgeHashSetMerge_proofs.nv_run_auto_resolve. Qed.
Print Assumptions Compose_merge_run_nonvacuous.

Example Compose_merge_order_nonvacuous :
  exists o, BridgeHashSetMerge.hs_run_merge BridgeHashSetMerge.hk_toy 0 Merge_witness_proofs.ar_base
              [Merge_witness_proofs.ar_b2; Merge_witness_proofs.ar_b1] 1 1 false = GoSlice.Ok o /\
    Merge.mo_rows o = [[Merge_witness_proofs.s_1; Merge_witness_proofs.s_e; Merge_witness_proofs.s_r];
                       [Merge_witness_proofs.s_3; Merge_witness_proofs.s_s; Merge_witness_proofs.s_d];
                       [Merge_witness_proofs.s_4; Merge_witness_proofs.s_r; Merge_witness_proofs.s_t]].
Proof. exact BridgeHashSetMerge_proofs.nv_run_swapped. Qed.
Print Assumptions Compose_merge_order_nonvacuous.

Example Compose_merge_identity_nonvacuous :
  (exists o, BridgeHashSetMerge.hs_run_merge BridgeHashSetMerge.hk_toy 2 Merge_witness_proofs.ar_base
               [Merge_witness_proofs.ar_b1; Merge_witness_proofs.ar_base] 0 0 true = GoSlice.Ok o /\
             Merge.mo_rows o = Merge.t_rows Merge_witness_proofs.ar_b1) /\
  (exists o, BridgeHashSetMerge.hs_run_merge BridgeHashSetMerge.hk_toy 2 Merge_witness_proofs.ar_base
               [Merge_witness_proofs.ar_base; Merge_witness_proofs.ar_b1] 0 0 true = GoSlice.Ok o /\
             Merge.mo_rows o = Merge.t_rows Merge_witness_proofs.ar_b1) /\
  (exists o, BridgeHashSetMerge.hs_run_merge BridgeHashSetMerge.hk_toy 2 Merge_witness_proofs.ar_base
               [Merge_witness_proofs.ar_b1; Merge_witness_proofs.ar_b1] 0 0 true = GoSlice.Ok o /\
             Merge.mo_rows o = Merge.t_rows Merge_witness_proofs.ar_b1).
Proof. exact BridgeHashSetMerge_proofs.nv_run_identity. Qed.
Print Assumptions Compose_merge_identity_nonvacuous.

(** the general bridge (Compose_merge_run_eq / _collector) outside the guard: the keyless
    tables of known finding F2 meet its premises *)
Example Compose_merge_keyless_nonvacuous :
  BridgeHashSetMerge.sums_ok BridgeHashSetMerge.hk_toy
    (BridgeHashSetMerge.merge_keys Merge_witness_proofs.f2_base [Merge_witness_proofs.f2_b1; Merge_witness_proofs.f2_b2]) /\
  BridgeHashSetMerge.keyless_ok Merge_witness_proofs.f2_base [Merge_witness_proofs.f2_b1; Merge_witness_proofs.f2_b2] /\
  Merge.pk_idx Merge_witness_proofs.f2_base = [] /\
  exists o, BridgeHashSetMerge.hs_run_merge BridgeHashSetMerge.hk_toy 0 Merge_witness_proofs.f2_base
              [Merge_witness_proofs.f2_b1; Merge_witness_proofs.f2_b2] 0 1 false = GoSlice.Ok o /\
            Merge.mo_rows o = [[Merge_witness_proofs.s_a; Merge_witness_proofs.s_1]].
Proof. exact BridgeHashSetMerge_proofs.nv_keyless. Qed.
Print Assumptions Compose_merge_keyless_nonvacuous.

(** ---------- the premises are needed ---------- *)

(** colliding key sums: an untouched row is lost *)
Example Compose_collision_matters :
  (exists o, BridgeHashSetMerge.hs_run_merge (fun _ => 5%N) 0 Merge_witness_proofs.ar_base
               [Merge_witness_proofs.ar_b1; Merge_witness_proofs.ar_b2] 1 1 false = GoSlice.Ok o /\
     Merge.mo_rows o = [[Merge_witness_proofs.s_1; Merge_witness_proofs.s_e; Merge_witness_proofs.s_r];
                        [Merge_witness_proofs.s_3; Merge_witness_proofs.s_s; Merge_witness_proofs.s_d]]) /\
  (exists o, Merge.run_merge Merge_witness_proofs.ar_base
               [Merge_witness_proofs.ar_b1; Merge_witness_proofs.ar_b2] 1 1 false = GoSlice.Ok o /\
     Merge.mo_rows o = [[Merge_witness_proofs.s_1; Merge_witness_proofs.s_e; Merge_witness_proofs.s_r];
                        [Merge_witness_proofs.s_3; Merge_witness_proofs.s_s; Merge_witness_proofs.s_d];
                        [Merge_witness_proofs.s_4; Merge_witness_proofs.s_r; Merge_witness_proofs.s_t]]).
Proof. exact BridgeHashSetMerge_proofs.collision_loses_row. Qed.
Print Assumptions Compose_collision_matters.

(** key sums that are not 16-byte values: the result differs *)
Example Compose_wide_sum_matters :
  exists o o',
    BridgeHashSetMerge.hs_run_merge (fun k => (BridgeHashSetMerge.hk_toy k + 2 ^ 130)%N) 0
      Merge_witness_proofs.ar_base [Merge_witness_proofs.ar_b1; Merge_witness_proofs.ar_b2] 1 1 false = GoSlice.Ok o /\
    Merge.run_merge Merge_witness_proofs.ar_base [Merge_witness_proofs.ar_b1; Merge_witness_proofs.ar_b2] 1 1 false
      = GoSlice.Ok o' /\
    Merge.mo_rows o <> Merge.mo_rows o'.
Proof. exact BridgeHashSetMerge_proofs.wide_sum_wrong. Qed.
Print Assumptions Compose_wide_sum_matters.

(** keyless table without columns: [keyless_ok] fails and the two collectors differ *)
Example Compose_keyless_empty_row_differs :
  BridgeHashSetMerge.sums_ok BridgeHashSetMerge.hk_toy
    (BridgeHashSetMerge.merge_keys BridgeHashSetMerge_proofs.e_base [BridgeHashSetMerge_proofs.e_b1]) /\
  ~ BridgeHashSetMerge.keyless_ok BridgeHashSetMerge_proofs.e_base [BridgeHashSetMerge_proofs.e_b1] /\
  (exists o, BridgeHashSetMerge.hs_run_merge BridgeHashSetMerge.hk_toy 0 BridgeHashSetMerge_proofs.e_base
               [BridgeHashSetMerge_proofs.e_b1] 0 0 false = GoSlice.Ok o /\ Merge.mo_rows o = []) /\
  (exists o, Merge.run_merge BridgeHashSetMerge_proofs.e_base [BridgeHashSetMerge_proofs.e_b1] 0 0 false
             = GoSlice.Ok o /\ Merge.mo_rows o = [[]]).
Proof. exact BridgeHashSetMerge_proofs.keyless_empty_row_differs. Qed.
Print Assumptions Compose_keyless_empty_row_differs.
