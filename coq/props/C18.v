(** C18 - decoding a stream does not depend on how the transport chunks it.
    Only statements, each closed by [exact] of a lemma from proofs/.

    Vocabulary (lib/Reader.v, model/DecRun.v): a reader is a list of chunks plus a flag
    "the last chunk arrives together with io.EOF"; [chunked p s e] delivers the byte string
    s cut by the partition p (any list of sizes; 0 = a Read returning (0, nil)); [whole s]
    is bytes.NewReader(s).  [run_on k D r] runs decoder D on reader r with read kinds k
    (per read site: [Full] = io.ReadFull / io.CopyN, [Single] = one Read assumed to fill the
    buffer, the code before fix 27d6b14).  [chunk_independent D] = for every all-Full table
    k, EVERY byte string s - valid or not -, every partition p and either EOF flag: same
    decoded value / same error class (io.EOF vs io.ErrUnexpectedEOF vs other), same
    allocation, same position in the stream as on the whole buffer.
    The tie obligation (gen/Tie_C18.v) is [all_full extracted_read_kind] over [sites]. *)
From Coq Require Import String.
From Coq Require Import List ZArith.
From W.lib Require Import Tree Bytes GoSlice Reader.
From W.model Require Import DecPrim DecLists DecObjects DecPack DecReceive DecRun.
From W.proofs Require Import Reader_proofs DecTop_proofs.
Local Open Scope N_scope.

(** The kernel: io.ReadFull returns the same data and the same error on every chunking of
    the same remaining bytes, and leaves the same bytes behind. *)
Theorem C18_read_full : forall (n : nat) (r : reader),
  exists r', eof_with_data r' = eof_with_data r /\
    read_full n r = (fst (fst (pure_read_full n (rest r))), snd (fst (pure_read_full n (rest r))), r')
    /\ rest r' = snd (pure_read_full n (rest r)).
Proof. exact Reader_proofs.read_full_spec. Qed.
Print Assumptions C18_read_full.

(** the same for io.CopyN into a bytes.Buffer, whatever spare capacity the buffer offers *)
Theorem C18_copy_n : forall (bufsz : N -> nat), (forall w, (0 < bufsz w)%nat) ->
  forall (n : N) (r : reader),
  exists r', eof_with_data r' = eof_with_data r /\
    copy_n bufsz n r = (fst (fst (pure_copy_n n (rest r))), snd (fst (pure_copy_n n (rest r))), r')
    /\ rest r' = snd (pure_copy_n n (rest r)).
Proof. exact Reader_proofs.copy_n_spec. Qed.
Print Assumptions C18_copy_n.

(** every decoder written in the decoder language inherits it *)
Theorem C18_every_decoder : forall (A : Type) (D : nat -> prog A), chunk_independent D.
Proof. exact @DecTop_proofs.chunk_independent_all. Qed.
Print Assumptions C18_every_decoder.

(** ... in particular the ones of the property: a packfile (magic, version, then
    ReadObject until it fails, io.EOF being the clean end), a pkt-line sequence, and each
    encoded object *)
Theorem C18_packfile : chunk_independent packfile_read.
Proof. exact (DecTop_proofs.chunk_independent_all packfile_read). Qed.
Print Assumptions C18_packfile.

Theorem C18_pktlines : chunk_independent pktline_seq.
Proof. exact (DecTop_proofs.chunk_independent_all pktline_seq). Qed.
Print Assumptions C18_pktlines.

Theorem C18_commit : forall (parse_int parse_tz : bytes -> option Z),
  chunk_independent (commit_read parse_int parse_tz).
Proof. exact (fun pi ptz => DecTop_proofs.chunk_independent_all (commit_read pi ptz)). Qed.
Print Assumptions C18_commit.

Theorem C18_table : chunk_independent (table_read precap_of_code).
Proof. exact (DecTop_proofs.chunk_independent_all (table_read precap_of_code)). Qed.
Print Assumptions C18_table.

Theorem C18_block : chunk_independent (block_read precap_of_code).
Proof. exact (DecTop_proofs.chunk_independent_all (block_read precap_of_code)). Qed.
Print Assumptions C18_block.

Theorem C18_block_index : chunk_independent blockindex_read.
Proof. exact (DecTop_proofs.chunk_independent_all blockindex_read). Qed.
Print Assumptions C18_block_index.

Theorem C18_uint_list : chunk_independent (uintlist_read precap_of_code).
Proof. exact (DecTop_proofs.chunk_independent_all (uintlist_read precap_of_code)). Qed.
Print Assumptions C18_uint_list.

Theorem C18_profile : chunk_independent (profile_read precap_of_code).
Proof. exact (DecTop_proofs.chunk_independent_all (profile_read precap_of_code)). Qed.
Print Assumptions C18_profile.

Theorem C18_strlist : chunk_independent (strlist_read1 precap_of_code).
Proof. exact (DecTop_proofs.chunk_independent_all (strlist_read1 precap_of_code)). Qed.
Print Assumptions C18_strlist.

(** the code as it is has every site Full (re-checked against the source by gen/Tie_C18.v) *)
Theorem C18_code_all_full : forall s, read_kinds_of_code s = Full.
Proof. exact Reader_proofs.read_kinds_of_code_full. Qed.
Print Assumptions C18_code_all_full.

(** With the single Read of the code before the fix the statement is false: the 8-byte
    header "PACK" 0 0 0 1 decodes to (version 1, no objects, clean EOF) from one buffer and
    to "not a packfile" when delivered one byte at a time. *)
Theorem C18_single_refuted :
  let s := [80; 65; 67; 75; 0; 0; 0; 1] in
  let p := [1; 1; 1; 1; 1; 1; 1; 1]%nat in
  outcome (run_on single_magic packfile_read (whole s)) = Ok (1, [], CEof) /\
  outcome (run_on single_magic packfile_read (chunked p s false)) = Err COther.
Proof. exact DecTop_proofs.single_read_chunk_dependent. Qed.
Print Assumptions C18_single_refuted.

(** Non-vacuity: a valid packfile with one commit-typed object "hi" delivered in reads of
    3, 0, 1, 1, 100 bytes with data+EOF decodes to that object and a clean EOF. *)
Example C18_nonvacuous :
  outcome (run_on read_kinds_of_code packfile_read
             (chunked [3; 0; 1; 1; 100]%nat [80; 65; 67; 75; 0; 0; 0; 1; 146; 0; 104; 105] true))
  = Ok (1, [(1, [104; 105])], CEof).
Proof. vm_compute. reflexivity. Qed.
