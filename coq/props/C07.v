(** C07 - commits sent through packfiles are reproduced exactly at the destination.
    Only statements, each closed by [exact] of a lemma from proofs/.

    Model: coq/model/Transfer.v (ObjectSender / ObjectReceiver / IndexTable / ProfileTable
    transliterated over an abstract repository state; ids stand for content, see the header
    of that file).  [bshape] (row shape of a block as a function of its content) and [size]
    (bytes of an object on the wire) are universally quantified: nothing is assumed of them. *)
From W.lib Require Import Tree.
From W.model Require Import Transfer TransferSpec.
From W.proofs Require Import Transfer_proofs TransferSend_proofs TransferExact_proofs.
From Coq Require Import List NArith.
Import ListNotations.
Local Open Scope N_scope.

(** For every source whose tables are sound and hold their blocks, every commit list that is
    parent-first and closed modulo what the destination holds, every declared set of common
    commits known to the source and FULL at the destination, every tablesToSend, every size
    function and EVERY size limit, every destination that is Closed, whose stored tables are
    usable and that names the same content by the same ids (otherwise any subset of commits,
    tables, blocks; see C07_exact_any_destination for a destination holding any subset of objects
    of any kind): the loop WriteObjects /
    Receive terminates with the sender done, no rejection, no sender error, within its fuel;
    the packfiles partition the stream and are non-empty; and the destination then holds
    exactly the sent commits, the sent tables and their blocks, identical to the source's,
    with block indices / table index / profile rebuilt (TablesWF), history Closed, and
    nothing else added and nothing present before changed (the frame_.. and keep_.. fields). *)
Theorem C07_exact : forall bshape size src dst to_send tbs commons max,
  exact_pre bshape src dst to_send tbs commons -> commons_full src dst commons ->
  exists objs d' packs,
    stream src to_send tbs commons = Some objs /\
    transfer bshape size src to_send tbs commons max dst = TDone d' packs /\
    packs_of objs packs /\
    exact_post bshape src dst to_send tbs d'.
Proof. exact exact_transfer. Qed.
Print Assumptions C07_exact.

(** The same with NO well-formedness assumed of the destination's tables: it may hold any subset
    of objects of any kind - a table object without its block indices / table index / profile /
    blocks, indices without the table, bare blocks ... (only the table of a declared-common
    commit, whose blocks the sender withholds, must be usable there).  Then every SENT table is
    usable at the end (apost_usable: blocks, rebuilt block indices, table index, profile), all
    stored tables are if they all were before (apost_wf), and everything else of C07_exact holds. *)
Theorem C07_exact_any_destination : forall bshape size src dst to_send tbs commons max,
  exact_pre_any bshape src dst to_send tbs commons -> commons_full src dst commons ->
  exists objs d' packs,
    stream src to_send tbs commons = Some objs /\
    transfer bshape size src to_send tbs commons max dst = TDone d' packs /\
    packs_of objs packs /\
    exact_post_any bshape src dst to_send tbs d'.
Proof. exact exact_transfer_any. Qed.
Print Assumptions C07_exact_any_destination.

(** Whatever the store held before and whatever the object sequence: every table object of an
    ACCEPTED sequence is usable at the end (pk in range, every block present, non-empty and of
    the table's width, block indices equal to re-indexing and stored, table index and profile
    stored).  In particular a table object that was already at the destination without its
    derived objects is repaired by receiving it. *)
Theorem C07_received_usable : forall bshape d objs d',
  recv_all bshape d objs = ROk d' ->
  forall l1 t tc l2, objs = l1 ++ OTable t tc :: l2 -> table_ok bshape d' t tc.
Proof. exact received_usable. Qed.
Print Assumptions C07_received_usable.

(** "closed modulo the declared common commits" in the words of the negotiation: every parent
    is listed earlier or is an ancestor-or-self (in the source graph) of a declared common
    commit; with the commons present at a Closed destination this gives [parent_first]. *)
Theorem C07_closed_mod_commons : forall src dst commons to_send,
  Closed dst -> compat src dst ->
  (forall c0, In c0 commons -> has_commit dst c0 = true) ->
  parent_first_commons src commons to_send -> parent_first dst to_send.
Proof. exact parent_first_from_commons. Qed.
Print Assumptions C07_closed_mod_commons.

(** Order of arrival, over the concatenated packfiles: every block of a table object arrives
    before it (or is a block of a declared-common commit's table); a table object never
    arrives after a commit that references it; the commit objects are the send list in
    order; every parent arrives before its child or is already at the destination. *)
Theorem C07_order : forall bshape size src dst to_send tbs commons max,
  exact_pre bshape src dst to_send tbs commons -> commons_full src dst commons ->
  exists d' packs,
    transfer bshape size src to_send tbs commons max dst = TDone d' packs /\
    blocks_before_tables (initial_common_blocks src commons) (concat packs) /\
    table_before_commits (concat packs) /\
    commits_in_order to_send (concat packs) /\
    parents_before_children dst (concat packs).
Proof. exact order_transfer. Qed.
Print Assumptions C07_order.

(** Parent gate, for ARBITRARY object sequences (any order, any content, hostile): the
    invariant "every stored commit's parents are stored" survives every Receive, accepted or
    rejected; and a commit enters the store only through an accepted commit object all of
    whose parents were present. *)
Theorem C07_parent_gate : forall bshape d objs,
  Closed d -> Closed (rstate (recv_all bshape d objs)).
Proof. exact closed_recv_all. Qed.
Print Assumptions C07_parent_gate.

Theorem C07_parent_gate_step : forall bshape d o c cc,
  lookup c (commits (rstate (recv_obj bshape d o))) = Some cc ->
  lookup c (commits d) = Some cc \/
  (o = OCommit c cc /\ forall p, In p (c_parents cc) -> has_commit d p = true).
Proof. exact commit_stored_only_with_parents. Qed.
Print Assumptions C07_parent_gate_step.

(** Table gate, for arbitrary object sequences: every stored table stays usable (pk in range,
    all blocks present, non-empty, of the table's width, recorded block-index ids equal to
    re-indexing and present, table index and profile present) through every Receive, accepted
    or rejected - in particular a rejected table leaves no table object behind; and a table
    enters the store only through an accepted table object that passed those checks. *)
Theorem C07_table_gate : forall bshape d objs,
  TablesWF bshape d -> TablesWF bshape (rstate (recv_all bshape d objs)).
Proof. exact tableswf_recv_all. Qed.
Print Assumptions C07_table_gate.

Theorem C07_table_gate_step : forall bshape d o t tc,
  lookup t (tables (rstate (recv_obj bshape d o))) = Some tc ->
  lookup t (tables d) = Some tc \/
  (o = OTable t tc /\ table_sound bshape tc /\ forall b, In b (tbl_blocks tc) -> has_block d b = true).
Proof. exact table_stored_only_when_checked. Qed.
Print Assumptions C07_table_gate_step.

(** Split independence, with no precondition on the stores: whenever the sender itself does
    not fail (its stream exists), the final destination state and whether the receiver
    rejected are those of receiving the whole stream at once - for every size function and
    every limit; hence equal for any two of them. *)
Theorem C07_split_independent : forall bshape size src dst to_send tbs commons objs,
  stream src to_send tbs commons = Some objs ->
  forall max, tstate (transfer bshape size src to_send tbs commons max dst) = Some (recv_all bshape dst objs).
Proof. exact split_independent. Qed.
Print Assumptions C07_split_independent.

Theorem C07_split_independent2 : forall bshape size1 size2 src dst to_send tbs commons objs max1 max2,
  stream src to_send tbs commons = Some objs ->
  tstate (transfer bshape size1 src to_send tbs commons max1 dst) =
  tstate (transfer bshape size2 src to_send tbs commons max2 dst).
Proof. exact split_independent2. Qed.
Print Assumptions C07_split_independent2.

(** Without "commons are full at the destination": the receiver accepts the stream iff every
    block that the sender withholds (it belongs to the source's copy of a declared-common
    commit's table) and that some transmitted table uses is present at the destination. *)
Theorem C07_shallow_iff : forall bshape src dst to_send tbs commons objs,
  exact_pre bshape src dst to_send tbs commons ->
  stream src to_send tbs commons = Some objs ->
  ((exists d', recv_all bshape dst objs = ROk d') <->
   (forall b, needed_common_block src commons objs b -> has_block dst b = true)).
Proof. exact accept_iff. Qed.
Print Assumptions C07_shallow_iff.

(** ... and when one is missing the transfer ends in a receiver rejection, for every limit,
    in a clean state: Closed, every stored table usable, nothing removed. *)
Theorem C07_shallow_reject : forall bshape size src dst to_send tbs commons objs max,
  exact_pre bshape src dst to_send tbs commons ->
  stream src to_send tbs commons = Some objs ->
  (exists b, needed_common_block src commons objs b /\ has_block dst b = false) ->
  exists d_err packs,
    transfer bshape size src to_send tbs commons max dst = TRecvErr d_err packs /\
    recv_all bshape dst objs = RErr d_err /\
    Closed d_err /\ TablesWF bshape d_err /\ ext dst d_err.
Proof. exact shallow_reject. Qed.
Print Assumptions C07_shallow_reject.

(** The silent case: the table of a declared-common commit is never transmitted, so a
    destination that lacks it still lacks it after a SUCCESSFUL transfer, even when a sent
    commit carries that very table and it is in tablesToSend. *)
Theorem C07_shallow_silent : forall bshape src dst to_send tbs commons objs d' t,
  exact_pre bshape src dst to_send tbs commons ->
  stream src to_send tbs commons = Some objs ->
  recv_all bshape dst objs = ROk d' ->
  common_table src commons t -> has_table dst t = false -> has_table d' t = false.
Proof. exact shallow_silent. Qed.
Print Assumptions C07_shallow_silent.

(** Transit damage: a packfile that ends strictly inside one of its objects (cut_pack j true: the
    reader fails at object j) is REJECTED by Receive, in the state reached after the objects
    before it: nothing of the cut object and nothing after it is stored, and no success is
    reported.  (A cut at an object boundary is a legitimately shorter packfile: cut_pack j false.) *)
Theorem C07_truncated_object_rejected : forall bshape d pack j o,
  nth_error pack j = Some o ->
  recv_all bshape d (cut_pack j true pack) = RErr (rstate (recv_all bshape d (firstn j pack))).
Proof. exact cut_inside_rejected. Qed.
Print Assumptions C07_truncated_object_rejected.

(** Non-vacuity: two commits whose two-block tables share their first block, size limit 1
    (seven packfiles of one object), empty destination. *)
Theorem C07_nonvacuous :
  exact_pre Example.sh Example.src empty_repo Example.to_send [10; 11] [] /\
  commons_full Example.src empty_repo [] /\
  exists d', transfer Example.sh (fun _ => 2) Example.src Example.to_send [10; 11] [] 1 empty_repo =
             TDone d' [[OBlock 1 101]; [OBlock 2 102]; [OTable 10 Example.T10]; [OCommit 0 Example.C0];
                       [OBlock 3 103]; [OTable 11 Example.T11]; [OCommit 1 Example.C1]].
Proof. exact (conj Example.pre (conj Example.full Example.runs)). Qed.
Print Assumptions C07_nonvacuous.

(** ... and the preconditions do not force a well-formed destination: the same transfer into a
    destination that holds the table object of the first table alone (no blocks, no indices,
    no profile) and a stray table index. *)
Theorem C07_nonvacuous_partial_destination :
  exact_pre_any Example.sh Example.src Example.dst_partial Example.to_send [10; 11] [] /\
  commons_full Example.src Example.dst_partial [] /\
  ~ TablesWF Example.sh Example.dst_partial.
Proof. exact (conj Example.pre_partial (conj Example.full_partial Example.not_wf_partial)). Qed.
Print Assumptions C07_nonvacuous_partial_destination.
