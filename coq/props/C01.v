(** C01 - committing a CSV stores exactly its rows, one per key, losslessly.
    Only statements, each closed by [exact] of a lemma from proofs/.

    The input of the model is the CSV after parsing: header [columns], key column names
    [pknames], data [rows] (lists of cells = arbitrary byte strings).  The CSV reader /
    writer (encoding/csv) and the byte codecs (C06) are outside this model; the
    correspondence harness runs them for real (wrgl commit / wrgl export, block read-back).

    Vocabulary: [ingest_table H sort arrive run_size columns pknames rows] = (result, writes)
    is ingest.IngestTable; [sort_ok] the in-memory sort returns a sorted permutation;
    [any_arrival arrive] the async blocks reach the inserter in any order (worker
    scheduling); [rows_of T] the rows read back block after block; [dkey n pk r] the key
    of row r (its pk columns, all columns when there is no key). *)
From W.lib Require Import Tree Bytes.
From W.model Require Import Sorter SorterSpec Ingest IngestSpec.
From W.proofs Require Import Sorter_proofs Ingest_proofs.
From Coq Require Import Sorting.Sorted Sorting.Permutation.
Local Open Scope N_scope.

(** For every header, every key choice among the columns (any subset, any order, none;
    no name twice - see C01_bad_key_refused),
    all rows with one cell per column and cells within the limit, every run size, every
    in-memory sort and every arrival order of the blocks: ingestion succeeds, the table
    object is the last write, the stored header is the CSV's (empty names renamed), the
    stored key is the chosen one, the recorded row count is the number of stored rows,
    the stored rows have strictly ascending keys (hence one row per key), each stored row
    is an input row (cell for cell, whatever its bytes), every input key is stored, and
    when keys are unique the stored rows are exactly the input rows. *)
Theorem C01_lossless : forall H sort_rows arrive run_size columns pknames rows,
  sort_ok (length columns) sort_rows -> any_arrival arrive ->
  incl pknames columns -> NoDup pknames -> wf_rows (length columns) rows -> cells_in_limit rows ->
  exists pk T tidx w,
    key_indices columns pknames = Some pk /\
    ingest_table H sort_rows arrive run_size columns pknames rows = (IOk T tidx, w) /\
    table_written_last w T /\
    t_columns T = ensure_names columns /\ t_pk T = pk /\
    t_rowscount T = N.of_nat (length (rows_of T)) /\
    keys_strictly_ascending (length columns) pk (rows_of T) /\
    (forall r, In r (rows_of T) -> In r rows) /\
    (forall r, In r rows -> exists p, In p (rows_of T) /\
                                      dkey (length columns) pk p = dkey (length columns) pk r) /\
    (NoDup (map (dkey (length columns) pk) rows) -> Permutation rows (rows_of T)).
Proof. exact Ingest_proofs.ingest_lossless. Qed.
Print Assumptions C01_lossless.

(** A header whose names are all non-empty is stored unchanged. *)
Theorem C01_header_kept : forall columns, names_nonempty columns -> ensure_names columns = columns.
Proof. exact Ingest_proofs.ensure_names_nonempty. Qed.
Print Assumptions C01_header_kept.

(** A cell over 65535 bytes: ingestion returns an error and writes nothing (no block,
    no index, no table), whatever the rest of the input. *)
Theorem C01_overlimit_refused : forall H sort_rows arrive run_size columns pknames rows,
  has_overlimit_cell rows ->
  exists e, ingest_table H sort_rows arrive run_size columns pknames rows = (e, []) /\
            forall T tidx, e <> IOk T tidx.
Proof. exact Ingest_proofs.ingest_overlimit_refused. Qed.
Print Assumptions C01_overlimit_refused.

(** Non-vacuity: a 3-row table with an all-empty key and a duplicate key across a run
    boundary (run size 1: every row is its own chunk), blocks arriving reversed. *)
Example C01_example :
  let c (s : list N) : bytes := s in
  let columns := [c [97]; c [98]] in
  let rows : list row := [[c [120]; c [50]]; [c []; c [49]]; [c [120]; c [51]]; [c [97]; c []]] in
  match fst (ingest_table no_hash isort_rows (@rev asyncblock) 1 columns [c [97]] rows) with
  | IOk T _ => Some (t_pk T, t_rowscount T, rows_of T)
  | _ => None
  end = Some ([0%nat], 3, [[c []; c [49]]; [c [97]; c []]; [c [120]; c [50]]]).
Proof. vm_compute. reflexivity. Qed.

(** A key that names a column twice, or names something that is no column, is refused
    with an error before any row is read, and nothing is written.  (Before the repair
    e2f1265 a repeated key column crashed the process in a worker goroutine.) *)
Theorem C01_bad_key_refused : forall H sort_rows arrive run_size columns pknames rows,
  ~ NoDup pknames \/ ~ incl pknames columns ->
  ingest_table H sort_rows arrive run_size columns pknames rows = (IErrKey, []).
Proof. exact Ingest_proofs.ingest_bad_key_refused. Qed.
Print Assumptions C01_bad_key_refused.

Example C01_repeated_key_refused :
  fst (ingest_table no_hash isort_rows (fun l => l) 4096 [[97]; [98]] [[97]; [97]] [[[50]; [120]]; [[49]; [121]]])
  = IErrKey.
Proof. vm_compute. reflexivity. Qed.

(** Non-vacuity of the limit: a 70000-byte cell is refused, a 65535-byte cell is stored. *)
Example C01_example_limit :
  let big (n : N) : bytes := N.iter n (cons 122) [] in
  let columns : list bytes := [[97]; [98]] in
  (fst (ingest_table no_hash isort_rows (fun l => l) 4096 columns [[97]] [[[49]; big 70000]]),
   match fst (ingest_table no_hash isort_rows (fun l => l) 4096 columns [[97]] [[[49]; big 65535]]) with
   | IOk T _ => Some (t_rowscount T, map (map (map blen)) (t_blocks T))
   | _ => None
   end)
  = (IErrCell, Some (1, [[[1; 65535]]])).
Proof. vm_compute. reflexivity. Qed.
