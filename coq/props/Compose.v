(** Compose - composition theorems between the property slices.
    Only statements, each closed by [exact] of a lemma from proofs/Bridge*_proofs.v.

    Every property C01..C20 was built as an independent slice with its own small model, and
    cross-property facts were passed as NAMED HYPOTHESES (DESIGN.md 0.2).  The theorems below
    discharge such hypotheses: each one connects two EXISTING developments through an
    abstraction function defined in model/Bridge*.v and is proved from the theorems of both
    slices (no re-proof inside a fresh model).  Sections:

      B1  C01/C03 -> C04   ingested tables are well-formed for the diff (Compose_ingest_table_wf);
                           ingest two CSVs + diff = the specification's diff of the INPUT rows
                           (Compose_ingest_diff, Compose_ingest_diff_events).            DONE
      B2  C11 -> C10       IsAncSound discharged for C11's is_ancestor_of (Go placement, any commit
                           times); SeekSound is FALSE of C11's merge base from three inputs on
                           (Compose_seek_sound_refuted) and is replaced by the weaker SeekWeak, which
                           C11's seek satisfies at every arity and which suffices for C10:
                           Compose_forward_only_all - forward-only for ALL histories, the only
                           hypothesis left being store_closed g (every parent of a stored commit is
                           stored).                                                       DONE
      B3  C01/C03 -> C07   the repository holding the writes (or any crash prefix of the writes) of any
                           sequence of ingests satisfies C07's source precondition SrcWF
                           (Compose_ingest_src_wf) and, profiles given, TablesWF; C07_exact /
                           C07_order for an ingest-built source (Compose_ingest_transfer, _both).
                           RESTRICTED: the ingest model records no profile and no commits.  DONE (restricted)
      B4  C08 -> C09       a server that runs the ClosedSets model + ObjectSender: SrvDepth PROVED for
                           single-want sessions (any depth) and for depth 0 with any wants; FALSE for
                           depth > 0 with two wants (Compose_depth_two_wants_refuted = the known
                           finding); Compose_fetch_depth_one_want has no server premise left; the
                           order-independent half (delivery, closedness) for any wants.   DONE (restricted as the finding demands)
      B5  C20 -> C05       the collector's discarded-key set run on the C20 HashSet model answers
                           exactly Merge.v's list membership (Compose_discard_set, from C20_refines /
                           C20_member); hs_run_merge = Merge.run_merge (Compose_merge_run_eq); the C05
                           table-level theorems restated on the hash-set collector.       DONE
    Each section below starts with its own header: the bridge, the restrictions and exactly the
    hypotheses that remain.

    ---------------------------------------------------------------------------------------
    B1 (C01/C03 -> C04).  model/BridgeIngestDiff.v, proofs/BridgeIngestDiff_proofs.v.
    [to_diff_table rid T] views a table of the ingest model (blocks of rows, a row = its cells)
    as a table of the diff model (blocks of (key, rowid)): key = [dkey] of the row (its key
    columns, the whole row for a keyless table - the same convention on both sides, so keyless
    tables are covered), rowid = [rid row], pk names = the columns at the key indices, columns
    = the stored header.  [rid : row -> N] stands for the 16-byte row hash and is a parameter;
    the list-level theorems hold for EVERY rid; the property-level reading
    ([Compose_ingest_diff_events]) needs only that rid tells the rows of the first input from
    the rows of the second ([rid_separates], the "no hash collision" assumption restricted to
    the two tables at hand).
    Remaining hypotheses of the end-to-end theorems: exactly those of C01_lossless /
    C03_ingest_wf for each of the two inputs (the in-memory sort returns a sorted permutation,
    blocks arrive in any order, key names are distinct columns, one cell per column, cells
    within the 65535-byte limit), both CSVs under the same header and key.  "Unique keys" is
    needed only to read the result on the INPUT rows (otherwise which of two rows with the same
    key is stored depends on the sort; the general clause speaks of the stored rows).
    Not covered: two inputs with different headers (C04 covers the diff of such tables, and
    [Compose_wf_tables_diff_correct] gives it for any two sound tables, but the end-to-end
    reading on input rows is stated for a common header only). *)
From W.lib Require Import Tree Bytes.
From W.model Require Sorter SorterSpec Ingest IngestSpec Diff DiffSpec.
From W.model Require Import BridgeIngestDiff.
From W.proofs Require BridgeIngestDiff_proofs.
From Coq Require Import List Sorting.Permutation.
Import ListNotations.

(** * B1: C01/C03 -> C04 *)

(** A table that is sound in C03's sense is well-formed in C04's sense (block size 255 on both
    sides, every block but the last full, keys strictly increasing across the table), and the
    table index the diff model reads off the blocks is the table index that was written. *)
Theorem Compose_ingest_table_wf : forall (rid : Sorter.row -> N) H T tidx,
  IngestSpec.WF_table H T tidx ->
  DiffSpec.WF_table 255 (to_diff_table rid T) /\
  Diff.tindex (Diff.t_blocks (to_diff_table rid T)) = tidx.
Proof. exact BridgeIngestDiff_proofs.to_diff_wf. Qed.
Print Assumptions Compose_ingest_table_wf.

(** Hence for ANY two tables sound in C03's sense (any producer, any headers, any keys), diffTables
    run with the STORED table indices does not panic and emits the specification's diff. *)
Theorem Compose_wf_tables_diff_correct : forall (rid : Sorter.row -> N) H1 H2 T1 tidx1 T2 tidx2 eu,
  IngestSpec.WF_table H1 T1 tidx1 -> IngestSpec.WF_table H2 T2 tidx2 ->
  Diff.diff_tables_idx 255 true eu (to_diff_table rid T1) (to_diff_table rid T2) tidx1 tidx2 =
  Diff.Ok (DiffSpec.spec_diff eu (to_diff_table rid T1) (to_diff_table rid T2)).
Proof. exact BridgeIngestDiff_proofs.wf_tables_diff_correct. Qed.
Print Assumptions Compose_wf_tables_diff_correct.

(** The sorter path (merge commit, doctor re-ingest): C03_sorter_any_rows_wf composed with the bridge. *)
Theorem Compose_sorter_table_diff_wf : forall (rid : Sorter.row -> N) H sort_rows arrive columns pk s rows,
  IngestSpec.any_arrival arrive -> SorterSpec.wf_pk (length columns) pk -> NoDup pk ->
  SorterSpec.wf_rows (length columns) rows ->
  Permutation (concat (Sorter.runs_of sort_rows pk s)) rows ->
  Forall (SorterSpec.run_sorted pk) (Sorter.runs_of sort_rows pk s) ->
  exists T tidx w,
    Ingest.ingest_from_sorter H sort_rows arrive columns pk s = (Ingest.IOk T tidx, w) /\
    DiffSpec.WF_table 255 (to_diff_table rid T) /\
    Diff.tindex (Diff.t_blocks (to_diff_table rid T)) = tidx.
Proof. exact BridgeIngestDiff_proofs.sorter_table_diff_wf. Qed.
Print Assumptions Compose_sorter_table_diff_wf.

(** END TO END (C01_lossless + C03_ingest_wf + C04_diff_correct).  Two CSVs under the same header
    and key, each ingested with its own run size, in-memory sort and block arrival order; the
    stored tables are diffed by the C04 model.  Both ingests succeed, both views are well-formed
    with the written table indices, and the event list (with offsets)
      - is the specification's diff of the stored rows, whatever the keys;
      - is the specification's diff [spec_diff_rows] of the key |-> row maps of ANY key-ordered
        arrangement S1, S2 of the INPUT rows;
      - with unique keys, is the specification's diff of the input rows sorted by key
        ([sorted_input] = the model's executable sort applied to the whole input). *)
Theorem Compose_ingest_diff :
  forall (rid : Sorter.row -> N) H sort1 sort2 arrive1 arrive2 rs1 rs2 columns pknames rows1 rows2,
  SorterSpec.sort_ok (length columns) sort1 -> SorterSpec.sort_ok (length columns) sort2 ->
  IngestSpec.any_arrival arrive1 -> IngestSpec.any_arrival arrive2 ->
  incl pknames columns -> NoDup pknames ->
  SorterSpec.wf_rows (length columns) rows1 -> SorterSpec.cells_in_limit rows1 ->
  SorterSpec.wf_rows (length columns) rows2 -> SorterSpec.cells_in_limit rows2 ->
  exists pk T1 tidx1 w1 T2 tidx2 w2,
    Ingest.key_indices columns pknames = Some pk /\
    Ingest.ingest_table H sort1 arrive1 rs1 columns pknames rows1 = (Ingest.IOk T1 tidx1, w1) /\
    Ingest.ingest_table H sort2 arrive2 rs2 columns pknames rows2 = (Ingest.IOk T2 tidx2, w2) /\
    DiffSpec.WF_table 255 (to_diff_table rid T1) /\ DiffSpec.WF_table 255 (to_diff_table rid T2) /\
    Diff.tindex (Diff.t_blocks (to_diff_table rid T1)) = tidx1 /\
    Diff.tindex (Diff.t_blocks (to_diff_table rid T2)) = tidx2 /\
    (forall eu, Diff.diff_tables 255 eu (to_diff_table rid T1) (to_diff_table rid T2) =
                Diff.Ok (DiffSpec.spec_diff_rows eu true
                           (input_rows rid (length columns) pk (Ingest.rows_of T1))
                           (input_rows rid (length columns) pk (Ingest.rows_of T2)))) /\
    (forall eu S1 S2,
       Permutation S1 rows1 -> SorterSpec.keys_strictly_ascending (length columns) pk S1 ->
       Permutation S2 rows2 -> SorterSpec.keys_strictly_ascending (length columns) pk S2 ->
       Diff.diff_tables 255 eu (to_diff_table rid T1) (to_diff_table rid T2) =
       Diff.Ok (DiffSpec.spec_diff_rows eu true (input_rows rid (length columns) pk S1)
                                        (input_rows rid (length columns) pk S2))) /\
    (NoDup (map (SorterSpec.dkey (length columns) pk) rows1) ->
     NoDup (map (SorterSpec.dkey (length columns) pk) rows2) ->
     forall eu,
       Diff.diff_tables 255 eu (to_diff_table rid T1) (to_diff_table rid T2) =
       Diff.Ok (DiffSpec.spec_diff_rows eu true
                  (input_rows rid (length columns) pk (sorted_input pk rows1))
                  (input_rows rid (length columns) pk (sorted_input pk rows2)))).
Proof. exact BridgeIngestDiff_proofs.ingest_diff. Qed.
Print Assumptions Compose_ingest_diff.

(** The same in the words of the property, on the INPUT rows, positions projected away
    ([reports_exactly], model/BridgeIngestDiff.v): with unique keys and a row hash that separates
    the two inputs, the diff of the two ingested tables contains
      "added"    for exactly the rows of input 1 whose key no row of input 2 has,
      "removed"  for exactly the rows of input 2 whose key no row of input 1 has,
      "modified" for exactly the pairs of rows with a common key and different content (every
                 common key when emitUnchanged is set),
    nothing else, and no key twice. *)
Theorem Compose_ingest_diff_events :
  forall (rid : Sorter.row -> N) H sort1 sort2 arrive1 arrive2 rs1 rs2 columns pknames rows1 rows2 eu,
  SorterSpec.sort_ok (length columns) sort1 -> SorterSpec.sort_ok (length columns) sort2 ->
  IngestSpec.any_arrival arrive1 -> IngestSpec.any_arrival arrive2 ->
  incl pknames columns -> NoDup pknames ->
  SorterSpec.wf_rows (length columns) rows1 -> SorterSpec.cells_in_limit rows1 ->
  SorterSpec.wf_rows (length columns) rows2 -> SorterSpec.cells_in_limit rows2 ->
  exists pk T1 tidx1 w1 T2 tidx2 w2 evs,
    Ingest.key_indices columns pknames = Some pk /\
    Ingest.ingest_table H sort1 arrive1 rs1 columns pknames rows1 = (Ingest.IOk T1 tidx1, w1) /\
    Ingest.ingest_table H sort2 arrive2 rs2 columns pknames rows2 = (Ingest.IOk T2 tidx2, w2) /\
    Diff.diff_tables 255 eu (to_diff_table rid T1) (to_diff_table rid T2) = Diff.Ok evs /\
    NoDup (map DiffSpec.dev_key evs) /\
    (NoDup (map (SorterSpec.dkey (length columns) pk) rows1) ->
     NoDup (map (SorterSpec.dkey (length columns) pk) rows2) ->
     rid_separates rid rows1 rows2 ->
     reports_exactly rid eu (length columns) pk rows1 rows2 evs).
Proof. exact BridgeIngestDiff_proofs.ingest_diff_events. Qed.
Print Assumptions Compose_ingest_diff_events.

(** Non-vacuity: a pair of 3-row CSVs (key = first column; run size 1 / in-order arrival on one
    side, run size 2 / reversed arrival on the other) meets every hypothesis above, and the diff of
    the two ingested tables is key 1 modified, key 3 added, key 4 removed (key 2 unchanged),
    which is also what the specification computes from the sorted input rows. *)
Example Compose_ingest_diff_nonvacuous :
  SorterSpec.sort_ok (length ex_columns) Sorter.isort_rows /\
  IngestSpec.any_arrival (fun l => l) /\ IngestSpec.any_arrival (@rev Ingest.asyncblock) /\
  incl [[97%N]] ex_columns /\ NoDup [[97%N] : bytes] /\
  SorterSpec.wf_rows (length ex_columns) ex_rows1 /\ SorterSpec.cells_in_limit ex_rows1 /\
  SorterSpec.wf_rows (length ex_columns) ex_rows2 /\ SorterSpec.cells_in_limit ex_rows2 /\
  NoDup (map (SorterSpec.dkey 2 [0]) ex_rows1) /\ NoDup (map (SorterSpec.dkey 2 [0]) ex_rows2) /\
  rid_separates ex_rid ex_rows1 ex_rows2 /\
  match fst (Ingest.ingest_table Ingest.no_hash Sorter.isort_rows (fun l => l) 1 ex_columns [[97%N]] ex_rows1),
        fst (Ingest.ingest_table Ingest.no_hash Sorter.isort_rows (@rev Ingest.asyncblock) 2 ex_columns [[97%N]] ex_rows2) with
  | Ingest.IOk T1 _, Ingest.IOk T2 _ =>
      Diff.diff_tables 255 false (to_diff_table ex_rid T1) (to_diff_table ex_rid T2) =
      Diff.Ok [Diff.Modified [[49%N]] (ex_rid [[49%N]; [121%N]]) 0 (ex_rid [[49%N]; [119%N]]) 0;
               Diff.Added [[51%N]] (ex_rid [[51%N]; [120%N]]) 2;
               Diff.Removed [[52%N]] (ex_rid [[52%N]; [120%N]]) 2] /\
      DiffSpec.spec_diff_rows false true
        (input_rows ex_rid 2 [0] (sorted_input [0] ex_rows1))
        (input_rows ex_rid 2 [0] (sorted_input [0] ex_rows2)) =
      [Diff.Modified [[49%N]] (ex_rid [[49%N]; [121%N]]) 0 (ex_rid [[49%N]; [119%N]]) 0;
       Diff.Added [[51%N]] (ex_rid [[51%N]; [120%N]]) 2;
       Diff.Removed [[52%N]] (ex_rid [[52%N]; [120%N]]) 2]
  | _, _ => False
  end.
Proof. exact BridgeIngestDiff_proofs.ex_nonvacuous. Qed.
Print Assumptions Compose_ingest_diff_nonvacuous.


(** ======================================================================================= *)
(** * B2: C11 -> C10 *)
(** ======================================================================================= *)
(** Composition B2: C11 (ancestry queries, merge base) discharges the ancestry premises of C10
    (without force a ref only moves forward).
    Only statements, each closed by [exact] of a lemma from proofs/BridgeAncestor_proofs.v.

    WHAT WAS ASSUMED.  props/C10.v proves [C10_forward_only], [C10_log_true], [C10_fetch_ok], [C10_push_ok],
    [C10_merge_ok], [C10_pull_ok] for ARBITRARY oracles [ia] (ref.IsAncestorOf) and [sk]
    (ref.SeekCommonAncestor) under the named premises
        RefUpdate_proofs.IsAncSound g ia     "ia a b = true -> a is an ancestor-or-self of b"
        RefUpdate_proofs.SeekSound  g sk     "sk cs = SInput c -> c is an input and an ancestor-or-self of
                                              every input"
    and closes them only for C10's own specification-level oracles ([is_ancestor], [seek_spec]).  C11 proves
    theorems about the TRANSLITERATED Go functions (model/Ancestor.v over Queue.v/Graph.v).

    THE BRIDGE (model/BridgeAncestor.v).
      [to_graph tm g]       RefUpdate's commit graph (id -> parents) as a C11 store (id -> time, parents),
                            commit c being given the time [tm c]; [tm] is ARBITRARY in every theorem below
                            (C11: "whatever the timestamps say").  The abstraction is exact:
                            Graph.reach (to_graph tm g) [b] a <-> RefUpdate.anc g a b   [Compose_reach_anc].
      [b_is_ancestor tm g]  = Ancestor.anc_true of C11's [is_ancestor_of] with the Go placement
                            ([Queue.ins_time]/[Queue.srt_time], literal sort.Search; a permutation by
                            C11_go_placement): (true, nil) is "yes", an error is not.
      [b_seek tm g]         = C11's [t_seek] projected on what runMerge uses: SFound x with x among the inputs ->
                            SInput x; SFound x otherwise -> SOther; not found / error / (nil,nil) -> SNone.

    REMAINING HYPOTHESIS (the only one):  [store_closed g] - every parent of a stored commit is stored
    (= Graph.closed (to_graph tm g), C11's completeness hypothesis, [Compose_store_closed_iff]).  It is
    needed because C11_is_ancestor_correct / C11_base2_common assume [complete g [c]].  Queries about commits
    that are not stored need no hypothesis: NewCommitsQueue fails, which is never a "yes" nor a commit
    (proved here from the model: [seek_absent], [anc_true_absent_target]).  ACYCLICITY IS NOT NEEDED
    (C11 (a), (c) for two inputs, (d) hold on cyclic graphs too), nor any relation between times and topology.

    SeekSound IS FALSE OF THE GO CODE; WHAT HOLDS INSTEAD.  [IsAncSound] is discharged outright.  [SeekSound]
    is NOT TRUE of C11's merge base: with three inputs SeekCommonAncestor can return an input that is not an
    ancestor of another input (C11_base3_wrong_witness), and read through the bridge this refutes the premise
    ([Compose_seek_sound_refuted], [Compose_seek_sound3_refuted]).  Two compositions are given.

    (1) FULL RESULT, every arity: [Compose_forward_only_all] - the C10 forward-only statement for ALL histories
        with no ancestry premise.  C10's proof uses less of the merge base than [SeekSound]: the branch ref can
        only move illegally when the reported base c is the branch value itself and c is an ancestor of none of
        the inputs that remain after runMerge has dropped every occurrence of c.  [BridgeAncestor.SeekWeak]
        states exactly that ("a base reported as an input is an ancestor-or-self of SOME remaining input,
        unless none remains"); it is implied by [SeekSound] ([Compose_seek_sound_weak]), C10's merge / pull /
        history theorems are re-proved under it in proofs/BridgeAncestor_proofs.v following RefUpdate_proofs'
        structure ([Compose_forward_only_weak_premise] generalises C10_forward_only), and it is PROVED of C11's
        SeekCommonAncestor for any number of inputs ([Compose_seek_weak]).  That last step is new C11-level
        work done here on C11's model and exported lemmas (elim_spec, outer_step, pop_all_spec, w_step_inv,
        pre_check_some ...): walkers are tagged with the input they started from; invariant of the main loop:
        first round = the fresh walkers of all inputs, later rounds = at least two walkers started from
        pairwise different commits; the deletion loops leave a single walker only by a last deletion made by
        the survivor, i.e. its base has been seen by a walk started from another input.  Validated first by
        search by vm_compute (all DAGs of <= 4 commits with <= 2 parents each x all time orders and some ties x 3
        and 4 inputs; all such DAGs of 5 commits x 10 resp. 4 time assignments x 3 resp. 4 inputs: no violation).  So C11's finding (>= 3 inputs, base not common)
        does NOT break "a ref only moves forward"; it affects which table is used as the merge base.
    (2) What C11's own theorems give without new loop reasoning (kept; the first delivery):
      * calls with at most two inputs satisfy SeekSound ([Compose_seek_sound], from C11_base2_common);
      * calls with any number of stored inputs are sound and return an input whenever some input is an
        ancestor-or-self of all the others ([Compose_seek_base_input], from C11_base_is_input);
      * [Compose_forward_only] for histories of operations whose merges have at most two inputs
        ([BridgeAncestor.op_arity2b]; runMerge passes 1 + |others| resp. 1 + |merge heads| <= 1 + |refspecs|
        commits): such a history never calls the merge base on more than two commits, so it runs identically
        under [b_seek] and under [b_seek_guard] (= [b_seek] up to two inputs, C10's [seek_spec] beyond), which
        satisfies [SeekSound] verbatim ([Compose_seek_guard_sound]); then C10's own theorem applies unchanged.

    Per-operation versions: fetch and push; merge / pull both unrestricted (_all) and under the arity bound. *)
From Coq Require Import List NArith ZArith Bool.
From W.model Require RefUpdate Graph Queue Ancestor BridgeAncestor.
From W.proofs Require RefUpdate_proofs BridgeAncestor_proofs.
Import ListNotations.

(** the abstraction function is exact on ancestry *)
Theorem Compose_reach_anc : forall tm g a b,
  Graph.reach (BridgeAncestor.to_graph tm g) [b] a <-> RefUpdate.anc g a b.
Proof. exact BridgeAncestor_proofs.reach_anc. Qed.
Print Assumptions Compose_reach_anc.

(** the remaining hypothesis is C11's closedness of the store, for whatever times *)
Theorem Compose_store_closed_iff : forall tm g,
  BridgeAncestor.store_closed g <-> Graph.closed (BridgeAncestor.to_graph tm g).
Proof.
  exact (fun tm g => conj (BridgeAncestor_proofs.closed_to_graph tm g)
                          (BridgeAncestor_proofs.closed_of_to_graph tm g)).
Qed.
Print Assumptions Compose_store_closed_iff.

(** premise 1 discharged (C11_is_ancestor_correct + C11_go_placement) *)
Theorem Compose_is_ancestor_sound : forall tm g,
  BridgeAncestor.store_closed g ->
  RefUpdate_proofs.IsAncSound g (BridgeAncestor.b_is_ancestor tm g).
Proof. exact BridgeAncestor_proofs.b_is_ancestor_sound. Qed.
Print Assumptions Compose_is_ancestor_sound.

(** premise 2, strongest true form: calls with at most two inputs (C11_base2_common + C11_go_placement) *)
Theorem Compose_seek_sound : forall tm g,
  BridgeAncestor.store_closed g ->
  BridgeAncestor.SeekSoundUpTo 2 g (BridgeAncestor.b_seek tm g).
Proof. exact BridgeAncestor_proofs.b_seek_sound2. Qed.
Print Assumptions Compose_seek_sound.

(** ... and it cannot be had for three inputs, nor as stated in C10 (C11_base3_wrong_witness through the bridge) *)
Theorem Compose_seek_sound3_refuted :
  ~ (forall tm g, BridgeAncestor.store_closed g ->
       BridgeAncestor.SeekSoundUpTo 3 g (BridgeAncestor.b_seek tm g)).
Proof. exact BridgeAncestor_proofs.b_seek_sound3_refuted. Qed.
Print Assumptions Compose_seek_sound3_refuted.

Theorem Compose_seek_sound_refuted :
  ~ (forall tm g, BridgeAncestor.store_closed g ->
       RefUpdate_proofs.SeekSound g (BridgeAncestor.b_seek tm g)).
Proof. exact BridgeAncestor_proofs.b_seek_sound_refuted. Qed.
Print Assumptions Compose_seek_sound_refuted.

(** premise 2 verbatim, for the guarded oracle (C11's merge base up to two inputs, C10's specification beyond) *)
Theorem Compose_seek_guard_sound : forall tm g,
  BridgeAncestor.store_closed g ->
  RefUpdate_proofs.SeekSound g (BridgeAncestor.b_seek_guard tm g).
Proof. exact BridgeAncestor_proofs.b_seek_guard_sound. Qed.
Print Assumptions Compose_seek_guard_sound.

(** any number (> 1) of stored inputs (C11_base_is_input): if some input is an ancestor-or-self of all the others,
    C11's merge base is reported as an input, and that input is an ancestor-or-self of every input *)
Theorem Compose_seek_base_input : forall tm g cs i c,
  BridgeAncestor.store_closed g -> (1 < length cs)%nat ->
  (forall x, In x cs -> BridgeAncestor.stored g x) ->
  nth_error cs i = Some c ->
  (forall j d, nth_error cs j = Some d -> j <> i -> RefUpdate.anc g c d) ->
  exists c', BridgeAncestor.b_seek tm g cs = RefUpdate.SInput c' /\ In c' cs /\
             forall x, In x cs -> RefUpdate.anc g c' x.
Proof. exact BridgeAncestor_proofs.b_seek_base_input. Qed.
Print Assumptions Compose_seek_base_input.

(** C10_forward_only with NO ancestry premise: in every history of fetch / push / merge / pull operations whose
    merges have at most two inputs, run with C11's IsAncestorOf and SeekCommonAncestor (Go placement, any commit
    times) over a closed store, every ref write old -> new satisfies: not forced => old is an ancestor-or-self of
    new; an existing tag gets a different value only with force. *)
Theorem Compose_forward_only : forall tm g,
  BridgeAncestor.store_closed g ->
  forall st ops, forallb BridgeAncestor.op_arity2b ops = true ->
  Forall (RefUpdate_proofs.trans_ok g)
         (snd (RefUpdate.run_ops g (BridgeAncestor.b_is_ancestor tm g) (BridgeAncestor.b_seek tm g) st ops)).
Proof. exact BridgeAncestor_proofs.compose_forward_only. Qed.
Print Assumptions Compose_forward_only.

(** the same for histories of ANY operations with the guarded merge base *)
Theorem Compose_forward_only_guard : forall tm g,
  BridgeAncestor.store_closed g ->
  forall st ops,
  Forall (RefUpdate_proofs.trans_ok g)
         (snd (RefUpdate.run_ops g (BridgeAncestor.b_is_ancestor tm g) (BridgeAncestor.b_seek_guard tm g) st ops)).
Proof. exact BridgeAncestor_proofs.compose_forward_only_guard. Qed.
Print Assumptions Compose_forward_only_guard.

(** C10_log_true composed *)
Theorem Compose_log_true : forall tm g,
  BridgeAncestor.store_closed g ->
  forall st ops, forallb BridgeAncestor.op_arity2b ops = true ->
  let r := RefUpdate.run_ops g (BridgeAncestor.b_is_ancestor tm g) (BridgeAncestor.b_seek tm g) st ops in
  (RefUpdate_proofs.LogFaithful (RefUpdate.lrefs st) -> RefUpdate_proofs.LogFaithful (RefUpdate.lrefs (fst r))) /\
  (RefUpdate_proofs.LogFaithful (RefUpdate.rrefs st) -> RefUpdate_proofs.LogFaithful (RefUpdate.rrefs (fst r))) /\
  Forall (RefUpdate_proofs.logged (RefUpdate.lrefs (fst r))) (snd r).
Proof. exact BridgeAncestor_proofs.compose_log_true. Qed.
Print Assumptions Compose_log_true.

(** C10_fetch_ok / C10_push_ok composed (no arity condition: no merge base involved) *)
Theorem Compose_fetch_ok : forall tm g st specs gforce,
  BridgeAncestor.store_closed g ->
  RefUpdate_proofs.res_ok g st (RefUpdate.fetch_step g (BridgeAncestor.b_is_ancestor tm g) st specs gforce).
Proof. exact BridgeAncestor_proofs.compose_fetch_ok. Qed.
Print Assumptions Compose_fetch_ok.

Theorem Compose_push_ok : forall tm g st items gf dn dd,
  BridgeAncestor.store_closed g ->
  RefUpdate_proofs.res_ok g st (RefUpdate.push_step g (BridgeAncestor.b_is_ancestor tm g) st items gf dn dd).
Proof. exact BridgeAncestor_proofs.compose_push_ok. Qed.
Print Assumptions Compose_push_ok.

(** C10_merge_ok / C10_pull_ok composed: the branch and at most one other commit / at most one refspec *)
Theorem Compose_merge_ok : forall tm g st branch others mode m,
  BridgeAncestor.store_closed g -> (length others <= 1)%nat ->
  RefUpdate_proofs.res_ok g st (RefUpdate.merge_step g (BridgeAncestor.b_seek tm g) st branch others mode m).
Proof. exact BridgeAncestor_proofs.compose_merge_ok. Qed.
Print Assumptions Compose_merge_ok.

Theorem Compose_pull_ok : forall tm g st branch specs gf mode m,
  BridgeAncestor.store_closed g -> (length specs <= 1)%nat ->
  RefUpdate_proofs.res_ok g st
    (RefUpdate.pull_step g (BridgeAncestor.b_is_ancestor tm g) (BridgeAncestor.b_seek tm g) st branch specs gf mode m).
Proof. exact BridgeAncestor_proofs.compose_pull_ok. Qed.
Print Assumptions Compose_pull_ok.

(** non-vacuity of Compose_forward_only / Compose_log_true: RefUpdate_proofs' five-operation history (fetch,
    rejected push, merge creating a merge commit, pull, push) on a closed graph meets both hypotheses; run with
    C11's functions under REVERSED commit times (children older than parents) and under topological times it
    makes exactly the three moves made with C10's specification oracles, the first a non-forced move 2 -> 1000 *)
Example Compose_forward_only_nonvacuous :
  BridgeAncestor.store_closedb RefUpdate_proofs.ex_graph = true /\
  forallb BridgeAncestor.op_arity2b RefUpdate_proofs.ex_ops = true /\
  snd (RefUpdate.run_ops RefUpdate_proofs.ex_graph
         (BridgeAncestor.b_is_ancestor BridgeAncestor_proofs.ex_tm_rev RefUpdate_proofs.ex_graph)
         (BridgeAncestor.b_seek BridgeAncestor_proofs.ex_tm_rev RefUpdate_proofs.ex_graph)
         RefUpdate_proofs.ex_state RefUpdate_proofs.ex_ops) =
  snd (RefUpdate.run_ops RefUpdate_proofs.ex_graph (RefUpdate.is_ancestor RefUpdate_proofs.ex_graph)
         (RefUpdate.seek_spec RefUpdate_proofs.ex_graph) RefUpdate_proofs.ex_state RefUpdate_proofs.ex_ops) /\
  snd (RefUpdate.run_ops RefUpdate_proofs.ex_graph
         (BridgeAncestor.b_is_ancestor BridgeAncestor_proofs.ex_tm_topo RefUpdate_proofs.ex_graph)
         (BridgeAncestor.b_seek BridgeAncestor_proofs.ex_tm_topo RefUpdate_proofs.ex_graph)
         RefUpdate_proofs.ex_state RefUpdate_proofs.ex_ops) =
  snd (RefUpdate.run_ops RefUpdate_proofs.ex_graph (RefUpdate.is_ancestor RefUpdate_proofs.ex_graph)
         (RefUpdate.seek_spec RefUpdate_proofs.ex_graph) RefUpdate_proofs.ex_state RefUpdate_proofs.ex_ops) /\
  length (snd (RefUpdate.run_ops RefUpdate_proofs.ex_graph
         (BridgeAncestor.b_is_ancestor BridgeAncestor_proofs.ex_tm_rev RefUpdate_proofs.ex_graph)
         (BridgeAncestor.b_seek BridgeAncestor_proofs.ex_tm_rev RefUpdate_proofs.ex_graph)
         RefUpdate_proofs.ex_state RefUpdate_proofs.ex_ops)) = 3%nat /\
  hd_error (snd (RefUpdate.run_ops RefUpdate_proofs.ex_graph
         (BridgeAncestor.b_is_ancestor BridgeAncestor_proofs.ex_tm_rev RefUpdate_proofs.ex_graph)
         (BridgeAncestor.b_seek BridgeAncestor_proofs.ex_tm_rev RefUpdate_proofs.ex_graph)
         RefUpdate_proofs.ex_state RefUpdate_proofs.ex_ops)) =
  Some (RefUpdate.mk_trans RefUpdate.Local RefUpdate_proofs.n_main (Some 2%N) (Some 1000%N) false).
Proof. exact BridgeAncestor_proofs.ex_compose_history. Qed.
Print Assumptions Compose_forward_only_nonvacuous.

(** [store_closedb] decides the hypothesis *)
Theorem Compose_store_closedb_sound : forall g,
  BridgeAncestor.store_closedb g = true -> BridgeAncestor.store_closed g.
Proof. exact BridgeAncestor_proofs.store_closedb_sound. Qed.
Print Assumptions Compose_store_closedb_sound.

(** non-vacuity of the discharged premises: the bridged functions answer "yes" / "input" where the graph says so,
    "no" where it does not, an absent commit (7) gives neither; last line: C11's finding seen through the bridge *)
Example Compose_oracles_nonvacuous :
  BridgeAncestor.b_is_ancestor BridgeAncestor_proofs.ex_tm_rev RefUpdate_proofs.ex_graph 0%N 1000%N = true /\
  BridgeAncestor.b_is_ancestor BridgeAncestor_proofs.ex_tm_rev RefUpdate_proofs.ex_graph 2%N 3%N = false /\
  BridgeAncestor.b_is_ancestor BridgeAncestor_proofs.ex_tm_rev RefUpdate_proofs.ex_graph 7%N 7%N = false /\
  BridgeAncestor.b_seek BridgeAncestor_proofs.ex_tm_rev RefUpdate_proofs.ex_graph [1%N; 1000%N] = RefUpdate.SInput 1%N /\
  BridgeAncestor.b_seek BridgeAncestor_proofs.ex_tm_rev RefUpdate_proofs.ex_graph [3%N; 1%N] = RefUpdate.SInput 1%N /\
  BridgeAncestor.b_seek BridgeAncestor_proofs.ex_tm_rev RefUpdate_proofs.ex_graph [2%N; 3%N] = RefUpdate.SOther /\
  BridgeAncestor.b_seek BridgeAncestor_proofs.ex_tm_rev RefUpdate_proofs.ex_graph [2%N; 7%N] = RefUpdate.SNone /\
  BridgeAncestor.b_seek BridgeAncestor_proofs.ex_tm_rev RefUpdate_proofs.ex_graph [1%N; 2%N; 3%N] = RefUpdate.SInput 1%N /\
  BridgeAncestor.b_seek BridgeAncestor_proofs.wit5_tm BridgeAncestor_proofs.wit5 [2%N; 1%N; 4%N] = RefUpdate.SInput 1%N /\
  RefUpdate.is_ancestor BridgeAncestor_proofs.wit5 1%N 2%N = false.
Proof. exact BridgeAncestor_proofs.ex_compose_oracles. Qed.
Print Assumptions Compose_oracles_nonvacuous.

(** non-vacuity of the per-operation theorems: a merge and a pull that each move the branch, a fetch and a push
    that each report one non-fast-forward rejection, all decided by C11's functions *)
Example Compose_single_ops_nonvacuous :
  BridgeAncestor.store_closedb RefUpdate_proofs.ex_graph = true /\
  length (RefUpdate.r_trace (RefUpdate.merge_step RefUpdate_proofs.ex_graph
            (BridgeAncestor.b_seek BridgeAncestor_proofs.ex_tm_rev RefUpdate_proofs.ex_graph)
            RefUpdate_proofs.ex_state [109%N] [RefUpdate_proofs.n_om] RefUpdate.MFF 1000%N)) = 1%nat /\
  length (RefUpdate.r_trace (RefUpdate.pull_step RefUpdate_proofs.ex_graph
            (BridgeAncestor.b_is_ancestor BridgeAncestor_proofs.ex_tm_rev RefUpdate_proofs.ex_graph)
            (BridgeAncestor.b_seek BridgeAncestor_proofs.ex_tm_rev RefUpdate_proofs.ex_graph)
            RefUpdate_proofs.ex_state [109%N]
            [RefUpdate.mk_spec false false RefUpdate_proofs.n_main RefUpdate_proofs.n_om] false
            RefUpdate.MFF 1000%N)) = 1%nat /\
  RefUpdate.r_nrej (RefUpdate.fetch_step RefUpdate_proofs.ex_graph
            (BridgeAncestor.b_is_ancestor BridgeAncestor_proofs.ex_tm_rev RefUpdate_proofs.ex_graph)
            RefUpdate_proofs.ex_state
            [RefUpdate.mk_spec false false RefUpdate_proofs.n_main (RefUpdate.s_heads ++ [109%N])] false) = 1%nat /\
  RefUpdate.r_nrej (RefUpdate.push_step RefUpdate_proofs.ex_graph
            (BridgeAncestor.b_is_ancestor BridgeAncestor_proofs.ex_tm_rev RefUpdate_proofs.ex_graph)
            RefUpdate_proofs.ex_state
            [RefUpdate.mk_pitem false (Some RefUpdate_proofs.n_main) RefUpdate_proofs.n_main]
            false false false) = 1%nat.
Proof. exact BridgeAncestor_proofs.ex_compose_single_ops. Qed.
Print Assumptions Compose_single_ops_nonvacuous.

(** outside the proved range (three inputs): on C11's witness the wrong base (1, not an ancestor of the branch value
    2) drops an input that is not the branch; the merge commit over the two remaining inputs is a legal move *)
Example Compose_arity3_example :
  BridgeAncestor.store_closedb BridgeAncestor_proofs.wit5m = true /\
  BridgeAncestor.b_seek BridgeAncestor_proofs.wit5_tm BridgeAncestor_proofs.wit5m [2%N; 1%N; 4%N] = RefUpdate.SInput 1%N /\
  RefUpdate.is_ancestor BridgeAncestor_proofs.wit5m 1%N 2%N = false /\
  RefUpdate.r_trace (RefUpdate.merge_step BridgeAncestor_proofs.wit5m
      (BridgeAncestor.b_seek BridgeAncestor_proofs.wit5_tm BridgeAncestor_proofs.wit5m)
      BridgeAncestor_proofs.wit5_state [109%N] [BridgeAncestor_proofs.n_w1; BridgeAncestor_proofs.n_w4]
      RefUpdate.MFF 1000%N) =
    [RefUpdate.mk_trans RefUpdate.Local RefUpdate_proofs.n_main (Some 2%N) (Some 1000%N) false] /\
  RefUpdate.is_ancestor BridgeAncestor_proofs.wit5m 2%N 1000%N = true.
Proof. exact BridgeAncestor_proofs.ex_arity3_still_forward. Qed.
Print Assumptions Compose_arity3_example.

(* ------------------------------------------------------------------ every arity *)

(** C10's premise implies the weak premise *)
Theorem Compose_seek_sound_weak : forall g sk,
  RefUpdate_proofs.SeekSound g sk -> BridgeAncestor.SeekWeak g sk.
Proof. exact BridgeAncestor_proofs.seek_sound_weak. Qed.
Print Assumptions Compose_seek_sound_weak.

(** C10_forward_only under the weak premise, for arbitrary oracles (generalises C10_forward_only) *)
Theorem Compose_forward_only_weak_premise : forall g ia sk,
  RefUpdate_proofs.IsAncSound g ia -> BridgeAncestor.SeekWeak g sk ->
  forall st ops, Forall (RefUpdate_proofs.trans_ok g) (snd (RefUpdate.run_ops g ia sk st ops)).
Proof. exact BridgeAncestor_proofs.forward_only_history_weak. Qed.
Print Assumptions Compose_forward_only_weak_premise.

(** C11 side, any number of inputs, any permutation placement: a returned commit is reachable from an input
    other than itself, unless every input is that commit *)
Theorem Compose_seek_any_arity : forall (G : Graph.graph) ins srt,
  (forall c q, Permutation.Permutation (ins c q) (c :: q)) -> (forall l, Permutation.Permutation (srt l) l) ->
  forall cs, (forall c, In c cs -> Graph.complete G [c]) ->
  forall x, Ancestor.seek_common_ancestor G ins srt cs = Ancestor.SFound x ->
  (forall y, In y cs -> y = x) \/ exists y, In y cs /\ y <> x /\ Graph.reach G [y] x.
Proof. exact BridgeAncestor_proofs.seek_weak. Qed.
Print Assumptions Compose_seek_any_arity.

(** the weak premise discharged for C11's SeekCommonAncestor with the Go placement, every arity *)
Theorem Compose_seek_weak : forall tm g,
  BridgeAncestor.store_closed g -> BridgeAncestor.SeekWeak g (BridgeAncestor.b_seek tm g).
Proof. exact BridgeAncestor_proofs.b_seek_weak. Qed.
Print Assumptions Compose_seek_weak.

(** C10_forward_only with NO ancestry premise and NO arity condition: every history of fetch / push / merge /
    pull operations, run with C11's IsAncestorOf and SeekCommonAncestor (Go placement, any commit times) over a
    closed store, only makes legal ref moves *)
Theorem Compose_forward_only_all : forall tm g,
  BridgeAncestor.store_closed g ->
  forall st ops,
  Forall (RefUpdate_proofs.trans_ok g)
         (snd (RefUpdate.run_ops g (BridgeAncestor.b_is_ancestor tm g) (BridgeAncestor.b_seek tm g) st ops)).
Proof. exact BridgeAncestor_proofs.compose_forward_only_all. Qed.
Print Assumptions Compose_forward_only_all.

Theorem Compose_log_true_all : forall tm g,
  BridgeAncestor.store_closed g ->
  forall st ops,
  let r := RefUpdate.run_ops g (BridgeAncestor.b_is_ancestor tm g) (BridgeAncestor.b_seek tm g) st ops in
  (RefUpdate_proofs.LogFaithful (RefUpdate.lrefs st) -> RefUpdate_proofs.LogFaithful (RefUpdate.lrefs (fst r))) /\
  (RefUpdate_proofs.LogFaithful (RefUpdate.rrefs st) -> RefUpdate_proofs.LogFaithful (RefUpdate.rrefs (fst r))) /\
  Forall (RefUpdate_proofs.logged (RefUpdate.lrefs (fst r))) (snd r).
Proof. exact BridgeAncestor_proofs.compose_log_true_all. Qed.
Print Assumptions Compose_log_true_all.

Theorem Compose_merge_ok_all : forall tm g st branch others mode m,
  BridgeAncestor.store_closed g ->
  RefUpdate_proofs.res_ok g st (RefUpdate.merge_step g (BridgeAncestor.b_seek tm g) st branch others mode m).
Proof. exact BridgeAncestor_proofs.compose_merge_ok_all. Qed.
Print Assumptions Compose_merge_ok_all.

Theorem Compose_pull_ok_all : forall tm g st branch specs gf mode m,
  BridgeAncestor.store_closed g ->
  RefUpdate_proofs.res_ok g st
    (RefUpdate.pull_step g (BridgeAncestor.b_is_ancestor tm g) (BridgeAncestor.b_seek tm g) st branch specs gf mode m).
Proof. exact BridgeAncestor_proofs.compose_pull_ok_all. Qed.
Print Assumptions Compose_pull_ok_all.

(** non-vacuity of the _all theorems: a history with a three-input merge (not [op_arity2b]) on C11's witness
    graph, where the reported base 1 is not an ancestor of the branch value 2: the move 2 -> 1000 is legal *)
Example Compose_forward_only_all_nonvacuous :
  BridgeAncestor.store_closedb BridgeAncestor_proofs.wit5m = true /\
  BridgeAncestor.op_arity2b BridgeAncestor_proofs.ex_op3 = false /\
  BridgeAncestor.b_seek BridgeAncestor_proofs.wit5_tm BridgeAncestor_proofs.wit5m [2%N; 1%N; 4%N] = RefUpdate.SInput 1%N /\
  RefUpdate.is_ancestor BridgeAncestor_proofs.wit5m 1%N 2%N = false /\
  snd (RefUpdate.run_ops BridgeAncestor_proofs.wit5m
         (BridgeAncestor.b_is_ancestor BridgeAncestor_proofs.wit5_tm BridgeAncestor_proofs.wit5m)
         (BridgeAncestor.b_seek BridgeAncestor_proofs.wit5_tm BridgeAncestor_proofs.wit5m)
         BridgeAncestor_proofs.wit5_state
         [BridgeAncestor_proofs.ex_op3;
          RefUpdate.OMerge [97%N] [RefUpdate_proofs.n_main; BridgeAncestor_proofs.n_w4] RefUpdate.MFF 1001%N]) =
    [RefUpdate.mk_trans RefUpdate.Local RefUpdate_proofs.n_main (Some 2%N) (Some 1000%N) false] /\
  RefUpdate.is_ancestor BridgeAncestor_proofs.wit5m 2%N 1000%N = true.
Proof. exact BridgeAncestor_proofs.ex_compose_all. Qed.
Print Assumptions Compose_forward_only_all_nonvacuous.


(** ======================================================================================= *)
(** * B3: C01/C03 -> C07 *)
(** ======================================================================================= *)
(** Composition B3: C01/C03 (ingest) -> C07 (transfer).
    Fragment to be merged into props/Compose.v.  Only statements, each closed by [exact]
    of a lemma of proofs/BridgeIngestTransfer_proofs.v; definitions of the bridge are in
    model/BridgeIngestTransfer.v.  Nothing is Import-ed from the two developments (their
    names clash: [table], [t_pk], [t_blocks], [blkidx]); everything is qualified.

    WHAT WAS A NAMED HYPOTHESIS.  C07's theorems (C07_exact, C07_order, C07_shallow_..)
    assume [exact_pre], whose first field [pre_src_wf : SrcWF bshape src] says "every table
    stored at the SOURCE is sound (key columns in range, every block non-empty with rows as
    wide as the header, recorded block-index ids equal to re-indexing the blocks) and all
    its blocks are stored"; for the destination the stronger [TablesWF] (block indices,
    table index and profile present too).  That tables written by the ingest path have
    these properties is C03 ([WF_table]) and C01 (table object written last) - proved in
    another model with another table representation.

    THE BRIDGE.  Ingest model: a table carries its blocks and block indices as CONTENTS and
    the store is the ordered list of writes [list wobj].  Transfer model: everything is an
    abstract id [N]; a block index is NAMED by the pair (pk, block id) it indexes; the row
    shape of a block is a function [bshape] of its id.  [repo_of_writes cs pf w] is the
    transfer-model repository holding the objects written by [w], through id functions
    that are Section variables standing for MeowHash, exactly as [table_id] of
    IngestSpec.v: [Hb] block sum, [Hi] block-index sum, [Ht] table sum, plus [Hz] (identity
    of the compressed block bytes) and [Hr] (rest of the table bytes: column names, row
    count) of which nothing is ever assumed.  Every object is stored under its sum (that
    Save keys by the hash of the content is C06_key_is_hash; the byte level is not
    re-entered here).  The block-index name recorded in a table next to block [blk] is
    (pk, Hb blk) exactly when the recorded content has the sum of [index_block H pk blk]
    (that comparison is all the transfer model ever does with a recorded name), so the
    clause of WF_table "block i's index is the index of block i's rows" is used for real.
    The source is built from the writes of ANY sequence of ingests ([job]: CSV ingest =
    premises of C03_ingest_wf, or sorter ingest = premises of C03_sorter_any_rows_wf: the
    merge-commit / doctor path), for every run size, in-memory sort and block arrival
    order, and - using C01's "table object written last" - from ANY PREFIX of those writes
    (a crash in the middle of an ingest).

    RESTRICTIONS (the two representations legitimately differ):
    - The ingest model records no table profile (Ingest.v "Not modelled: profile"; the code
      writes it between table index and table only when the sorter has a summary).  So
      [TablesWF] of an ingest-built repository needs the premise [profiles_cover pf w]
      (every stored table id is in the given profile set).  [SrcWF], which is what
      [exact_pre] asks of the SOURCE, needs no such premise.
    - The ingest model has no commit objects: the commit list [cs] is given from outside
      and the commit-graph premises of C07 remain.
    - [bshape] is tied to the stored blocks by [shape_consistent Hb bshape w] :
      bshape (Hb blk) = shape_of blk for every WRITTEN block.  It is implied by injectivity
      of [Hb] on the written blocks for the canonical [bshape_for]
      (Compose_shape_from_block_hash); no global injectivity is assumed anywhere.
    - Compose_ingest_transfer needs NO injectivity of the id functions: C07's own
      [compat src dst] (an id present in both stores names the same content) stays a
      premise.  When the destination is ingest-built too (Compose_ingest_transfer_both) its
      table and block parts follow from injectivity of [Hb] / [table_id] RESTRICTED to the
      objects of the two stores ([blocks_inj], [tables_inj]) and only "the commit stores
      agree" remains.

    REMAINING HYPOTHESES of the final theorems (beyond the C03 premises of every ingest,
    packed in [job_ok], and [shape_consistent]):
      Compose_ingest_transfer / _order : sent commits are the source's ([lookup c cs]),
        declared commons are source commits, [parent_first dst to_send], [Closed dst],
        [TablesWF bshape dst], [compat src dst], [commons_full src dst commons].
      Compose_ingest_transfer_both : [profiles_cover] for the destination, [blocks_inj],
        [tables_inj] across the two stores, sent commits / commons in [cs],
        [parent_first], [Closed] of the destination, [agree cs cs'], [commons_full].
      Compose_ingested_table_arrives : as Compose_ingest_transfer, plus [blocks_inj] and
        [tables_inj] on the source's own objects (so that looking an ingested table up by
        its id returns it), the commit carrying the table is sent and the table is in
        tablesToSend. *)
From W.lib Require Tree Bytes.
From W.model Require Sorter SorterSpec Ingest IngestSpec Transfer TransferSpec BridgeIngestTransfer.
From W.proofs Require BridgeIngestTransfer_proofs.
From Coq Require Import List NArith.
Import ListNotations.

(** C03 => C07's source precondition.  For every sequence of ingests each meeting the
    premises of its C03 theorem, and every prefix [p] of everything they write (crash at any
    point; [p] = all the writes when nothing is lost): the repository holding [p] (with any
    commit objects, any profile set) satisfies [SrcWF]. *)
Theorem Compose_ingest_src_wf :
  forall (H : list Tree.bytes -> N) (Hb Hz : list Sorter.row -> N) (Hi : Ingest.blkidx -> N)
         (Ht : list Tree.bytes * list nat * N * list N * list N -> N) (Hr : list Tree.bytes -> N -> N)
         (bshape : N -> N) js p cs pf,
  Forall BridgeIngestTransfer.job_ok js ->
  BridgeIngestTransfer.crash_prefix p (BridgeIngestTransfer.all_writes H js) ->
  BridgeIngestTransfer.shape_consistent Hb bshape p ->
  TransferSpec.SrcWF bshape (BridgeIngestTransfer.repo_of_writes H Hb Hz Hi Ht Hr cs pf p).
Proof. exact BridgeIngestTransfer_proofs.ingest_src_wf. Qed.
Print Assumptions Compose_ingest_src_wf.

(** ... and [TablesWF] (every stored table usable: blocks, block indices, table index,
    profile present) once the profiles, which the ingest model does not record, are given. *)
Theorem Compose_ingest_tables_wf :
  forall (H : list Tree.bytes -> N) (Hb Hz : list Sorter.row -> N) (Hi : Ingest.blkidx -> N)
         (Ht : list Tree.bytes * list nat * N * list N * list N -> N) (Hr : list Tree.bytes -> N -> N)
         (bshape : N -> N) js p cs pf,
  Forall BridgeIngestTransfer.job_ok js ->
  BridgeIngestTransfer.crash_prefix p (BridgeIngestTransfer.all_writes H js) ->
  BridgeIngestTransfer.shape_consistent Hb bshape p ->
  BridgeIngestTransfer.profiles_cover Hb Hi Ht pf p ->
  TransferSpec.TablesWF bshape (BridgeIngestTransfer.repo_of_writes H Hb Hz Hi Ht Hr cs pf p).
Proof. exact BridgeIngestTransfer_proofs.ingest_tables_wf. Qed.
Print Assumptions Compose_ingest_tables_wf.

(** the shape hypothesis is a consequence of the hash assumption on the stored blocks *)
Theorem Compose_shape_from_block_hash :
  forall (Hb : list Sorter.row -> N) w,
  BridgeIngestTransfer.blocks_inj Hb w w ->
  BridgeIngestTransfer.shape_consistent Hb (BridgeIngestTransfer.bshape_for Hb w) w.
Proof. exact BridgeIngestTransfer_proofs.shape_consistent_for. Qed.
Print Assumptions Compose_shape_from_block_hash.

(** [exact_pre] (the precondition shared by C07_exact, C07_order, C07_shallow_iff/_reject/
    _silent) with its source-table field discharged. *)
Theorem Compose_ingest_exact_pre :
  forall (H : list Tree.bytes -> N) (Hb Hz : list Sorter.row -> N) (Hi : Ingest.blkidx -> N)
         (Ht : list Tree.bytes * list nat * N * list N * list N -> N) (Hr : list Tree.bytes -> N -> N)
         (bshape : N -> N) js p cs pf dst to_send tbs commons,
  Forall BridgeIngestTransfer.job_ok js ->
  BridgeIngestTransfer.crash_prefix p (BridgeIngestTransfer.all_writes H js) ->
  BridgeIngestTransfer.shape_consistent Hb bshape p ->
  (forall c cc, In (c, cc) to_send -> Transfer.lookup c cs = Some cc) ->
  (forall c, In c commons -> Transfer.has c cs = true) ->
  TransferSpec.parent_first dst to_send ->
  TransferSpec.Closed dst -> TransferSpec.TablesWF bshape dst ->
  TransferSpec.compat (BridgeIngestTransfer.repo_of_writes H Hb Hz Hi Ht Hr cs pf p) dst ->
  TransferSpec.exact_pre bshape (BridgeIngestTransfer.repo_of_writes H Hb Hz Hi Ht Hr cs pf p)
                         dst to_send tbs commons.
Proof. exact BridgeIngestTransfer_proofs.ingest_exact_pre. Qed.
Print Assumptions Compose_ingest_exact_pre.

(** END TO END: C07_exact for a source whose tables come from ingests.  The premise "the
    source's tables are sound and hold their blocks" is gone; what remains of C07's premises
    concerns the commit objects and the destination. *)
Theorem Compose_ingest_transfer :
  forall (H : list Tree.bytes -> N) (Hb Hz : list Sorter.row -> N) (Hi : Ingest.blkidx -> N)
         (Ht : list Tree.bytes * list nat * N * list N * list N -> N) (Hr : list Tree.bytes -> N -> N)
         (bshape : N -> N) js p cs pf dst to_send tbs commons size max,
  Forall BridgeIngestTransfer.job_ok js ->
  BridgeIngestTransfer.crash_prefix p (BridgeIngestTransfer.all_writes H js) ->
  BridgeIngestTransfer.shape_consistent Hb bshape p ->
  (forall c cc, In (c, cc) to_send -> Transfer.lookup c cs = Some cc) ->
  (forall c, In c commons -> Transfer.has c cs = true) ->
  TransferSpec.parent_first dst to_send ->
  TransferSpec.Closed dst -> TransferSpec.TablesWF bshape dst ->
  TransferSpec.compat (BridgeIngestTransfer.repo_of_writes H Hb Hz Hi Ht Hr cs pf p) dst ->
  TransferSpec.commons_full (BridgeIngestTransfer.repo_of_writes H Hb Hz Hi Ht Hr cs pf p) dst commons ->
  let src := BridgeIngestTransfer.repo_of_writes H Hb Hz Hi Ht Hr cs pf p in
  exists objs d' packs,
    Transfer.stream src to_send tbs commons = Some objs /\
    Transfer.transfer bshape size src to_send tbs commons max dst = Transfer.TDone d' packs /\
    TransferSpec.packs_of objs packs /\
    TransferSpec.exact_post bshape src dst to_send tbs d'.
Proof. exact BridgeIngestTransfer_proofs.compose_ingest_transfer. Qed.
Print Assumptions Compose_ingest_transfer.

(** the same for C07_order *)
Theorem Compose_ingest_transfer_order :
  forall (H : list Tree.bytes -> N) (Hb Hz : list Sorter.row -> N) (Hi : Ingest.blkidx -> N)
         (Ht : list Tree.bytes * list nat * N * list N * list N -> N) (Hr : list Tree.bytes -> N -> N)
         (bshape : N -> N) js p cs pf dst to_send tbs commons size max,
  Forall BridgeIngestTransfer.job_ok js ->
  BridgeIngestTransfer.crash_prefix p (BridgeIngestTransfer.all_writes H js) ->
  BridgeIngestTransfer.shape_consistent Hb bshape p ->
  (forall c cc, In (c, cc) to_send -> Transfer.lookup c cs = Some cc) ->
  (forall c, In c commons -> Transfer.has c cs = true) ->
  TransferSpec.parent_first dst to_send ->
  TransferSpec.Closed dst -> TransferSpec.TablesWF bshape dst ->
  TransferSpec.compat (BridgeIngestTransfer.repo_of_writes H Hb Hz Hi Ht Hr cs pf p) dst ->
  TransferSpec.commons_full (BridgeIngestTransfer.repo_of_writes H Hb Hz Hi Ht Hr cs pf p) dst commons ->
  let src := BridgeIngestTransfer.repo_of_writes H Hb Hz Hi Ht Hr cs pf p in
  exists d' packs,
    Transfer.transfer bshape size src to_send tbs commons max dst = Transfer.TDone d' packs /\
    TransferSpec.blocks_before_tables (TransferSpec.initial_common_blocks src commons) (concat packs) /\
    TransferSpec.table_before_commits (concat packs) /\
    TransferSpec.commits_in_order to_send (concat packs) /\
    TransferSpec.parents_before_children dst (concat packs).
Proof. exact BridgeIngestTransfer_proofs.compose_ingest_transfer_order. Qed.
Print Assumptions Compose_ingest_transfer_order.

(** Both repositories built by ingests (the destination with its profiles): C07_exact with
    BOTH table premises ([SrcWF] of the source, [TablesWF] of the destination) and the table
    and block parts of [compat] discharged - the latter from hash injectivity restricted to
    the objects of the two stores.  Only commit-graph premises remain. *)
Theorem Compose_ingest_transfer_both :
  forall (H : list Tree.bytes -> N) (Hb Hz : list Sorter.row -> N) (Hi : Ingest.blkidx -> N)
         (Ht : list Tree.bytes * list nat * N * list N * list N -> N) (Hr : list Tree.bytes -> N -> N)
         (bshape : N -> N) js p cs pf js' p' cs' pf' to_send tbs commons size max,
  Forall BridgeIngestTransfer.job_ok js ->
  BridgeIngestTransfer.crash_prefix p (BridgeIngestTransfer.all_writes H js) ->
  Forall BridgeIngestTransfer.job_ok js' ->
  BridgeIngestTransfer.crash_prefix p' (BridgeIngestTransfer.all_writes H js') ->
  BridgeIngestTransfer.shape_consistent Hb bshape p ->
  BridgeIngestTransfer.shape_consistent Hb bshape p' ->
  BridgeIngestTransfer.profiles_cover Hb Hi Ht pf' p' ->
  BridgeIngestTransfer.blocks_inj Hb p p' -> BridgeIngestTransfer.tables_inj Hb Hi Ht p p' ->
  (forall c cc, In (c, cc) to_send -> Transfer.lookup c cs = Some cc) ->
  (forall c, In c commons -> Transfer.has c cs = true) ->
  TransferSpec.parent_first (BridgeIngestTransfer.repo_of_writes H Hb Hz Hi Ht Hr cs' pf' p') to_send ->
  TransferSpec.Closed (BridgeIngestTransfer.repo_of_writes H Hb Hz Hi Ht Hr cs' pf' p') ->
  TransferSpec.agree cs cs' ->
  TransferSpec.commons_full (BridgeIngestTransfer.repo_of_writes H Hb Hz Hi Ht Hr cs pf p)
                            (BridgeIngestTransfer.repo_of_writes H Hb Hz Hi Ht Hr cs' pf' p') commons ->
  let src := BridgeIngestTransfer.repo_of_writes H Hb Hz Hi Ht Hr cs pf p in
  let dst := BridgeIngestTransfer.repo_of_writes H Hb Hz Hi Ht Hr cs' pf' p' in
  exists objs d' packs,
    Transfer.stream src to_send tbs commons = Some objs /\
    Transfer.transfer bshape size src to_send tbs commons max dst = Transfer.TDone d' packs /\
    TransferSpec.packs_of objs packs /\
    TransferSpec.exact_post bshape src dst to_send tbs d'.
Proof. exact BridgeIngestTransfer_proofs.compose_ingest_transfer_both. Qed.
Print Assumptions Compose_ingest_transfer_both.

(** In the words of the ingest model: the table [T] produced by one of the ingests and
    carried by a sent commit is, after the transfer, stored at the destination under its id
    [table_id Hb Hi Ht T] as the image of [T]; every block of [T] (its rows are
    [Ingest.rows_of T], by C01 the sorted key-dedup of the CSV) is stored under its block id
    with the source's bytes; and the table is usable there (indices and profile rebuilt). *)
Theorem Compose_ingested_table_arrives :
  forall (H : list Tree.bytes -> N) (Hb Hz : list Sorter.row -> N) (Hi : Ingest.blkidx -> N)
         (Ht : list Tree.bytes * list nat * N * list N * list N -> N) (Hr : list Tree.bytes -> N -> N)
         (bshape : N -> N) js cs pf dst to_send tbs commons size max j T c cc,
  Forall BridgeIngestTransfer.job_ok js ->
  BridgeIngestTransfer.shape_consistent Hb bshape (BridgeIngestTransfer.all_writes H js) ->
  BridgeIngestTransfer.blocks_inj Hb (BridgeIngestTransfer.all_writes H js) (BridgeIngestTransfer.all_writes H js) ->
  BridgeIngestTransfer.tables_inj Hb Hi Ht (BridgeIngestTransfer.all_writes H js) (BridgeIngestTransfer.all_writes H js) ->
  (forall c cc, In (c, cc) to_send -> Transfer.lookup c cs = Some cc) ->
  (forall c, In c commons -> Transfer.has c cs = true) ->
  TransferSpec.parent_first dst to_send ->
  TransferSpec.Closed dst -> TransferSpec.TablesWF bshape dst ->
  TransferSpec.compat (BridgeIngestTransfer.repo_of_writes H Hb Hz Hi Ht Hr cs pf (BridgeIngestTransfer.all_writes H js)) dst ->
  TransferSpec.commons_full (BridgeIngestTransfer.repo_of_writes H Hb Hz Hi Ht Hr cs pf (BridgeIngestTransfer.all_writes H js)) dst commons ->
  In j js -> BridgeIngestTransfer.job_table H j = Some T ->
  In (c, cc) to_send -> Transfer.c_table cc = BridgeIngestTransfer.tid Hb Hi Ht T ->
  Transfer.memN (BridgeIngestTransfer.tid Hb Hi Ht T) tbs = true ->
  exists d' packs,
    Transfer.transfer bshape size
      (BridgeIngestTransfer.repo_of_writes H Hb Hz Hi Ht Hr cs pf (BridgeIngestTransfer.all_writes H js))
      to_send tbs commons max dst = Transfer.TDone d' packs /\
    Transfer.lookup c (Transfer.commits d') = Some cc /\
    Transfer.lookup (BridgeIngestTransfer.tid Hb Hi Ht T) (Transfer.tables d')
      = Some (BridgeIngestTransfer.abs_table H Hb Hi Hr T) /\
    (forall blk, In blk (Ingest.t_blocks T) ->
       Transfer.lookup (Hb blk) (Transfer.blocks d') = Some (Hz blk)) /\
    TransferSpec.table_ok bshape d' (BridgeIngestTransfer.tid Hb Hi Ht T) (BridgeIngestTransfer.abs_table H Hb Hi Hr T).
Proof. exact BridgeIngestTransfer_proofs.compose_ingested_table_arrives. Qed.
Print Assumptions Compose_ingested_table_arrives.

(* ================================================================== *)
(** Non-vacuity (instance: [BridgeIngestTransfer_proofs.B3Example]).  Source: a CSV of 300
    rows in descending key order (run size 64, blocks arriving reversed; a TWO-block table)
    and a sorter ingest of two runs with a duplicate row; cheap, non-injective polynomial
    "hashes".  Every premise of the theorem holds and the transfer really runs. *)
Module B3E := BridgeIngestTransfer_proofs.B3Example.

(** Compose_ingest_src_wf / _tables_wf / _exact_pre / _transfer / _transfer_order: all
    premises, to an empty destination, one object per packfile: block, block, table,
    commit, block, table, commit; both tables end up stored with 3 rebuilt block indices. *)
Example Compose_ingest_transfer_nonvacuous :
  Forall BridgeIngestTransfer.job_ok B3E.js /\
  BridgeIngestTransfer.crash_prefix B3E.w (BridgeIngestTransfer.all_writes B3E.Hc B3E.js) /\
  BridgeIngestTransfer.shape_consistent B3E.Hb B3E.bsh B3E.w /\
  (forall c cc, In (c, cc) B3E.cs -> Transfer.lookup c B3E.cs = Some cc) /\
  (forall c, In c [] -> Transfer.has c B3E.cs = true) /\
  TransferSpec.parent_first Transfer.empty_repo B3E.cs /\
  TransferSpec.Closed Transfer.empty_repo /\ TransferSpec.TablesWF B3E.bsh Transfer.empty_repo /\
  TransferSpec.compat B3E.src Transfer.empty_repo /\
  TransferSpec.commons_full B3E.src Transfer.empty_repo [] /\
  exists d' packs,
    Transfer.transfer B3E.bsh (fun _ => 2%N) B3E.src B3E.cs [B3E.t1; B3E.t2] [] 1%N Transfer.empty_repo
      = Transfer.TDone d' packs /\
    map (map B3E.kind) packs = [[3]; [3]; [2]; [1]; [3]; [2]; [1]]%N /\
    map fst (Transfer.tables d') = [B3E.t2; B3E.t1] /\ length (Transfer.blkidx d') = 3%nat /\
    Transfer.prof d' = [B3E.t2; B3E.t1].
Proof.
  exact (conj B3E.js_ok (conj B3E.whole_w (conj B3E.shape_w (conj B3E.sent_all (conj B3E.no_commons
        (conj B3E.pf_all (conj B3E.closed_empty (conj B3E.wf_empty (conj (B3E.compat_empty _)
        (conj (B3E.full_none _ _) B3E.run_all)))))))))).
Qed.
Print Assumptions Compose_ingest_transfer_nonvacuous.

(** Compose_ingest_transfer_both: the destination ingested the first CSV itself, in ascending
    order, one run, blocks in order - same table id (C02) - and holds commit 0 and the
    profile; the source sends commit 1 declaring commit 0 common: one packfile of the merge
    table's block, the table, the commit. *)
Example Compose_ingest_transfer_both_nonvacuous :
  Forall BridgeIngestTransfer.job_ok B3E.js /\
  BridgeIngestTransfer.crash_prefix B3E.w (BridgeIngestTransfer.all_writes B3E.Hc B3E.js) /\
  Forall BridgeIngestTransfer.job_ok B3E.js' /\
  BridgeIngestTransfer.crash_prefix B3E.w' (BridgeIngestTransfer.all_writes B3E.Hc B3E.js') /\
  BridgeIngestTransfer.shape_consistent B3E.Hb B3E.bsh B3E.w /\
  BridgeIngestTransfer.shape_consistent B3E.Hb B3E.bsh B3E.w' /\
  BridgeIngestTransfer.profiles_cover B3E.Hb B3E.Hi B3E.Ht [B3E.t1] B3E.w' /\
  BridgeIngestTransfer.blocks_inj B3E.Hb B3E.w B3E.w' /\
  BridgeIngestTransfer.tables_inj B3E.Hb B3E.Hi B3E.Ht B3E.w B3E.w' /\
  (forall c cc, In (c, cc) [(1%N, B3E.C1)] -> Transfer.lookup c B3E.cs = Some cc) /\
  (forall c, In c [0%N] -> Transfer.has c B3E.cs = true) /\
  TransferSpec.parent_first B3E.dst' [(1%N, B3E.C1)] /\
  TransferSpec.Closed B3E.dst' /\
  TransferSpec.agree B3E.cs B3E.cs' /\
  TransferSpec.commons_full B3E.src B3E.dst' [0%N] /\
  (B3E.t1 = B3E.tid_of B3E.j1' /\ B3E.t1 <> B3E.t2) /\
  exists d' packs,
    Transfer.transfer B3E.bsh (fun _ => 2%N) B3E.src [(1%N, B3E.C1)] [B3E.t1; B3E.t2] [0%N] 5%N B3E.dst'
      = Transfer.TDone d' packs /\
    map (map B3E.kind) packs = [[3; 2; 1]]%N /\
    map fst (Transfer.tables d') = [B3E.t2; B3E.t1] /\ length (Transfer.blocks d') = 3%nat.
Proof.
  exact (conj B3E.js_ok (conj B3E.whole_w (conj B3E.js'_ok (conj B3E.whole_w'
        (conj B3E.shape_w (conj B3E.shape_w' (conj B3E.prof_w' (conj B3E.binj_ww' (conj B3E.tinj_ww'
        (conj B3E.sent_1 (conj B3E.commons_0 (conj B3E.pf_1 (conj B3E.closed_dst' (conj B3E.agree_cs
        (conj B3E.full_0 (conj B3E.ids B3E.run_both)))))))))))))))).
Qed.
Print Assumptions Compose_ingest_transfer_both_nonvacuous.

(** the conclusion of Compose_ingest_src_wf is not trivially true: the merge table's object
    stored WITHOUT its block is not a valid source. *)
Example Compose_ingest_src_wf_not_trivial :
  BridgeIngestTransfer.job_table B3E.Hc B3E.j2 = Some B3E.T2 /\
  ~ TransferSpec.SrcWF B3E.bsh
      (BridgeIngestTransfer.repo_of_writes B3E.Hc B3E.Hb B3E.Hz B3E.Hi B3E.Ht B3E.Hr [] [] [Ingest.WTable B3E.T2]).
Proof. exact B3E.not_trivial. Qed.
Print Assumptions Compose_ingest_src_wf_not_trivial.

(** the crash-prefix generality is not vacuous: the source crashed during the second ingest
    (its block and block index are stored - three blocks in all - its table index and table
    object are not); the first commit is still transferred. *)
Example Compose_ingest_transfer_crash_nonvacuous :
  Forall BridgeIngestTransfer.job_ok B3E.js /\
  BridgeIngestTransfer.crash_prefix B3E.wcrash (BridgeIngestTransfer.all_writes B3E.Hc B3E.js) /\
  B3E.wcrash <> BridgeIngestTransfer.all_writes B3E.Hc B3E.js /\
  BridgeIngestTransfer.shape_consistent B3E.Hb B3E.bsh B3E.wcrash /\
  (forall c cc, In (c, cc) B3E.cs' -> Transfer.lookup c B3E.cs' = Some cc) /\
  (forall c, In c [] -> Transfer.has c B3E.cs' = true) /\
  TransferSpec.parent_first Transfer.empty_repo B3E.cs' /\
  TransferSpec.compat B3E.src_crash Transfer.empty_repo /\
  TransferSpec.commons_full B3E.src_crash Transfer.empty_repo [] /\
  Transfer.has_table B3E.src_crash B3E.t2 = false /\ length (Transfer.blocks B3E.src_crash) = 3%nat /\
  exists d' packs,
    Transfer.transfer B3E.bsh (fun _ => 2%N) B3E.src_crash B3E.cs' [B3E.t1] [] 1%N Transfer.empty_repo
      = Transfer.TDone d' packs /\
    map (map B3E.kind) packs = [[3]; [3]; [2]; [1]]%N.
Proof.
  exact (conj B3E.js_ok (conj B3E.wcrash_prefix (conj B3E.wcrash_proper (conj B3E.shape_wcrash
        (conj B3E.sent_0 (conj B3E.no_commons' (conj B3E.pf_0 (conj (B3E.compat_empty _)
        (conj (B3E.full_none _ _) B3E.run_crash))))))))).
Qed.
Print Assumptions Compose_ingest_transfer_crash_nonvacuous.

(** Compose_ingested_table_arrives: its extra premises on the same instance (restricted
    injectivity of the block and table ids on the source's objects; the two-block table of
    the first ingest is carried by commit 0, which is sent, and is in tablesToSend). *)
Example Compose_ingested_table_arrives_nonvacuous :
  BridgeIngestTransfer.shape_consistent B3E.Hb B3E.bsh (BridgeIngestTransfer.all_writes B3E.Hc B3E.js) /\
  BridgeIngestTransfer.blocks_inj B3E.Hb (BridgeIngestTransfer.all_writes B3E.Hc B3E.js) (BridgeIngestTransfer.all_writes B3E.Hc B3E.js) /\
  BridgeIngestTransfer.tables_inj B3E.Hb B3E.Hi B3E.Ht (BridgeIngestTransfer.all_writes B3E.Hc B3E.js) (BridgeIngestTransfer.all_writes B3E.Hc B3E.js) /\
  (In B3E.j1 B3E.js /\
   exists T, BridgeIngestTransfer.job_table B3E.Hc B3E.j1 = Some T /\
             B3E.t1 = BridgeIngestTransfer.tid B3E.Hb B3E.Hi B3E.Ht T /\ length (Ingest.t_blocks T) = 2%nat) /\
  (In (0%N, B3E.C0) B3E.cs /\ Transfer.c_table B3E.C0 = B3E.t1) /\ Transfer.memN B3E.t1 [B3E.t1; B3E.t2] = true.
Proof.
  exact (conj B3E.shape_aw (conj B3E.binj_aw (conj B3E.tinj_aw (conj B3E.j1_table
        (conj B3E.c0_sent B3E.memt1))))).
Qed.
Print Assumptions Compose_ingested_table_arrives_nonvacuous.


(** ======================================================================================= *)
(** * B4: C08 -> C09 *)
(** ======================================================================================= *)
(** Bridge B4 (C08 -> C09): the premise [SrvDepth] of C09's depth clause, and "the sender delivers the closed
    set", discharged from C08's theorems for a server that RUNS the ClosedSets model.
    Only statements, each closed by [exact] of a lemma from proofs/BridgeClosedSession_proofs.v.
    (Fragment to be merged into props/Compose.v: no Import of model modules, every name is qualified.)

    THE BRIDGE (model/BridgeClosedSession.v).  C09's sessions (model/Session.v) talk to a reference server
    ([Session.plan]); its depth clause is stated for ARBITRARY packfiles under the named premise
    [Session_proofs.SrvDepth] (C09_tables_partial).  Here the server is C08's transliterated ClosedSetsFinder
    followed by a transliteration of ObjectSender, as harness/c09_server.go assembles them:
      [store_of g o]       abstraction function Session repository -> ClosedSets.store (the commits stored in
                           [o] with the parents / time / table [g] gives them, the tables stored in [o]);
                           GAcyclic g -> ClosedSetsSpec.acyclic, Session's Closed -> ClosedSetsSpec.closed
      [cs_serve]           run_rounds (one Process per request; a refused request ends the session), then
                           CommitsToSend, TablesToSend minus the table ACKs, NewObjectSender(CommonCommmits)
      [send_objs]          ObjectSender: per commit, its table first if selected, not a common table, not yet
                           sent - and silently skipped if the sender does not store it - then the commit
      [cs_negotiate]       Session's client (popHaves batches of k, RemoveAncestors) against the finder
      [cs_fetch_objects], [cs_fetch]   Session.fetch_objects / Session.fetch with that server
    [Session.fetch_objects] itself hard-wires the reference [plan]; its stream is NOT the finder's (the finder
    also sends ancestors of commons reached along common-free paths), so the composition is stated for
    [cs_fetch_objects] and, below it, for C09_tables_partial over arbitrary cuts of [cs_serve]'s stream.

    WHAT IS PROVED
      depth clause, ONE want, any depth, any k / any negotiation (any number of requests, the want in the
        first), any packfile cut, table negotiation on or off: Compose_srv_depth_one_want (= SrvDepth),
        Compose_tables_depth_one_want (C09_tables_partial with SrvDepth discharged), Compose_fetch_depth_one_want
        (whole session, no server premise left), and the cut-independent stream form Compose_table_before_commit.
        Compose_srv_depth_one_round is the one-request case resting DIRECTLY on C08_depth_one_want + C08_sound +
        C08_depth_sound; for several requests C08_depth_one_want does not apply (it speaks of one Process
        call), and the same exactness is re-derived from C08's per-walk lemma (walk_want_facts): the want is
        walked exactly once, against commons that are among the final ones.
      depth clause, ANY number of wants, ANY processing order, depth = 0: Compose_srv_depth0_any_wants,
        Compose_fetch_depth0_any_wants (with depth = 0 a listed commit gets its table in the same step,
        whatever walk lists it).
      RESTRICTION (honest): for depth > 0 and two or more wants the clause is FALSE for this server too -
        Compose_depth_two_wants_refuted replays C08_depth_order_refuted / C09_depth_want_order_refuted through
        the whole composed session (walking want 2 first, want 1 ends without its table).
      order-independent half (C08_order, C08_cover, C08_sound, C08_refuse; any wants, any order, any
        negotiation): Compose_serve_delivers / Compose_fetch_delivers - the stream passes the receiver's gate
        and every want arrives, so once negotiation and NewObjectSender succeed the transfer cannot fail;
        Compose_fetch_objects_closed / Compose_fetch_closed - C09_fetch_objects_closed / C09_fetch_closed for
        the composed server (these need no server premise: the receiver's gate alone).

    HYPOTHESES THAT REMAIN (all about the two stores and the history, none about the server's output)
      sort_fun qsort, order_fun ord   C08's two parameters (sort.Sort returns a permutation; Go map order)
      GAcyclic g                      the history is acyclic (rank witness) - C08's [acyclic]
      Closed g (sender's commits)     the sender's store is complete (C08's [closed]; also: a path from a stored
                                      want stays inside the store)
      Closed g (client's commits), RefsStored   the client's store is Closed and its refs resolve (C09's own
                                      premise; the haves it offers are then stored commits with their tables -
                                      proved for popHaves, a hypothesis [HavesStored] for explicit request lists)
      acked tables are stored by the client (true of negotiateTables; explicit for request lists)
      SenderFull / "the sender is not shallow"   the sender stores the table of every commit of the region:
                                      enqueueTable silently skips a missing table (the reference [plan] has the
                                      same condition [cmem t (o_tables sender)])
      the session is single-want: filter (not stored) advertised = [w]  (depth > 0 only) *)
From Coq Require Import List NArith Bool.
From W.model Require RefUpdate Session ClosedSets ClosedSetsSpec BridgeClosedSession.
From W.proofs Require Session_proofs BridgeClosedSession_proofs.
Import ListNotations.

(** the abstraction function carries Session's hypotheses to the ones C08 needs *)
Theorem Compose_B4_store_acyclic : forall g o,
  BridgeClosedSession.GAcyclic g -> ClosedSetsSpec.acyclic (BridgeClosedSession.store_of g o).
Proof. exact BridgeClosedSession_proofs.store_acyclic. Qed.
Print Assumptions Compose_B4_store_acyclic.

Theorem Compose_B4_store_closed : forall g o,
  Session_proofs.Closed g (Session.o_commits o) -> ClosedSetsSpec.closed (BridgeClosedSession.store_of g o).
Proof. exact BridgeClosedSession_proofs.store_closed. Qed.
Print Assumptions Compose_B4_store_closed.

(** C08 + ObjectSender, cut-independent: when the commit object of a commit [c] of the want's region that the
    client lacks is written, the client already has c's table or the table object was written before it *)
Theorem Compose_table_before_commit : forall qsort ord g remote before depth w h d rest acked stream,
  ClosedSetsSpec.sort_fun qsort -> ClosedSetsSpec.order_fun ord -> BridgeClosedSession.GAcyclic g ->
  Session_proofs.Closed g (Session.o_commits (Session.r_objs remote)) ->
  Session_proofs.Closed g (Session.o_commits before) ->
  Forall (fun r => ClosedSets.r_wants r = []) rest ->
  BridgeClosedSession.HavesStored g before (ClosedSets.mkRound [w] h d :: rest) ->
  (forall t, In t acked -> In t (Session.o_tables before)) ->
  BridgeClosedSession.SenderFull g (Session.r_objs remote) depth [w] ->
  BridgeClosedSession.cs_serve qsort ord g remote depth (ClosedSets.mkRound [w] h d :: rest) acked = Some stream ->
  forall S1 c S2, stream = S1 ++ Session.OCommit c :: S2 ->
    In c (Session_proofs.region g depth w) -> ~ In c (Session.o_commits before) ->
    In (Session.ctbl g c) (Session.o_tables before) \/ In (Session.OTable (Session.ctbl g c)) S1.
Proof. exact BridgeClosedSession_proofs.table_before_commit_final. Qed.
Print Assumptions Compose_table_before_commit.

(** SrvDepth, DISCHARGED for one want: any depth, any list of requests (the want travels with the first), any
    cut of the stream into packfiles, any successful receive loop *)
Theorem Compose_srv_depth_one_want : forall qsort ord g remote before depth w h d rest acked stream packs o' n,
  ClosedSetsSpec.sort_fun qsort -> ClosedSetsSpec.order_fun ord -> BridgeClosedSession.GAcyclic g ->
  Session_proofs.Closed g (Session.o_commits (Session.r_objs remote)) ->
  Session_proofs.Closed g (Session.o_commits before) ->
  Forall (fun r => ClosedSets.r_wants r = []) rest ->
  BridgeClosedSession.HavesStored g before (ClosedSets.mkRound [w] h d :: rest) ->
  (forall t, In t acked -> In t (Session.o_tables before)) ->
  BridgeClosedSession.SenderFull g (Session.r_objs remote) depth [w] ->
  BridgeClosedSession.cs_serve qsort ord g remote depth (ClosedSets.mkRound [w] h d :: rest) acked = Some stream ->
  concat packs = stream ->
  Session.receive_packs g before [w] packs = Some (o', [], n) ->
  Session_proofs.SrvDepth g before [w] depth packs n.
Proof. exact BridgeClosedSession_proofs.srv_depth_one_want_final. Qed.
Print Assumptions Compose_srv_depth_one_want.

(** the one-request case, resting directly on C08_depth_one_want, C08_sound and C08_depth_sound *)
Theorem Compose_srv_depth_one_round : forall qsort ord g remote before depth w h d acked stream packs o' n,
  ClosedSetsSpec.sort_fun qsort -> ClosedSetsSpec.order_fun ord -> BridgeClosedSession.GAcyclic g ->
  Session_proofs.Closed g (Session.o_commits (Session.r_objs remote)) ->
  Session_proofs.Closed g (Session.o_commits before) ->
  BridgeClosedSession.HavesStored g before [ClosedSets.mkRound [w] h d] ->
  (forall t, In t acked -> In t (Session.o_tables before)) ->
  BridgeClosedSession.SenderFull g (Session.r_objs remote) depth [w] ->
  BridgeClosedSession.cs_serve qsort ord g remote depth [ClosedSets.mkRound [w] h d] acked = Some stream ->
  concat packs = stream ->
  Session.receive_packs g before [w] packs = Some (o', [], n) ->
  Session_proofs.SrvDepth g before [w] depth packs n.
Proof. exact BridgeClosedSession_proofs.srv_depth_one_round_final. Qed.
Print Assumptions Compose_srv_depth_one_round.

(** C09_tables_partial with its premise SrvDepth discharged *)
Theorem Compose_tables_depth_one_want : forall qsort ord g remote o depth w h d rest acked stream packs o' n,
  ClosedSetsSpec.sort_fun qsort -> ClosedSetsSpec.order_fun ord -> BridgeClosedSession.GAcyclic g ->
  Session_proofs.Closed g (Session.o_commits (Session.r_objs remote)) ->
  Session_proofs.Closed g (Session.o_commits o) ->
  Forall (fun r => ClosedSets.r_wants r = []) rest ->
  BridgeClosedSession.HavesStored g o (ClosedSets.mkRound [w] h d :: rest) ->
  (forall t, In t acked -> In t (Session.o_tables o)) ->
  BridgeClosedSession.SenderFull g (Session.r_objs remote) depth [w] ->
  BridgeClosedSession.cs_serve qsort ord g remote depth (ClosedSets.mkRound [w] h d :: rest) acked = Some stream ->
  concat packs = stream ->
  Session.receive_packs g o [w] packs = Some (o', [], n) ->
  forall c, In c (Session_proofs.region g depth w) -> ~ In c (Session.o_commits o) ->
            In (Session.ctbl g c) (Session.o_tables o').
Proof. exact BridgeClosedSession_proofs.tables_depth_one_want. Qed.
Print Assumptions Compose_tables_depth_one_want.

(** C09's depth clause for single-want fetch sessions against the finder + sender: NO server premise.
    For every k (haves per request), packfile size p, depth, table negotiation on or off. *)
Theorem Compose_fetch_depth_one_want : forall qsort ord g local remote adv depth k p tn w o' rounds n,
  ClosedSetsSpec.sort_fun qsort -> ClosedSetsSpec.order_fun ord -> BridgeClosedSession.GAcyclic g ->
  Session_proofs.Closed g (Session.o_commits (Session.r_objs remote)) ->
  Session_proofs.Closed g (Session.o_commits (Session.r_objs local)) ->
  BridgeClosedSession.RefsStored (Session.r_objs local) (Session.r_refs local) ->
  filter (fun c => negb (RefUpdate.cmem c (Session.o_commits (Session.r_objs local)))) adv = [w] ->
  BridgeClosedSession.SenderFull g (Session.r_objs remote) depth [w] ->
  BridgeClosedSession.cs_fetch_objects qsort ord g local remote adv depth k p tn = Session.FDone o' rounds n ->
  forall c, In c (Session_proofs.region g depth w) -> ~ In c (Session.o_commits (Session.r_objs local)) ->
            In (Session.ctbl g c) (Session.o_tables o').
Proof. exact BridgeClosedSession_proofs.fetch_depth_one_want. Qed.
Print Assumptions Compose_fetch_depth_one_want.

(** depth = 0: SrvDepth for ANY wants, ANY processing order, ANY list of requests *)
Theorem Compose_srv_depth0_any_wants : forall qsort ord g remote before rs acked stream wants packs o' n,
  ClosedSetsSpec.sort_fun qsort -> ClosedSetsSpec.order_fun ord -> BridgeClosedSession.GAcyclic g ->
  Session_proofs.Closed g (Session.o_commits (Session.r_objs remote)) ->
  Session_proofs.Closed g (Session.o_commits before) ->
  BridgeClosedSession.HavesStored g before rs ->
  (forall t, In t acked -> In t (Session.o_tables before)) ->
  BridgeClosedSession.SenderFullAnc g (Session.r_objs remote) rs ->
  BridgeClosedSession.cs_serve qsort ord g remote 0 rs acked = Some stream ->
  concat packs = stream ->
  Session.receive_packs g before wants packs = Some (o', [], n) ->
  Session_proofs.SrvDepth g before wants 0 packs n.
Proof. exact BridgeClosedSession_proofs.srv_depth0_any_wants. Qed.
Print Assumptions Compose_srv_depth0_any_wants.

Theorem Compose_fetch_depth0_any_wants : forall qsort ord g local remote adv k p tn o' rounds n,
  ClosedSetsSpec.sort_fun qsort -> ClosedSetsSpec.order_fun ord -> BridgeClosedSession.GAcyclic g ->
  Session_proofs.Closed g (Session.o_commits (Session.r_objs remote)) ->
  Session_proofs.Closed g (Session.o_commits (Session.r_objs local)) ->
  BridgeClosedSession.RefsStored (Session.r_objs local) (Session.r_refs local) ->
  (forall c, In c (Session.o_commits (Session.r_objs remote)) ->
             In (Session.ctbl g c) (Session.o_tables (Session.r_objs remote))) ->
  BridgeClosedSession.cs_fetch_objects qsort ord g local remote adv 0 k p tn = Session.FDone o' rounds n ->
  forall w, In w adv -> ~ In w (Session.o_commits (Session.r_objs local)) ->
  forall c, In c (Session_proofs.region g 0 w) -> ~ In c (Session.o_commits (Session.r_objs local)) ->
            In (Session.ctbl g c) (Session.o_tables o').
Proof. exact BridgeClosedSession_proofs.fetch_depth0_any_wants. Qed.
Print Assumptions Compose_fetch_depth0_any_wants.

(** REFUTED for depth > 0 with two wants (the known finding, through the whole composed session): history
    0 <- 1 <- 2, refs on 2 and 1, empty client, depth 1.  Walking want 2 first the session SUCCEEDS and want 1 -
    in its own region - has no table; walking want 1 first both tables arrive. *)
Theorem Compose_depth_two_wants_refuted :
  BridgeClosedSession.cs_fetch_objects ClosedSets.isort_time (ClosedSets.ord_of 0) Session_proofs.wo_g
      BridgeClosedSession_proofs.b4_wo_local BridgeClosedSession_proofs.b4_wo_remote [2%N; 1%N] 1 256 2000 false
    = Session.FDone (Session.mk_objs [0%N; 1%N; 2%N] [3%N]) 1 1 /\
  BridgeClosedSession.cs_fetch_objects ClosedSets.isort_time (ClosedSets.ord_of 1) Session_proofs.wo_g
      BridgeClosedSession_proofs.b4_wo_local BridgeClosedSession_proofs.b4_wo_remote [2%N; 1%N] 1 256 2000 false
    = Session.FDone (Session.mk_objs [0%N; 1%N; 2%N] [2%N; 3%N]) 1 1 /\
  In 1%N (Session_proofs.region Session_proofs.wo_g 1 1%N) /\
  ~ In 1%N (Session.o_commits (Session.r_objs BridgeClosedSession_proofs.b4_wo_local)) /\
  ~ In (Session.ctbl Session_proofs.wo_g 1%N) [3%N].
Proof. exact BridgeClosedSession_proofs.depth_two_wants_refuted. Qed.
Print Assumptions Compose_depth_two_wants_refuted.

(** "the sender delivers the closed set" (C08_order + C08_cover + C08_sound + C08_refuse -> C09's receiver):
    any wants, any processing order, any negotiation, any cut - the gate never refuses a packfile and the
    receive loop ends with nothing expected *)
Theorem Compose_serve_delivers : forall qsort ord g remote o depth rs acked stream wants packs,
  ClosedSetsSpec.sort_fun qsort -> ClosedSetsSpec.order_fun ord -> BridgeClosedSession.GAcyclic g ->
  Session_proofs.Closed g (Session.o_commits (Session.r_objs remote)) ->
  Session_proofs.Closed g (Session.o_commits o) ->
  BridgeClosedSession.HavesStored g o rs ->
  BridgeClosedSession.cs_serve qsort ord g remote depth rs acked = Some stream ->
  wants <> [] ->
  (forall w, In w wants -> ~ In w (Session.o_commits o) /\ exists r, In r rs /\ In w (ClosedSets.r_wants r)) ->
  concat packs = stream ->
  exists o' n, Session.receive_packs g o wants packs = Some (o', [], n).
Proof. exact BridgeClosedSession_proofs.serve_delivers. Qed.
Print Assumptions Compose_serve_delivers.

(** once negotiation and NewObjectSender succeed, fetchObjects cannot fail *)
Theorem Compose_fetch_delivers : forall qsort ord g local remote adv depth k p (tn : bool) f rs stream,
  ClosedSetsSpec.sort_fun qsort -> ClosedSetsSpec.order_fun ord -> BridgeClosedSession.GAcyclic g ->
  Session_proofs.Closed g (Session.o_commits (Session.r_objs remote)) ->
  Session_proofs.Closed g (Session.o_commits (Session.r_objs local)) ->
  BridgeClosedSession.RefsStored (Session.r_objs local) (Session.r_refs local) ->
  filter (fun c => negb (RefUpdate.cmem c (Session.o_commits (Session.r_objs local)))) adv <> [] ->
  BridgeClosedSession.cs_negotiate qsort ord g (Session.r_objs local)
      (BridgeClosedSession.store_of g (Session.r_objs remote)) (Session.ref_values (Session.r_refs remote))
      (filter (fun c => negb (RefUpdate.cmem c (Session.o_commits (Session.r_objs local)))) adv) k (S (length g))
      (Session.q_new g (Session.ref_values (Session.r_refs local))) (ClosedSets.new_finder depth) [] = Some (f, rs) ->
  BridgeClosedSession.cs_send ord (BridgeClosedSession.store_of g (Session.r_objs remote)) f
      (if tn then Session.o_tables (Session.r_objs local) else []) = Some stream ->
  exists o' n, BridgeClosedSession.cs_fetch_objects qsort ord g local remote adv depth k p tn
               = Session.FDone o' (length rs) n.
Proof. exact BridgeClosedSession_proofs.cs_fetch_objects_delivers. Qed.
Print Assumptions Compose_fetch_delivers.

(** C09_fetch_objects_closed / C09_fetch_closed for the composed server *)
Theorem Compose_fetch_objects_closed : forall qsort ord g local remote adv depth k p tn o' rounds n,
  Session_proofs.Closed g (Session.o_commits (Session.r_objs local)) ->
  BridgeClosedSession.cs_fetch_objects qsort ord g local remote adv depth k p tn = Session.FDone o' rounds n ->
  Session_proofs.Closed g (Session.o_commits o') /\
  incl (Session.o_commits (Session.r_objs local)) (Session.o_commits o') /\
  incl (Session.o_tables (Session.r_objs local)) (Session.o_tables o') /\
  forall w, In w adv -> In w (Session.o_commits o') /\
                        forall a, RefUpdate.anc (Session.to_graph g) a w -> In a (Session.o_commits o').
Proof. exact BridgeClosedSession_proofs.cs_fetch_objects_closed. Qed.
Print Assumptions Compose_fetch_objects_closed.

Theorem Compose_fetch_closed : forall qsort ord g local remote specs gforce depth k p tn,
  Session_proofs.Closed g (Session.o_commits (Session.r_objs local)) ->
  let '(out, l') := BridgeClosedSession.cs_fetch qsort ord g local remote specs gforce depth k p tn in
  Session_proofs.Closed g (Session.o_commits (Session.r_objs l')) /\
  incl (Session.o_commits (Session.r_objs local)) (Session.o_commits (Session.r_objs l')) /\
  incl (Session.o_tables (Session.r_objs local)) (Session.o_tables (Session.r_objs l')) /\
  forall n c, RefUpdate.rget (Session.r_refs l') n = Some c -> RefUpdate.rget (Session.r_refs local) n <> Some c ->
              In c (Session.o_commits (Session.r_objs l')) /\
              forall a, RefUpdate.anc (Session.to_graph g) a c -> In a (Session.o_commits (Session.r_objs l')).
Proof. exact BridgeClosedSession_proofs.cs_fetch_closed. Qed.
Print Assumptions Compose_fetch_closed.

(** non-vacuity.  History 0 <- 1 <- 2, 5 <- 6, 7 = merge(2, 6) (tables 1,2,3,6,7,8); the client has 0,1, the
    server everything; want 7, depth 2, k = 1, one object per packfile.  Every hypothesis of the one-want
    theorems holds; the session takes TWO negotiation rounds (the finder defers the walk in the first) and
    seven packfiles; the region {7, 2, 6} gets its tables 8, 3, 7 and the table 6 of commit 5 - beyond the
    depth - does not come: the conclusion is not trivially true.  (The reference-server session of C09 stores
    the same tables.) *)
Theorem Compose_B4_example_hyps :
  ClosedSetsSpec.sort_fun ClosedSets.isort_time /\ ClosedSetsSpec.order_fun (ClosedSets.ord_of 0) /\
  BridgeClosedSession.GAcyclic BridgeClosedSession_proofs.b4_g /\
  Session_proofs.Closed BridgeClosedSession_proofs.b4_g (Session.o_commits (Session.r_objs BridgeClosedSession_proofs.b4_remote)) /\
  Session_proofs.Closed BridgeClosedSession_proofs.b4_g (Session.o_commits (Session.r_objs BridgeClosedSession_proofs.b4_local)) /\
  BridgeClosedSession.RefsStored (Session.r_objs BridgeClosedSession_proofs.b4_local) (Session.r_refs BridgeClosedSession_proofs.b4_local) /\
  filter (fun c => negb (RefUpdate.cmem c (Session.o_commits (Session.r_objs BridgeClosedSession_proofs.b4_local)))) [7%N] = [7%N] /\
  BridgeClosedSession.SenderFull BridgeClosedSession_proofs.b4_g (Session.r_objs BridgeClosedSession_proofs.b4_remote) 2 [7%N] /\
  BridgeClosedSession.HavesStored BridgeClosedSession_proofs.b4_g (Session.r_objs BridgeClosedSession_proofs.b4_local)
    BridgeClosedSession_proofs.b4_rounds.
Proof. exact BridgeClosedSession_proofs.b4_hyps. Qed.
Print Assumptions Compose_B4_example_hyps.

Theorem Compose_B4_example_serve :
  BridgeClosedSession.cs_serve ClosedSets.isort_time (ClosedSets.ord_of 0) BridgeClosedSession_proofs.b4_g
    BridgeClosedSession_proofs.b4_remote 2 BridgeClosedSession_proofs.b4_rounds [] = Some BridgeClosedSession_proofs.b4_stream /\
  concat (Session.chunk 1 BridgeClosedSession_proofs.b4_stream) = BridgeClosedSession_proofs.b4_stream /\
  Session.receive_packs BridgeClosedSession_proofs.b4_g (Session.r_objs BridgeClosedSession_proofs.b4_local) [7%N]
    (Session.chunk 1 BridgeClosedSession_proofs.b4_stream)
    = Some (Session.mk_objs [0%N; 1%N; 5%N; 6%N; 2%N; 7%N] [1%N; 2%N; 7%N; 3%N; 8%N], [], 7%nat).
Proof. exact BridgeClosedSession_proofs.b4_serve. Qed.
Print Assumptions Compose_B4_example_serve.

Theorem Compose_B4_example_fetch :
  BridgeClosedSession.cs_fetch_objects ClosedSets.isort_time (ClosedSets.ord_of 0) BridgeClosedSession_proofs.b4_g
    BridgeClosedSession_proofs.b4_local BridgeClosedSession_proofs.b4_remote [7%N] 2 1 1 false
    = Session.FDone (Session.mk_objs [0%N; 1%N; 5%N; 6%N; 2%N; 7%N] [1%N; 2%N; 7%N; 3%N; 8%N]) 2 7 /\
  Session_proofs.region BridgeClosedSession_proofs.b4_g 2 7%N = [7%N; 2%N; 6%N] /\
  map (Session.ctbl BridgeClosedSession_proofs.b4_g) (Session_proofs.region BridgeClosedSession_proofs.b4_g 2 7%N)
    = [8%N; 3%N; 7%N] /\
  Session.ctbl BridgeClosedSession_proofs.b4_g 5%N = 6%N /\
  Session.fetch_objects BridgeClosedSession_proofs.b4_g BridgeClosedSession_proofs.b4_local
    BridgeClosedSession_proofs.b4_remote [7%N] 2 1 1 false
    = Session.FDone (Session.mk_objs [0%N; 1%N; 2%N; 5%N; 6%N; 7%N] [1%N; 2%N; 3%N; 7%N; 8%N]) 2 7.
Proof. exact BridgeClosedSession_proofs.b4_fetch. Qed.
Print Assumptions Compose_B4_example_fetch.

(** the premises of Compose_fetch_delivers on the same instance *)
Theorem Compose_B4_example_negotiated :
  exists f,
    BridgeClosedSession.cs_negotiate ClosedSets.isort_time (ClosedSets.ord_of 0) BridgeClosedSession_proofs.b4_g
      (Session.r_objs BridgeClosedSession_proofs.b4_local)
      (BridgeClosedSession.store_of BridgeClosedSession_proofs.b4_g (Session.r_objs BridgeClosedSession_proofs.b4_remote))
      (Session.ref_values (Session.r_refs BridgeClosedSession_proofs.b4_remote)) [7%N] 1
      (S (length BridgeClosedSession_proofs.b4_g))
      (Session.q_new BridgeClosedSession_proofs.b4_g (Session.ref_values (Session.r_refs BridgeClosedSession_proofs.b4_local)))
      (ClosedSets.new_finder 2) []
      = Some (f, BridgeClosedSession_proofs.b4_rounds) /\
    BridgeClosedSession.cs_send (ClosedSets.ord_of 0)
      (BridgeClosedSession.store_of BridgeClosedSession_proofs.b4_g (Session.r_objs BridgeClosedSession_proofs.b4_remote))
      f [] = Some BridgeClosedSession_proofs.b4_stream.
Proof. exact BridgeClosedSession_proofs.b4_negotiated. Qed.
Print Assumptions Compose_B4_example_negotiated.

(** two wants (history 0 <- 1 <- 2, refs on 2 and 1, empty client): the hypotheses of the depth-0 theorem hold
    and both processing orders deliver every table *)
Theorem Compose_B4_example_two_wants_hyps :
  BridgeClosedSession.GAcyclic Session_proofs.wo_g /\
  Session_proofs.Closed Session_proofs.wo_g (Session.o_commits (Session.r_objs BridgeClosedSession_proofs.b4_wo_remote)) /\
  Session_proofs.Closed Session_proofs.wo_g (Session.o_commits (Session.r_objs BridgeClosedSession_proofs.b4_wo_local)) /\
  BridgeClosedSession.RefsStored (Session.r_objs BridgeClosedSession_proofs.b4_wo_local)
    (Session.r_refs BridgeClosedSession_proofs.b4_wo_local) /\
  (forall c, In c (Session.o_commits (Session.r_objs BridgeClosedSession_proofs.b4_wo_remote)) ->
             In (Session.ctbl Session_proofs.wo_g c) (Session.o_tables (Session.r_objs BridgeClosedSession_proofs.b4_wo_remote))).
Proof. exact BridgeClosedSession_proofs.b4_wo_hyps. Qed.
Print Assumptions Compose_B4_example_two_wants_hyps.

Theorem Compose_B4_example_two_wants_depth0 :
  BridgeClosedSession.cs_fetch_objects ClosedSets.isort_time (ClosedSets.ord_of 0) Session_proofs.wo_g
      BridgeClosedSession_proofs.b4_wo_local BridgeClosedSession_proofs.b4_wo_remote [2%N; 1%N] 0 256 2000 false
    = Session.FDone (Session.mk_objs [0%N; 1%N; 2%N] [1%N; 2%N; 3%N]) 1 1 /\
  BridgeClosedSession.cs_fetch_objects ClosedSets.isort_time (ClosedSets.ord_of 1) Session_proofs.wo_g
      BridgeClosedSession_proofs.b4_wo_local BridgeClosedSession_proofs.b4_wo_remote [2%N; 1%N] 0 256 2000 false
    = Session.FDone (Session.mk_objs [0%N; 1%N; 2%N] [1%N; 2%N; 3%N]) 1 1.
Proof. exact BridgeClosedSession_proofs.b4_wo_depth0. Qed.
Print Assumptions Compose_B4_example_two_wants_depth0.


(** ======================================================================================= *)
(** * B5: C20 -> C05 *)
(** ======================================================================================= *)
(** Composition fragment B5 (C20 -> C05): the merge collector's discarded-key set is the
    on-disk hash set of C20.  Only statements, each closed by [exact] of a lemma from
    proofs/BridgeHashSetMerge_proofs.v.

    THE GAP.  model/Merge.v (C05) represents the collector's [discardedRows *index.HashSet]
    by a list of key-cell lists queried with [existsb (keqb ..)], "justified by C20" in a
    comment only; C20 (model/HashSet.v) proves, separately, that the file-backed hash set
    refines an abstract set of 128-bit numbers.  Nothing connected the two.

    THE BRIDGE.  model/BridgeHashSetMerge.v re-states the collector ([hs_collected_rows],
    [hs_result_rows], [hs_run_merge]: copies of Merge.collected_rows / result_rows / run_merge
    that differ ONLY in how the untouched base rows are selected) on top of the C20
    implementation model: the call sequence of pkg/merge/row_collector.go
        NewHashSet(f, bsz); Add(sum k) for every discarded key k; Flush();
        Has(sum (key cells of r)) for every base row r, row re-added iff the answer is false
    is executed by [HashSet.run_ops (HashSet.hs_new bsz)], any [RErr] output fails the
    collector.  Proved:
      - Compose_discard_refines   that run is the abstract-set run (instance of C20_refines);
      - Compose_discard_set       all Adds and the Flush succeed and the i-th Has answers list
                                  membership of the i-th queried key among the added keys, i.e.
                                  exactly the semantics Merge.v gives its [discarded] list;
      - Compose_discard_member    the same for one query, derived from C20_member itself;
      - Compose_discard_any_order the order and multiplicity of the Add calls are irrelevant
                                  (Go map iteration order; collector goroutine vs caller);
      - Compose_merge_run_eq      [hs_run_merge] = [Merge.run_merge] for ALL inputs (every layout,
                                  keyless or not, any policy, both result paths) - so every
                                  statement of props/C05.v about [run_merge] (including the
                                  refuted clauses) holds verbatim for the collector on the hash set;
      - Compose_merge_*           the table-level theorems of C05 restated on [hs_run_merge]:
                                  they no longer rest on the informal remark.

    REMAINING HYPOTHESES (explicit premises; [hk] and [bsz] are universally quantified):
      - [sums_ok hk (merge_keys base others)]: on the finitely many keys whose sums reach the
        hash set in this merge (keys of the Merge records + key cells of the base rows) the
        key sum [hk] is below 2^128 (C20's [wf_hash]: a 16-byte value) and collision-free.
        This replaces "key sums are injective": global injectivity into 16 bytes is
        unsatisfiable, so it is demanded on the keys of the merge at hand only.  Both parts
        are needed (Compose_collision_matters, Compose_wide_sum_matters).
      - [keyless_ok base others] (general bridge only; implied by C05's guard): if the base
        has no key column, no discarded key is the empty cell list.  The Go code then queries
        the sum of the empty cell list, which Merge.v short-cuts to "never found"; on a
        keyless table WITHOUT columns the two legitimately differ
        (Compose_keyless_empty_row_differs), so the bridge is restricted there.
      - the C05 theorems keep their own premises ([guard], [policy < 2]).
    ASSUMED BY THE MODELS, not by these theorems' premises: the file behaves as modelled in
    HashSet.v (reads return what was written, a write past the end zero-fills, no I/O error:
    C20 proves that no operation of the model errs, a failing disk is outside it); Add / Flush /
    Has are called sequentially (the Go HashSet.Add is not synchronised); [hk] stands for
    meow128 over the strlist encoding of the cells, the same function for Add (diff's key sum,
    for keyless tables the row sum) and Has - MeowHash itself never enters Coq.
    Any batch size [bsz] (0 selects 1024, CreateRowCollector passes 0). *)
From W.lib Require Tree Bytes GoSlice.
From W.model Require ColDiff Merge MergeSpec HashSet HashSetSpec BridgeHashSetMerge.
From W.proofs Require HashSet_proofs Merge_witness_proofs BridgeHashSetMerge_proofs.
From Coq Require Import List NArith Permutation Sorting.Sorted.
Import ListNotations.

(** ---------- set level: the collector's call sequence on the C20 model ---------- *)

(** the implementation run of the collector's sequence is the run of C20's abstract set *)
Theorem Compose_discard_refines :
  forall (hk : list Tree.bytes -> HashSet.hash) (bsz : nat) (adds queries : list (list Tree.bytes)),
  (forall k, In k (adds ++ queries) -> HashSetSpec.wf_hash (hk k)) ->
  BridgeHashSetMerge.discard_outs hk bsz adds queries
  = HashSetSpec.spec_run (HashSetSpec.spec_new bsz) (BridgeHashSetMerge.discard_ops hk adds queries).
Proof. exact BridgeHashSetMerge_proofs.discard_outs_refines. Qed.
Print Assumptions Compose_discard_refines.

(** ... its Has answers are [HashSetSpec.mem] on the flushed content of the abstract set *)
Theorem Compose_discard_mem :
  forall (hk : list Tree.bytes -> HashSet.hash) (bsz : nat) (adds queries : list (list Tree.bytes)),
  (forall k, In k (adds ++ queries) -> HashSetSpec.wf_hash (hk k)) ->
  BridgeHashSetMerge.discard_outs hk bsz adds queries
  = repeat HashSet.RUnit (S (length adds)) ++
    map (fun q => HashSet.RBool (HashSetSpec.mem (hk q)
                    (BridgeHashSetMerge_proofs.flushed bsz (map hk adds)))) queries.
Proof. exact BridgeHashSetMerge_proofs.discard_outs_mem. Qed.
Print Assumptions Compose_discard_mem.

(** ... which is Merge.v's semantics of the discarded list: no call errs, and every Has
    answers "the queried key is one of the added keys" *)
Theorem Compose_discard_set :
  forall (hk : list Tree.bytes -> HashSet.hash) (bsz : nat) (adds queries : list (list Tree.bytes)),
  BridgeHashSetMerge.sums_ok hk (adds ++ queries) ->
  BridgeHashSetMerge.discard_outs hk bsz adds queries
  = repeat HashSet.RUnit (S (length adds)) ++
    map (fun q => HashSet.RBool (existsb (Bytes.keqb q) adds)) queries.
Proof. exact BridgeHashSetMerge_proofs.discard_outs_set. Qed.
Print Assumptions Compose_discard_set.

(** one query, in the shape of C20_member and proved from it *)
Theorem Compose_discard_member :
  forall (hk : list Tree.bytes -> HashSet.hash) (bsz : nat) (adds : list (list Tree.bytes)) (q : list Tree.bytes),
  BridgeHashSetMerge.sums_ok hk (q :: adds) ->
  last (BridgeHashSetMerge.discard_outs hk bsz adds [q]) HashSet.RErr
  = HashSet.RBool (existsb (Bytes.keqb q) adds).
Proof. exact BridgeHashSetMerge_proofs.discard_member. Qed.
Print Assumptions Compose_discard_member.

(** the untouched rows selected through the hash set are those Merge.v selects *)
Theorem Compose_discard_untouched :
  forall (hk : list Tree.bytes -> HashSet.hash) (bsz : nat)
         (adds : list (list Tree.bytes)) (idx : list nat) (rows : list Merge.row),
  BridgeHashSetMerge.sums_ok hk (adds ++ map (Merge.pick idx) rows) ->
  BridgeHashSetMerge.hs_untouched hk bsz adds idx rows
  = GoSlice.Ok (filter (fun r => negb (existsb (Bytes.keqb (Merge.pick idx r)) adds)) rows).
Proof. exact BridgeHashSetMerge_proofs.hs_untouched_eq. Qed.
Print Assumptions Compose_discard_untouched.

(** the order in which the keys are added, and adding a key twice, change nothing *)
Theorem Compose_discard_any_order :
  forall (hk : list Tree.bytes -> HashSet.hash) (bsz : nat)
         (adds adds' : list (list Tree.bytes)) (idx : list nat) (rows : list Merge.row),
  (forall k, In k adds <-> In k adds') ->
  BridgeHashSetMerge.sums_ok hk (adds ++ map (Merge.pick idx) rows) ->
  BridgeHashSetMerge.hs_untouched hk bsz adds' idx rows = BridgeHashSetMerge.hs_untouched hk bsz adds idx rows.
Proof. exact BridgeHashSetMerge_proofs.hs_untouched_any_order. Qed.
Print Assumptions Compose_discard_any_order.

(** decidable form of the premise, for concrete instances *)
Theorem Compose_sums_okb :
  forall (hk : list Tree.bytes -> HashSet.hash) (ks : list (list Tree.bytes)),
  BridgeHashSetMerge.sums_okb hk ks = true -> BridgeHashSetMerge.sums_ok hk ks.
Proof. exact BridgeHashSetMerge_proofs.sums_okb_ok. Qed.
Print Assumptions Compose_sums_okb.

(** ---------- merge level: model/Merge.v's collector = the collector on the hash set ---------- *)

Theorem Compose_merge_collector :
  forall (hk : list Tree.bytes -> HashSet.hash) (bsz : nat)
         (base : Merge.table) (others : list Merge.table) (recs : list Merge.keyrec) (policy : nat),
  BridgeHashSetMerge.sums_ok hk (BridgeHashSetMerge.merge_keys base others) ->
  BridgeHashSetMerge.keyless_ok base others ->
  (forall kr, In kr recs -> In (Merge.k_key kr) (Merge.all_keys base others)) ->
  BridgeHashSetMerge.hs_collected_rows hk bsz base recs policy
  = GoSlice.Ok (Merge.collected_rows base recs policy).
Proof. exact BridgeHashSetMerge_proofs.hs_collected_rows_eq. Qed.
Print Assumptions Compose_merge_collector.

(** every input: any layouts, keyed or keyless, any policy, SortedRows and SortedBlocks *)
Theorem Compose_merge_run_eq :
  forall (hk : list Tree.bytes -> HashSet.hash) (bsz : nat)
         (base : Merge.table) (others : list Merge.table) (policy remmode : nat) (blocks : bool),
  BridgeHashSetMerge.sums_ok hk (BridgeHashSetMerge.merge_keys base others) ->
  BridgeHashSetMerge.keyless_ok base others ->
  BridgeHashSetMerge.hs_run_merge hk bsz base others policy remmode blocks
  = Merge.run_merge base others policy remmode blocks.
Proof. exact BridgeHashSetMerge_proofs.hs_run_merge_eq. Qed.
Print Assumptions Compose_merge_run_eq.

(** C05's guard implies the keyless side condition *)
Theorem Compose_guard_keyless_ok :
  forall cols pk base others others',
  MergeSpec.guard cols pk base others -> BridgeHashSetMerge.keyless_ok base others'.
Proof. exact BridgeHashSetMerge_proofs.guard_keyless_ok. Qed.
Print Assumptions Compose_guard_keyless_ok.

(** ---------- the table-level theorems of C05, collector on the C20 hash set ---------- *)

(** C05_merge_guard_partial *)
Theorem Compose_merge_guard_partial :
  forall (hk : list Tree.bytes -> HashSet.hash) (bsz : nat) cols pk base others policy remmode blocks,
  BridgeHashSetMerge.sums_ok hk (BridgeHashSetMerge.merge_keys base others) ->
  MergeSpec.guard cols pk base others -> policy < 2 ->
  exists o, BridgeHashSetMerge.hs_run_merge hk bsz base others policy remmode blocks = GoSlice.Ok o /\
    Merge.mo_cols o = cols /\ ColDiff.cd_names (Merge.mo_cd o) = cols /\
    forall r, In r (Merge.mo_rows o) <->
              exists k, MergeSpec.table_keys pk base others k /\
                        MergeSpec.final_row cols base others policy k = Some r.
Proof. exact BridgeHashSetMerge_proofs.hs_merge_guard. Qed.
Print Assumptions Compose_merge_guard_partial.

(** C05_result_sorted *)
Theorem Compose_merge_result_sorted :
  forall (hk : list Tree.bytes -> HashSet.hash) (bsz : nat) cols pk base others policy remmode blocks o,
  BridgeHashSetMerge.sums_ok hk (BridgeHashSetMerge.merge_keys base others) ->
  MergeSpec.guard cols pk base others -> policy < 2 ->
  BridgeHashSetMerge.hs_run_merge hk bsz base others policy remmode blocks = GoSlice.Ok o ->
  StronglySorted (fun a b => Bytes.klt (MergeSpec.kf (length pk) a) (MergeSpec.kf (length pk) b) = true)
                 (Merge.mo_rows o).
Proof. exact BridgeHashSetMerge_proofs.hs_result_sorted. Qed.
Print Assumptions Compose_merge_result_sorted.

(** C05_identity *)
Theorem Compose_merge_identity :
  forall (hk : list Tree.bytes -> HashSet.hash) (bsz : nat) cols pk base X policy remmode blocks,
  BridgeHashSetMerge.sums_ok hk (BridgeHashSetMerge.merge_keys base [X; base]) ->
  MergeSpec.guard cols pk base [X; base] -> policy < 2 ->
  exists o, BridgeHashSetMerge.hs_run_merge hk bsz base [X; base] policy remmode blocks = GoSlice.Ok o /\
    Merge.mo_cols o = cols /\ forall r, In r (Merge.mo_rows o) <-> In r (Merge.t_rows X).
Proof. exact BridgeHashSetMerge_proofs.hs_identity. Qed.
Print Assumptions Compose_merge_identity.

(** C05_identity_left *)
Theorem Compose_merge_identity_left :
  forall (hk : list Tree.bytes -> HashSet.hash) (bsz : nat) cols pk base X policy remmode blocks,
  BridgeHashSetMerge.sums_ok hk (BridgeHashSetMerge.merge_keys base [base; X]) ->
  MergeSpec.guard cols pk base [base; X] -> policy < 2 ->
  exists o, BridgeHashSetMerge.hs_run_merge hk bsz base [base; X] policy remmode blocks = GoSlice.Ok o /\
    Merge.mo_cols o = cols /\ forall r, In r (Merge.mo_rows o) <-> In r (Merge.t_rows X).
Proof. exact BridgeHashSetMerge_proofs.hs_identity_left. Qed.
Print Assumptions Compose_merge_identity_left.

(** C05_idem *)
Theorem Compose_merge_idem :
  forall (hk : list Tree.bytes -> HashSet.hash) (bsz : nat) cols pk base X policy remmode blocks,
  BridgeHashSetMerge.sums_ok hk (BridgeHashSetMerge.merge_keys base [X; X]) ->
  MergeSpec.guard cols pk base [X; X] -> policy < 2 ->
  exists o, BridgeHashSetMerge.hs_run_merge hk bsz base [X; X] policy remmode blocks = GoSlice.Ok o /\
    Merge.mo_cols o = cols /\ forall r, In r (Merge.mo_rows o) <-> In r (Merge.t_rows X).
Proof. exact BridgeHashSetMerge_proofs.hs_idem. Qed.
Print Assumptions Compose_merge_idem.

(** C05_disjoint *)
Theorem Compose_merge_disjoint :
  forall (hk : list Tree.bytes -> HashSet.hash) (bsz : nat) cols pk base X Y policy remmode blocks,
  BridgeHashSetMerge.sums_ok hk (BridgeHashSetMerge.merge_keys base [X; Y]) ->
  MergeSpec.guard cols pk base [X; Y] -> policy < 2 ->
  (forall k, MergeSpec.disjoint_at (length cols) (Merge.lookup base k) (Merge.lookup X k) (Merge.lookup Y k)) ->
  exists o, BridgeHashSetMerge.hs_run_merge hk bsz base [X; Y] policy remmode blocks = GoSlice.Ok o /\
    Merge.mo_cols o = cols /\
    Forall (fun kr => Merge.r_resolved (Merge.k_res kr) = true) (Merge.mo_recs o) /\
    forall r, In r (Merge.mo_rows o) <->
      exists k, MergeSpec.table_keys pk base [X; Y] k /\
                MergeSpec.combined (length cols) (Merge.lookup base k) (Merge.lookup X k) (Merge.lookup Y k) = Some r.
Proof. exact BridgeHashSetMerge_proofs.hs_disjoint. Qed.
Print Assumptions Compose_merge_disjoint.

(** C05_untouched_rows *)
Theorem Compose_merge_untouched_rows :
  forall (hk : list Tree.bytes -> HashSet.hash) (bsz : nat) cols pk base others policy remmode blocks r,
  BridgeHashSetMerge.sums_ok hk (BridgeHashSetMerge.merge_keys base others) ->
  MergeSpec.guard cols pk base others -> policy < 2 ->
  In r (Merge.t_rows base) -> (forall o, In o others -> In r (Merge.t_rows o)) ->
  exists o, BridgeHashSetMerge.hs_run_merge hk bsz base others policy remmode blocks = GoSlice.Ok o /\
    Merge.mo_cols o = cols /\ In r (Merge.mo_rows o).
Proof. exact BridgeHashSetMerge_proofs.hs_untouched_rows. Qed.
Print Assumptions Compose_merge_untouched_rows.

(** C05_untouched_cells *)
Theorem Compose_merge_untouched_cells :
  forall (hk : list Tree.bytes -> HashSet.hash) (bsz : nat) cols pk base others policy remmode blocks br i,
  BridgeHashSetMerge.sums_ok hk (BridgeHashSetMerge.merge_keys base others) ->
  MergeSpec.guard cols pk base others -> policy < 2 ->
  In br (Merge.t_rows base) -> i < length cols ->
  (forall o, In o others -> exists ro, Merge.lookup o (MergeSpec.kf (length pk) br) = Some ro /\
                                       nth i ro [] = nth i br []) ->
  exists o, BridgeHashSetMerge.hs_run_merge hk bsz base others policy remmode blocks = GoSlice.Ok o /\
    forall r, In r (Merge.mo_rows o) -> MergeSpec.kf (length pk) r = MergeSpec.kf (length pk) br ->
              nth i r [] = nth i br [].
Proof. exact BridgeHashSetMerge_proofs.hs_untouched_cells. Qed.
Print Assumptions Compose_merge_untouched_cells.

(** C05_order (the premise on the key sums is needed for one listing only: the keys reaching
    the hash set do not depend on the order of the branches) *)
Theorem Compose_merge_order :
  forall (hk : list Tree.bytes -> HashSet.hash) (bsz : nat) cols pk base others others' policy remmode blocks,
  BridgeHashSetMerge.sums_ok hk (BridgeHashSetMerge.merge_keys base others) ->
  MergeSpec.guard cols pk base others -> Permutation others others' -> policy < 2 ->
  exists o o', BridgeHashSetMerge.hs_run_merge hk bsz base others policy remmode blocks = GoSlice.Ok o /\
               BridgeHashSetMerge.hs_run_merge hk bsz base others' policy remmode blocks = GoSlice.Ok o' /\
               Merge.mo_cols o = Merge.mo_cols o' /\
               forall r, In r (Merge.mo_rows o) <-> In r (Merge.mo_rows o').
Proof. exact BridgeHashSetMerge_proofs.hs_order. Qed.
Print Assumptions Compose_merge_order.

(** ---------- non-vacuity (vm_compute on concrete instances, proofs/ section 5) ---------- *)

(** set level (the Compose_discard theorems): batch size 2, four Adds with a repeat (the third Add
    flushes by itself), three queries: hit, miss, hit; and the untouched rows of the
    TestMergerAutoResolve base table for the added keys 3, 2, 1 *)
Example Compose_discard_nonvacuous :
  BridgeHashSetMerge.sums_ok BridgeHashSetMerge.hk_toy
    ([[Merge_witness_proofs.s_1]; [Merge_witness_proofs.s_2]; [Merge_witness_proofs.s_3]; [Merge_witness_proofs.s_2]]
     ++ [[Merge_witness_proofs.s_1]; [Merge_witness_proofs.s_4]; [Merge_witness_proofs.s_3]]) /\
  BridgeHashSetMerge.discard_outs BridgeHashSetMerge.hk_toy 2
    [[Merge_witness_proofs.s_1]; [Merge_witness_proofs.s_2]; [Merge_witness_proofs.s_3]; [Merge_witness_proofs.s_2]]
    [[Merge_witness_proofs.s_1]; [Merge_witness_proofs.s_4]; [Merge_witness_proofs.s_3]]
  = [HashSet.RUnit; HashSet.RUnit; HashSet.RUnit; HashSet.RUnit; HashSet.RUnit;
     HashSet.RBool true; HashSet.RBool false; HashSet.RBool true] /\
  BridgeHashSetMerge.hs_untouched BridgeHashSetMerge.hk_toy 2
    [[Merge_witness_proofs.s_3]; [Merge_witness_proofs.s_2]; [Merge_witness_proofs.s_1]] [0]
    (Merge.t_rows Merge_witness_proofs.ar_base)
  = GoSlice.Ok [[Merge_witness_proofs.s_4; Merge_witness_proofs.s_r; Merge_witness_proofs.s_t]].
Proof. exact BridgeHashSetMerge_proofs.nv_discard. Qed.
Print Assumptions Compose_discard_nonvacuous.

(** the premises of every Compose_merge_* theorem hold for the TestMergerAutoResolve tables
    in the listings [b1;b2] (guard_partial, result_sorted, disjoint, untouched_*, order),
    [b2;b1] (order), [b1;base] (identity), [base;b1] (identity_left), [b1;b1] (idem) *)
Example Compose_merge_premises_nonvacuous :
  forall others, In others BridgeHashSetMerge_proofs.nv_branch_lists ->
  BridgeHashSetMerge.sums_ok BridgeHashSetMerge.hk_toy
    (BridgeHashSetMerge.merge_keys Merge_witness_proofs.ar_base others) /\
  MergeSpec.guard Merge_witness_proofs.ar_cols [Merge_witness_proofs.s_a] Merge_witness_proofs.ar_base others.
Proof. exact BridgeHashSetMerge_proofs.nv_premises. Qed.
Print Assumptions Compose_merge_premises_nonvacuous.

Example Compose_merge_disjoint_nonvacuous :
  forall k, MergeSpec.disjoint_at (length Merge_witness_proofs.ar_cols)
              (Merge.lookup Merge_witness_proofs.ar_base k)
              (Merge.lookup Merge_witness_proofs.ar_b1 k) (Merge.lookup Merge_witness_proofs.ar_b2 k).
Proof. exact BridgeHashSetMerge_proofs.ar_disjoint. Qed.
Print Assumptions Compose_merge_disjoint_nonvacuous.

(** ... and the merge on the hash set computes the rows the repository's test expects
    (keys 1 and 3 resolved, key 2 removed, key 4 untouched: found through Has = false) *)
Example Compose_merge_run_nonvacuous :
  exists o, BridgeHashSetMerge.hs_run_merge BridgeHashSetMerge.hk_toy 0 Merge_witness_proofs.ar_base
              [Merge_witness_proofs.ar_b1; Merge_witness_proofs.ar_b2] 1 1 false = GoSlice.Ok o /\
    Merge.mo_rows o = [[Merge_witness_proofs.s_1; Merge_witness_proofs.s_e; Merge_witness_proofs.s_r];
                       [Merge_witness_proofs.s_3; Merge_witness_proofs.s_s; Merge_witness_proofs.s_d];
                       [Merge_witness_proofs.s_4; Merge_witness_proofs.s_r; Merge_witness_proofs.s_t]] /\
    Forall (fun kr => Merge.r_resolved (Merge.k_res kr) = true) (Merge.mo_recs o).
Proof. exact BridgeHashSetMerge_proofs.nv_run_auto_resolve. Qed.
Print Assumptions Compose_merge_run_nonvacuous.

Example Compose_merge_order_nonvacuous :
  exists o, BridgeHashSetMerge.hs_run_merge BridgeHashSetMerge.hk_toy 0 Merge_witness_proofs.ar_base
              [Merge_witness_proofs.ar_b2; Merge_witness_proofs.ar_b1] 1 1 false = GoSlice.Ok o /\
    Merge.mo_rows o = [[Merge_witness_proofs.s_1; Merge_witness_proofs.s_e; Merge_witness_proofs.s_r];
                       [Merge_witness_proofs.s_3; Merge_witness_proofs.s_s; Merge_witness_proofs.s_d];
                       [Merge_witness_proofs.s_4; Merge_witness_proofs.s_r; Merge_witness_proofs.s_t]].
Proof. exact BridgeHashSetMerge_proofs.nv_run_swapped. Qed.
Print Assumptions Compose_merge_order_nonvacuous.

Example Compose_merge_identity_nonvacuous :
  (exists o, BridgeHashSetMerge.hs_run_merge BridgeHashSetMerge.hk_toy 2 Merge_witness_proofs.ar_base
               [Merge_witness_proofs.ar_b1; Merge_witness_proofs.ar_base] 0 0 true = GoSlice.Ok o /\
             Merge.mo_rows o = Merge.t_rows Merge_witness_proofs.ar_b1) /\
  (exists o, BridgeHashSetMerge.hs_run_merge BridgeHashSetMerge.hk_toy 2 Merge_witness_proofs.ar_base
               [Merge_witness_proofs.ar_base; Merge_witness_proofs.ar_b1] 0 0 true = GoSlice.Ok o /\
             Merge.mo_rows o = Merge.t_rows Merge_witness_proofs.ar_b1) /\
  (exists o, BridgeHashSetMerge.hs_run_merge BridgeHashSetMerge.hk_toy 2 Merge_witness_proofs.ar_base
               [Merge_witness_proofs.ar_b1; Merge_witness_proofs.ar_b1] 0 0 true = GoSlice.Ok o /\
             Merge.mo_rows o = Merge.t_rows Merge_witness_proofs.ar_b1).
Proof. exact BridgeHashSetMerge_proofs.nv_run_identity. Qed.
Print Assumptions Compose_merge_identity_nonvacuous.

(** the general bridge (Compose_merge_run_eq / _collector) outside the guard: the keyless
    tables of known finding F2 meet its premises *)
Example Compose_merge_keyless_nonvacuous :
  BridgeHashSetMerge.sums_ok BridgeHashSetMerge.hk_toy
    (BridgeHashSetMerge.merge_keys Merge_witness_proofs.f2_base [Merge_witness_proofs.f2_b1; Merge_witness_proofs.f2_b2]) /\
  BridgeHashSetMerge.keyless_ok Merge_witness_proofs.f2_base [Merge_witness_proofs.f2_b1; Merge_witness_proofs.f2_b2] /\
  Merge.pk_idx Merge_witness_proofs.f2_base = [] /\
  exists o, BridgeHashSetMerge.hs_run_merge BridgeHashSetMerge.hk_toy 0 Merge_witness_proofs.f2_base
              [Merge_witness_proofs.f2_b1; Merge_witness_proofs.f2_b2] 0 1 false = GoSlice.Ok o /\
            Merge.mo_rows o = [[Merge_witness_proofs.s_a; Merge_witness_proofs.s_1]].
Proof. exact BridgeHashSetMerge_proofs.nv_keyless. Qed.
Print Assumptions Compose_merge_keyless_nonvacuous.

(** ---------- the premises are needed ---------- *)

(** colliding key sums: an untouched row is lost *)
Example Compose_collision_matters :
  (exists o, BridgeHashSetMerge.hs_run_merge (fun _ => 5%N) 0 Merge_witness_proofs.ar_base
               [Merge_witness_proofs.ar_b1; Merge_witness_proofs.ar_b2] 1 1 false = GoSlice.Ok o /\
     Merge.mo_rows o = [[Merge_witness_proofs.s_1; Merge_witness_proofs.s_e; Merge_witness_proofs.s_r];
                        [Merge_witness_proofs.s_3; Merge_witness_proofs.s_s; Merge_witness_proofs.s_d]]) /\
  (exists o, Merge.run_merge Merge_witness_proofs.ar_base
               [Merge_witness_proofs.ar_b1; Merge_witness_proofs.ar_b2] 1 1 false = GoSlice.Ok o /\
     Merge.mo_rows o = [[Merge_witness_proofs.s_1; Merge_witness_proofs.s_e; Merge_witness_proofs.s_r];
                        [Merge_witness_proofs.s_3; Merge_witness_proofs.s_s; Merge_witness_proofs.s_d];
                        [Merge_witness_proofs.s_4; Merge_witness_proofs.s_r; Merge_witness_proofs.s_t]]).
Proof. exact BridgeHashSetMerge_proofs.collision_loses_row. Qed.
Print Assumptions Compose_collision_matters.

(** key sums that are not 16-byte values: the result differs *)
Example Compose_wide_sum_matters :
  exists o o',
    BridgeHashSetMerge.hs_run_merge (fun k => (BridgeHashSetMerge.hk_toy k + 2 ^ 130)%N) 0
      Merge_witness_proofs.ar_base [Merge_witness_proofs.ar_b1; Merge_witness_proofs.ar_b2] 1 1 false = GoSlice.Ok o /\
    Merge.run_merge Merge_witness_proofs.ar_base [Merge_witness_proofs.ar_b1; Merge_witness_proofs.ar_b2] 1 1 false
      = GoSlice.Ok o' /\
    Merge.mo_rows o <> Merge.mo_rows o'.
Proof. exact BridgeHashSetMerge_proofs.wide_sum_wrong. Qed.
Print Assumptions Compose_wide_sum_matters.

(** keyless table without columns: [keyless_ok] fails and the two collectors differ *)
Example Compose_keyless_empty_row_differs :
  BridgeHashSetMerge.sums_ok BridgeHashSetMerge.hk_toy
    (BridgeHashSetMerge.merge_keys BridgeHashSetMerge_proofs.e_base [BridgeHashSetMerge_proofs.e_b1]) /\
  ~ BridgeHashSetMerge.keyless_ok BridgeHashSetMerge_proofs.e_base [BridgeHashSetMerge_proofs.e_b1] /\
  (exists o, BridgeHashSetMerge.hs_run_merge BridgeHashSetMerge.hk_toy 0 BridgeHashSetMerge_proofs.e_base
               [BridgeHashSetMerge_proofs.e_b1] 0 0 false = GoSlice.Ok o /\ Merge.mo_rows o = []) /\
  (exists o, Merge.run_merge BridgeHashSetMerge_proofs.e_base [BridgeHashSetMerge_proofs.e_b1] 0 0 false
             = GoSlice.Ok o /\ Merge.mo_rows o = [[]]).
Proof. exact BridgeHashSetMerge_proofs.keyless_empty_row_differs. Qed.
Print Assumptions Compose_keyless_empty_row_differs.
