(** C17 - malformed or hostile bytes are rejected with an error, never a crash.
    Only statements, each closed by [exact] of a lemma from proofs/.

    Vocabulary (lib/GoSlice.v, lib/Reader.v, model/Dec*.v): a decoder's outcome is
    [Ok v | Err class | Panic]; every Go index / slice expression / binary.BigEndian read of
    the decoders is a function into that type, so [Panic] is reachable in the model when a
    bound is missing (see the [_refuted] theorems about the code before the fixes).
    [robust D c k] (model/DecRun.v): on EVERY byte string b (bytes < 256) read through
    bytes.NewReader(b), decoder D never panics, never exhausts its loop fuel - which is
    dec_fuel b = |b| + 2, linear in the input - and allocates at most c*|b| + k bytes on
    the model's allocation meter (make costs its capacity, append what is appended, scratch
    buffers their real geometric growth or an upper bound of it).
    Entry points: ValidateStrListBytes, ValidateBlockBytes, StrListDecoder.Read / ReadBytes /
    Decode (on validated input), ReadBlockFrom, Table.ReadFrom, BlockIndex.ReadFrom,
    Commit.ReadFrom, TableProfile.ReadFrom, decodeObjTypeAndLen, PackfileReader.ReadObject,
    a whole packfile, ReadPktLine (single and sequence), and ObjectReceiver.Receive. *)
From Coq Require Import String.
From Coq Require Import List ZArith.
From W.lib Require Import Tree Bytes GoSlice Reader.
From W.model Require Import DecPrim DecLists DecObjects DecPack DecReceive DecJson DecRun.
From W.proofs Require Import DecLists_proofs DecTop_proofs DecReceive_proofs DecJson_proofs.
Local Open Scope N_scope.

(** ** C17_total / C17_terminates for the validators (pure functions of the byte slice):
    never a panic, never out of fuel (fuel = |b| + 1) *)
Theorem C17_total_validate_strlist : forall b : bytes,
  validate_strlist b <> Panic /\ validate_strlist b <> Err CFuel.
Proof. exact DecLists_proofs.validate_strlist_total. Qed.
Print Assumptions C17_total_validate_strlist.

Theorem C17_total_validate_block : forall b : bytes,
  validate_block b <> Panic /\ validate_block b <> Err CFuel.
Proof. exact DecLists_proofs.validate_block_total. Qed.
Print Assumptions C17_total_validate_block.

(** StrListDecoder.Decode on bytes that ValidateStrListBytes accepted: a value, never a panic,
    and at most 20*|b| + 12 bytes allocated *)
Theorem C17_total_decode_validated : forall (pc : precap) (b : bytes) (m : nat),
  validate_strlist b = Ok m ->
  exists sl mm, strlist_decode pc b = (Ok sl, mm) /\ mm <= 20 * N.of_nat (length b) + 12.
Proof. exact DecLists_proofs.decode_validated. Qed.
Print Assumptions C17_total_decode_validated.

(** ** C17_total + C17_terminates + C17_alloc for every reader-based entry point, with
    explicit c and k (maxPrealloc = 1024) *)
Theorem C17_strlist_read : robust (strlist_read1 precap_of_code) 16 540692.
Proof. exact DecTop_proofs.robust_strlist_read. Qed.
Print Assumptions C17_strlist_read.

Theorem C17_strlist_read_bytes : robust strlist_read_bytes 16 262200.
Proof. exact DecTop_proofs.robust_strlist_read_bytes. Qed.
Print Assumptions C17_strlist_read_bytes.

Theorem C17_block_read : robust (block_read precap_of_code) 16 840960.
Proof. exact DecTop_proofs.robust_block_read. Qed.
Print Assumptions C17_block_read.

Theorem C17_table_read : robust (table_read precap_of_code) 16 865536.
Proof. exact DecTop_proofs.robust_table_read. Qed.
Print Assumptions C17_table_read.

Theorem C17_blockindex_read : robust blockindex_read 16 6500.
Proof. exact DecTop_proofs.robust_blockindex_read. Qed.
Print Assumptions C17_blockindex_read.

(* strconv.ParseInt / time.Parse are arbitrary total functions *)
Theorem C17_commit_read : forall (parse_int parse_tz : bytes -> option Z),
  robust (commit_read parse_int parse_tz) 16 196817.
Proof. exact DecTop_proofs.robust_commit_read. Qed.
Print Assumptions C17_commit_read.

Theorem C17_profile_read : robust (profile_read precap_of_code) 96 849152.
Proof. exact DecTop_proofs.robust_profile_read. Qed.
Print Assumptions C17_profile_read.

Theorem C17_objhdr_read : robust objhdr_read 16 1.
Proof. exact DecTop_proofs.robust_objhdr_read. Qed.
Print Assumptions C17_objhdr_read.

Theorem C17_object_read : robust object_read 300 600.
Proof. exact DecTop_proofs.robust_object_read. Qed.
Print Assumptions C17_object_read.

Theorem C17_packfile_read : robust packfile_read 300 612.
Proof. exact DecTop_proofs.robust_packfile_read. Qed.
Print Assumptions C17_packfile_read.

Theorem C17_pktline_read : robust (fun _ => pktline_read) 16 131100.
Proof. exact DecTop_proofs.robust_pktline_read. Qed.
Print Assumptions C17_pktline_read.

Theorem C17_pktline_seq : robust pktline_seq 16 131100.
Proof. exact DecTop_proofs.robust_pktline_seq. Qed.
Print Assumptions C17_pktline_seq.

Theorem C17_uintlist_read : robust (uintlist_read precap_of_code) 16 4096.
Proof. exact DecTop_proofs.robust_uintlist_read. Qed.
Print Assumptions C17_uintlist_read.

Theorem C17_floatlist_read : robust (floatlist_read precap_of_code) 16 8192.
Proof. exact DecTop_proofs.robust_floatlist_read. Qed.
Print Assumptions C17_floatlist_read.

(** ** The reuse-mode decoders, New...Decoder(true): strSlice / makeUintSlice / makeFloatSlice
    take their other branch (a result slice of capacity 256 kept in the decoder, re-made with
    the clamped count when that is larger); ReadBytes hands out d.buf itself.  Both modes of
    the uint / float decoders are covered by one statement each. *)
Theorem C17_strlist_read_reuse : robust (strlist_read1_reuse precap_of_code) 16 544788.
Proof. exact DecTop_proofs.robust_strlist_read_reuse. Qed.
Print Assumptions C17_strlist_read_reuse.

Theorem C17_strlist_read_bytes_reuse : robust (strlist_read_bytes_g true) 16 262200.
Proof. exact DecTop_proofs.robust_strlist_read_bytes_reuse. Qed.
Print Assumptions C17_strlist_read_bytes_reuse.

Theorem C17_decode_validated_both_modes : forall (reuse : bool) (pc : precap) (b : bytes) (m : nat),
  validate_strlist b = Ok m ->
  exists sl mm, strlist_decode_g reuse pc b = (Ok sl, mm) /\ mm <= 20 * N.of_nat (length b) + 4108.
Proof. exact DecLists_proofs.decode_validated_g. Qed.
Print Assumptions C17_decode_validated_both_modes.

Theorem C17_uintlist_both_modes : forall reuse : bool, robust (uintlist_entry reuse precap_of_code) 16 5124.
Proof. exact DecTop_proofs.robust_uintlist_entry. Qed.
Print Assumptions C17_uintlist_both_modes.

Theorem C17_floatlist_both_modes : forall reuse : bool, robust (floatlist_entry reuse precap_of_code) 16 10248.
Proof. exact DecTop_proofs.robust_floatlist_entry. Qed.
Print Assumptions C17_floatlist_both_modes.

(* a clamp that covers only the non-reusing branch of strSlice leaves the reuse branch
   uncapped: 6 bytes announcing 2^23 strings -> 128 MiB *)
Theorem C17_alloc_reuse_branch_refuted :
  let b := [0; 128; 0; 0; 0; 0] in
  wf_bytes b /\ length b = 6%nat /\
  134217728 <= allocated (run_on read_kinds_of_code (strlist_read1_reuse Uncapped) (whole b)).
Proof. exact DecTop_proofs.reuse_branch_uncapped_alloc. Qed.
Print Assumptions C17_alloc_reuse_branch_refuted.

(** ** The code before the fixes does not satisfy the property *)
(* before 8ed4fbc: no length checks in the validators *)
Theorem C17_unchecked_refuted :
  validate_strlist_unchecked [0; 0] = Panic /\
  validate_block_unchecked [0; 0] = Panic /\
  validate_block_unchecked [0; 0; 0; 1; 0; 0; 0; 1; 0] = Panic.
Proof.
  exact (conj DecLists_proofs.validate_strlist_unchecked_panics
          (conj DecLists_proofs.validate_block_unchecked_panics
                DecLists_proofs.validate_block_unchecked_panics2)).
Qed.
Print Assumptions C17_unchecked_refuted.

(* before b9fd78c: make sized by the count field - 8 input bytes request 24*(2^32-1) bytes *)
Theorem C17_alloc_uncapped_refuted :
  let b := [255; 255; 255; 255; 0; 0; 0; 0] in
  wf_bytes b /\ length b = 8%nat /\
  103079215080 <= allocated (run_on read_kinds_of_code (block_read Uncapped) (whole b)).
Proof. exact DecTop_proofs.uncapped_block_alloc. Qed.
Print Assumptions C17_alloc_uncapped_refuted.

(** ** C17_reject_clean: ObjectReceiver.Receive keeps the store closed - every stored block
    decompresses and validates, every stored table has all its blocks, block indices, table
    index and profile, every stored commit has its parents - for EVERY packfile and EVERY
    outcome (accepted, rejected with an error, or even a panic), for any hash function,
    decompressor and block-index sums, and under EVERY store fault: the n-th Store.Set failing,
    every Set on one key prefix failing, the n-th Store.Get failing (the table object is
    written after its index and profile, so a failed write never leaves it behind).  Hence nothing a rejected object refers to, and no
    table or commit referring to something missing, is ever left stored. *)
Theorem C17_reject_clean :
  forall (H : bytes -> bytes) (unz : bytes -> option bytes) (idx_sum : bytes -> list N -> bytes)
         (parse_int parse_tz : bytes -> option Z) (pc : precap)
         (fp : faults)   (* which Store.Set (by position or by key prefix) / Store.Get fails *)
         (st : store) (pack : bytes) (r : res unit) (st' : store) (m : N),
  closed unz parse_int parse_tz pc st ->
  receive H unz idx_sum parse_int parse_tz pc fp st pack = (r, st', m) ->
  closed unz parse_int parse_tz pc st' /\
  ext st st'.       (* and no key is ever removed *)
Proof. exact DecReceive_proofs.receive_closed. Qed.
Print Assumptions C17_reject_clean.

(** Receive itself never panics and never runs out of fuel (fuel |pack| + 2), on every
    well-formed packfile, for every hash and every decompressor that yields bytes. *)
Theorem C17_receive_total :
  forall (H : bytes -> bytes) (unz : bytes -> option bytes) (idx_sum : bytes -> list N -> bytes)
         (parse_int parse_tz : bytes -> option Z) (cp : N) (fp : faults),
  (forall b c, unz b = Some c -> wf_bytes c) ->
  forall (st : store) (pack : bytes), wf_bytes pack ->
    let r := fst (fst (receive H unz idx_sum parse_int parse_tz (Capped cp) fp st pack)) in
    r <> Panic /\ r <> Err CFuel.
Proof. exact DecReceive_proofs.receive_total. Qed.
Print Assumptions C17_receive_total.

(** The guard "every primary-key index < number of columns" of IndexTable is what the previous
    theorem rests on (slice.IndicesToValues is an explicit index in the model): with the weaker
    "largest index <= number of columns", pk = [2] over 2 columns passes the guard and the loop of
    IndexTable panics on a well-formed one-row block. *)
Theorem C17_pk_guard_refuted :
  pk_out_of_range (length (tb_columns pkw_table)) (tb_pk pkw_table) = true /\
  pk_out_of_range_weak (length (tb_columns pkw_table)) (tb_pk pkw_table) = false /\
  fst (fst (index_blocks (fun b => Some b) (fun _ _ => []) precap_of_code no_faults
                         pkw_store pkw_table (tb_blocks pkw_table) 0 0)) = Panic.
Proof. exact DecReceive_proofs.pk_weak_guard_panics. Qed.
Print Assumptions C17_pk_guard_refuted.

Theorem C17_reject_clean_empty :
  forall (unz : bytes -> option bytes) (parse_int parse_tz : bytes -> option Z) (pc : precap),
  closed unz parse_int parse_tz pc empty_store.
Proof. exact DecReceive_proofs.closed_empty. Qed.
Print Assumptions C17_reject_clean_empty.

(** ** C17_alloc does NOT hold for saveBlock's decompression (known finding
    class receive-alloc-s2): s2.Decode allocates the length announced by the payload's
    uvarint header before decoding.  The 15-byte packfile
       50 41 43 4b 00 00 00 01 | b5 00 | ff ff ff ff 0f
    makes Receive allocate at least 2^32 - 1 bytes, whatever hash / decompressor is assumed. *)
Theorem C17_alloc_s2_refuted :
  forall (H : bytes -> bytes) (unz : bytes -> option bytes) (idx_sum : bytes -> list N -> bytes)
         (parse_int parse_tz : bytes -> option Z) (fp : faults),
  length s2_witness = 15%nat /\
  4294967295 <= snd (receive H unz idx_sum parse_int parse_tz precap_of_code fp empty_store s2_witness).
Proof. exact (fun H unz idx_sum pi ptz fp => conj eq_refl (DecReceive_proofs.receive_s2_alloc H unz idx_sum pi ptz fp)). Qed.
Print Assumptions C17_alloc_s2_refuted.

(** the same in the persistence layer (known finding class store-alloc-s2): GetBlock /
    GetBlockIndex over a stored value  ff ff ff ff 0f *)
Theorem C17_alloc_store_s2_refuted : forall unz : bytes -> option bytes,
  4294967295 <= snd (load_block unz precap_of_code (Some [255; 255; 255; 255; 15])) /\
  4294967295 <= snd (load_block_index unz (Some [255; 255; 255; 255; 15])).
Proof. exact DecReceive_proofs.load_block_s2_alloc. Qed.
Print Assumptions C17_alloc_store_s2_refuted.

(** ** The persistence-layer readers over a hostile stored value ([None] = no such key):
    never a panic, never out of fuel, allocation linear (except the s2 header above).
    GetCommit / GetTable assign .Sum on the returned object before checking the error: with
    a reader that returns an object together with its error (the code as it is) that is
    harmless ... *)
Theorem C17_get_commit : forall (parse_int parse_tz : bytes -> option Z) (v : option bytes),
  stored_wf v ->
  let r := fst (get_commit parse_int parse_tz true v) in
  (r <> Panic /\ r <> Err CFuel) /\
  forall b, v = Some b -> snd (get_commit parse_int parse_tz true v) <= 16 * N.of_nat (length b) + 196817.
Proof. exact DecReceive_proofs.get_commit_robust. Qed.
Print Assumptions C17_get_commit.

Theorem C17_get_table : forall v : option bytes, stored_wf v ->
  let r := fst (get_table precap_of_code true v) in
  (r <> Panic /\ r <> Err CFuel) /\
  forall b, v = Some b -> snd (get_table precap_of_code true v) <= 16 * N.of_nat (length b) + 865536.
Proof. exact (DecReceive_proofs.get_table_robust (fun _ => None) (fun _ => None)). Qed.
Print Assumptions C17_get_table.

Theorem C17_get_block : forall unz : bytes -> option bytes,
  (forall b c, unz b = Some c -> wf_bytes c) -> forall v : option bytes,
  let r := fst (load_block unz precap_of_code v) in r <> Panic /\ r <> Err CFuel.
Proof. exact DecReceive_proofs.load_block_good. Qed.
Print Assumptions C17_get_block.

Theorem C17_get_block_index : forall unz : bytes -> option bytes,
  (forall b c, unz b = Some c -> wf_bytes c) -> forall v : option bytes,
  let r := fst (load_block_index unz v) in r <> Panic /\ r <> Err CFuel.
Proof. exact DecReceive_proofs.load_block_index_good. Qed.
Print Assumptions C17_get_block_index.

Theorem C17_get_table_index : forall v : option bytes, stored_wf v ->
  let r := fst (get_table_index precap_of_code v) in
  (r <> Panic /\ r <> Err CFuel) /\
  forall b, v = Some b -> snd (get_table_index precap_of_code v) <= 16 * N.of_nat (length b) + 840960.
Proof. exact (DecReceive_proofs.get_table_index_robust (fun _ => None) (fun _ => None)). Qed.
Print Assumptions C17_get_table_index.

Theorem C17_get_table_profile : forall v : option bytes, stored_wf v ->
  let r := fst (get_table_profile precap_of_code v) in
  (r <> Panic /\ r <> Err CFuel) /\
  forall b, v = Some b -> snd (get_table_profile precap_of_code v) <= 96 * N.of_nat (length b) + 849152.
Proof. exact (DecReceive_proofs.get_table_profile_robust (fun _ => None) (fun _ => None)). Qed.
Print Assumptions C17_get_table_profile.

(** ... and with a reader that returns NO object on error it is a nil dereference: the empty
    stored value makes GetCommit / GetTable panic *)
Theorem C17_get_nil_object_refuted : forall parse_int parse_tz : bytes -> option Z,
  fst (get_commit parse_int parse_tz false (Some [])) = Panic /\
  fst (get_table precap_of_code false (Some [])) = Panic.
Proof. exact DecReceive_proofs.get_nil_object_panics. Qed.
Print Assumptions C17_get_nil_object_refuted.

(** ** JSON replies of a remote: payload.Hex.UnmarshalJSON, through which every sum of a reply
    goes, never panics, whatever bytes encoding/json hands it ... *)
Theorem C17_hex_json_no_panic : forall b : bytes, hex_unmarshal true b <> Panic.
Proof. exact DecJson_proofs.hex_unmarshal_no_panic. Qed.
Print Assumptions C17_hex_json_no_panic.

(** ... while the function before fix 7e27cd0 panicked on the number 1 (reply {"acks":[1]}: slice
    bounds) and on a 34-digit hex string (index 16 of the 16-byte array) *)
Theorem C17_hex_json_refuted :
  hex_unmarshal false [49] = Panic /\
  hex_unmarshal false (quote :: repeat 48 34 ++ [quote]) = Panic.
Proof. exact DecJson_proofs.hex_unmarshal_unchecked_panics. Qed.
Print Assumptions C17_hex_json_refuted.

(** Non-vacuity: a valid one-row block decodes (and is within the allocation bound); the
    robustness statements are about all inputs, this shows the Ok branch is inhabited. *)
Example C17_nonvacuous :
  outcome (run_on read_kinds_of_code (block_read precap_of_code)
             (whole [0; 0; 0; 1; 0; 0; 0; 2; 0; 1; 97; 0; 0]))
  = Ok [[[97]; []]].
Proof. vm_compute. reflexivity. Qed.
