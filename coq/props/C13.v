(** C13 - a crash at any point leaves the repository consistent and the op repeatable.
    Only statements, each closed by [exact] of a lemma from proofs/Crash*_proofs.v.

    FULL STATEMENT (properties.jsonl C13): for every operation op in {commit, merge, fetch /
    receive, pull, prune}, every invariant state s, every input, every worker interleaving
    and every n: the state after the first n storage writes of op satisfies
        Inv = Closed /\ RefsResolve /\ TableUsable /\ HeadsFull
    and running the same operation again from that state succeeds and ends with the same refs
    pointing at the same tables and history as the uninterrupted run (commit time stamps
    aside).

    LEVEL: partial.  What is proved is about the write-list model of model/Crash.v:
    - one [write] = one atomic step.  Atomicity of one badger Set/Delete and of one SQL
      transaction (ref + reflog), and the durability ORDER between the object store and the
      ref store (a ref write must not become durable before the object writes issued
      earlier), are hypotheses about badger / SQLite / the OS, not theorems.
    - the write ORDER is tied to the Go source by the translator: the theorems are parametric
      in [skels_ok sk = true], and gen/Tie_C13.v evaluates the predicates on the skeletons
      regenerated from the source; the write KINDS and ids are tied by the correspondence
      harness (harness/c13*.go: recorded store-write trace of the REAL operations - cmd/wrgl
      commit, commitWithTable, runMerge through the verif export hooks, fetch.Fetch against the
      reference server, prune.Prune, ref.DeleteHead - vs [op_writes]; only the batch with
      generator-chosen / hostile packfile orders re-enacts fetch's ref rule).
    - pull is the operation [OPull] (fetch, then create the local branch / fast-forward / merge);
      its re-run theorem is proved for the branch-creating pull, the merging pull is the
      history fetch ; merge whose re-run theorems are stated per constituent operation.  Fast-forward merge and
      DeleteHead are single writes (a crash is before or after them).  The re-run theorem for fetch assumes
      that the interrupted run's object phase had succeeded and re-runs with the same objects.
    - leftover garbage is allowed and does occur: objects of an interrupted commit / merge /
      receive (C13_prune_orphan_table_not_swept), and the table index + profile of a table whose
      object was deleted right before a crash of prune (C13_prune_rerun_leaves_index_garbage). *)
From Coq Require Import List NArith Bool String.
From W.model Require Import CrashRepo Crash.
From W.proofs Require Import CrashRepo_proofs Crash_proofs CrashKahn_proofs CrashPrune_proofs
  CrashFetch_proofs CrashPull_proofs CrashTop_proofs.
Import ListNotations.
Local Open Scope N_scope.

(** Every prefix of the write list of every operation (commit, commitWithTable, DeleteHead,
    merge commit, merge no-ff, merge fast-forward, fetch = receive any packfile object
    sequence + save refs, prune), from any invariant state, under any interleaving of the
    inserter's per-block write pairs, is an invariant state.  [n >= length] is the completed
    operation; an injected write error at position n leaves [crash n]. *)
Theorem C13_prefix_consistent :
  forall (sk : skels) (dv : deriver), skels_ok sk = true ->
  forall (sched : schedule) (s : state) (o : op) (n : nat),
    valid_sched sched -> Inv s -> WF s -> op_pre s o ->
    Inv (crash n (fst (op_writes sk dv sched s o)) s) /\
    WF (crash n (fst (op_writes sk dv sched s o)) s).
Proof. exact CrashTop_proofs.prefix_consistent. Qed.
Print Assumptions C13_prefix_consistent.

(** Hence every state any history of operations can leave behind - each one completed, or cut
    by a crash / write error anywhere, in any order, including re-runs and pull = fetch ;
    merge - satisfies the invariants. *)
Theorem C13_history_consistent :
  forall (sk : skels) (dv : deriver), skels_ok sk = true ->
  forall s : state, reach sk dv s -> Inv s /\ WF s.
Proof. exact CrashTop_proofs.reach_inv. Qed.
Print Assumptions C13_history_consistent.

(** prune.childrenFirst (Kahn's algorithm among the commits to remove): the output enumerates
    the input without duplicates and every commit comes after all of its children. *)
Theorem C13_children_first :
  forall l : list cid, NoDup l ->
    (forall x, In x (children_first l) <-> In x l) /\
    NoDup (children_first l) /\
    (forall pre p post, children_first l = pre ++ p :: post ->
       forall c, In c l -> In p (c_parents c) -> In c pre).
Proof. exact CrashKahn_proofs.children_first_spec. Qed.
Print Assumptions C13_children_first.

(** Whatever the commit deletion order of prune: every prefix keeps RefsResolve, TableUsable,
    HeadsFull and the closure of everything reachable from a ref. *)
Theorem C13_prune_any_order_partial :
  forall sk : skels, prune_skel_ok (sk_prune sk) = true -> prune_tables_skel_ok (sk_prune_tables sk) = true ->
  forall s : state, Inv s -> WF s -> forall n : nat,
    Inv3 (crash n (prune_writes sk s) s) /\ ReachClosed (crash n (prune_writes sk s) s).
Proof. exact CrashPrune_proofs.prune_prefix_weak. Qed.
Print Assumptions C13_prune_any_order_partial.

(** ... but with the key (= hash) order of the tree before b7554dd [Closed] breaks. *)
Theorem C13_prune_closed_refuted :
  exists s n, Inv s /\ WF s /\ ~ Closed (crash n (prune_writes (with_hash_order base_skels) s) s).
Proof. exact CrashTop_proofs.prune_hash_order_closed_refuted. Qed.
Print Assumptions C13_prune_closed_refuted.

(** Re-run of commit: cut anywhere before its last write, re-run with a new nonce (= new time
    stamp, hence new commit id) under any worker interleaving: it succeeds, ends in an
    invariant state, and every ref names a commit with the same table and history shape as
    after the uninterrupted run. *)
Theorem C13_rerun_commit :
  forall (sk : skels) (dv : deriver), skels_ok sk = true ->
  forall (sched1 sched2 : schedule) (s : state) (r : N) (t : table) (n1 n2 : N) (n : nat),
    valid_sched sched1 -> valid_sched sched2 -> Inv s ->
    let ws1 := fst (op_writes sk dv sched1 s (OCommit r t n1)) in
    (n < List.length ws1)%nat ->
    let cs := crash n ws1 s in
    snd (op_writes sk dv sched2 cs (OCommit r t n2)) = true /\
    Inv (run_op sk dv sched2 cs (OCommit r t n2)) /\
    obs_eq (run_op sk dv sched2 cs (OCommit r t n2)) (apply_all ws1 s).
Proof. exact Crash_proofs.commit_rerun. Qed.
Print Assumptions C13_rerun_commit.

Theorem C13_rerun_commit_with_table :
  forall (sk : skels) (dv : deriver), skels_ok sk = true ->
  forall (sched : schedule) (s : state) (r : N) (t : table) (n1 n2 : N) (n : nat),
    Inv s -> In t (tables s) ->
    let ws1 := fst (op_writes sk dv sched s (OCommitTable r t n1)) in
    (n < List.length ws1)%nat ->
    let cs := crash n ws1 s in
    snd (op_writes sk dv sched cs (OCommitTable r t n2)) = true /\
    obs_eq (run_op sk dv sched cs (OCommitTable r t n2)) (apply_all ws1 s).
Proof. exact Crash_proofs.commit_table_rerun. Qed.
Print Assumptions C13_rerun_commit_with_table.

(** Re-run of a real merge (the histories diverged: ingest of the merged table, profile,
    merge commit, ref). *)
Theorem C13_rerun_merge_commit :
  forall (sk : skels) (dv : deriver), skels_ok sk = true ->
  forall (sched1 sched2 : schedule) (s : state) (r : N) (others : list cid) (t : table) (n1 n2 : N) (n : nat),
    valid_sched sched1 -> valid_sched sched2 -> Inv s ->
    (forall h, head_of r s = Some h -> diverged h others = true) ->
    snd (op_writes sk dv sched1 s (OMergeCommit r others t n1)) = true ->
    let ws1 := fst (op_writes sk dv sched1 s (OMergeCommit r others t n1)) in
    (n < List.length ws1)%nat ->
    let cs := crash n ws1 s in
    snd (op_writes sk dv sched2 cs (OMergeCommit r others t n2)) = true /\
    Inv (run_op sk dv sched2 cs (OMergeCommit r others t n2)) /\
    obs_eq (run_op sk dv sched2 cs (OMergeCommit r others t n2)) (apply_all ws1 s).
Proof. exact Crash_proofs.merge_commit_rerun. Qed.
Print Assumptions C13_rerun_merge_commit.

(** Re-run of a merge with ff=never (merge commit over an existing table, then the ref). *)
Theorem C13_rerun_merge_noff :
  forall (sk : skels) (dv : deriver), skels_ok sk = true ->
  forall (sched : schedule) (s : state) (r : N) (other : cid) (n1 n2 : N) (n : nat),
    Inv s ->
    snd (op_writes sk dv sched s (OMergeNoFF r other n1)) = true ->
    let ws1 := fst (op_writes sk dv sched s (OMergeNoFF r other n1)) in
    (n < List.length ws1)%nat ->
    let cs := crash n ws1 s in
    snd (op_writes sk dv sched cs (OMergeNoFF r other n2)) = true /\
    obs_eq (run_op sk dv sched cs (OMergeNoFF r other n2)) (apply_all ws1 s).
Proof. exact Crash_proofs.merge_noff_rerun. Qed.
Print Assumptions C13_rerun_merge_noff.

(** Re-run of fetch (any cut point, also inside the ref phase) when the interrupted run's
    object phase had succeeded: the object phase succeeds again (skipped when nothing is wanted
    any more), the final state is invariant and every ref names the same commit as after the
    uninterrupted run. *)
Theorem C13_rerun_fetch :
  forall (sk : skels) (dv : deriver), skels_ok sk = true ->
  forall (s : state) (objs : list pobj) (upd : list (N * cid * bool)) (n : nat),
    Inv s -> NoDup (map (fun u => fst (fst u)) upd) ->
    snd (fetch_objects sk dv s objs upd) = true ->
    let ws1 := fst (fetch_writes sk dv s objs upd) in
    let cs := crash n ws1 s in
    let ws2 := fst (fetch_writes sk dv cs objs upd) in
    Inv (apply_all ws2 cs) /\
    snd (fetch_objects sk dv cs objs upd) = true /\
    (forall r, head_of r (apply_all ws2 cs) = head_of r (apply_all ws1 s)).
Proof. exact CrashFetch_proofs.fetch_rerun. Qed.
Print Assumptions C13_rerun_fetch.

(** Re-run of `wrgl pull` into a branch that does not exist yet (fetch, remote-tracking ref,
    then the local branch; [OPull] is part of C13_prefix_consistent like every operation): cut
    after ANY number of writes - in particular between its two ref writes, when the name
    already resolves to the remote-tracking ref - and run again, it succeeds, the state is
    invariant and the local branch and the tracking ref both name the fetched commit, as after
    the uninterrupted run.  The local branch is "new" exactly when heads/BRANCH is absent. *)
Theorem C13_rerun_pull_new_branch :
  forall (sk : skels) (dv : deriver), skels_ok sk = true ->
  forall (r rr : N) (objs : list pobj) (c : cid) (force : bool) (t : table), r <> rr ->
  forall (sched1 sched2 : schedule) (s : state) (n1 n2 : N) (n : nat),
    valid_sched sched1 -> valid_sched sched2 -> Inv s ->
    head_of r s = None ->
    snd (op_writes sk dv sched1 s (OPull r rr objs c force t n1)) = true ->
    let ws1 := fst (op_writes sk dv sched1 s (OPull r rr objs c force t n1)) in
    let cs := crash n ws1 s in
    snd (op_writes sk dv sched2 cs (OPull r rr objs c force t n2)) = true /\
    Inv (run_op sk dv sched2 cs (OPull r rr objs c force t n2)) /\
    head_of r (run_op sk dv sched2 cs (OPull r rr objs c force t n2)) = Some c /\
    head_of rr (run_op sk dv sched2 cs (OPull r rr objs c force t n2)) = Some c /\
    head_of r (apply_all ws1 s) = Some c /\ head_of rr (apply_all ws1 s) = Some c.
Proof. exact CrashPull_proofs.pull_new_branch_rerun. Qed.
Print Assumptions C13_rerun_pull_new_branch.

(** Re-run of prune after a crash anywhere: it ends exactly where the uninterrupted sweep
    ends as far as commits, tables, blocks, block indices and refs are concerned (commits are
    deleted last, so the re-run does not take the early return while anything is left), and
    loses no table index / profile the uninterrupted sweep keeps. *)
Theorem C13_rerun_prune :
  forall (sk : skels) (dv : deriver), skels_ok sk = true ->
  forall (s : state) (n : nat), Inv s -> WF s ->
    let ws1 := prune_writes sk s in
    let cs := crash n ws1 s in
    let f1 := apply_all ws1 s in
    let f2 := apply_all (prune_writes sk cs) cs in
    Inv f2 /\ refs f2 = refs f1 /\
    (forall x, In x (commits f2) <-> In x (commits f1)) /\
    (forall x, In x (tables f2) <-> In x (tables f1)) /\
    (forall x, In x (blocks f2) <-> In x (blocks f1)) /\
    (forall x, In x (blkidx f2) <-> In x (blkidx f1)) /\
    (forall x, In x (tblidx f1) -> In x (tblidx f2)) /\
    (forall x, In x (prof f1) -> In x (prof f2)).
Proof. exact CrashTop_proofs.prune_rerun. Qed.
Print Assumptions C13_rerun_prune.

(** "(and profile when the producer writes one)": commit and receive write the profile before
    the table, so "table present => profile present" also holds at every prefix ... *)
Theorem C13_profile_commit :
  forall sk : skels, skels_ok sk = true ->
  forall (sched : schedule) (s : state) (r : N) (t : table) (nonce : N) (n : nat),
    valid_sched sched -> Profiled s -> Profiled (crash n (commit_writes sk sched s r t nonce) s).
Proof. exact CrashTop_proofs.commit_profiled. Qed.
Print Assumptions C13_profile_commit.

Theorem C13_profile_fetch :
  forall (sk : skels) (dv : deriver), skels_ok sk = true ->
  forall (s : state) (objs : list pobj) (upd : list (N * cid * bool)) (n : nat),
    Profiled s -> Profiled (crash n (fst (fetch_writes sk dv s objs upd)) s).
Proof. exact CrashTop_proofs.fetch_profiled. Qed.
Print Assumptions C13_profile_fetch.

(** ... but merge writes the profile after the table (not part of the property text). *)
Theorem C13_merge_profile_after_table :
  exists s o n, Inv s /\ Profiled s /\
    ~ Profiled (crash n (fst (op_writes base_skels dv0 sequential s o)) s).
Proof. exact CrashTop_proofs.merge_profile_after_table. Qed.
Print Assumptions C13_merge_profile_after_table.

(** The orders the skeleton predicates forbid really break the property (the tree before
    2b449a8 stored the table object before its index, in ingest and in the receiver). *)
Theorem C13_table_first_commit_refuted :
  exists s o n, Inv s /\ WF s /\ op_pre s o /\
    ~ Inv (crash n (fst (op_writes (with_table_first base_skels) dv0 sequential s o)) s).
Proof. exact CrashTop_proofs.table_first_commit_refuted. Qed.
Print Assumptions C13_table_first_commit_refuted.

Theorem C13_table_first_receive_refuted :
  exists s o n, Inv s /\ WF s /\ op_pre s o /\
    ~ Inv (crash n (fst (op_writes (with_table_first base_skels) dv0 sequential s o)) s).
Proof. exact CrashTop_proofs.table_first_receive_refuted. Qed.
Print Assumptions C13_table_first_receive_refuted.

(** Why prune must delete commits last: deleting them first makes the re-run return early and
    leave the orphan table for ever. *)
Theorem C13_prune_commits_first_rerun_refuted :
  exists s n t, Inv s /\ WF s /\
    let sk := with_commits_first base_skels in
    let cs := crash n (prune_writes sk s) s in
    In t (tables (apply_all (prune_writes sk cs) cs)) /\ ~ In t (tables (apply_all (prune_writes sk s) s)).
Proof. exact CrashTop_proofs.prune_commits_first_rerun_refuted. Qed.
Print Assumptions C13_prune_commits_first_rerun_refuted.

(** The early return of prune: an orphan table left by an interrupted commit is never swept
    while no commit is removable.  Leftover garbage, not an inconsistency. *)
Theorem C13_prune_orphan_table_not_swept :
  Inv s_orphan_table /\ In tB (tables s_orphan_table) /\
  (forall c, In c (commits s_orphan_table) -> c_table c <> tB) /\
  prune_writes base_skels s_orphan_table = [].
Proof. exact CrashTop_proofs.prune_orphan_table_not_swept. Qed.
Print Assumptions C13_prune_orphan_table_not_swept.

(** A crash between DeleteTable and DeleteTableIndex leaves the index (and profile) of the
    deleted table as garbage that no re-run removes. *)
Theorem C13_prune_rerun_leaves_index_garbage :
  exists s n t, Inv s /\ WF s /\
    let cs := crash n (prune_writes base_skels s) s in
    In t (tblidx (apply_all (prune_writes base_skels cs) cs)) /\
    ~ In t (tblidx (apply_all (prune_writes base_skels s) s)) /\
    ~ In t (tables (apply_all (prune_writes base_skels cs) cs)).
Proof. exact CrashTop_proofs.prune_rerun_leaves_index_garbage. Qed.
Print Assumptions C13_prune_rerun_leaves_index_garbage.

(** Non-vacuity: the skeletons of the current tree satisfy the premise; a reachable state
    with orphans exists and its sweep is a non-trivial write list; a 2-block commit cut at
    each of its 9 writes and re-run meets the hypotheses of C13_rerun_commit. *)
Theorem C13_base_skels_ok : skels_ok base_skels = true.
Proof. exact CrashTop_proofs.base_skels_ok. Qed.
Print Assumptions C13_base_skels_ok.

Theorem C13_nonvacuous_state : reach base_skels dv0 s_orphans /\ Inv s_orphans /\ WF s_orphans.
Proof. exact (conj CrashTop_proofs.s_orphans_reach CrashTop_proofs.s_orphans_inv). Qed.
Print Assumptions C13_nonvacuous_state.

Theorem C13_nonvacuous_rerun :
  let s := run_op base_skels dv0 sequential empty_state (OCommit 0 tA 1) in
  List.length (fst (op_writes base_skels dv0 sequential s (OCommit 0 tB 2))) = 9%nat /\
  forallb (fun n =>
      let cs := crash n (fst (op_writes base_skels dv0 sequential s (OCommit 0 tB 2))) s in
      inv_b cs && obs_eqb (run_op base_skels dv0 sequential cs (OCommit 0 tB 3))
                          (run_op base_skels dv0 sequential s (OCommit 0 tB 2)))
    (seq 0 9) = true.
Proof. exact CrashTop_proofs.commit_rerun_instance. Qed.
Print Assumptions C13_nonvacuous_rerun.
