(** C19 - the external sort emits every distinct key once, in key order, at any
    memory limit.  Only statements, each closed by [exact] of a lemma from proofs/.

    Vocabulary (model/Sorter.v, model/SorterSpec.v):
      [add_rows sort run_size pk new_sorter rows]  AddRow for every row (spilling sorted runs)
      [sorted_blocks] / [sorted_rows]              the two outputs of the sorter
      [sort_ok ncols sort]   the in-memory sort returns a sorted permutation (sort.Slice)
      [wf_rows], [wf_pk]     every row has ncols cells, key indices are columns
      [wf_removed]           removed columns are columns and none is a key column
      [dkey ncols pk r]      the key of r: its pk columns, all columns when pk = []
      [sorted_dedup_of ncols pk rem rows out]
           out = kept rows with the removed columns dropped, where the kept rows have
           strictly ascending keys (so no key twice), are all input rows, represent
           every input key, and still carry their key at the shifted positions. *)
From W.lib Require Import Tree Bytes.
From W.model Require Import Sorter SorterSpec.
From W.proofs Require Import Sorter_proofs.
From Coq Require Import Sorting.Sorted Sorting.Permutation.
Local Open Scope N_scope.

(** Block output, for every input, every run size (from "every row spills" to
    "nothing spills"), every admissible removed-column set and every in-memory sort
    that returns a sorted permutation: AddRow accepts all rows and the rows of the
    emitted blocks are the sorted key-deduplication of the input. *)
Theorem C19_blocks : forall ncols sort_rows run_size pk rem rows,
  sort_ok ncols sort_rows -> wf_pk ncols pk -> wf_rows ncols rows -> cells_in_limit rows ->
  wf_removed ncols pk rem ->
  exists s bs, add_rows sort_rows run_size pk new_sorter rows = Some s /\
    sorted_blocks sort_rows pk ncols rem s = Some bs /\
    sorted_dedup_of ncols pk rem rows (concat (map b_rows bs)).
Proof. exact Sorter_proofs.sorter_blocks. Qed.
Print Assumptions C19_blocks.

(** Row output: the same. *)
Theorem C19_rows : forall ncols sort_rows run_size pk rem rows,
  sort_ok ncols sort_rows -> wf_pk ncols pk -> wf_rows ncols rows -> cells_in_limit rows ->
  wf_removed ncols pk rem ->
  exists s rs, add_rows sort_rows run_size pk new_sorter rows = Some s /\
    sorted_rows sort_rows pk ncols rem s = Some rs /\
    sorted_dedup_of ncols pk rem rows (concat (map r_rows rs)).
Proof. exact Sorter_proofs.sorter_rows. Qed.
Print Assumptions C19_rows.

(** The same two statements quantified over EVERY family of sorted runs whose union is
    the input multiset (every partition into runs, however it was produced), together
    with the block structure ([chunked]: blocks of 255, last 1..255, numbered from 0,
    each carrying the key of its first kept row). *)
Theorem C19_blocks_any_partition : forall ncols pk rem rows runs,
  wf_rows ncols rows -> wf_removed ncols pk rem ->
  Permutation (concat runs) rows -> Forall (run_sorted pk) runs ->
  exists bs kept,
    sorted_blocks_runs ncols pk rem runs = Some bs /\
    chunked ncols pk rem 0 kept bs /\
    keys_strictly_ascending ncols pk kept /\
    (forall r, In r kept -> In r rows) /\
    (forall r, In r rows -> exists p, In p kept /\ dkey ncols pk p = dkey ncols pk r) /\
    sorted_dedup_of ncols pk rem rows (concat (map b_rows bs)).
Proof. exact Sorter_proofs.blocks_any_runs. Qed.
Print Assumptions C19_blocks_any_partition.

Theorem C19_rows_any_partition : forall ncols pk rem rows runs,
  wf_rows ncols rows -> wf_removed ncols pk rem ->
  Permutation (concat runs) rows -> Forall (run_sorted pk) runs ->
  exists rs,
    sorted_rows_runs ncols pk rem runs = Some rs /\
    sorted_dedup_of ncols pk rem rows (concat (map r_rows rs)).
Proof. exact Sorter_proofs.rows_any_runs. Qed.
Print Assumptions C19_rows_any_partition.

(** AddRow really produces such a partition: the runs read by the merge are the sorted
    images of consecutive segments of the input. *)
Theorem C19_add_rows_partition : forall sort_rows run_size pk rows s,
  add_rows sort_rows run_size pk new_sorter rows = Some s ->
  exists parts, concat parts = rows /\ runs_of sort_rows pk s = map (sort_rows pk) parts.
Proof. exact Sorter_proofs.add_rows_partition. Qed.
Print Assumptions C19_add_rows_partition.

(** The two outputs contain the same rows, block for block. *)
Theorem C19_outputs_agree : forall ncols sort_rows run_size pk rem rows,
  sort_ok ncols sort_rows -> wf_pk ncols pk -> wf_rows ncols rows -> cells_in_limit rows ->
  exists s bs rs, add_rows sort_rows run_size pk new_sorter rows = Some s /\
    sorted_blocks sort_rows pk ncols rem s = Some bs /\
    sorted_rows sort_rows pk ncols rem s = Some rs /\
    rs = map (fun b => mk_srows (b_offset b) (b_rows b)) bs.
Proof. exact Sorter_proofs.sorter_outputs_agree. Qed.
Print Assumptions C19_outputs_agree.

(** Without a key the key is the whole row, so "removed columns are not key columns"
    leaves nothing to remove. *)
Theorem C19_nopk_removed_empty : forall ncols rem, wf_removed ncols [] rem -> rem = [].
Proof. exact Sorter_proofs.nopk_removed_empty. Qed.
Print Assumptions C19_nopk_removed_empty.

(** Spill files: in every history of AddRow / Reset / Close in which the sorter is not
    fed between a Close and the next Reset, no chunk file is alive after any Close or
    Reset, Reset never fails and the first Close after feeding succeeds. *)
Theorem C19_cleanup : forall sort_rows run_size pk ops,
  well_used false ops ->
  trace_clean false ops (sop_trace sort_rows run_size pk new_sorter ops).
Proof. exact Sorter_proofs.cleanup_all_histories. Qed.
Print Assumptions C19_cleanup.

(** One sorter reused for several tables, as doctor's resolver and ingest.reingestTable do
    (Reset; SetColumns; PK = ...; AddRow for every row; one output - then the next table,
    with ANOTHER column count and ANOTHER key, possibly none): whatever the sorter was used
    for before, the outputs of every use are exactly those of a fresh sorter given that
    use's table alone.  Nothing of an earlier table's configuration survives Reset. *)
Theorem C19_reuse_is_fresh : forall sort_rows run_size uses u,
  snd (uop_run sort_rows run_size u (concat (map use_ops uses))) =
  concat (map (fun x => snd (uop_run sort_rows run_size new_usorter (use_ops x))) uses).
Proof. exact Sorter_proofs.reuse_is_fresh. Qed.
Print Assumptions C19_reuse_is_fresh.

(** ... and a fresh use accepts every row and emits the sorted key-deduplication of its
    table (blocks, resp. rows): with C19_reuse_is_fresh this holds for every use of every
    reuse history. *)
Theorem C19_reuse_blocks : forall ncols sort_rows run_size pk rem rows,
  sort_ok ncols sort_rows -> wf_pk ncols pk -> wf_rows ncols rows -> cells_in_limit rows ->
  wf_removed ncols pk rem ->
  exists bs nch,
    snd (uop_run sort_rows run_size new_usorter (use_ops (mk_suse ncols pk rows true rem))) =
      map (fun _ => UOAdd true) rows ++ [UOBlocks nch (Some bs)] /\
    sorted_dedup_of ncols pk rem rows (concat (map b_rows bs)).
Proof. exact Sorter_proofs.fresh_use_blocks. Qed.
Print Assumptions C19_reuse_blocks.

Theorem C19_reuse_rows : forall ncols sort_rows run_size pk rem rows,
  sort_ok ncols sort_rows -> wf_pk ncols pk -> wf_rows ncols rows -> cells_in_limit rows ->
  wf_removed ncols pk rem ->
  exists bs nch,
    snd (uop_run sort_rows run_size new_usorter (use_ops (mk_suse ncols pk rows false rem))) =
      map (fun _ => UOAdd true) rows ++ [UORows nch (Some bs)] /\
    sorted_dedup_of ncols pk rem rows (concat (map r_rows bs)).
Proof. exact Sorter_proofs.fresh_use_rows. Qed.
Print Assumptions C19_reuse_rows.

(** Non-vacuity: a key-less 2-column table, then a key-less 3-column table whose rows
    agree on the first two columns, through one sorter: all three rows of the second
    table come out, each block carrying the whole first row as its key. *)
Example C19_reuse_example :
  let r2 (a b : N) : row := [[a]; [b]] in
  let r3 (a b c : N) : row := [[a]; [b]; [c]] in
  let u1 := mk_suse 2 [] [r2 1 2; r2 1 1] true [] in
  let u2 := mk_suse 3 [] [r3 1 9 8; r3 2 5 5; r3 1 9 7] false [] in
  snd (uop_run isort_rows 1 new_usorter (use_ops u1 ++ use_ops u2)) =
  [UOAdd true; UOAdd true;
   UOBlocks 2 (Some [mk_sblock 0 [r2 1 1; r2 1 2] (r2 1 1)]);
   UOAdd true; UOAdd true; UOAdd true;
   UORows 3 (Some [mk_srows 0 [r3 1 9 7; r3 1 9 8; r3 2 5 5]])].
Proof. vm_compute. reflexivity. Qed.

(** The hypothesis on the in-memory sort is satisfiable: the insertion sort used by
    the extracted model meets it. *)
Theorem C19_sort_ok_inhabited : forall ncols, sort_ok ncols isort_rows.
Proof. exact Sorter_proofs.isort_ok. Qed.
Print Assumptions C19_sort_ok_inhabited.

(** Non-vacuity: a composite key whose first component ties, a duplicate key across a
    run boundary, an all-empty key, one removed non-key column, run size 1. *)
Example C19_example :
  let r (a b c : N) : row := [[a]; [b]; [c]] in
  let rows := [r 2 1 7; r 1 2 8; r 1 1 9; [[]; []; [5]]; r 1 2 8; r 3 0 6] in
  match add_rows isort_rows 1 [0%nat; 1%nat] new_sorter rows with
  | Some s => option_map (fun bs => concat (map b_rows bs)) (sorted_blocks isort_rows [0%nat; 1%nat] 3 [2%nat] s)
  | None => None
  end = Some [[[]; []]; [[1]; [1]]; [[1]; [2]]; [[2]; [1]]; [[3]; [0]]].
Proof. vm_compute. reflexivity. Qed.
