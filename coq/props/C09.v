(** C09 - after fetch or push the receiver holds the full history of every updated ref.
    Only statements, each closed by [exact] of a lemma from proofs/Session_proofs.v.

    PARTIAL BY NATURE.  The theorems are about the client sessions of model/Session.v composed with a
    REFERENCE server model (the real server lives in another repository); HTTP, gzip, cookies and
    retry/backoff are not modelled; a table stands for the table object with its blocks and indices.
    What needs no server assumption at all is proved for ARBITRARY packfiles: the receiver's commit gate
    keeps the store Closed, so "the session reports success" already implies that every wanted commit and
    all its ancestors are stored.  Independence of the number of haves per round trip [k], of the packfile
    size [p], of the depth and of table negotiation is the universal quantification in the statements.

    Trusted reference behaviour (harness/c09_server.go): the receive-pack server applies the refs once, as
    soon as every commit it expected has arrived, and answers every later packfile of the session with the
    same report.  ReceivePackSession reads only the answer to its LAST packfile and its want lists come out
    in Go map order, so a server that closed the session at the first report would make `wrgl push` fail
    after its refs were applied.

    Depth clause: PARTIAL, under the named premise [SrvDepth] (= C08_depth + C07 for the stream of the
    session).  It excludes exactly the two known findings, each with a witness theorem below:
      depth-rule-want-order   ([Shadowed]: a commit of a want's region is reached from another want at
                               [depth] or more steps; enqueueWants walks wants in map order and stops at
                               commits seen by an earlier walk) - C09_depth_want_order_refuted
      depth-rule-followed-tag (a tag no refspec asked for, stored because its commit arrived as an
                               ancestor, possibly shallowly) - C09_depth_followed_tag_refuted; the
                               theorem speaks of wants = commits a refspec asked for *)
From Coq Require Import List NArith Bool String.
From W.lib Require Import Tree Bytes.
From W.model Require Import RefUpdate Session.
From W.proofs Require Import RefUpdate_proofs Session_proofs.
From W.gen Require Import Extracted.
Import ListNotations.
Local Open Scope N_scope.

(** the receive loop of both sessions over ARBITRARY packfiles (any server, any cut): success means every
    expected commit is stored with all its ancestors, and the store stays Closed *)
Theorem C09_receive_gate : forall g packs o e o' n,
  Closed g (o_commits o) ->
  receive_packs g o e packs = Some (o', [], n) ->
  Closed g (o_commits o') /\
  forall w, In w e -> In w (o_commits o') /\ forall a, anc (to_graph g) a w -> In a (o_commits o').
Proof. exact receive_packs_closed. Qed.
Print Assumptions C09_receive_gate.

(** fetchObjects: for every k, p, depth, table negotiation *)
Theorem C09_fetch_objects_closed : forall g local remote adv depth k p tn o' rounds packs,
  Closed g (o_commits (r_objs local)) ->
  fetch_objects g local remote adv depth k p tn = FDone o' rounds packs ->
  Closed g (o_commits o') /\
  incl (o_commits (r_objs local)) (o_commits o') /\ incl (o_tables (r_objs local)) (o_tables o') /\
  forall w, In w adv -> In w (o_commits o') /\ forall a, anc (to_graph g) a w -> In a (o_commits o').
Proof. exact fetch_objects_closed. Qed.
Print Assumptions C09_fetch_objects_closed.

(** C09_fetch_closed (history clause, full strength): after fetch.Fetch - whatever it reports - the local
    store is Closed, nothing was lost, and every ref that was created or moved points at a stored commit
    all of whose ancestors are stored *)
Theorem C09_fetch_closed : forall g local remote specs gforce depth k p tn,
  Closed g (o_commits (r_objs local)) ->
  let '(out, l') := fetch g local remote specs gforce depth k p tn in
  Closed g (o_commits (r_objs l')) /\
  incl (o_commits (r_objs local)) (o_commits (r_objs l')) /\
  incl (o_tables (r_objs local)) (o_tables (r_objs l')) /\
  forall n c, rget (r_refs l') n = Some c -> rget (r_refs local) n <> Some c ->
              In c (o_commits (r_objs l')) /\
              forall a, anc (to_graph g) a c -> In a (o_commits (r_objs l')).
Proof. exact fetch_closed. Qed.
Print Assumptions C09_fetch_closed.

(** FULL depth clause (kept visible; REFUTED for the code as it is, see the two witnesses below):
      after a successful fetch every created or moved ref -> c has the table of every commit of
      [region g depth c] (all ancestors when depth = 0).
    PARTIAL: for every commit a refspec asked for (a want), under the premise SrvDepth on the session's
    packfiles, the table of every commit of its region that was not stored before is stored afterwards. *)
Theorem C09_fetch_depth_partial : forall g local remote adv depth k p tn o' rounds n,
  Closed g (o_commits (r_objs local)) ->
  fetch_objects g local remote adv depth k p tn = FDone o' rounds n ->
  (forall commons,
     SrvDepth g (r_objs local) (filter (fun c => negb (cmem c (o_commits (r_objs local)))) adv) depth
       (chunk p (plan g (r_objs remote) (filter (fun c => negb (cmem c (o_commits (r_objs local)))) adv)
                      commons depth (if tn then o_tables (r_objs local) else []))) n) ->
  forall w, In w adv -> ~ In w (o_commits (r_objs local)) ->
  forall c, In c (region g depth w) -> ~ In c (o_commits (r_objs local)) -> In (ctbl g c) (o_tables o').
Proof. exact fetch_depth_partial. Qed.
Print Assumptions C09_fetch_depth_partial.

(** the same for ARBITRARY packfiles *)
Theorem C09_tables_partial : forall g o wants depth packs o' n,
  Closed g (o_commits o) ->
  receive_packs g o wants packs = Some (o', [], n) ->
  SrvDepth g o wants depth packs n ->
  forall w, In w wants -> forall c, In c (region g depth w) -> ~ In c (o_commits o) ->
            In (ctbl g c) (o_tables o').
Proof. exact tables_within_depth_partial. Qed.
Print Assumptions C09_tables_partial.

(** known finding depth-rule-want-order (= C08 tables-depend-on-want-order): chain 0 <- 1 <- 2, wants 2 and 1,
    depth 1: walking want 2 first, the faithful table selection omits the table of want 1 *)
Theorem C09_depth_want_order_refuted :
  tables_ord wo_g [] 1 [2; 1] = [3] /\ tables_ord wo_g [] 1 [1; 2] = [2; 3] /\
  In 1 (region wo_g 1 1) /\ Shadowed wo_g [2; 1] 1.
Proof. exact depth_want_order_refuted. Qed.
Print Assumptions C09_depth_want_order_refuted.

(** known finding depth-rule-followed-tag: the fetch succeeds, creates tags/t -> 0, and the table of 0 is absent *)
Theorem C09_depth_followed_tag_refuted :
  let '(out, l') := fetch ft_g ft_local ft_remote [ex_spec] false 1 256 2000 false in
  out = 0 /\ rget (r_refs l') ft_tag = Some 0 /\ In 0 (region ft_g 1 0) /\
  ~ In (ctbl ft_g 0) (o_tables (r_objs l')).
Proof. exact depth_followed_tag_refuted. Qed.
Print Assumptions C09_depth_followed_tag_refuted.

(** refs are written after the last object write: with the call order the translator re-reads from
    cmd/wrgl/fetch/root.go (gen/Extracted.v skel_fetch) the writes of a fetch are all objects, then all refs *)
Theorem C09_refs_after_objects : forall skel ows rws,
  fetch_skel_ok skel = true ->
  fetch_writes skel ows rws = (map WObj ows ++ map WRef rws)%list.
Proof. exact refs_after_objects. Qed.
Print Assumptions C09_refs_after_objects.

Theorem C09_fetch_skel_tie : fetch_skel_ok skel_fetch = true.
Proof. vm_compute. reflexivity. Qed.
Print Assumptions C09_fetch_skel_tie.

(** C09_idempotent: an immediately repeated session for the same advertisement wants nothing (no request
    beyond GET /refs/, no object write) ... *)
Theorem C09_idempotent_objects : forall g local remote adv depth k p tn o' rounds packs refs' remote' d2 k2 p2 tn2,
  Closed g (o_commits (r_objs local)) ->
  fetch_objects g local remote adv depth k p tn = FDone o' rounds packs ->
  fetch_objects g (mk_repo o' refs') remote' adv d2 k2 p2 tn2 = FNothing.
Proof. exact fetch_objects_idempotent. Qed.
Print Assumptions C09_idempotent_objects.

(** ... and the loop of saveFetchedRefs writes nothing when every destination already holds its value *)
Theorem C09_idempotent_refs : forall ia gforce items s tr nrej,
  (forall it, In it items -> rget s (fi_dst it) = Some (fi_new it)) ->
  fold_left (fetch_item ia gforce) items (s, tr, nrej) = (s, tr, nrej).
Proof. exact fetch_loop_noop. Qed.
Print Assumptions C09_idempotent_refs.

(** push: from a Closed remote whose refs resolve, whatever the push reports, the remote stays Closed and
    every ref - in particular every updated one - points at a stored commit with all its ancestors *)
Theorem C09_push_closed : forall g local remote items gforce p,
  Closed g (o_commits (r_objs remote)) -> RefsResolve remote ->
  let '(out, r') := push g local remote items gforce p in
  Closed g (o_commits (r_objs r')) /\ RefsResolve r' /\
  incl (o_commits (r_objs remote)) (o_commits (r_objs r')) /\
  incl (o_tables (r_objs remote)) (o_tables (r_objs r')) /\
  forall n c, rget (r_refs r') n = Some c ->
              In c (o_commits (r_objs r')) /\ forall a, anc (to_graph g) a c -> In a (o_commits (r_objs r')).
Proof. exact push_closed. Qed.
Print Assumptions C09_push_closed.

(** TRANSPORT FAULTS (one response of the exchange lost: connection abort, or HTTP/2 stream reset which makes
    fetch.Fetch retry; or PERSISTENT: every packfile answer cut inside its last object / lost on every attempt): whatever is lost, after fetch the local store is Closed, nothing is lost and every
    created or moved ref has its whole history; a session that does not reach "done" writes no ref
    (fetch_f returns the refs untouched in mode 1) *)
Theorem C09_fetch_faults : forall g local remote specs gforce depth k p tn f,
  Closed g (o_commits (r_objs local)) ->
  fetch_post g local (snd (fetch_f g local remote specs gforce depth k p tn f)).
Proof. exact fetch_f_closed. Qed.
Print Assumptions C09_fetch_faults.

Theorem C09_push_faults : forall g local remote items gforce p f,
  Closed g (o_commits (r_objs remote)) -> RefsResolve remote ->
  push_post g remote (snd (push_f g local remote items gforce p f)).
Proof. exact push_f_closed. Qed.
Print Assumptions C09_push_faults.

(** a push from a SHALLOW local repository: if a commit that would have to travel lacks its table locally, nothing
    is sent and the remote is untouched (so "push succeeded" implies every sent commit carried its table); with
    the source remote of the shallow commits gone the code panics instead of erroring ([push_k], outcome 2) -
    either way the remote stays Closed with resolving refs *)
Theorem C09_push_refuses_shallow : forall g local remote items gforce p,
  push_shallow_refused g local remote items gforce = true ->
  push g local remote items gforce p = (1, remote).
Proof. exact push_refuses_shallow. Qed.
Print Assumptions C09_push_refuses_shallow.

Theorem C09_push_shallow_closed : forall known g local remote items gforce p f,
  Closed g (o_commits (r_objs remote)) -> RefsResolve remote ->
  push_post g remote (snd (push_k known g local remote items gforce p f)).
Proof. exact push_k_closed. Qed.
Print Assumptions C09_push_shallow_closed.

(** session bookkeeping: popHaves offers only commits whose table is stored, at most k per round, exactly k
    unless the queue ran dry; the commons a negotiation ends with are commits the server knows that the
    client offered; the number of rounds is bounded by the fuel (= number of commits + 1) *)
Theorem C09_pop_haves : forall g tables fuel k s acc haves done s',
  pop_haves g tables fuel k s acc = (haves, done, s') ->
  (forall h, In h haves -> In h acc \/ cmem (ctbl g h) tables = true) /\
  (length haves <= length acc + k)%nat /\
  (done = false -> length haves = (length acc + k)%nat).
Proof. exact pop_haves_spec. Qed.
Print Assumptions C09_pop_haves.

Theorem C09_negotiate : forall g local known wants k fuel s commons rounds commons' rounds',
  negotiate g local known wants k fuel s commons rounds = (commons', rounds') ->
  (forall c, In c commons' -> In c commons \/ (In c known /\ cmem (ctbl g c) (o_tables local) = true)) /\
  (rounds' <= rounds + fuel)%nat.
Proof. exact negotiate_commons. Qed.
Print Assumptions C09_negotiate.

(** non-vacuity: a concrete fetch (k = 1, one object per packfile) from a Closed store succeeds and moves a
    ref; the premise SrvDepth holds for a concrete reference stream; a two-want request that is not Shadowed *)
Theorem C09_example_fetch :
  Closed ex_g (o_commits (r_objs ex_local)) /\
  fetch ex_g ex_local ex_remote [ex_spec] false 0 1 1 true =
  (0, mk_repo (mk_objs [0; 1; 2; 3; 4] [1; 2; 3; 4; 5])
              (rset_log (r_refs ex_local) (s_remotes ++ [111; 47; 109])%list 4 ACT_FETCH)).
Proof. exact (conj ex_closed ex_fetch). Qed.
Print Assumptions C09_example_fetch.

Theorem C09_example_srv_depth : SrvDepth ex_g (r_objs ex_local) [4] 1 ex_packs (length ex_packs).
Proof. exact ex_srv_depth. Qed.
Print Assumptions C09_example_srv_depth.

Theorem C09_example_not_shadowed : ~ Shadowed ex_g [2; 3] 1.
Proof. exact ex_not_shadowed. Qed.
Print Assumptions C09_example_not_shadowed.
