(** Composition B3: C01/C03 (ingest) -> C07 (transfer).
    Fragment to be merged into props/Compose.v.  Only statements, each closed by [exact]
    of a lemma of proofs/BridgeIngestTransfer_proofs.v; definitions of the bridge are in
    model/BridgeIngestTransfer.v.  Nothing is Import-ed from the two developments (their
    names clash: [table], [t_pk], [t_blocks], [blkidx]); everything is qualified.

    WHAT WAS A NAMED HYPOTHESIS.  C07's theorems (C07_exact, C07_order, C07_shallow_..)
    assume [exact_pre], whose first field [pre_src_wf : SrcWF bshape src] says "every table
    stored at the SOURCE is sound (key columns in range, every block non-empty with rows as
    wide as the header, recorded block-index ids equal to re-indexing the blocks) and all
    its blocks are stored"; for the destination the stronger [TablesWF] (block indices,
    table index and profile present too).  That tables written by the ingest path have
    these properties is C03 ([WF_table]) and C01 (table object written last) - proved in
    another model with another table representation.

    THE BRIDGE.  Ingest model: a table carries its blocks and block indices as CONTENTS and
    the store is the ordered list of writes [list wobj].  Transfer model: everything is an
    abstract id [N]; a block index is NAMED by the pair (pk, block id) it indexes; the row
    shape of a block is a function [bshape] of its id.  [repo_of_writes cs pf w] is the
    transfer-model repository holding the objects written by [w], through id functions
    that are Section variables standing for MeowHash, exactly as [table_id] of
    IngestSpec.v: [Hb] block sum, [Hi] block-index sum, [Ht] table sum, plus [Hz] (identity
    of the compressed block bytes) and [Hr] (rest of the table bytes: column names, row
    count) of which nothing is ever assumed.  Every object is stored under its sum (that
    Save keys by the hash of the content is C06_key_is_hash; the byte level is not
    re-entered here).  The block-index name recorded in a table next to block [blk] is
    (pk, Hb blk) exactly when the recorded content has the sum of [index_block H pk blk]
    (that comparison is all the transfer model ever does with a recorded name), so the
    clause of WF_table "block i's index is the index of block i's rows" is used for real.
    The source is built from the writes of ANY sequence of ingests ([job]: CSV ingest =
    premises of C03_ingest_wf, or sorter ingest = premises of C03_sorter_any_rows_wf: the
    merge-commit / doctor path), for every run size, in-memory sort and block arrival
    order, and - using C01's "table object written last" - from ANY PREFIX of those writes
    (a crash in the middle of an ingest).

    RESTRICTIONS (the two representations legitimately differ):
    - The ingest model records no table profile (Ingest.v "Not modelled: profile"; the code
      writes it between table index and table only when the sorter has a summary).  So
      [TablesWF] of an ingest-built repository needs the premise [profiles_cover pf w]
      (every stored table id is in the given profile set).  [SrcWF], which is what
      [exact_pre] asks of the SOURCE, needs no such premise.
    - The ingest model has no commit objects: the commit list [cs] is given from outside
      and the commit-graph premises of C07 remain.
    - [bshape] is tied to the stored blocks by [shape_consistent Hb bshape w] :
      bshape (Hb blk) = shape_of blk for every WRITTEN block.  It is implied by injectivity
      of [Hb] on the written blocks for the canonical [bshape_for]
      (Compose_shape_from_block_hash); no global injectivity is assumed anywhere.
    - Compose_ingest_transfer needs NO injectivity of the id functions: C07's own
      [compat src dst] (an id present in both stores names the same content) stays a
      premise.  When the destination is ingest-built too (Compose_ingest_transfer_both) its
      table and block parts follow from injectivity of [Hb] / [table_id] RESTRICTED to the
      objects of the two stores ([blocks_inj], [tables_inj]) and only "the commit stores
      agree" remains.

    REMAINING HYPOTHESES of the final theorems (beyond the C03 premises of every ingest,
    packed in [job_ok], and [shape_consistent]):
      Compose_ingest_transfer / _order : sent commits are the source's ([lookup c cs]),
        declared commons are source commits, [parent_first dst to_send], [Closed dst],
        [TablesWF bshape dst], [compat src dst], [commons_full src dst commons].
      Compose_ingest_transfer_both : [profiles_cover] for the destination, [blocks_inj],
        [tables_inj] across the two stores, sent commits / commons in [cs],
        [parent_first], [Closed] of the destination, [agree cs cs'], [commons_full].
      Compose_ingested_table_arrives : as Compose_ingest_transfer, plus [blocks_inj] and
        [tables_inj] on the source's own objects (so that looking an ingested table up by
        its id returns it), the commit carrying the table is sent and the table is in
        tablesToSend. *)
From W.lib Require Tree Bytes.
From W.model Require Sorter SorterSpec Ingest IngestSpec Transfer TransferSpec BridgeIngestTransfer.
From W.proofs Require BridgeIngestTransfer_proofs.
From Coq Require Import List NArith.
Import ListNotations.

(** C03 => C07's source precondition.  For every sequence of ingests each meeting the
    premises of its C03 theorem, and every prefix [p] of everything they write (crash at any
    point; [p] = all the writes when nothing is lost): the repository holding [p] (with any
    commit objects, any profile set) satisfies [SrcWF]. *)
Theorem Compose_ingest_src_wf :
  forall (H : list Tree.bytes -> N) (Hb Hz : list Sorter.row -> N) (Hi : Ingest.blkidx -> N)
         (Ht : list Tree.bytes * list nat * N * list N * list N -> N) (Hr : list Tree.bytes -> N -> N)
         (bshape : N -> N) js p cs pf,
  Forall BridgeIngestTransfer.job_ok js ->
  BridgeIngestTransfer.crash_prefix p (BridgeIngestTransfer.all_writes H js) ->
  BridgeIngestTransfer.shape_consistent Hb bshape p ->
  TransferSpec.SrcWF bshape (BridgeIngestTransfer.repo_of_writes H Hb Hz Hi Ht Hr cs pf p).
Proof. exact BridgeIngestTransfer_proofs.ingest_src_wf. Qed.
Print Assumptions Compose_ingest_src_wf.

(** ... and [TablesWF] (every stored table usable: blocks, block indices, table index,
    profile present) once the profiles, which the ingest model does not record, are given. *)
Theorem Compose_ingest_tables_wf :
  forall (H : list Tree.bytes -> N) (Hb Hz : list Sorter.row -> N) (Hi : Ingest.blkidx -> N)
         (Ht : list Tree.bytes * list nat * N * list N * list N -> N) (Hr : list Tree.bytes -> N -> N)
         (bshape : N -> N) js p cs pf,
  Forall BridgeIngestTransfer.job_ok js ->
  BridgeIngestTransfer.crash_prefix p (BridgeIngestTransfer.all_writes H js) ->
  BridgeIngestTransfer.shape_consistent Hb bshape p ->
  BridgeIngestTransfer.profiles_cover Hb Hi Ht pf p ->
  TransferSpec.TablesWF bshape (BridgeIngestTransfer.repo_of_writes H Hb Hz Hi Ht Hr cs pf p).
Proof. exact BridgeIngestTransfer_proofs.ingest_tables_wf. Qed.
Print Assumptions Compose_ingest_tables_wf.

(** the shape hypothesis is a consequence of the hash assumption on the stored blocks *)
Theorem Compose_shape_from_block_hash :
  forall (Hb : list Sorter.row -> N) w,
  BridgeIngestTransfer.blocks_inj Hb w w ->
  BridgeIngestTransfer.shape_consistent Hb (BridgeIngestTransfer.bshape_for Hb w) w.
Proof. exact BridgeIngestTransfer_proofs.shape_consistent_for. Qed.
Print Assumptions Compose_shape_from_block_hash.

(** [exact_pre] (the precondition shared by C07_exact, C07_order, C07_shallow_iff/_reject/
    _silent) with its source-table field discharged. *)
Theorem Compose_ingest_exact_pre :
  forall (H : list Tree.bytes -> N) (Hb Hz : list Sorter.row -> N) (Hi : Ingest.blkidx -> N)
         (Ht : list Tree.bytes * list nat * N * list N * list N -> N) (Hr : list Tree.bytes -> N -> N)
         (bshape : N -> N) js p cs pf dst to_send tbs commons,
  Forall BridgeIngestTransfer.job_ok js ->
  BridgeIngestTransfer.crash_prefix p (BridgeIngestTransfer.all_writes H js) ->
  BridgeIngestTransfer.shape_consistent Hb bshape p ->
  (forall c cc, In (c, cc) to_send -> Transfer.lookup c cs = Some cc) ->
  (forall c, In c commons -> Transfer.has c cs = true) ->
  TransferSpec.parent_first dst to_send ->
  TransferSpec.Closed dst -> TransferSpec.TablesWF bshape dst ->
  TransferSpec.compat (BridgeIngestTransfer.repo_of_writes H Hb Hz Hi Ht Hr cs pf p) dst ->
  TransferSpec.exact_pre bshape (BridgeIngestTransfer.repo_of_writes H Hb Hz Hi Ht Hr cs pf p)
                         dst to_send tbs commons.
Proof. exact BridgeIngestTransfer_proofs.ingest_exact_pre. Qed.
Print Assumptions Compose_ingest_exact_pre.

(** END TO END: C07_exact for a source whose tables come from ingests.  The premise "the
    source's tables are sound and hold their blocks" is gone; what remains of C07's premises
    concerns the commit objects and the destination. *)
Theorem Compose_ingest_transfer :
  forall (H : list Tree.bytes -> N) (Hb Hz : list Sorter.row -> N) (Hi : Ingest.blkidx -> N)
         (Ht : list Tree.bytes * list nat * N * list N * list N -> N) (Hr : list Tree.bytes -> N -> N)
         (bshape : N -> N) js p cs pf dst to_send tbs commons size max,
  Forall BridgeIngestTransfer.job_ok js ->
  BridgeIngestTransfer.crash_prefix p (BridgeIngestTransfer.all_writes H js) ->
  BridgeIngestTransfer.shape_consistent Hb bshape p ->
  (forall c cc, In (c, cc) to_send -> Transfer.lookup c cs = Some cc) ->
  (forall c, In c commons -> Transfer.has c cs = true) ->
  TransferSpec.parent_first dst to_send ->
  TransferSpec.Closed dst -> TransferSpec.TablesWF bshape dst ->
  TransferSpec.compat (BridgeIngestTransfer.repo_of_writes H Hb Hz Hi Ht Hr cs pf p) dst ->
  TransferSpec.commons_full (BridgeIngestTransfer.repo_of_writes H Hb Hz Hi Ht Hr cs pf p) dst commons ->
  let src := BridgeIngestTransfer.repo_of_writes H Hb Hz Hi Ht Hr cs pf p in
  exists objs d' packs,
    Transfer.stream src to_send tbs commons = Some objs /\
    Transfer.transfer bshape size src to_send tbs commons max dst = Transfer.TDone d' packs /\
    TransferSpec.packs_of objs packs /\
    TransferSpec.exact_post bshape src dst to_send tbs d'.
Proof. exact BridgeIngestTransfer_proofs.compose_ingest_transfer. Qed.
Print Assumptions Compose_ingest_transfer.

(** the same for C07_order *)
Theorem Compose_ingest_transfer_order :
  forall (H : list Tree.bytes -> N) (Hb Hz : list Sorter.row -> N) (Hi : Ingest.blkidx -> N)
         (Ht : list Tree.bytes * list nat * N * list N * list N -> N) (Hr : list Tree.bytes -> N -> N)
         (bshape : N -> N) js p cs pf dst to_send tbs commons size max,
  Forall BridgeIngestTransfer.job_ok js ->
  BridgeIngestTransfer.crash_prefix p (BridgeIngestTransfer.all_writes H js) ->
  BridgeIngestTransfer.shape_consistent Hb bshape p ->
  (forall c cc, In (c, cc) to_send -> Transfer.lookup c cs = Some cc) ->
  (forall c, In c commons -> Transfer.has c cs = true) ->
  TransferSpec.parent_first dst to_send ->
  TransferSpec.Closed dst -> TransferSpec.TablesWF bshape dst ->
  TransferSpec.compat (BridgeIngestTransfer.repo_of_writes H Hb Hz Hi Ht Hr cs pf p) dst ->
  TransferSpec.commons_full (BridgeIngestTransfer.repo_of_writes H Hb Hz Hi Ht Hr cs pf p) dst commons ->
  let src := BridgeIngestTransfer.repo_of_writes H Hb Hz Hi Ht Hr cs pf p in
  exists d' packs,
    Transfer.transfer bshape size src to_send tbs commons max dst = Transfer.TDone d' packs /\
    TransferSpec.blocks_before_tables (TransferSpec.initial_common_blocks src commons) (concat packs) /\
    TransferSpec.table_before_commits (concat packs) /\
    TransferSpec.commits_in_order to_send (concat packs) /\
    TransferSpec.parents_before_children dst (concat packs).
Proof. exact BridgeIngestTransfer_proofs.compose_ingest_transfer_order. Qed.
Print Assumptions Compose_ingest_transfer_order.

(** Both repositories built by ingests (the destination with its profiles): C07_exact with
    BOTH table premises ([SrcWF] of the source, [TablesWF] of the destination) and the table
    and block parts of [compat] discharged - the latter from hash injectivity restricted to
    the objects of the two stores.  Only commit-graph premises remain. *)
Theorem Compose_ingest_transfer_both :
  forall (H : list Tree.bytes -> N) (Hb Hz : list Sorter.row -> N) (Hi : Ingest.blkidx -> N)
         (Ht : list Tree.bytes * list nat * N * list N * list N -> N) (Hr : list Tree.bytes -> N -> N)
         (bshape : N -> N) js p cs pf js' p' cs' pf' to_send tbs commons size max,
  Forall BridgeIngestTransfer.job_ok js ->
  BridgeIngestTransfer.crash_prefix p (BridgeIngestTransfer.all_writes H js) ->
  Forall BridgeIngestTransfer.job_ok js' ->
  BridgeIngestTransfer.crash_prefix p' (BridgeIngestTransfer.all_writes H js') ->
  BridgeIngestTransfer.shape_consistent Hb bshape p ->
  BridgeIngestTransfer.shape_consistent Hb bshape p' ->
  BridgeIngestTransfer.profiles_cover Hb Hi Ht pf' p' ->
  BridgeIngestTransfer.blocks_inj Hb p p' -> BridgeIngestTransfer.tables_inj Hb Hi Ht p p' ->
  (forall c cc, In (c, cc) to_send -> Transfer.lookup c cs = Some cc) ->
  (forall c, In c commons -> Transfer.has c cs = true) ->
  TransferSpec.parent_first (BridgeIngestTransfer.repo_of_writes H Hb Hz Hi Ht Hr cs' pf' p') to_send ->
  TransferSpec.Closed (BridgeIngestTransfer.repo_of_writes H Hb Hz Hi Ht Hr cs' pf' p') ->
  TransferSpec.agree cs cs' ->
  TransferSpec.commons_full (BridgeIngestTransfer.repo_of_writes H Hb Hz Hi Ht Hr cs pf p)
                            (BridgeIngestTransfer.repo_of_writes H Hb Hz Hi Ht Hr cs' pf' p') commons ->
  let src := BridgeIngestTransfer.repo_of_writes H Hb Hz Hi Ht Hr cs pf p in
  let dst := BridgeIngestTransfer.repo_of_writes H Hb Hz Hi Ht Hr cs' pf' p' in
  exists objs d' packs,
    Transfer.stream src to_send tbs commons = Some objs /\
    Transfer.transfer bshape size src to_send tbs commons max dst = Transfer.TDone d' packs /\
    TransferSpec.packs_of objs packs /\
    TransferSpec.exact_post bshape src dst to_send tbs d'.
Proof. exact BridgeIngestTransfer_proofs.compose_ingest_transfer_both. Qed.
Print Assumptions Compose_ingest_transfer_both.

(** In the words of the ingest model: the table [T] produced by one of the ingests and
    carried by a sent commit is, after the transfer, stored at the destination under its id
    [table_id Hb Hi Ht T] as the image of [T]; every block of [T] (its rows are
    [Ingest.rows_of T], by C01 the sorted key-dedup of the CSV) is stored under its block id
    with the source's bytes; and the table is usable there (indices and profile rebuilt). *)
Theorem Compose_ingested_table_arrives :
  forall (H : list Tree.bytes -> N) (Hb Hz : list Sorter.row -> N) (Hi : Ingest.blkidx -> N)
         (Ht : list Tree.bytes * list nat * N * list N * list N -> N) (Hr : list Tree.bytes -> N -> N)
         (bshape : N -> N) js cs pf dst to_send tbs commons size max j T c cc,
  Forall BridgeIngestTransfer.job_ok js ->
  BridgeIngestTransfer.shape_consistent Hb bshape (BridgeIngestTransfer.all_writes H js) ->
  BridgeIngestTransfer.blocks_inj Hb (BridgeIngestTransfer.all_writes H js) (BridgeIngestTransfer.all_writes H js) ->
  BridgeIngestTransfer.tables_inj Hb Hi Ht (BridgeIngestTransfer.all_writes H js) (BridgeIngestTransfer.all_writes H js) ->
  (forall c cc, In (c, cc) to_send -> Transfer.lookup c cs = Some cc) ->
  (forall c, In c commons -> Transfer.has c cs = true) ->
  TransferSpec.parent_first dst to_send ->
  TransferSpec.Closed dst -> TransferSpec.TablesWF bshape dst ->
  TransferSpec.compat (BridgeIngestTransfer.repo_of_writes H Hb Hz Hi Ht Hr cs pf (BridgeIngestTransfer.all_writes H js)) dst ->
  TransferSpec.commons_full (BridgeIngestTransfer.repo_of_writes H Hb Hz Hi Ht Hr cs pf (BridgeIngestTransfer.all_writes H js)) dst commons ->
  In j js -> BridgeIngestTransfer.job_table H j = Some T ->
  In (c, cc) to_send -> Transfer.c_table cc = BridgeIngestTransfer.tid Hb Hi Ht T ->
  Transfer.memN (BridgeIngestTransfer.tid Hb Hi Ht T) tbs = true ->
  exists d' packs,
    Transfer.transfer bshape size
      (BridgeIngestTransfer.repo_of_writes H Hb Hz Hi Ht Hr cs pf (BridgeIngestTransfer.all_writes H js))
      to_send tbs commons max dst = Transfer.TDone d' packs /\
    Transfer.lookup c (Transfer.commits d') = Some cc /\
    Transfer.lookup (BridgeIngestTransfer.tid Hb Hi Ht T) (Transfer.tables d')
      = Some (BridgeIngestTransfer.abs_table H Hb Hi Hr T) /\
    (forall blk, In blk (Ingest.t_blocks T) ->
       Transfer.lookup (Hb blk) (Transfer.blocks d') = Some (Hz blk)) /\
    TransferSpec.table_ok bshape d' (BridgeIngestTransfer.tid Hb Hi Ht T) (BridgeIngestTransfer.abs_table H Hb Hi Hr T).
Proof. exact BridgeIngestTransfer_proofs.compose_ingested_table_arrives. Qed.
Print Assumptions Compose_ingested_table_arrives.

(* ================================================================== *)
(** Non-vacuity (instance: [BridgeIngestTransfer_proofs.B3Example]).  Source: a CSV of 300
    rows in descending key order (run size 64, blocks arriving reversed; a TWO-block table)
    and a sorter ingest of two runs with a duplicate row; cheap, non-injective polynomial
    "hashes".  Every premise of the theorem holds and the transfer really runs. *)
Module B3E := BridgeIngestTransfer_proofs.B3Example.

(** Compose_ingest_src_wf / _tables_wf / _exact_pre / _transfer / _transfer_order: all
    premises, to an empty destination, one object per packfile: block, block, table,
    commit, block, table, commit; both tables end up stored with 3 rebuilt block indices. *)
Example Compose_ingest_transfer_nonvacuous :
  Forall BridgeIngestTransfer.job_ok B3E.js /\
  BridgeIngestTransfer.crash_prefix B3E.w (BridgeIngestTransfer.all_writes B3E.Hc B3E.js) /\
  BridgeIngestTransfer.shape_consistent B3E.Hb B3E.bsh B3E.w /\
  (forall c cc, In (c, cc) B3E.cs -> Transfer.lookup c B3E.cs = Some cc) /\
  (forall c, In c [] -> Transfer.has c B3E.cs = true) /\
  TransferSpec.parent_first Transfer.empty_repo B3E.cs /\
  TransferSpec.Closed Transfer.empty_repo /\ TransferSpec.TablesWF B3E.bsh Transfer.empty_repo /\
  TransferSpec.compat B3E.src Transfer.empty_repo /\
  TransferSpec.commons_full B3E.src Transfer.empty_repo [] /\
  exists d' packs,
    Transfer.transfer B3E.bsh (fun _ => 2%N) B3E.src B3E.cs [B3E.t1; B3E.t2] [] 1%N Transfer.empty_repo
      = Transfer.TDone d' packs /\
    map (map B3E.kind) packs = [[3]; [3]; [2]; [1]; [3]; [2]; [1]]%N /\
    map fst (Transfer.tables d') = [B3E.t2; B3E.t1] /\ length (Transfer.blkidx d') = 3%nat /\
    Transfer.prof d' = [B3E.t2; B3E.t1].
Proof.
  exact (conj B3E.js_ok (conj B3E.whole_w (conj B3E.shape_w (conj B3E.sent_all (conj B3E.no_commons
        (conj B3E.pf_all (conj B3E.closed_empty (conj B3E.wf_empty (conj (B3E.compat_empty _)
        (conj (B3E.full_none _ _) B3E.run_all)))))))))).
Qed.
Print Assumptions Compose_ingest_transfer_nonvacuous.

(** Compose_ingest_transfer_both: the destination ingested the first CSV itself, in ascending
    order, one run, blocks in order - same table id (C02) - and holds commit 0 and the
    profile; the source sends commit 1 declaring commit 0 common: one packfile of the merge
    table's block, the table, the commit. *)
Example Compose_ingest_transfer_both_nonvacuous :
  Forall BridgeIngestTransfer.job_ok B3E.js /\
  BridgeIngestTransfer.crash_prefix B3E.w (BridgeIngestTransfer.all_writes B3E.Hc B3E.js) /\
  Forall BridgeIngestTransfer.job_ok B3E.js' /\
  BridgeIngestTransfer.crash_prefix B3E.w' (BridgeIngestTransfer.all_writes B3E.Hc B3E.js') /\
  BridgeIngestTransfer.shape_consistent B3E.Hb B3E.bsh B3E.w /\
  BridgeIngestTransfer.shape_consistent B3E.Hb B3E.bsh B3E.w' /\
  BridgeIngestTransfer.profiles_cover B3E.Hb B3E.Hi B3E.Ht [B3E.t1] B3E.w' /\
  BridgeIngestTransfer.blocks_inj B3E.Hb B3E.w B3E.w' /\
  BridgeIngestTransfer.tables_inj B3E.Hb B3E.Hi B3E.Ht B3E.w B3E.w' /\
  (forall c cc, In (c, cc) [(1%N, B3E.C1)] -> Transfer.lookup c B3E.cs = Some cc) /\
  (forall c, In c [0%N] -> Transfer.has c B3E.cs = true) /\
  TransferSpec.parent_first B3E.dst' [(1%N, B3E.C1)] /\
  TransferSpec.Closed B3E.dst' /\
  TransferSpec.agree B3E.cs B3E.cs' /\
  TransferSpec.commons_full B3E.src B3E.dst' [0%N] /\
  (B3E.t1 = B3E.tid_of B3E.j1' /\ B3E.t1 <> B3E.t2) /\
  exists d' packs,
    Transfer.transfer B3E.bsh (fun _ => 2%N) B3E.src [(1%N, B3E.C1)] [B3E.t1; B3E.t2] [0%N] 5%N B3E.dst'
      = Transfer.TDone d' packs /\
    map (map B3E.kind) packs = [[3; 2; 1]]%N /\
    map fst (Transfer.tables d') = [B3E.t2; B3E.t1] /\ length (Transfer.blocks d') = 3%nat.
Proof.
  exact (conj B3E.js_ok (conj B3E.whole_w (conj B3E.js'_ok (conj B3E.whole_w'
        (conj B3E.shape_w (conj B3E.shape_w' (conj B3E.prof_w' (conj B3E.binj_ww' (conj B3E.tinj_ww'
        (conj B3E.sent_1 (conj B3E.commons_0 (conj B3E.pf_1 (conj B3E.closed_dst' (conj B3E.agree_cs
        (conj B3E.full_0 (conj B3E.ids B3E.run_both)))))))))))))))).
Qed.
Print Assumptions Compose_ingest_transfer_both_nonvacuous.

(** the conclusion of Compose_ingest_src_wf is not trivially true: the merge table's object
    stored WITHOUT its block is not a valid source. *)
Example Compose_ingest_src_wf_not_trivial :
  BridgeIngestTransfer.job_table B3E.Hc B3E.j2 = Some B3E.T2 /\
  ~ TransferSpec.SrcWF B3E.bsh
      (BridgeIngestTransfer.repo_of_writes B3E.Hc B3E.Hb B3E.Hz B3E.Hi B3E.Ht B3E.Hr [] [] [Ingest.WTable B3E.T2]).
Proof. exact B3E.not_trivial. Qed.
Print Assumptions Compose_ingest_src_wf_not_trivial.

(** the crash-prefix generality is not vacuous: the source crashed during the second ingest
    (its block and block index are stored - three blocks in all - its table index and table
    object are not); the first commit is still transferred. *)
Example Compose_ingest_transfer_crash_nonvacuous :
  Forall BridgeIngestTransfer.job_ok B3E.js /\
  BridgeIngestTransfer.crash_prefix B3E.wcrash (BridgeIngestTransfer.all_writes B3E.Hc B3E.js) /\
  B3E.wcrash <> BridgeIngestTransfer.all_writes B3E.Hc B3E.js /\
  BridgeIngestTransfer.shape_consistent B3E.Hb B3E.bsh B3E.wcrash /\
  (forall c cc, In (c, cc) B3E.cs' -> Transfer.lookup c B3E.cs' = Some cc) /\
  (forall c, In c [] -> Transfer.has c B3E.cs' = true) /\
  TransferSpec.parent_first Transfer.empty_repo B3E.cs' /\
  TransferSpec.compat B3E.src_crash Transfer.empty_repo /\
  TransferSpec.commons_full B3E.src_crash Transfer.empty_repo [] /\
  Transfer.has_table B3E.src_crash B3E.t2 = false /\ length (Transfer.blocks B3E.src_crash) = 3%nat /\
  exists d' packs,
    Transfer.transfer B3E.bsh (fun _ => 2%N) B3E.src_crash B3E.cs' [B3E.t1] [] 1%N Transfer.empty_repo
      = Transfer.TDone d' packs /\
    map (map B3E.kind) packs = [[3]; [3]; [2]; [1]]%N.
Proof.
  exact (conj B3E.js_ok (conj B3E.wcrash_prefix (conj B3E.wcrash_proper (conj B3E.shape_wcrash
        (conj B3E.sent_0 (conj B3E.no_commons' (conj B3E.pf_0 (conj (B3E.compat_empty _)
        (conj (B3E.full_none _ _) B3E.run_crash))))))))).
Qed.
Print Assumptions Compose_ingest_transfer_crash_nonvacuous.

(** Compose_ingested_table_arrives: its extra premises on the same instance (restricted
    injectivity of the block and table ids on the source's objects; the two-block table of
    the first ingest is carried by commit 0, which is sent, and is in tablesToSend). *)
Example Compose_ingested_table_arrives_nonvacuous :
  BridgeIngestTransfer.shape_consistent B3E.Hb B3E.bsh (BridgeIngestTransfer.all_writes B3E.Hc B3E.js) /\
  BridgeIngestTransfer.blocks_inj B3E.Hb (BridgeIngestTransfer.all_writes B3E.Hc B3E.js) (BridgeIngestTransfer.all_writes B3E.Hc B3E.js) /\
  BridgeIngestTransfer.tables_inj B3E.Hb B3E.Hi B3E.Ht (BridgeIngestTransfer.all_writes B3E.Hc B3E.js) (BridgeIngestTransfer.all_writes B3E.Hc B3E.js) /\
  (In B3E.j1 B3E.js /\
   exists T, BridgeIngestTransfer.job_table B3E.Hc B3E.j1 = Some T /\
             B3E.t1 = BridgeIngestTransfer.tid B3E.Hb B3E.Hi B3E.Ht T /\ length (Ingest.t_blocks T) = 2%nat) /\
  (In (0%N, B3E.C0) B3E.cs /\ Transfer.c_table B3E.C0 = B3E.t1) /\ Transfer.memN B3E.t1 [B3E.t1; B3E.t2] = true.
Proof.
  exact (conj B3E.shape_aw (conj B3E.binj_aw (conj B3E.tinj_aw (conj B3E.j1_table
        (conj B3E.c0_sent B3E.memt1))))).
Qed.
Print Assumptions Compose_ingested_table_arrives_nonvacuous.
