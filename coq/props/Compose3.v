(** Compose3 - bridge B7: the ref-store refinement (C15) connected to its users.
    Only statements, each closed by [exact] of a lemma from proofs/BridgeRefTxn_proofs.v or
    proofs/BridgeRefUpd_proofs.v.

    C14 (model/Txn.v) and C10 (model/RefUpdate.v) each carry their OWN ref store and ASSUME of it
    what C15 proves of the SQL store: one SetWithLog / Delete is one atomic step that logs the
    value read inside it; Get / LogReader / ListTransactionRefs read what was written.  Below
    these premises are discharged by C15's simulation (RefSql_proofs: [R], [op_sim], [run_sim],
    the proof of C15_refines), for every repository [creach fk cinit hist] = the SQL database
    reached by ANY sequence of ref.Store calls from the empty store, [filter_ok fk] (the
    repaired WHERE clause) being the only premise on the store.

    ---------------------------------------------------------------------------------------
    B7a (C15 -> C14).  model/BridgeRefTxn.v, proofs/BridgeRefTxn_proofs.v.
    Txn.v is not parametric in the store, so transaction.Commit / Discard are RESTATED against
    the ref.Store interface ([c_tx_commit], [c_tx_discard]: names and sums are byte strings; the
    only access to the store is one method / refs.go helper at a time) and run
      - over the SQL model, with crash points BETWEEN SQL STATEMENTS: [d_run_crash n j] = n writes
        done, the crash hits write n+1 after j events (BEGIN, statement.., COMMIT) of its
        sqlutil.RunInTx body; recovery = the committed database ([recover]);
      - over the map specification;
    and related to Txn.v's run by [TR] (the Txn.v state [t] is represented by the map
    specification's state) / [OBS] (the same read through the SQL store's own queries: Get,
    LogReader, ListTransactionRefs, GetTransactionLogs).  The restatement is tied to Txn.v, not
    re-proved: [Compose_refsql_txn_commit_sim] says that for every enumeration order of the
    concrete run there is an order of Txn.v's run such that the two runs agree at every cut
    point, and C14's theorems are then APPLIED.
    What is NOT the ref store stays as in Txn.v (abstract and atomic): the transactions table
    and the object store (here keyed by content address).
    Premises left: [enc_ok] - the commit hash, the branch-name, uuid-text and uuid-blob encodings
    are injective and uuid texts have one length (outside-world facts); [filter_ok fk].

    Discrepancies between the slices found while bridging:
    (D1) Txn.v reads GetTransactionLogs as "the NEWEST entry of the ref's reflog that carries the
         txid" ([tx_log_new]); RefSql.v does not model that method at all (it is not one of the
         nine data methods), and the Go query whose rows are used has NO ORDER BY: the map keeps
         the LAST row scanned per ref.  Modelled here ([c_txlog]) with the scan in table order
         (rowid order for this table); then it equals Txn.v's reading on every reachable
         database ([Compose_refsql_txlog]).  With another scan order the two agree only when a
         ref has at most one entry per txid - true in every state C14 considers ([pre] + at most
         one landing), but an assumption of Txn.v that neither slice stated.
    (D2) Txn.v's Discard deletes the staged refs in ANY order ([ord]); the code deletes them in
         FilterKey's ORDER BY name order.  Harmless (Txn.v's theorems hold for every order), the
         simulation picks the matching order.
    (D3) RefUpdate.v's [rdel] removes the FIRST entry of a name only; on a store that lists a name
         twice Delete-then-Get differs from the SQL store (and from a map).  Unreachable from
         [d_refs]; the B7b theorems carry [names_nodup] for the initial stores.
    (D4) (Go code, outside C14/C15's properties, found while reading the method for D1)
         refsql.Store.GetTransactionLogs opens a first cursor (db.Query ... ORDER BY ref) that it
         never iterates and only closes by defer, then runs a second query: on a pool limited to
         ONE connection (the sqlite ":memory:" set-up with SetMaxOpenConns(1)) the second query
         waits for the connection the first cursor holds - transaction.Commit hangs (reproduced).
    No operation sequence was found on which the SQL model violates what Txn.v / RefUpdate.v
    assume of SetWithLog / Delete / Get / LogReader.

    ---------------------------------------------------------------------------------------
    B7b (C15 -> C10).  model/BridgeRefUpd.v, proofs/BridgeRefUpd_proofs.v.
    RefUpdate.v's step functions write to their own [rstore]; every write is recorded in the
    trace.  [WS.run_ops_ws] (new, on RefUpdate.v alone): the trace of a history is the COMPLETE
    write log of both stores, each transition carrying the true old value.  The writes are
    replayed on two SQL stores, one ref.Store call per transition ([ops_of_trace]); [URel] (what
    Get / LogReader return = the abstract store) holds again after every single transition,
    so every read the decision rules make is the read of the SQL store at that point.

    B7c.  ref.ListAllRefs = Filter(nil, nil) through the SQL store lists exactly the refs Get
    finds, of every kind; the staged commits of every transaction are among them. *)
From Coq Require Import List NArith Bool Arith Permutation.
From W.lib Require Import Tree Bytes.
From W.model Require Import RefStore Like RefSql BridgeRefTxn BridgeRefUpd.
From W.model Require Txn RefUpdate BridgeAncestor.
From W.proofs Require Txn_proofs RefUpdate_proofs.
From W.proofs Require BridgeRefTxn_proofs BridgeRefUpd_proofs.
Import ListNotations.
Local Open Scope N_scope.

(** * B7a.1 statement level *)

(** A crash at ANY event of ANY method of refsql.Store leaves either the database as it was or
    the database the complete method (RefSql.v's [cstep]) produces: sqlutil.RunInTx bodies are
    all-or-nothing under crash recovery. *)
Theorem Compose_refsql_crash_atomic : forall fk d p j,
  cstep_crash fk d p j = d \/ cstep_crash fk d p j = fst (cstep fk d p).
Proof. exact BridgeRefTxn_proofs.cstep_crash_cases. Qed.
Print Assumptions Compose_refsql_crash_atomic.

(** SetWithLog exactly: BEGIN, the refs upsert and the reflogs insert (3 events) have no effect
    before COMMIT. *)
Theorem Compose_refsql_setwithlog_crash : forall fk d k v m j,
  cstep_crash fk d (PSetLog k v m) j = if (j <=? 3)%nat then d else fst (cstep fk d (PSetLog k v m)).
Proof. exact BridgeRefTxn_proofs.setwithlog_crash. Qed.
Print Assumptions Compose_refsql_setwithlog_crash.

(** GetTransactionLogs (not covered by C15): on every reachable database the SQL query answers,
    for every ref, the newest entry of the specification's log that carries the txid. *)
Theorem Compose_refsql_txlog : forall fk, filter_ok fk = true -> forall (hist : list op) t k,
  c_txlog (creach fk cinit hist) t k = s_txlog (sreach sinit hist) t k.
Proof. exact BridgeRefTxn_proofs.st_txlog. Qed.
Print Assumptions Compose_refsql_txlog.

(** * B7a.2 Commit / Discard over the SQL store = over the map specification *)
Theorem Compose_refsql_txn_plan_eq : forall fk, filter_ok fk = true ->
  forall hash tn tb cm_author cm_email cm_line (hist : list op) txs objs (cord : corder) i,
  c_tx_commit hash tn tb cm_author cm_email cm_line (sql_ops fk) cord i
    (mk_cst (creach fk cinit hist) txs objs) =
  c_tx_commit hash tn tb cm_author cm_email cm_line spec_ops cord i
    (mk_cst (sreach sinit hist) txs objs) /\
  c_tx_discard tn (sql_ops fk) i (mk_cst (creach fk cinit hist) txs objs) =
  c_tx_discard tn spec_ops i (mk_cst (sreach sinit hist) txs objs).
Proof. exact BridgeRefTxn_proofs.st_plan_eq. Qed.
Print Assumptions Compose_refsql_txn_plan_eq.

(** * B7a.3 the runs over the SQL store are Txn.v's runs *)

(** Commit: for every repository representing [t] and every enumeration order [cord] of the
    concrete run there is an order [ord] of Txn.v's run such that
    - cut after n writes (crash / failing write n): the SQL-backed repository represents Txn.v's
      state after n writes, and both return the same result;
    - crash after j events INSIDE write n+1: it represents Txn.v's state after n or n+1 writes. *)
Theorem Compose_refsql_txn_commit_sim : forall fk, filter_ok fk = true ->
  forall hash tn tb cm_author cm_email cm_line bn, enc_ok hash tn tb bn ->
  forall (hist : list op) txs objs t,
  TR hash tn tb bn t (mk_cst (sreach sinit hist) txs objs) ->
  forall (cord : corder) i, (forall l, Permutation (cord l) l) ->
  let xc := mk_cst (creach fk cinit hist) txs objs in
  let plan := c_tx_commit hash tn tb cm_author cm_email cm_line (sql_ops fk) cord i xc in
  exists ord : Txn.order, Txn.order_ok ord (Txn.staged t i) /\
    (forall n, OBS hash tn tb bn fk (fst (Txn.run_upto n (Txn.tx_commit ord i t) t))
                   (fst (c_run_upto hash (sql_ops fk) n plan xc)) /\
               snd (Txn.run_upto n (Txn.tx_commit ord i t) t) = snd (c_run_upto hash (sql_ops fk) n plan xc)) /\
    (forall n j, exists n', (n' = n \/ n' = S n) /\
       OBS hash tn tb bn fk (fst (Txn.run_upto n' (Txn.tx_commit ord i t) t))
           (d_run_crash hash fk n j (fst plan) xc)).
Proof. exact BridgeRefTxn_proofs.st_commit_sim. Qed.
Print Assumptions Compose_refsql_txn_commit_sim.

Theorem Compose_refsql_txn_discard_sim : forall fk, filter_ok fk = true ->
  forall hash tn tb bn, enc_ok hash tn tb bn ->
  forall (hist : list op) txs objs t,
  TR hash tn tb bn t (mk_cst (sreach sinit hist) txs objs) -> forall i,
  let xc := mk_cst (creach fk cinit hist) txs objs in
  let plan := c_tx_discard tn (sql_ops fk) i xc in
  exists ord : Txn.order, Txn.order_ok ord (Txn.staged t i) /\
    (forall n, OBS hash tn tb bn fk (fst (Txn.run_upto n (Txn.tx_discard ord i t) t))
                   (fst (c_run_upto hash (sql_ops fk) n plan xc)) /\
               snd (Txn.run_upto n (Txn.tx_discard ord i t) t) = snd (c_run_upto hash (sql_ops fk) n plan xc)) /\
    (forall n j, exists n', (n' = n \/ n' = S n) /\
       OBS hash tn tb bn fk (fst (Txn.run_upto n' (Txn.tx_discard ord i t) t))
           (d_run_crash hash fk n j (fst plan) xc)).
Proof. exact BridgeRefTxn_proofs.st_discard_sim. Qed.
Print Assumptions Compose_refsql_txn_discard_sim.

(** * B7a.4 C14's theorems for the SQL-backed store *)

(** C14_all_or_completable (in the strong form C14_rerun_completes): a Commit over the SQL store
    crashes after j events of write n+1 (ANY n, j, enumeration order); then either the
    transaction is still in progress and a re-run (any order) succeeds and leaves a repository
    that represents exactly Txn.v's all-branches outcome, or it is marked committed and the
    crashed repository already represents that outcome. *)
Theorem Compose_refsql_txn_all_or_completable : forall fk, filter_ok fk = true ->
  forall hash tn tb cm_author cm_email cm_line bn, enc_ok hash tn tb bn ->
  forall (hist : list op) txs objs i t0, Txn.pre i t0 ->
  TR hash tn tb bn t0 (mk_cst (sreach sinit hist) txs objs) ->
  forall (cord1 cord2 : corder) n j,
  (forall l, Permutation (cord1 l) l) -> (forall l, Permutation (cord2 l) l) ->
  let xc := mk_cst (creach fk cinit hist) txs objs in
  let commit := c_tx_commit hash tn tb cm_author cm_email cm_line (sql_ops fk) in
  let x1 := d_run_crash hash fk n j (fst (commit cord1 i xc)) xc in
  (x_txs x1 i = Some Txn.InProgress /\
   exists t2, snd (c_run_full hash (sql_ops fk) (commit cord2 i x1) x1) = Txn.ROk /\
     OBS hash tn tb bn fk t2 (fst (c_run_full hash (sql_ops fk) (commit cord2 i x1) x1)) /\
     Txn.st_eq t2 (Txn.all_outcome i t0)) \/
  (x_txs x1 i = Some Txn.Committed /\
   exists t1, OBS hash tn tb bn fk t1 x1 /\ Txn.st_eq t1 (Txn.all_outcome i t0)).
Proof. exact BridgeRefTxn_proofs.st_all_or_completable. Qed.
Print Assumptions Compose_refsql_txn_all_or_completable.

(** C14_any_crash_history: after ANY number of Commits crashed at statement granularity
    ([sql_interrupted]) one complete run reaches the all-branches outcome. *)
Theorem Compose_refsql_txn_any_crash_history : forall fk, filter_ok fk = true ->
  forall hash tn tb cm_author cm_email cm_line bn, enc_ok hash tn tb bn ->
  forall (hist : list op) txs objs i t0, Txn.pre i t0 ->
  TR hash tn tb bn t0 (mk_cst (sreach sinit hist) txs objs) ->
  forall x (cord : corder),
  sql_interrupted hash tn tb cm_author cm_email cm_line fk i (mk_cst (creach fk cinit hist) txs objs) x ->
  (forall l, Permutation (cord l) l) ->
  let plan := c_tx_commit hash tn tb cm_author cm_email cm_line (sql_ops fk) cord i x in
  exists t2, snd (c_run_full hash (sql_ops fk) plan x) = Txn.ROk /\
    OBS hash tn tb bn fk t2 (fst (c_run_full hash (sql_ops fk) plan x)) /\
    Txn.st_eq t2 (Txn.all_outcome i t0).
Proof. exact BridgeRefTxn_proofs.st_any_crash_history. Qed.
Print Assumptions Compose_refsql_txn_any_crash_history.

(** C14_branch_consistent: in every repository reached by crashed Commits, at every event of
    every write of a further Commit, every branch is exactly where it was (head and reflog) or
    has landed (advanced by the transaction's one commit, logged with the true old head). *)
Theorem Compose_refsql_txn_branch_consistent : forall fk, filter_ok fk = true ->
  forall hash tn tb cm_author cm_email cm_line bn, enc_ok hash tn tb bn ->
  forall (hist : list op) txs objs i t0, Txn.pre i t0 ->
  TR hash tn tb bn t0 (mk_cst (sreach sinit hist) txs objs) ->
  forall x (cord : corder) n j,
  sql_interrupted hash tn tb cm_author cm_email cm_line fk i (mk_cst (creach fk cinit hist) txs objs) x ->
  (forall l, Permutation (cord l) l) ->
  exists t1,
    OBS hash tn tb bn fk t1
        (d_run_crash hash fk n j (fst (c_tx_commit hash tn tb cm_author cm_email cm_line (sql_ops fk) cord i x)) x) /\
    forall b, Txn.unmoved t0 t1 b \/ Txn.landed i t0 t1 b.
Proof. exact BridgeRefTxn_proofs.st_branch_consistent. Qed.
Print Assumptions Compose_refsql_txn_branch_consistent.

(** The dichotomy behind both: after a crash the repository is again an interrupted one, or the
    transaction is committed and the outcome is complete. *)
Theorem Compose_refsql_txn_crash_state : forall fk, filter_ok fk = true ->
  forall hash tn tb cm_author cm_email cm_line bn, enc_ok hash tn tb bn ->
  forall (hist : list op) txs objs i t0, Txn.pre i t0 ->
  TR hash tn tb bn t0 (mk_cst (sreach sinit hist) txs objs) ->
  forall x (cord : corder) n j,
  let x0 := mk_cst (creach fk cinit hist) txs objs in
  sql_interrupted hash tn tb cm_author cm_email cm_line fk i x0 x ->
  (forall l, Permutation (cord l) l) ->
  let x1 := d_run_crash hash fk n j (fst (c_tx_commit hash tn tb cm_author cm_email cm_line (sql_ops fk) cord i x)) x in
  (x_txs x1 i = Some Txn.InProgress /\ sql_interrupted hash tn tb cm_author cm_email cm_line fk i x0 x1) \/
  (x_txs x1 i = Some Txn.Committed /\
   exists t1, OBS hash tn tb bn fk t1 x1 /\ Txn.st_eq t1 (Txn.all_outcome i t0)).
Proof. exact BridgeRefTxn_proofs.st_crash_state. Qed.
Print Assumptions Compose_refsql_txn_crash_state.

(** C14_discard_frame / C14_discard_complete over the SQL store. *)
Theorem Compose_refsql_txn_discard_frame : forall fk, filter_ok fk = true ->
  forall hash tn tb bn, enc_ok hash tn tb bn ->
  forall (hist : list op) txs objs t,
  TR hash tn tb bn t (mk_cst (sreach sinit hist) txs objs) -> forall i n j,
  let xc := mk_cst (creach fk cinit hist) txs objs in
  exists t1, OBS hash tn tb bn fk t1 (d_run_crash hash fk n j (fst (c_tx_discard tn (sql_ops fk) i xc)) xc) /\
    (forall b, Txn.heads t1 b = Txn.heads t b) /\ (forall b, Txn.logs t1 b = Txn.logs t b) /\
    (forall c, Txn.stored t1 c = Txn.stored t c) /\
    (forall i', i' <> i -> Txn.staged t1 i' = Txn.staged t i' /\ Txn.txs t1 i' = Txn.txs t i') /\
    incl (Txn.staged t1 i) (Txn.staged t i).
Proof. exact BridgeRefTxn_proofs.st_discard_frame. Qed.
Print Assumptions Compose_refsql_txn_discard_frame.

Theorem Compose_refsql_txn_discard_complete : forall fk, filter_ok fk = true ->
  forall hash tn tb bn, enc_ok hash tn tb bn ->
  forall (hist : list op) txs objs t,
  TR hash tn tb bn t (mk_cst (sreach sinit hist) txs objs) -> forall i,
  Txn.txs t i = Some Txn.InProgress ->
  let xc := mk_cst (creach fk cinit hist) txs objs in
  let x' := fst (c_run_full hash (sql_ops fk) (c_tx_discard tn (sql_ops fk) i xc) xc) in
  snd (c_run_full hash (sql_ops fk) (c_tx_discard tn (sql_ops fk) i xc) xc) = Txn.ROk /\
  c_list_tx tn (sql_ops fk) x' i = Some [] /\ x_txs x' i = None.
Proof. exact BridgeRefTxn_proofs.st_discard_complete. Qed.
Print Assumptions Compose_refsql_txn_discard_complete.

(** Non-vacuity: C14's witness state s_w (one existing branch; that branch and a new one staged
    in transaction 1) is represented by a repository reached by three ref.Store calls; the
    premises of the theorems above hold for it, for the example encodings, and for the
    repository left by a Commit (reverse order) that crashed after landing the first branch. *)
Theorem Compose_refsql_txn_nonvacuous :
  filter_ok FInstr = true /\ enc_ok ex_hash ex_tn ex_tb ex_bn /\ Txn.pre 1 Txn_proofs.s_w /\
  TR ex_hash ex_tn ex_tb ex_bn Txn_proofs.s_w
     (mk_cst (sreach sinit BridgeRefTxn_proofs.ex_hist)
             (x_txs BridgeRefTxn_proofs.ex_xw) (x_objs BridgeRefTxn_proofs.ex_xw)) /\
  sql_interrupted ex_hash ex_tn ex_tb ex_none ex_none ex_none FInstr 1
     BridgeRefTxn_proofs.ex_xc BridgeRefTxn_proofs.ex_x1b /\
  length (Txn.staged Txn_proofs.s_w 1) = 2%nat.
Proof. exact BridgeRefTxn_proofs.ex_premises. Qed.
Print Assumptions Compose_refsql_txn_nonvacuous.

(** ... computed: a crash inside SetWithLog (after BEGIN + upsert) rolled back, nothing moved; *)
Example Compose_refsql_txn_example_rollback :
  cget (x_store BridgeRefTxn_proofs.ex_x1) (href (ex_bn 1)) = None /\
  clog (x_store BridgeRefTxn_proofs.ex_x1) (href (ex_bn 1)) = ([], true) /\
  cget (x_store BridgeRefTxn_proofs.ex_x1) (href (ex_bn 0)) = Some (H ex_hash BridgeRefTxn_proofs.ex_c0) /\
  x_txs BridgeRefTxn_proofs.ex_x1 1 = Some Txn.InProgress.
Proof. exact BridgeRefTxn_proofs.ex_crash_rollback. Qed.
Print Assumptions Compose_refsql_txn_example_rollback.

(** ... and the re-run of the repository crashed after the first landing plans 3 writes (the landed
    branch is skipped through GetTransactionLogs), succeeds, and the heads are Txn.v's outcome. *)
Example Compose_refsql_txn_example_rerun :
  snd BridgeRefTxn_proofs.ex_x2 = Txn.ROk /\
  length (fst (BridgeRefTxn_proofs.ex_commit (fun l => l) BridgeRefTxn_proofs.ex_x1b)) = 3%nat /\
  x_txs (fst BridgeRefTxn_proofs.ex_x2) 1 = Some Txn.Committed /\
  cget (x_store (fst BridgeRefTxn_proofs.ex_x2)) (href (ex_bn 0)) =
    option_map (H ex_hash) (Txn.heads (Txn.all_outcome 1 Txn_proofs.s_w) 0) /\
  cget (x_store (fst BridgeRefTxn_proofs.ex_x2)) (href (ex_bn 1)) =
    option_map (H ex_hash) (Txn.heads (Txn.all_outcome 1 Txn_proofs.s_w) 1) /\
  length (fst (clog (x_store (fst BridgeRefTxn_proofs.ex_x2)) (href (ex_bn 0)))) = 2%nat /\
  length (fst (clog (x_store (fst BridgeRefTxn_proofs.ex_x2)) (href (ex_bn 1)))) = 1%nat.
Proof. exact BridgeRefTxn_proofs.ex_rerun. Qed.
Print Assumptions Compose_refsql_txn_example_rerun.

(** * B7b: fetch / push / merge / pull histories with the ref writes made by the SQL store *)

(** The trace of a history is the complete write log of the two abstract stores (on RefUpdate.v
    alone): replaying it transition by transition - each with the true old value - gives the
    final stores. *)
Theorem Compose_refsql_trace_complete : forall g ia sk ops st,
  BridgeRefUpd_proofs.WS.wsteps (RefUpdate.lrefs st, RefUpdate.rrefs st)
    (snd (RefUpdate.run_ops g ia sk st ops))
    (RefUpdate.lrefs (fst (RefUpdate.run_ops g ia sk st ops)),
     RefUpdate.rrefs (fst (RefUpdate.run_ops g ia sk st ops))).
Proof. exact BridgeRefUpd_proofs.WS.run_ops_ws. Qed.
Print Assumptions Compose_refsql_trace_complete.

(** For every history (any oracles): the two SQL stores that perform the recorded writes end up
    holding what the abstract stores hold (Get and LogReader of every ref), and no call fails. *)
Theorem Compose_refsql_history : forall cv mt fk, filter_ok fk = true ->
  forall g ia sk st ops (hl hr : list op),
  names_nodup (RefUpdate.lrefs st) -> names_nodup (RefUpdate.rrefs st) ->
  URel cv (RefUpdate.lrefs st) (creach fk cinit hl) -> URel cv (RefUpdate.rrefs st) (creach fk cinit hr) ->
  let st' := fst (RefUpdate.run_ops g ia sk st ops) in
  let tr := snd (RefUpdate.run_ops g ia sk st ops) in
  URel cv (RefUpdate.lrefs st') (creach fk (creach fk cinit hl) (ops_of_trace cv mt RefUpdate.Local tr)) /\
  URel cv (RefUpdate.rrefs st') (creach fk (creach fk cinit hr) (ops_of_trace cv mt RefUpdate.Remote tr)) /\
  BridgeRefUpd_proofs.all_ok (crun fk (creach fk cinit hl) (ops_of_trace cv mt RefUpdate.Local tr)) /\
  BridgeRefUpd_proofs.all_ok (crun fk (creach fk cinit hr) (ops_of_trace cv mt RefUpdate.Remote tr)).
Proof. exact BridgeRefUpd_proofs.history_sql. Qed.
Print Assumptions Compose_refsql_history.

(** The reflog entries produced by the SQL model for a history are EXACTLY the moves of the
    abstract history: for every ref, what LogReader returns afterwards = the local transitions
    of the trace on that ref (old, new), newest first, on top of what it returned before. *)
Theorem Compose_refsql_log_exact : forall cv mt fk, filter_ok fk = true ->
  forall g ia sk st ops (hl hr : list op),
  names_nodup (RefUpdate.lrefs st) -> names_nodup (RefUpdate.rrefs st) ->
  URel cv (RefUpdate.lrefs st) (creach fk cinit hl) -> URel cv (RefUpdate.rrefs st) (creach fk cinit hr) ->
  forall n,
  sql_moves (creach fk (creach fk cinit hl)
               (ops_of_trace cv mt RefUpdate.Local (snd (RefUpdate.run_ops g ia sk st ops)))) n =
  rev (flat_map (move_of cv) (filter (local_on n) (snd (RefUpdate.run_ops g ia sk st ops)))) ++
  sql_moves (creach fk cinit hl) n.
Proof. exact BridgeRefUpd_proofs.history_sql_moves. Qed.
Print Assumptions Compose_refsql_log_exact.

(** C10_log_true on the SQL store: every local update of the history is in the reflog LogReader
    returns for its ref, with its true old value. *)
Theorem Compose_refsql_log_true : forall cv mt fk, filter_ok fk = true ->
  forall g ia sk st ops (hl hr : list op),
  names_nodup (RefUpdate.lrefs st) -> names_nodup (RefUpdate.rrefs st) ->
  URel cv (RefUpdate.lrefs st) (creach fk cinit hl) -> URel cv (RefUpdate.rrefs st) (creach fk cinit hr) ->
  forall t c, In t (snd (RefUpdate.run_ops g ia sk st ops)) ->
  RefUpdate.t_side t = RefUpdate.Local -> RefUpdate.t_new t = Some c ->
  In (option_map cv (RefUpdate.t_old t), cv c)
     (sql_moves (creach fk (creach fk cinit hl)
                   (ops_of_trace cv mt RefUpdate.Local (snd (RefUpdate.run_ops g ia sk st ops))))
                (RefUpdate.t_name t)).
Proof. exact BridgeRefUpd_proofs.history_sql_logged. Qed.
Print Assumptions Compose_refsql_log_true.

(** C10_forward_only read off the SQL reflog: the entries a history appends to a ref's log are the
    images of transitions that are all legal moves (not forced => old is an ancestor-or-self of
    new; an existing tag changes only with force). *)
Theorem Compose_refsql_forward_only : forall cv mt fk, filter_ok fk = true ->
  forall g ia sk, RefUpdate_proofs.IsAncSound g ia -> RefUpdate_proofs.SeekSound g sk ->
  forall st ops (hl hr : list op),
  names_nodup (RefUpdate.lrefs st) -> names_nodup (RefUpdate.rrefs st) ->
  URel cv (RefUpdate.lrefs st) (creach fk cinit hl) -> URel cv (RefUpdate.rrefs st) (creach fk cinit hr) ->
  let tr := snd (RefUpdate.run_ops g ia sk st ops) in
  forall n, exists trn, trn = filter (local_on n) tr /\
    Forall (RefUpdate_proofs.trans_ok g) trn /\
    sql_moves (creach fk (creach fk cinit hl) (ops_of_trace cv mt RefUpdate.Local tr)) n =
    rev (flat_map (move_of cv) trn) ++ sql_moves (creach fk cinit hl) n.
Proof. exact BridgeRefUpd_proofs.history_sql_forward. Qed.
Print Assumptions Compose_refsql_forward_only.

(** ... and with B2's oracles (C11's IsAncestorOf / SeekCommonAncestor over a closed store): no
    ancestry premise (composes Compose_forward_only_all). *)
Theorem Compose_refsql_forward_only_all : forall cv mt fk, filter_ok fk = true ->
  forall tm g, BridgeAncestor.store_closed g ->
  forall st ops (hl hr : list op),
  names_nodup (RefUpdate.lrefs st) -> names_nodup (RefUpdate.rrefs st) ->
  URel cv (RefUpdate.lrefs st) (creach fk cinit hl) -> URel cv (RefUpdate.rrefs st) (creach fk cinit hr) ->
  let tr := snd (RefUpdate.run_ops g (BridgeAncestor.b_is_ancestor tm g) (BridgeAncestor.b_seek tm g) st ops) in
  forall n, exists trn, trn = filter (local_on n) tr /\
    Forall (RefUpdate_proofs.trans_ok g) trn /\
    sql_moves (creach fk (creach fk cinit hl) (ops_of_trace cv mt RefUpdate.Local tr)) n =
    rev (flat_map (move_of cv) trn) ++ sql_moves (creach fk cinit hl) n.
Proof. exact BridgeRefUpd_proofs.history_sql_forward_all. Qed.
Print Assumptions Compose_refsql_forward_only_all.

(** The initial-store premises are met by every store built the way RefUpdate.d_refs builds one
    (one SaveRef per listed ref) and the SQL database built by the same calls. *)
Theorem Compose_refsql_initial_store : forall cv m0 fk, filter_ok fk = true ->
  forall l : list (name * RefUpdate.commit),
  URel cv (BridgeRefUpd_proofs.built l) (creach fk cinit (BridgeRefUpd_proofs.built_ops cv m0 l)) /\
  names_nodup (BridgeRefUpd_proofs.built l).
Proof. exact BridgeRefUpd_proofs.built_rel. Qed.
Print Assumptions Compose_refsql_initial_store.

(** Non-vacuity: C10's five-operation example history with its writes made on SQL stores; the log
    LogReader returns for heads/m = the two local moves of the trace on top of the setup entry. *)
Example Compose_refsql_history_example :
  sql_moves (creach FInstr (creach FInstr cinit
                              (BridgeRefUpd_proofs.built_ops BridgeRefUpd_proofs.ex_cv BridgeRefUpd_proofs.ex_m0
                                 BridgeRefUpd_proofs.ex_l))
                    (ops_of_trace BridgeRefUpd_proofs.ex_cv BridgeRefUpd_proofs.ex_mt RefUpdate.Local
                       BridgeRefUpd_proofs.ex_trace)) RefUpdate_proofs.n_main
  = [(Some [1000], [1000]); (Some [2], [1000]); (None, [2])] /\
  rev (flat_map (move_of BridgeRefUpd_proofs.ex_cv)
         (filter (local_on RefUpdate_proofs.n_main) BridgeRefUpd_proofs.ex_trace))
  = [(Some [1000], [1000]); (Some [2], [1000])] /\
  length (ops_of_trace BridgeRefUpd_proofs.ex_cv BridgeRefUpd_proofs.ex_mt RefUpdate.Local
            BridgeRefUpd_proofs.ex_trace) = 2%nat /\
  length (ops_of_trace BridgeRefUpd_proofs.ex_cv BridgeRefUpd_proofs.ex_mt RefUpdate.Remote
            BridgeRefUpd_proofs.ex_trace) = 1%nat.
Proof. exact BridgeRefUpd_proofs.ex_sql_moves. Qed.
Print Assumptions Compose_refsql_history_example.

(** * B7c: prune's root set through the SQL store *)

(** ref.ListAllRefs (Filter(nil, nil)) on every reachable database returns exactly the map of the
    specification: a ref of ANY kind (heads/, tags/, remotes/, txs/, anything else) is listed iff
    Get finds it, with the value Get returns. *)
Theorem Compose_refsql_prune_roots : forall fk, filter_ok fk = true -> forall hist : list op,
  let c := creach fk cinit hist in
  let a := sreach sinit hist in
  snd (cstep_op fk c (OP (PFilter [] []))) = RMap (refs a) /\
  (forall k v, In (k, v) (refs a) <-> cget c k = Some v).
Proof. exact BridgeRefTxn_proofs.list_all_refs. Qed.
Print Assumptions Compose_refsql_prune_roots.

(** In particular the staged commit of every branch of every transaction is a root: prune cannot
    collect what an in-progress (or crashed) Commit still has to land. *)
Theorem Compose_refsql_prune_roots_staged : forall fk, filter_ok fk = true ->
  forall hash tn tb bn (hist : list op) txs objs t i b c,
  TR hash tn tb bn t (mk_cst (sreach sinit hist) txs objs) -> In (b, c) (Txn.staged t i) ->
  cget (creach fk cinit hist) (tx_prefix (tn i) ++ bn b) = Some (H hash c).
Proof. exact BridgeRefTxn_proofs.st_staged_roots. Qed.
Print Assumptions Compose_refsql_prune_roots_staged.
