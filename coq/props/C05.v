(** C05 - three-way merge keeps all non-conflicting changes, never silently alters data.
    Only statements, each closed by [exact] of a lemma from proofs/.

    What is proved (about the models coq/model/ColDiff.v, Merge.v; spec MergeSpec.v):
    - column layout: CompareColumns on duplicate-free column lists (C05_names_*, C05_index_maps_*,
      C05_coldiff_consistent), any number of branches;
    - row level, ANY number of branches: the resolver marks column c unresolved iff the
      specification finds two different changes, otherwise yields the specified value
      (C05_resolve_cell, C05_resolved_flag); a resolved row never contains an invented value
      (C05_never_silent, no hypothesis at all);
    - the known findings as refuted clauses (C05_*_refuted).
    - table level under the "same layout" guard [guard] (every table has the same
      duplicate-free columns with the key columns first: merged layout = base layout), for
      ANY number of branches: the result holds exactly the rows the name-based specification
      prescribes (C05_merge_guard), hence C05_order (any permutation of the branches) and
      C05_untouched_rows / C05_untouched_cells; for two branches C05_identity, C05_idem,
      C05_disjoint.
    - command level ([cmd_merge] = runMerge's automatic path): C05_cmd_committed_all_resolved,
      C05_cmd_unresolved_refused (any tables), C05_cmd_guard (refuses iff the specification finds a
      conflict; under the guard).
    NOT proved (partial by plan; covered by the correspondence harness only): the table-level
    laws when a branch changes the column layout or the key is not first (there the code
    deviates: known findings F1, D1-D4), keyless tables (F2), the caller policy
    "accept the proposed ResolvedRow" and the interactive resolution path.  Full statement of the property's table clause for reference:
      forall base branches (sharing a key or keyless, any column scripts, key anywhere),
        result(merge base branches) = { final_row k | k key of some table } under Names \ removed
    proved here as C05_merge_guard for the guarded inputs. *)
From W.lib Require Import Tree Bytes GoSlice.
From W.model Require Import ColDiff Merge MergeSpec.
From W.proofs Require Import Merge_proofs ColDiff_proofs MergeTable_proofs Merge_witness_proofs.
From Coq Require Import List Permutation Sorting.Sorted.
Import ListNotations.

(** ---------- column layout (CompareColumns), any number of branches ---------- *)

(** Names has no duplicate ... *)
Theorem C05_names_nodup : forall base others cd,
  wf_header base -> Forall wf_header others -> compare_columns base others = Ok cd ->
  NoDup (cd_names cd).
Proof. exact ColDiff_proofs.cc_names_nodup. Qed.
Print Assumptions C05_names_nodup.

(** ... and is exactly the union of the column names of the base and of all branches *)
Theorem C05_names_union : forall base others cd,
  Forall wf_header others -> compare_columns base others = Ok cd ->
  forall s, In s (cd_names cd) <-> In s (fst base) \/ exists o, In o others /\ In s (fst o).
Proof. exact ColDiff_proofs.cc_names_in. Qed.
Print Assumptions C05_names_union.

(** the key names (of the first branch; Merger.Start checks that all branches agree) come first, in key order *)
Theorem C05_pk_first : forall base others cd,
  wf_header base -> Forall wf_header others -> compare_columns base others = Ok cd ->
  exists rest, cd_names cd = snd (hd hdr0 others) ++ rest.
Proof. exact ColDiff_proofs.cc_pk_first. Qed.
Print Assumptions C05_pk_first.

(** BaseIdx / OtherIdx send position n of Names to the position of that very name in the
    table's own column list (so RearrangeRow puts every cell under its own column name,
    wherever the key column sits) *)
Theorem C05_index_maps_base : forall base others cd,
  wf_header base -> Forall wf_header others -> compare_columns base others = Ok cd ->
  forall n j, n < length (cd_names cd) ->
    (nth n (cd_base_idx cd) None = Some j <->
     j < length (fst base) /\ nth j (fst base) [] = nth n (cd_names cd) []).
Proof. exact ColDiff_proofs.cc_base_idx. Qed.
Print Assumptions C05_index_maps_base.

Theorem C05_index_maps_branch : forall base others cd,
  wf_header base -> Forall wf_header others -> compare_columns base others = Ok cd ->
  forall l n j, l < length others -> n < length (cd_names cd) ->
    (nth n (nth l (cd_other_idx cd) []) None = Some j <->
     j < length (fst (nth l others hdr0)) /\ nth j (fst (nth l others hdr0)) [] = nth n (cd_names cd) []).
Proof. exact ColDiff_proofs.cc_other_idx. Qed.
Print Assumptions C05_index_maps_branch.

(** Added = branch \ base, Removed = base \ branch (as sets of Names positions) *)
Theorem C05_coldiff_consistent : forall base others cd,
  wf_header base -> Forall wf_header others -> compare_columns base others = Ok cd ->
  cd_consistent cd.
Proof. exact ColDiff_proofs.cc_consistent. Qed.
Print Assumptions C05_coldiff_consistent.

(** ---------- row level: any number of layers ---------- *)

(** tryResolve, column i of a Merge record with any number of layers: the column is in
    UnresolvedCols exactly when two participating branches made different changes
    ([conflictb]); if there is no conflict and no branch removed the row, the cell of
    ResolvedRow is the one change that was made, or the base value if none was.
    Hypotheses: the ColDiff is consistent (C05_coldiff_consistent) and layers with equal
    row sums show equal cells ([dedupe_ok]: holds when equal cell sequences come from
    equal column lists; C05_rowsum_dedupe_refuted shows it is needed). *)
Theorem C05_resolve_cell : forall cd m i,
  cd_consistent cd -> length (m_others m) = cd_layers cd -> dedupe_ok cd m ->
  i < length (cd_names cd) ->
  (In i (r_unres (try_resolve cd m)) <-> conflictb (base_st cd m i) (states cd m i) = true) /\
  (row_removed m = false -> conflictb (base_st cd m i) (states cd m i) = false ->
   exists row, r_row (try_resolve cd m) = Some row /\
               nth i row [] = render (spec_value (base_st cd m i) (states cd m i))).
Proof. exact Merge_proofs.resolve_cell_correct. Qed.
Print Assumptions C05_resolve_cell.

(** the record is reported Resolved exactly when no branch removed the row and no column
    conflicts: a conflict is never silently picked *)
Theorem C05_resolved_flag : forall cd m,
  cd_consistent cd -> length (m_others m) = cd_layers cd -> dedupe_ok cd m ->
  (r_resolved (try_resolve cd m) = true <->
   row_removed m = false /\
   forall i, i < length (cd_names cd) -> conflictb (base_st cd m i) (states cd m i) = false).
Proof. exact Merge_proofs.resolved_flag_correct. Qed.
Print Assumptions C05_resolved_flag.

(** never silent: every cell of a row reported as resolved is the base's cell or some
    branch's cell for that key and column (no hypothesis on the ColDiff or the record) *)
Theorem C05_never_silent : forall cd m row i,
  r_resolved (resolve cd m) = true -> r_row (resolve cd m) = Some row -> i < length (cd_names cd) ->
  (is_some (m_base m) = true /\ nth i row [] = render (base_st cd m i)) \/
  (exists l raw, nth_error (m_others m) l = Some (Some raw) /\ nth i row [] = render (layer_cell cd l raw i)).
Proof. exact Merge_proofs.never_silent. Qed.
Print Assumptions C05_never_silent.

(** non-vacuity: a record of the repository's TestRowResolverComplexCases meets the hypotheses *)
Theorem C05_row_level_nonvacuous :
  exists cd, compare_columns (header_of nv_base) [header_of nv_b1; header_of nv_b2] = Ok cd /\
    wf_header (header_of nv_base) /\ Forall wf_header [header_of nv_b1; header_of nv_b2] /\
    let m := mk_mrec nv_base [nv_b1; nv_b2] [s_4] in
    length (m_others m) = cd_layers cd /\ dedupe_ok cd m /\
    r_unres (try_resolve cd m) = [1] /\ r_row (try_resolve cd m) = Some [s_4; s_t; []; s_u].
Proof. exact Merge_witness_proofs.nonvacuous_row_level. Qed.
Print Assumptions C05_row_level_nonvacuous.

(** ---------- known findings: clauses of the property that FAIL on the current code ---------- *)

(** F1 merge-untouched-rows-in-base-layout.  "rows untouched by every branch appear unchanged
    under their own column names wherever the key column sits": base (x,id) key id, branch 1
    edits x of key 1, branch 2 edits x of key 3.  Result columns (id,x), rows
    [b 2] [1 a2] [3 c3]: the untouched row is in the base layout and the result is sorted on cell 1. *)
Theorem C05_untouched_any_key_position_refuted :
  exists o, run_merge f1_base [f1_b1; f1_b2] 0 1 false = Ok o /\
            mo_cols o = [s_id; s_x] /\
            mo_rows o = [[s_b; s_2]; [s_1; s_a2]; [s_3; s_c3]].
Proof. exact Merge_witness_proofs.f1_witness. Qed.
Print Assumptions C05_untouched_any_key_position_refuted.

(** F1, process-killing face: base (id,v), branch 1 adds column u in front of v, branch 2 removes
    v, row 2 untouched: SortedBlocks (the `wrgl merge` commit path) panics in the sorter
    goroutine ("column out of bound"), SortedRows does not. *)
Theorem C05_untouched_blocks_panic_refuted :
  run_merge f1p_base [f1p_b1; f1p_b2] 0 1 true = Panic /\
  exists o, run_merge f1p_base [f1p_b1; f1p_b2] 0 1 false = Ok o.
Proof. exact Merge_witness_proofs.f1_panic_witness. Qed.
Print Assumptions C05_untouched_blocks_panic_refuted.

(** F2 merge-keyless-result-wrong.  Keyless tables (p,q): branch 1 removes (b,2), adds (d,4).
    All records resolve, yet the removed row is re-added and the sorter keeps one row only. *)
Theorem C05_keyless_refuted :
  exists o, run_merge f2_base [f2_b1; f2_b2] 0 1 false = Ok o /\
            mo_rows o = [[s_a; s_1]] /\
            forallb (fun kr => r_resolved (k_res kr)) (mo_recs o) = true /\
            In [s_b; s_2] (collected_rows f2_base (mo_recs o) 0).
Proof. exact Merge_witness_proofs.f2_witness. Qed.
Print Assumptions C05_keyless_refuted.

(** D1 merge-rowsum-compared-across-layouts.  base (id) row 1; branch 1 adds column a = x,
    branch 2 adds column b = x.  Both rows have the cell sequence (1,x): only the last layer
    survives uniqSums, the record is Resolved with a = "" although the specification says
    a = x (one change).  C05_resolve_cell's hypothesis [dedupe_ok] fails, everything else holds. *)
Theorem C05_rowsum_dedupe_refuted :
  exists o kr, run_merge d1_base [d1_b1; d1_b2] 0 1 false = Ok o /\
    cd_names (mo_cd o) = [s_id; s_b; s_a] /\ mo_recs o = [kr] /\
    r_resolved (k_res kr) = true /\ r_row (k_res kr) = Some [s_1; s_x; []] /\
    conflictb (base_st (mo_cd o) (k_m kr) 2) (states (mo_cd o) (k_m kr) 2) = false /\
    spec_value (base_st (mo_cd o) (k_m kr) 2) (states (mo_cd o) (k_m kr) 2) = SVal s_x /\
    cd_consistent (mo_cd o) /\ ~ dedupe_ok (mo_cd o) (k_m kr).
Proof. exact Merge_witness_proofs.d1_witness. Qed.
Print Assumptions C05_rowsum_dedupe_refuted.

(** D2 (same class).  base (id,a); branch 1 renames a to b (same cells), branch 2 removes row 1:
    "one removed a row another modified => reported conflict" fails - the record for key 1 is
    Resolved with no row (removed) although branch 1 removed column a and added column b. *)
Theorem C05_rowsum_unchanged_refuted :
  exists o kr, run_merge d2_base [d2_b1; d2_b2] 0 1 false = Ok o /\
    mo_recs o = [kr] /\ k_key kr = [s_1] /\
    r_resolved (k_res kr) = true /\ r_row (k_res kr) = None /\
    cd_names (mo_cd o) = [s_id; s_a; s_b] /\
    in_removed (mo_cd o) 0 1 = true /\ in_added (mo_cd o) 0 2 = true.
Proof. exact Merge_witness_proofs.d2_witness. Qed.
Print Assumptions C05_rowsum_unchanged_refuted.

(** D3 (same class).  Both branches rename a to b: no Merge record, rows re-added in the base
    layout: result columns (id,b), rows [1] [2] - the values x, y are lost. *)
Theorem C05_rowsum_nochanges_refuted :
  exists o, run_merge d2_base [d2_b1; d2_b1] 0 1 false = Ok o /\
    mo_recs o = [] /\ mo_cols o = [s_id; s_b] /\ mo_rows o = [[s_1]; [s_2]].
Proof. exact Merge_witness_proofs.d3_witness. Qed.
Print Assumptions C05_rowsum_nochanges_refuted.

(** D4 merge-reorder-vs-removal-spurious-conflict.  Branch 1 only reorders the columns, branch 2
    removes row 1: "exactly one distinct change => that change" fails conservatively - the
    record is unresolved (with no unresolved column) although branch 1's row equals the base row. *)
Theorem C05_reorder_removal_refuted :
  exists o kr1 kr2, run_merge d4_base [d4_b1; d4_b2] 0 1 false = Ok o /\
    mo_recs o = [kr1; kr2] /\ k_key kr1 = [s_1] /\
    r_resolved (k_res kr1) = false /\ r_unres (k_res kr1) = [] /\
    (forall i, i < 3 -> layer_cell (mo_cd o) 0 [s_1; s_y; s_x] i = base_st (mo_cd o) (k_m kr1) i).
Proof. exact Merge_witness_proofs.d4_witness. Qed.
Print Assumptions C05_reorder_removal_refuted.

(** ---------- table level, under the "same layout" guard, any number of branches ---------- *)

(** The merge of [base] with the branches [others] (all in the common layout, key first)
    succeeds, keeps the columns, and its result holds exactly the rows prescribed by the
    specification: per key, the base row if nobody changed it, nothing if it was removed
    (and unchanged elsewhere), the cell-wise combination if no two branches made different
    changes to a cell, and - for a conflict - the base row (policy 0: conflicts left to the
    caller) or nothing (policy 1: conflicts dropped, as `wrgl merge --no-gui` does).
    Both result paths (SortedRows / SortedBlocks), with or without removedCols. *)
Theorem C05_merge_guard_partial : forall cols pk base others policy remmode blocks,
  guard cols pk base others -> policy < 2 ->
  exists o, run_merge base others policy remmode blocks = Ok o /\
    mo_cols o = cols /\ cd_names (mo_cd o) = cols /\
    forall r, In r (mo_rows o) <->
              exists k, table_keys pk base others k /\ final_row cols base others policy k = Some r.
Proof. exact MergeTable_proofs.merge_guard. Qed.
Print Assumptions C05_merge_guard_partial.

(** ... and come out strictly ascending by key (so the membership characterisations below
    determine the result list completely) *)
Theorem C05_result_sorted : forall cols pk base others policy remmode blocks o,
  guard cols pk base others -> policy < 2 ->
  run_merge base others policy remmode blocks = Ok o ->
  StronglySorted (fun a b => klt (kf (length pk) a) (kf (length pk) b) = true) (mo_rows o).
Proof. exact MergeTable_proofs.merge_guard_sorted. Qed.
Print Assumptions C05_result_sorted.

(** merge(base; X, base) = X  and  merge(base; base, X) = X *)
Theorem C05_identity : forall cols pk base X policy remmode blocks,
  guard cols pk base [X; base] -> policy < 2 ->
  exists o, run_merge base [X; base] policy remmode blocks = Ok o /\ mo_cols o = cols /\
    forall r, In r (mo_rows o) <-> In r (t_rows X).
Proof. exact MergeTable_proofs.law_identity. Qed.
Print Assumptions C05_identity.

Theorem C05_identity_left : forall cols pk base X policy remmode blocks,
  guard cols pk base [base; X] -> policy < 2 ->
  exists o, run_merge base [base; X] policy remmode blocks = Ok o /\ mo_cols o = cols /\
    forall r, In r (mo_rows o) <-> In r (t_rows X).
Proof. exact MergeTable_proofs.law_identity_left. Qed.
Print Assumptions C05_identity_left.

(** merge(base; X, X) = X *)
Theorem C05_idem : forall cols pk base X policy remmode blocks,
  guard cols pk base [X; X] -> policy < 2 ->
  exists o, run_merge base [X; X] policy remmode blocks = Ok o /\ mo_cols o = cols /\
    forall r, In r (mo_rows o) <-> In r (t_rows X).
Proof. exact MergeTable_proofs.law_idem. Qed.
Print Assumptions C05_idem.

(** disjoint edits (no cell edited by both branches, a removed row untouched by the other
    branch, a new key added by one branch only) combine without any conflict: every record is
    Resolved and the result holds, for every key, both branches' changes *)
Theorem C05_disjoint : forall cols pk base X Y policy remmode blocks,
  guard cols pk base [X; Y] -> policy < 2 ->
  (forall k, disjoint_at (length cols) (lookup base k) (lookup X k) (lookup Y k)) ->
  exists o, run_merge base [X; Y] policy remmode blocks = Ok o /\ mo_cols o = cols /\
    Forall (fun kr => r_resolved (k_res kr) = true) (mo_recs o) /\
    forall r, In r (mo_rows o) <->
      exists k, table_keys pk base [X; Y] k /\
                combined (length cols) (lookup base k) (lookup X k) (lookup Y k) = Some r.
Proof. exact MergeTable_proofs.law_disjoint. Qed.
Print Assumptions C05_disjoint.

(** rows untouched by every branch appear unchanged (any number of branches, also when other
    keys conflict) *)
Theorem C05_untouched_rows : forall cols pk base others policy remmode blocks r,
  guard cols pk base others -> policy < 2 ->
  In r (t_rows base) -> (forall o, In o others -> In r (t_rows o)) ->
  exists o, run_merge base others policy remmode blocks = Ok o /\ mo_cols o = cols /\ In r (mo_rows o).
Proof. exact MergeTable_proofs.law_untouched_rows. Qed.
Print Assumptions C05_untouched_rows.

(** cells untouched by every branch keep the base value in the result row of their key *)
Theorem C05_untouched_cells : forall cols pk base others policy remmode blocks br i,
  guard cols pk base others -> policy < 2 ->
  In br (t_rows base) -> i < length cols ->
  (forall o, In o others -> exists ro, lookup o (kf (length pk) br) = Some ro /\ nth i ro [] = nth i br []) ->
  exists o, run_merge base others policy remmode blocks = Ok o /\
    forall r, In r (mo_rows o) -> kf (length pk) r = kf (length pk) br -> nth i r [] = nth i br [].
Proof. exact MergeTable_proofs.law_untouched_cells. Qed.
Print Assumptions C05_untouched_cells.

(** the outcome does not depend on the order in which the branches are listed
    (any number of branches, any permutation; no column is added under the guard) *)
Theorem C05_order : forall cols pk base others others' policy remmode blocks,
  guard cols pk base others -> Permutation others others' -> policy < 2 ->
  exists o o', run_merge base others policy remmode blocks = Ok o /\
               run_merge base others' policy remmode blocks = Ok o' /\
               mo_cols o = mo_cols o' /\ forall r, In r (mo_rows o) <-> In r (mo_rows o').
Proof. exact MergeTable_proofs.law_order. Qed.
Print Assumptions C05_order.

(** non-vacuity: the repository's TestMergerAutoResolve tables satisfy the guard, their edits are
    disjoint, and the model computes the expected rows *)
Theorem C05_guard_nonvacuous :
  guard ar_cols [s_a] ar_base [ar_b1; ar_b2] /\
  exists o, run_merge ar_base [ar_b1; ar_b2] 1 1 false = Ok o /\
            mo_rows o = [[s_1; s_e; s_r]; [s_3; s_s; s_d]; [s_4; s_r; s_t]] /\
  forall k, disjoint_at 3 (lookup ar_base k) (lookup ar_b1 k) (lookup ar_b2 k) \/
            ~ table_keys [s_a] ar_base [ar_b1; ar_b2] k.
Proof. exact Merge_witness_proofs.guard_nonvacuous. Qed.
Print Assumptions C05_guard_nonvacuous.

(** ---------- command level: `wrgl merge BRANCH COMMIT` without --no-gui ---------- *)
(** [cmd_merge] models runMerge's automatic path: collectMergeConflicts drains Merger.Start; with
    no unresolved record the result is committed (blocks = true) / written (--no-commit, blocks =
    false), otherwise the merge tool is asked for - with no terminal the command refuses.

    Never silent, any tables, any number of branches: a concluded merge has no unresolved record ... *)
Theorem C05_cmd_committed_all_resolved : forall base others blocks o,
  cmd_merge base others blocks = CmdCommitted o -> all_resolved (mo_recs o) = true.
Proof. exact MergeTable_proofs.cmd_committed_resolved. Qed.
Print Assumptions C05_cmd_committed_all_resolved.

(** ... and whenever the merger (under any caller policy / result path) reports an unresolved
    record - also one with NO unresolved column, as for a row removed by one branch and changed
    only through the column set by another - the command refuses *)
Theorem C05_cmd_unresolved_refused : forall base others policy remmode blocks blocks' o0,
  run_merge base others policy remmode blocks = Ok o0 -> all_resolved (mo_recs o0) = false ->
  cmd_merge base others blocks' = CmdRefused.
Proof. exact MergeTable_proofs.cmd_unresolved_refused. Qed.
Print Assumptions C05_cmd_unresolved_refused.

(** under the same-layout guard: the command refuses exactly when the specification finds a
    conflict for some key, and otherwise commits exactly the specified rows *)
Theorem C05_cmd_guard : forall cols pk base others blocks,
  guard cols pk base others ->
  ((exists k, table_keys pk base others k /\
              is_conflict (spec_row (length cols) (lookup base k) (map (fun o => lookup o k) others)) = true) ->
   cmd_merge base others blocks = CmdRefused) /\
  ((forall k, table_keys pk base others k ->
              is_conflict (spec_row (length cols) (lookup base k) (map (fun o => lookup o k) others)) = false) ->
   exists o, cmd_merge base others blocks = CmdCommitted o /\ mo_cols o = cols /\
     forall r, In r (mo_rows o) <->
       exists k, table_keys pk base others k /\
                 outcome_row (spec_row (length cols) (lookup base k) (map (fun o => lookup o k) others)) = Some r).
Proof. exact MergeTable_proofs.cmd_guard. Qed.
Print Assumptions C05_cmd_guard.

(** non-vacuity / the shape the command glue must not swallow: base (id,a,b,c) rows 1,2,3; branch 1
    drops column c, branch 2 deletes row 2.  The record for key 2 is unresolved with an EMPTY set of
    unresolved columns; the command refuses on both result paths; were the record dropped instead,
    the base row [2 a s d] would be re-added. *)
Theorem C05_cmd_refuses_removed_vs_column_change :
  cmd_merge cm_base [cm_b1; cm_b2] true = CmdRefused /\
  cmd_merge cm_base [cm_b1; cm_b2] false = CmdRefused /\
  exists o kr, run_merge cm_base [cm_b1; cm_b2] 0 1 false = Ok o /\ In kr (mo_recs o) /\
    k_key kr = [s_2] /\ r_resolved (k_res kr) = false /\ r_unres (k_res kr) = [] /\
    In [s_2; s_a; s_s; s_d] (collected_rows cm_base (mo_recs o) 0).
Proof. exact Merge_witness_proofs.cmd_refuses_witness. Qed.
Print Assumptions C05_cmd_refuses_removed_vs_column_change.
