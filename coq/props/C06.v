(** C06 - objects round-trip through their encodings and are stored under their hash.
    Only statements, each closed by [exact] of a lemma from proofs/Codec*_proofs.v.

    Conventions.  [bytes = list N].  An encoder [encode_X : X -> option bytes] returns
    [None] when the Go code refuses (error or panic, recorded in the model files).
    A decoder [decode_X : bytes -> option (X * bytes)] consumes a prefix of its input
    exactly like the Go reader and returns the bytes left in the reader.  No theorem
    bounds the size of a value.

    ROUND TRIP, for every well-formed value x (wf_X = what the Go type guarantees plus
    the limits of the format):  encode_X x = Some b  and  decode_X (b ++ rest) = Some (x, rest)
    for every rest - except Commit and packfile, whose readers run to EOF (rest = []).

    RE-ENCODING (canonicity), decode_X b = Some (x, rest) -> encode_X x = Some b' with
    b = b' ++ rest, holds for UintList, FloatList, Table, BlockIndex as they are.  It is
    FALSE for the real readers of
      - StrList / Block: StrListDecoder.Read accepts a stream that ends right after the
        length prefix of the last cell and reads that cell as "" ;
      - Commit: the 16-byte time field ignores byte 10 and accepts "+"/"-0000"/"+0060" ;
      - TableProfile (any field order, explicit empty fields), the packfile header
        (padding digits) and pkt-line (upper-case hex, unchecked last byte),
    with the witnesses below.  For StrList / Block / Commit the statement is proved for the
    readers restricted by [strict = true] (no EOF tolerance; time field must be one that
    WriteTime produces), which are restrictions of the real readers ([_strict_real]). *)
From W.lib Require Import Tree Bytes.
From W.model Require Import CodecBase CodecStrList CodecPackfile CodecObjline CodecCommit
     CodecTable CodecProfile CodecStore.
From W.proofs Require Import CodecBase_proofs CodecStrList_proofs CodecPackfile_proofs
     CodecObjline_proofs CodecCommit_proofs CodecTable_proofs CodecProfile_proofs
     CodecStore_proofs CodecC06_proofs.
From Coq Require Import ZArith.
Local Open Scope N_scope.

(* ================================================================== *)
(** ** StrList (u32 count, u16 cell lengths) *)
Theorem C06_strlist_roundtrip : forall sl, wf_strlist sl ->
  exists b, encode_strlist sl = Some b /\
    forall strict rest, decode_strlist_g strict (b ++ rest) = Some (sl, rest).
Proof. exact strlist_roundtrip. Qed.
Print Assumptions C06_strlist_roundtrip.

Theorem C06_strlist_reencode : forall b sl rest,
  wf_bytes b -> decode_strlist_g true b = Some (sl, rest) ->
  exists b', encode_strlist sl = Some b' /\ b = b' ++ rest /\ wf_bytes rest /\ wf_strlist sl.
Proof. exact strlist_reencode. Qed.
Print Assumptions C06_strlist_reencode.

(** ** Block (1..255 rows in practice; any number here) *)
Theorem C06_block_roundtrip : forall rows, wf_block rows ->
  exists b, encode_block rows = Some b /\
    forall strict rest, decode_block_g strict (b ++ rest) = Some (rows, rest).
Proof. exact block_roundtrip. Qed.
Print Assumptions C06_block_roundtrip.

Theorem C06_block_reencode : forall b rows rest,
  wf_bytes b -> decode_block_g true b = Some (rows, rest) ->
  exists b', encode_block rows = Some b' /\ b = b' ++ rest /\ wf_bytes rest /\ wf_block rows.
Proof. exact block_reencode. Qed.
Print Assumptions C06_block_reencode.

(** the strict reader only removes behaviour, and agrees with the real reader whenever
    anything at all follows the block *)
Theorem C06_block_strict_real : forall b r,
  decode_block_g true b = Some r -> decode_block b = Some r.
Proof. exact block_strict_real. Qed.
Print Assumptions C06_block_strict_real.

Theorem C06_block_real_strict : forall b rows rest,
  decode_block b = Some (rows, rest) -> rest <> [] -> decode_block_g true b = Some (rows, rest).
Proof. exact block_real_strict. Qed.
Print Assumptions C06_block_real_strict.

(** full statement [decode_block b = Some (rows, []) -> encode_block rows = Some b]: refuted *)
Theorem C06_block_reencode_real_refuted :
  decode_block [0;0;0;1; 0;0;0;1; 0;5] = Some ([[[]]], []) /\
  encode_block [[[]]] = Some [0;0;0;1; 0;0;0;1; 0;0].
Proof. exact block_noncanonical. Qed.
Print Assumptions C06_block_reencode_real_refuted.

(** ** UintList / FloatList (float64 = its 64-bit pattern) *)
Theorem C06_uintlist_roundtrip : forall l, wf_uintlist l ->
  exists b, encode_uintlist l = Some b /\ forall rest, decode_uintlist (b ++ rest) = Some (l, rest).
Proof. exact uintlist_roundtrip. Qed.
Print Assumptions C06_uintlist_roundtrip.

Theorem C06_uintlist_reencode : forall b l rest,
  wf_bytes b -> decode_uintlist b = Some (l, rest) ->
  exists b', encode_uintlist l = Some b' /\ b = b' ++ rest /\ wf_bytes rest /\ wf_uintlist l.
Proof. exact uintlist_reencode. Qed.
Print Assumptions C06_uintlist_reencode.

Theorem C06_floatlist_roundtrip : forall l, wf_floatlist l ->
  exists b, encode_floatlist l = Some b /\ forall rest, decode_floatlist (b ++ rest) = Some (l, rest).
Proof. exact floatlist_roundtrip. Qed.
Print Assumptions C06_floatlist_roundtrip.

Theorem C06_floatlist_reencode : forall b l rest,
  wf_bytes b -> decode_floatlist b = Some (l, rest) ->
  exists b', encode_floatlist l = Some b' /\ b = b' ++ rest /\ wf_bytes rest /\ wf_floatlist l.
Proof. exact floatlist_reencode. Qed.
Print Assumptions C06_floatlist_reencode.

(* ================================================================== *)
(** ** the 16-byte time field.  [wf_time]: the zero time (read back in UTC), or
    -999999999 <= unix second <= 9999999999 with a zone of whole minutes, |zone| <= 24h59.
    Outside that range EncodeTime produces more than 16 bytes (second >= 10^10 or
    <= -10^9) or an hour field time.Parse rejects; the model has the real formatting. *)
Theorem C06_time_roundtrip : forall t, wf_time t ->
  length (encode_time t) = 16%nat /\ forall strict, decode_time_g strict (encode_time t) = Some t.
Proof. exact time_roundtrip. Qed.
Print Assumptions C06_time_roundtrip.

(** ** Commit (0..n parents; ReadFrom reads parents to EOF, so nothing may follow) *)
Theorem C06_commit_roundtrip : forall c, wf_commit c ->
  exists b, encode_commit c = Some b /\ forall strict, decode_commit_g strict b = Some (c, []).
Proof. exact commit_roundtrip. Qed.
Print Assumptions C06_commit_roundtrip.

Theorem C06_commit_reencode : forall b c rest,
  wf_bytes b -> decode_commit_g true b = Some (c, rest) -> encode_commit c = Some b /\ rest = [].
Proof. exact commit_reencode. Qed.
Print Assumptions C06_commit_reencode.

Theorem C06_commit_strict_real : forall b r,
  decode_commit_g true b = Some r -> decode_commit b = Some r.
Proof. exact commit_strict_real. Qed.
Print Assumptions C06_commit_strict_real.

(** full statement for the real commit reader: refuted (time field "+000000005x-0000") *)
Theorem C06_commit_reencode_real_refuted :
  let b := nc_commit_bytes [43;48;48;48;48;48;48;48;48;53;120;45;48;48;48;48] in
  let c := mk_commit zeros16 [] [] (5%Z, 0%Z) [] [] in
  decode_commit b = Some (c, []) /\
  encode_commit c = Some (nc_commit_bytes [48;48;48;48;48;48;48;48;48;53;32;43;48;48;48;48]).
Proof. exact commit_noncanonical. Qed.
Print Assumptions C06_commit_reencode_real_refuted.

(** ** Table (columns, pk, rows, ceil(rows/255) block sums and index sums) *)
Theorem C06_table_roundtrip : forall t, wf_table t ->
  exists b, encode_table t = Some b /\ forall rest, decode_table (b ++ rest) = Some (t, rest).
Proof. exact table_roundtrip. Qed.
Print Assumptions C06_table_roundtrip.

(** the real table reader is canonical *)
Theorem C06_table_reencode : forall b t rest,
  wf_bytes b -> decode_table b = Some (t, rest) ->
  exists b', encode_table t = Some b' /\ b = b' ++ rest /\ wf_table t.
Proof. exact table_reencode. Qed.
Print Assumptions C06_table_reencode.

(** ** BlockIndex (count byte, offsets, 32-byte rows) - canonical *)
Theorem C06_blockindex_roundtrip : forall x, wf_blockindex x ->
  exists b, encode_blockindex x = Some b /\
    forall rest, decode_blockindex (b ++ rest) = Some (x, rest).
Proof. exact blockindex_roundtrip. Qed.
Print Assumptions C06_blockindex_roundtrip.

Theorem C06_blockindex_reencode : forall b x rest,
  wf_bytes b -> decode_blockindex b = Some (x, rest) ->
  exists b', encode_blockindex x = Some b' /\ b = b' ++ rest /\ wf_blockindex x.
Proof. exact blockindex_reencode. Qed.
Print Assumptions C06_blockindex_reencode.

(** ** TableProfile (field framing) *)
Theorem C06_profile_roundtrip : forall p, wf_profile p ->
  exists b, encode_profile p = Some b /\ forall rest, decode_profile (b ++ rest) = Some (p, rest).
Proof. exact profile_roundtrip. Qed.
Print Assumptions C06_profile_roundtrip.

(** re-encoding for the profile reader: refuted (an explicit naCount = 0 field) *)
Theorem C06_profile_reencode_refuted :
  let p := mk_profile 1 0 [empty_col] in
  decode_profile (nc_profile_bytes [0;2; 0;0;0;0; 0;0]) = Some (p, []) /\
  encode_profile p = Some (nc_profile_bytes [0;0]).
Proof. exact profile_noncanonical. Qed.
Print Assumptions C06_profile_reencode_refuted.

(* ================================================================== *)
(** ** pkt-line.  Round trip for strings of at most 65534 bytes.  WritePktLine has no
    length guard: from 65535 bytes on it writes the first four hex digits of a longer
    number (second theorem: any 65535 bytes go out under "1000" and read back as their first 4095).
    WritePktLine / ReadPktLine have no caller outside their test file. *)
Theorem C06_pktline_roundtrip : forall s, wf_pktline s ->
  exists b, encode_pktline s = Some b /\ forall rest, decode_pktline (b ++ rest) = Some (s, rest).
Proof. exact pktline_roundtrip. Qed.
Print Assumptions C06_pktline_roundtrip.

Theorem C06_pktline_overlimit_corrupts : forall s, len s = 65535 ->
  exists b, encode_pktline s = Some b /\ firstn 4 b = [49; 48; 48; 48] /\
    exists rest, decode_pktline b = Some (firstn (N.to_nat 4095) s, rest).
Proof. exact pktline_overlimit_corrupts. Qed.
Print Assumptions C06_pktline_overlimit_corrupts.

(** ** packfile: "PACK", version, objects = header ++ bytes, read to EOF *)
Theorem C06_packfile_roundtrip : forall l, wf_packfile l ->
  exists b, encode_packfile l = Some b /\ decode_packfile b = Some ((pack_version, l), []).
Proof. exact packfile_roundtrip. Qed.
Print Assumptions C06_packfile_roundtrip.

(** ** packfile object header: every length 0 <= u < 2^64, every type 1..7.
    [encode_len] is the shift/mask transliteration with bits = N.size u (bits.Len64). *)
Theorem C06_header_roundtrip : forall ty u rest,
  1 <= ty <= 7 -> u < 2 ^ 64 -> decode_len (encode_len ty u ++ rest) = Some (ty, u, rest).
Proof. exact header_roundtrip. Qed.
Print Assumptions C06_header_roundtrip.

Theorem C06_header_shiftmask_is_arith : forall ty u,
  ty < 8 -> encode_len_sm ty u = encode_len_ar ty u.
Proof. exact encode_len_sm_ar. Qed.
Print Assumptions C06_header_shiftmask_is_arith.

Theorem C06_header_noncanonical :
  decode_len [176; 128; 0] = Some (3, 0, []) /\ decode_len [48; 0] = Some (3, 0, []) /\
  encode_len 3 0 = [176; 0].
Proof. exact header_noncanonical. Qed.
Print Assumptions C06_header_noncanonical.

(* ================================================================== *)
(** ** a cell / text field longer than 65535 bytes is refused, nothing is returned:
    StrList cells (panic), hence blocks and table columns; objline strings (error),
    hence commit author name / email / message and profile column names; profile top
    values (error). *)
Theorem C06_reject_overlimit :
  (forall sl, Exists (fun s => max_str_len < len s) sl -> encode_strlist sl = None) /\
  (forall rows, Exists (fun row => Exists (fun s => max_str_len < len s) row) rows ->
                encode_block rows = None) /\
  (forall t, Exists (fun s => max_str_len < len s) (t_columns t) -> encode_table t = None) /\
  (forall c, commit_overlimit c -> encode_commit c = None) /\
  (forall p, Exists (fun c => Exists val_overlimit c) (p_cols p) -> encode_profile p = None) /\
  (forall s, 65535 < len s -> enc_string s = None).
Proof. exact reject_overlimit_all. Qed.
Print Assumptions C06_reject_overlimit.

(* ================================================================== *)
(** ** stored under the hash.  [H] = meow.Checksum(0, .), [compress]/[decompress] =
    s2.EncodeBetter / s2.Decode: never computed, universally quantified.
    The store model is value-based: [sset k v] stores the VALUE v, so by construction nothing
    the caller does to its buffers afterwards can change a stored object.  In Go that is the
    job of the defensive copy in objects.saveObj (a badger transaction retains the slice it
    is given until commit, and callers reuse one scratch buffer across SaveBlock /
    SaveBlockIndex calls).  Slice aliasing is outside the Coq model; it is covered by the
    correspondence: every store case runs the Save / Get sequence with the callers'
    buffer-reuse idiom over objmock, over a store that retains the slices it is given, and
    over the repository's own objbadger.NewTxn (read back after Commit), and all three must
    give the observation the model predicts. *)

(** Every Save writes exactly one key and touches no other: blocks, block indices,
    tables and commits under prefix ++ H content (and return H content); the table index
    and the table profile under prefix ++ the sum supplied by the caller, i.e. the hash of
    the TABLE they belong to - they are identified through their table, not by a hash of
    their own bytes. *)
Theorem C06_key_is_hash : forall (H compress : bytes -> bytes) s c,
    (let '(s', sum) := save_block H compress s c in
     sum = H c /\ sget (L_blk ++ H c) s' = Some (compress c) /\
     forall k, k <> L_blk ++ H c -> sget k s' = sget k s) /\
    (let '(s', sum) := save_blockindex H compress s c in
     sum = H c /\ sget (L_blkidx ++ H c) s' = Some (compress c) /\
     forall k, k <> L_blkidx ++ H c -> sget k s' = sget k s) /\
    (let '(s', sum) := save_table H s c in
     sum = H c /\ sget (L_tbl ++ H c) s' = Some c /\
     forall k, k <> L_tbl ++ H c -> sget k s' = sget k s) /\
    (let '(s', sum) := save_commit H s c in
     sum = H c /\ sget (L_com ++ H c) s' = Some c /\
     forall k, k <> L_com ++ H c -> sget k s' = sget k s) /\
    (forall sum, let s' := save_tableindex s sum c in
     sget (L_tblidx ++ sum) s' = Some c /\ forall k, k <> L_tblidx ++ sum -> sget k s' = sget k s) /\
    (forall sum, let s' := save_tableprofile s sum c in
     sget (L_tblsum ++ sum) s' = Some c /\ forall k, k <> L_tblsum ++ sum -> sget k s' = sget k s).
Proof. exact save_key_is_hash. Qed.
Print Assumptions C06_key_is_hash.

(** identical content is stored once: saving it again changes nothing, keys stay unique *)
Theorem C06_save_twice : forall (H compress : bytes -> bytes) s o,
  apply_sop H compress (apply_sop H compress s o) o = apply_sop H compress s o.
Proof. exact save_twice. Qed.
Print Assumptions C06_save_twice.

Theorem C06_save_keys_unique : forall (H compress : bytes -> bytes) s o,
  NoDup (skeys s) -> NoDup (skeys (apply_sop H compress s o)).
Proof. exact save_keys_nodup. Qed.
Print Assumptions C06_save_keys_unique.

(** Get after Save returns the object that was encoded (uses the round trips) *)
Theorem C06_get_after_save_commit : forall (H : bytes -> bytes) s c b,
  wf_commit c -> encode_commit c = Some b ->
  get_commit (fst (save_commit H s b)) (snd (save_commit H s b)) = Some c.
Proof. exact get_after_save_commit. Qed.
Print Assumptions C06_get_after_save_commit.

Theorem C06_get_after_save_table : forall (H : bytes -> bytes) s t b,
  wf_table t -> encode_table t = Some b ->
  get_table (fst (save_table H s b)) (snd (save_table H s b)) = Some t.
Proof. exact get_after_save_table. Qed.
Print Assumptions C06_get_after_save_table.

Theorem C06_get_after_save_block : forall (H compress : bytes -> bytes) decompress,
  (forall c, decompress (compress c) = Some c) -> forall s rows b,
  wf_block rows -> encode_block rows = Some b ->
  get_block decompress (fst (save_block H compress s b)) (snd (save_block H compress s b)) = Some rows.
Proof. exact get_after_save_block. Qed.
Print Assumptions C06_get_after_save_block.

Theorem C06_get_after_save_blockindex : forall (H compress : bytes -> bytes) decompress,
  (forall c, decompress (compress c) = Some c) -> forall s x b,
  wf_blockindex x -> encode_blockindex x = Some b ->
  get_blockindex decompress (fst (save_blockindex H compress s b))
                 (snd (save_blockindex H compress s b)) = Some x.
Proof. exact get_after_save_blockindex. Qed.
Print Assumptions C06_get_after_save_blockindex.

Theorem C06_get_after_save_tableindex : forall s sum rows b,
  wf_block rows -> encode_block rows = Some b ->
  get_tableindex (save_tableindex s sum b) sum = Some rows.
Proof. exact get_after_save_tableindex. Qed.
Print Assumptions C06_get_after_save_tableindex.

Theorem C06_get_after_save_tableprofile : forall s sum p b,
  wf_profile p -> encode_profile p = Some b ->
  get_tableprofile (save_tableprofile s sum b) sum = Some p.
Proof. exact get_after_save_tableprofile. Qed.
Print Assumptions C06_get_after_save_tableprofile.

(** a stored object never disagrees with its identifier: after ANY sequence of saves on
    an empty store, keys are unique and every block / block index / table / commit entry
    sits under the hash of its (decompressed) value *)
Theorem C06_store_consistent : forall (H compress : bytes -> bytes) decompress,
  (forall c, decompress (compress c) = Some c) -> forall ops,
  store_ok H decompress (apply_sops H compress [] ops).
Proof. exact store_ok_from_empty. Qed.
Print Assumptions C06_store_consistent.

(** no save loses or replaces an object saved before: if the hash is injective, every block /
    block index / table / commit written by ANY sequence of saves is, after the whole sequence,
    still stored under its key with the value written (identical content maps to the same key
    and the same value; the table index / table profile kinds live under other prefixes).
    The table index and the table profile are keyed by their table and are legitimately
    replaced by a later save for the same table, hence [sop_hashed].  The Go counterpart that
    is NOT logic - a badger transaction that overflows and rolls over inside Txn.Set - is
    covered by the correspondence batch 'volume' (see pylib/propcfg/C06.py). *)
Theorem C06_saved_objects_persist : forall (H compress : bytes -> bytes),
  (forall a b, H a = H b -> a = b) -> forall ops s o, In o ops -> sop_hashed o = true ->
  sget (sop_key H o) (apply_sops H compress s ops) = Some (sop_val compress o).
Proof. exact saved_objects_persist. Qed.
Print Assumptions C06_saved_objects_persist.

(** the six key prefixes are pairwise not prefixes of one another (computed on the
    literals), so FilterKey of one kind never returns a key of another kind *)
Theorem C06_prefixes_disjoint : forall p q x,
  In p prefixes -> In q prefixes -> p <> q -> is_prefix q (p ++ x) = false.
Proof. exact prefixes_disjoint. Qed.
Print Assumptions C06_prefixes_disjoint.

(* ================================================================== *)
(** non-vacuity: concrete non-trivial values meet the hypotheses *)
Example C06_nonvacuous :
  wf_strlist [[65; 66]; []; [255; 0]] /\ wf_block [[[65]; []]; []] /\ wf_uintlist [0; 4294967295] /\
  wf_commit ex_commit /\ wf_table ex_table /\ wf_blockindex ex_blockindex /\ wf_profile ex_profile /\
  wf_pktline [104; 105] /\ wf_packfile [(1, [1; 2; 3]); (3, [])] /\
  wf_time zero_time /\ wf_time (9999999999%Z, 1499%Z).
Proof. exact nonvacuous. Qed.
