(** C06 - objects round-trip through their encodings and are stored under their hash.
    Only statements, each closed by [exact] of a lemma from proofs/Codec*_proofs.v.

    Conventions: [bytes = list N]; an encoder returns [None] when the Go code refuses
    (error or panic, see the model files); a decoder consumes a prefix and returns the
    bytes left in the reader.  [decode_X_g true] is the reader without
    StrListDecoder.Read's tolerance for a stream that ends right after the length
    prefix of the last cell; [decode_X = decode_X_g false] is the real reader. *)
From W.lib Require Import Tree Bytes.
From W.model Require Import CodecBase CodecStrList CodecPackfile.
From W.proofs Require Import CodecBase_proofs CodecStrList_proofs CodecPackfile_proofs.
Local Open Scope N_scope.

(** ** StrList *)
Theorem C06_strlist_roundtrip : forall sl, wf_strlist sl ->
  exists b, encode_strlist sl = Some b /\
    forall strict rest, decode_strlist_g strict (b ++ rest) = Some (sl, rest).
Proof. exact strlist_roundtrip. Qed.
Print Assumptions C06_strlist_roundtrip.

(** re-encoding reproduces the bytes read, for the strict reader (which is a
    restriction of the real one and agrees with it whenever anything follows) *)
Theorem C06_strlist_reencode : forall b sl rest,
  wf_bytes b -> decode_strlist_g true b = Some (sl, rest) ->
  exists b', encode_strlist sl = Some b' /\ b = b' ++ rest /\ wf_bytes rest /\ wf_strlist sl.
Proof. exact strlist_reencode. Qed.
Print Assumptions C06_strlist_reencode.

(** ** Block *)
Theorem C06_block_roundtrip : forall rows, wf_block rows ->
  exists b, encode_block rows = Some b /\
    forall strict rest, decode_block_g strict (b ++ rest) = Some (rows, rest).
Proof. exact block_roundtrip. Qed.
Print Assumptions C06_block_roundtrip.

Theorem C06_block_reencode : forall b rows rest,
  wf_bytes b -> decode_block_g true b = Some (rows, rest) ->
  exists b', encode_block rows = Some b' /\ b = b' ++ rest /\ wf_bytes rest /\ wf_block rows.
Proof. exact block_reencode. Qed.
Print Assumptions C06_block_reencode.

(** the strict reader only removes behaviour: whatever it reads the real reader reads
    too, and the two agree unless the input ends inside the last cell *)
Theorem C06_block_strict_real : forall b r,
  decode_block_g true b = Some r -> decode_block b = Some r.
Proof. exact block_strict_real. Qed.
Print Assumptions C06_block_strict_real.

Theorem C06_block_real_strict : forall b rows rest,
  decode_block b = Some (rows, rest) -> rest <> [] -> decode_block_g true b = Some (rows, rest).
Proof. exact block_real_strict. Qed.
Print Assumptions C06_block_real_strict.

(** the full statement [decode_block b = Some (rows, []) -> encode_block rows = Some b]
    is FALSE for the real reader (10-byte witness) *)
Theorem C06_block_reencode_real_refuted :
  decode_block [0;0;0;1; 0;0;0;1; 0;5] = Some ([[[]]], []) /\
  encode_block [[[]]] = Some [0;0;0;1; 0;0;0;1; 0;0].
Proof. exact block_noncanonical. Qed.
Print Assumptions C06_block_reencode_real_refuted.

(** ** UintList / FloatList (w = 4 / 8 bytes per element) *)
Theorem C06_words_roundtrip : forall w l, (0 < w)%nat -> wf_words w l ->
  exists b, encode_words w l = Some b /\ forall rest, decode_words w (b ++ rest) = Some (l, rest).
Proof. exact words_roundtrip. Qed.
Print Assumptions C06_words_roundtrip.

Theorem C06_words_reencode : forall w b l rest,
  wf_bytes b -> decode_words w b = Some (l, rest) ->
  exists b', encode_words w l = Some b' /\ b = b' ++ rest /\ wf_bytes rest /\ wf_words w l.
Proof. exact words_reencode. Qed.
Print Assumptions C06_words_reencode.

(** ** over-limit cells are refused (StrListEncoder.Encode panics; nothing is returned) *)
Theorem C06_reject_overlimit_strlist : forall sl,
  Exists (fun s => max_str_len < len s) sl -> encode_strlist sl = None.
Proof. exact strlist_reject_overlimit. Qed.
Print Assumptions C06_reject_overlimit_strlist.

Theorem C06_reject_overlimit_block : forall rows,
  Exists (fun row => Exists (fun s => max_str_len < len s) row) rows -> encode_block rows = None.
Proof. exact block_reject_overlimit. Qed.
Print Assumptions C06_reject_overlimit_block.

(** ** packfile object header: every length 0 <= u < 2^64, every type 1..7.
    [encode_len] is the shift/mask transliteration with bits = N.size u (bits.Len64). *)
Theorem C06_header_roundtrip : forall ty u rest,
  1 <= ty <= 7 -> u < 2 ^ 64 -> decode_len (encode_len ty u ++ rest) = Some (ty, u, rest).
Proof. exact header_roundtrip. Qed.
Print Assumptions C06_header_roundtrip.

Theorem C06_header_shiftmask_is_arith : forall ty u,
  ty < 8 -> encode_len_sm ty u = encode_len_ar ty u.
Proof. exact encode_len_sm_ar. Qed.
Print Assumptions C06_header_shiftmask_is_arith.

(** the header decoder is not canonical (padding digits, bit 7 of the first byte ignored) *)
Theorem C06_header_noncanonical :
  decode_len [176; 128; 0] = Some (3, 0, []) /\ decode_len [48; 0] = Some (3, 0, []) /\
  encode_len 3 0 = [176; 0].
Proof. exact header_noncanonical. Qed.
Print Assumptions C06_header_noncanonical.

(** non-vacuity *)
Example C06_nonvacuous_strlist :
  wf_strlist [[65; 66]; []; [255; 0]] /\ wf_block [[[65]; []]; []] /\ wf_words 4 [0; 4294967295].
Proof.
  repeat split; repeat constructor; vm_compute; congruence.
Qed.
