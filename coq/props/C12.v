(** C12 - pruning removes only unreachable objects and leaves every ref fully usable.
    Only statements, each closed by [exact] of a lemma from proofs/.

    Model: coq/model/Prune.v ([prune_with pos s] = the list of store deletes prune.Prune issues on
    repository state [s], in order, and its status), state and vocabulary: coq/model/PruneRepo.v.
    [pos] is the (time-based, hence arbitrary) insertion discipline of the commits queue: every
    theorem holds for all of them.  [crash_with pos n s] = the store after the first n deletes
    (crash or failing Delete), [pruned_with pos s] = the store after all of them.

    Premises: [Closed] (stored commits' parents are stored), [RefsResolve] (refs point at stored
    commits); shallow commits (table id not stored), shared blocks, dangling table indices etc. are
    all allowed.  [Acyclic] (the parent relation has no cycle - a consequence of content
    addressing, an outside-world premise like hash injectivity) is needed only where "every
    unreachable commit is deleted" is claimed, because childrenFirst (Kahn) never emits a cycle. *)
From W.lib Require Import Tree GoSort.
From W.model Require Import PruneRepo Prune.
From W.proofs Require Import Prune_proofs PruneOrder_proofs PrunePlan_proofs PruneWitness_proofs.
Local Open Scope N_scope.

(** Prune completes - no panic, no error - on every such state, shallow commits included.
    (Only the parents of REACHABLE commits need to be stored: crash states qualify.) *)
Theorem C12_total : forall pos s, ClosedReach s -> snd (prune_with pos s) = Done.
Proof. exact prune_total. Qed.
Print Assumptions C12_total.

Theorem C12_total_closed : forall pos s, Closed s -> RefsResolve s -> snd (prune_with pos s) = Done.
Proof. exact thm_total_closed. Qed.
Print Assumptions C12_total_closed.

(** Safety.  After prune every commit reachable from any ref (ListAllRefs: heads, tags, remotes,
    txs) still has everything it had - commit, table, table index, profile, every block and block
    index its table lists, each wherever it existed before - and is still reachable; refs are
    untouched and still resolve; the store is still closed under parents. *)
Theorem C12_safe : forall pos s, Closed s -> RefsResolve s ->
  let s' := pruned_with pos s in
  refs s' = refs s /\ RefsResolve s' /\ Closed s' /\
  (forall c, reach s c -> commit_intact s s' c) /\ (forall c, reach s' c <-> reach s c).
Proof. exact thm_safe. Qed.
Print Assumptions C12_safe.

(** The same at EVERY crash point (every prefix of the delete list): nothing a reachable commit
    has is ever deleted, refs resolve, and - deletes of commits being children-first - every
    stored commit, reachable or not, keeps its parents.  (What C13 needs for prune.) *)
Theorem C12_prefix_safe : forall pos s n, Closed s -> RefsResolve s ->
  let s' := crash_with pos n s in
  refs s' = refs s /\ RefsResolve s' /\ Closed s' /\
  (forall c, reach s c -> commit_intact s s' c) /\ (forall c, reach s' c <-> reach s c).
Proof. exact thm_prefix_safe. Qed.
Print Assumptions C12_prefix_safe.

(** Completeness, as the code behaves.  Every commit no ref reaches is gone.  If at least one commit
    was removable: every table no reachable commit names is gone with its table index and profile,
    every block / block index no surviving table lists is gone.  An index or profile whose table is
    NOT stored is never touched (prune sweeps them by table key).  If NO commit was removable prune
    deletes nothing at all (early return), whatever else is garbage. *)
Theorem C12_complete : forall pos s, Closed s -> RefsResolve s -> Acyclic s ->
  let s' := pruned_with pos s in
  (forall c, ~ reach s c -> get_commit s' c = None) /\
  (has_removable s ->
     (forall t, ~ live_table s t -> get_table s' t = None) /\
     (forall t, get_table s t <> None -> ~ live_table s t ->
        mem t (tblidx s') = false /\ mem t (prof s') = false) /\
     (forall b, ~ live_block s b -> mem b (blocks s') = false) /\
     (forall b, ~ live_blkidx s b -> mem b (blkidx s') = false)) /\
  (forall t, get_table s t = None ->
     mem t (tblidx s') = mem t (tblidx s) /\ mem t (prof s') = mem t (prof s)) /\
  (~ has_removable s -> prune_with pos s = ([], Done)).
Proof. exact thm_complete. Qed.
Print Assumptions C12_complete.

(** A second prune issues no delete. *)
Theorem C12_idempotent : forall pos s, Closed s -> RefsResolve s -> Acyclic s ->
  prune_with pos (pruned_with pos s) = ([], Done).
Proof. exact thm_idempotent. Qed.
Print Assumptions C12_idempotent.

(** Re-running prune from ANY crash point succeeds and ends in the state of the uninterrupted run
    on commits, tables, blocks, block indices and refs.  Commits are deleted last, so while anything
    is left to sweep a removable commit is left and the re-run does not take the early return.
    The one difference: if the crash fell inside a (DeleteTable, DeleteTableIndex,
    DeleteTableProfile) triple, that table's index / profile stay behind for good (the last
    disjuncts; [P] = the deletes done before the crash).  A further run deletes nothing. *)
Theorem C12_rerun : forall pos s n, Closed s -> RefsResolve s -> Acyclic s ->
  let P := firstn n (fst (prune_with pos s)) in
  let s1 := crash_with pos n s in
  let sF := pruned_with pos s in
  let s2 := pruned_with pos s1 in
  snd (prune_with pos s1) = Done /\
  ((forall c, get_commit s2 c = get_commit sF c) /\
   (forall t, get_table s2 t = get_table sF t) /\
   (forall b, mem b (blocks s2) = mem b (blocks sF)) /\
   (forall b, mem b (blkidx s2) = mem b (blkidx sF)) /\
   refs s2 = refs sF /\
   (forall t, mem t (tblidx s2) = mem t (tblidx sF)
                || (deleted KTable t P && negb (deleted KTblIdx t P) && mem t (tblidx s))) /\
   (forall t, mem t (prof s2) = mem t (prof sF)
                || (deleted KTable t P && negb (deleted KProf t P) && mem t (prof s)))) /\
  prune_with pos s2 = ([], Done).
Proof. exact thm_rerun. Qed.
Print Assumptions C12_rerun.

(** ... and exactly in that state when the crash did not tear a triple. *)
Theorem C12_rerun_clean : forall pos s n, Closed s -> RefsResolve s -> Acyclic s ->
  let P := firstn n (fst (prune_with pos s)) in
  (forall t, deleted KTable t P = true -> deleted KTblIdx t P = true /\ deleted KProf t P = true) ->
  same_objs (pruned_with pos (crash_with pos n s)) (pruned_with pos s).
Proof. exact thm_rerun_clean. Qed.
Print Assumptions C12_rerun_clean.

(** gc = transaction.GarbageCollect (the txs/ refs of expired transactions are dropped: [expired], any
    predicate on ref names), then prune.  Every ref that is not expired - in particular the refs of
    open, unexpired transactions - is still there and everything reachable from the surviving refs
    keeps all it had; only refs of expired transactions disappear. *)
Theorem C12_gc_safe : forall pos expired s, Closed s -> RefsResolve s ->
  let s0 := gc_refs expired s in
  let s' := gced_with pos expired s in
  (forall n c, In (n, c) (refs s) -> expired n = false -> In (n, c) (refs s') /\ reach s0 c) /\
  (forall n c, In (n, c) (refs s') -> In (n, c) (refs s) /\ expired n = false) /\
  RefsResolve s' /\ Closed s' /\
  (forall c, reach s0 c -> commit_intact s s' c) /\ (forall c, reach s' c <-> reach s0 c).
Proof. exact thm_gc_safe. Qed.
Print Assumptions C12_gc_safe.

(** ... and what only expired transactions (or nothing) reached is gone. *)
Theorem C12_gc_complete : forall pos expired s, Closed s -> RefsResolve s -> Acyclic s ->
  forall c, ~ reach (gc_refs expired s) c -> get_commit (gced_with pos expired s) c = None.
Proof. exact thm_gc_complete. Qed.
Print Assumptions C12_gc_complete.

(** ---- refuted variants and behaviours outside the property text (concrete witnesses) ---- *)

(** The code before fix 98a13da (slot indexed without the equality check): one reachable shallow
    commit + one orphan commit => index out of range ... *)
Theorem C12_unchecked_refuted :
  exists s, Closed s /\ RefsResolve s /\ Acyclic s /\ snd (prune_unchecked s) = Panic.
Proof. exact unchecked_refuted. Qed.
Print Assumptions C12_unchecked_refuted.

(** ... or, when the absent table id sorts before a stored one, the wrong table is marked and an
    unreferenced table survives. *)
Theorem C12_unchecked_keeps_garbage :
  exists s t, Closed s /\ RefsResolve s /\ Acyclic s /\ has_removable s /\
    get_table s t <> None /\ ~ live_table s t /\
    snd (prune_unchecked s) = Done /\
    get_table (apply_dels (fst (prune_unchecked s)) s) t <> None.
Proof. exact unchecked_keeps_garbage. Qed.
Print Assumptions C12_unchecked_keeps_garbage.

(** The code before fix b7554dd (unreachable commits deleted in key order): a crash inside the
    commit phase can leave a stored commit whose parent is gone. *)
Theorem C12_key_order_refuted :
  exists s n, Closed s /\ RefsResolve s /\ Acyclic s /\
    ~ Closed (apply_dels (firstn n (fst (prune_key_order s))) s).
Proof. exact key_order_refuted. Qed.
Print Assumptions C12_key_order_refuted.

(** Current code: the early return leaves a table nothing refers to (e.g. from an interrupted
    commit or fetch) when no commit happens to be removable. *)
Theorem C12_early_return_leaves_orphans :
  exists s t, Closed s /\ RefsResolve s /\ Acyclic s /\
    get_table s t <> None /\ ~ live_table s t /\ prune s = ([], Done).
Proof. exact early_return_leaves_orphans. Qed.
Print Assumptions C12_early_return_leaves_orphans.

(** Current code: a crash between DeleteTable and DeleteTableProfile leaks the profile for good. *)
Theorem C12_torn_triple_leak :
  exists s n t, Closed s /\ RefsResolve s /\ Acyclic s /\
    mem t (prof (pruned s)) = false /\
    mem t (prof (pruned (crash n s))) = true /\
    prune (pruned (crash n s)) = ([], Done).
Proof. exact torn_triple_leak. Qed.
Print Assumptions C12_torn_triple_leak.

(** Non-vacuity: a merge history with shared blocks and a shallow commit meets the premises and
    gives prune real work (13 deletes in the proved order). *)
Theorem C12_example :
  Closed w_example /\ RefsResolve w_example /\ Acyclic w_example /\ has_removable w_example /\
  prune w_example =
    ([Del KTable 23; Del KTblIdx 23; Del KProf 23; Del KTable 24; Del KTblIdx 24; Del KProf 24;
      Del KBlock 33; Del KBlock 34; Del KBlock 35; Del KBlkIdx 43; Del KBlkIdx 44;
      Del KCommit 6; Del KCommit 5], Done).
Proof. exact example_nontrivial. Qed.
Print Assumptions C12_example.
