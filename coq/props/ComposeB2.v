(** Composition B2: C11 (ancestry queries, merge base) discharges the ancestry premises of C10
    (without force a ref only moves forward).
    Only statements, each closed by [exact] of a lemma from proofs/BridgeAncestor_proofs.v.

    WHAT WAS ASSUMED.  props/C10.v proves [C10_forward_only], [C10_log_true], [C10_fetch_ok], [C10_push_ok],
    [C10_merge_ok], [C10_pull_ok] for ARBITRARY oracles [ia] (ref.IsAncestorOf) and [sk]
    (ref.SeekCommonAncestor) under the named premises
        RefUpdate_proofs.IsAncSound g ia     "ia a b = true -> a is an ancestor-or-self of b"
        RefUpdate_proofs.SeekSound  g sk     "sk cs = SInput c -> c is an input and an ancestor-or-self of
                                              every input"
    and closes them only for C10's own specification-level oracles ([is_ancestor], [seek_spec]).  C11 proves
    theorems about the TRANSLITERATED Go functions (model/Ancestor.v over Queue.v/Graph.v).

    THE BRIDGE (model/BridgeAncestor.v).
      [to_graph tm g]       RefUpdate's commit graph (id -> parents) as a C11 store (id -> time, parents),
                            commit c being given the time [tm c]; [tm] is ARBITRARY in every theorem below
                            (C11: "whatever the timestamps say").  The abstraction is exact:
                            Graph.reach (to_graph tm g) [b] a <-> RefUpdate.anc g a b   [Compose_reach_anc].
      [b_is_ancestor tm g]  = Ancestor.anc_true of C11's [is_ancestor_of] with the Go placement
                            ([Queue.ins_time]/[Queue.srt_time], literal sort.Search; a permutation by
                            C11_go_placement): (true, nil) is "yes", an error is not.
      [b_seek tm g]         = C11's [t_seek] projected on what runMerge uses: SFound x with x among the inputs ->
                            SInput x; SFound x otherwise -> SOther; not found / error / (nil,nil) -> SNone.

    REMAINING HYPOTHESIS (the only one):  [store_closed g] - every parent of a stored commit is stored
    (= Graph.closed (to_graph tm g), C11's completeness hypothesis, [Compose_store_closed_iff]).  It is
    needed because C11_is_ancestor_correct / C11_base2_common assume [complete g [c]].  Queries about commits
    that are not stored need no hypothesis: NewCommitsQueue fails, which is never a "yes" nor a commit
    (proved here from the model: [seek_absent], [anc_true_absent_target]).  ACYCLICITY IS NOT NEEDED
    (C11 (a), (c) for two inputs, (d) hold on cyclic graphs too), nor any relation between times and topology.

    SeekSound IS FALSE OF THE GO CODE; WHAT HOLDS INSTEAD.  [IsAncSound] is discharged outright.  [SeekSound]
    is NOT TRUE of C11's merge base: with three inputs SeekCommonAncestor can return an input that is not an
    ancestor of another input (C11_base3_wrong_witness), and read through the bridge this refutes the premise
    ([Compose_seek_sound_refuted], [Compose_seek_sound3_refuted]).  Two compositions are given.

    (1) FULL RESULT, every arity: [Compose_forward_only_all] - the C10 forward-only statement for ALL histories
        with no ancestry premise.  C10's proof uses less of the merge base than [SeekSound]: the branch ref can
        only move illegally when the reported base c is the branch value itself and c is an ancestor of none of
        the inputs that remain after runMerge has dropped every occurrence of c.  [BridgeAncestor.SeekWeak]
        states exactly that ("a base reported as an input is an ancestor-or-self of SOME remaining input,
        unless none remains"); it is implied by [SeekSound] ([Compose_seek_sound_weak]), C10's merge / pull /
        history theorems are re-proved under it in proofs/BridgeAncestor_proofs.v following RefUpdate_proofs'
        structure ([Compose_forward_only_weak_premise] generalises C10_forward_only), and it is PROVED of C11's
        SeekCommonAncestor for any number of inputs ([Compose_seek_weak]).  That last step is new C11-level
        work done here on C11's model and exported lemmas (elim_spec, outer_step, pop_all_spec, w_step_inv,
        pre_check_some ...): walkers are tagged with the input they started from; invariant of the main loop:
        first round = the fresh walkers of all inputs, later rounds = at least two walkers started from
        pairwise different commits; the deletion loops leave a single walker only by a last deletion made by
        the survivor, i.e. its base has been seen by a walk started from another input.  Validated first by
        search by vm_compute (all DAGs of <= 4 commits with <= 2 parents each x all time orders and some ties x 3
        and 4 inputs; all such DAGs of 5 commits x 10 resp. 4 time assignments x 3 resp. 4 inputs: no violation).  So C11's finding (>= 3 inputs, base not common)
        does NOT break "a ref only moves forward"; it affects which table is used as the merge base.
    (2) What C11's own theorems give without new loop reasoning (kept; the first delivery):
      * calls with at most two inputs satisfy SeekSound ([Compose_seek_sound], from C11_base2_common);
      * calls with any number of stored inputs are sound and return an input whenever some input is an
        ancestor-or-self of all the others ([Compose_seek_base_input], from C11_base_is_input);
      * [Compose_forward_only] for histories of operations whose merges have at most two inputs
        ([BridgeAncestor.op_arity2b]; runMerge passes 1 + |others| resp. 1 + |merge heads| <= 1 + |refspecs|
        commits): such a history never calls the merge base on more than two commits, so it runs identically
        under [b_seek] and under [b_seek_guard] (= [b_seek] up to two inputs, C10's [seek_spec] beyond), which
        satisfies [SeekSound] verbatim ([Compose_seek_guard_sound]); then C10's own theorem applies unchanged.

    Per-operation versions: fetch and push; merge / pull both unrestricted (_all) and under the arity bound. *)
From Coq Require Import List NArith ZArith Bool.
From W.model Require RefUpdate Graph Queue Ancestor BridgeAncestor.
From W.proofs Require RefUpdate_proofs BridgeAncestor_proofs.
Import ListNotations.

(** the abstraction function is exact on ancestry *)
Theorem Compose_reach_anc : forall tm g a b,
  Graph.reach (BridgeAncestor.to_graph tm g) [b] a <-> RefUpdate.anc g a b.
Proof. exact BridgeAncestor_proofs.reach_anc. Qed.
Print Assumptions Compose_reach_anc.

(** the remaining hypothesis is C11's closedness of the store, for whatever times *)
Theorem Compose_store_closed_iff : forall tm g,
  BridgeAncestor.store_closed g <-> Graph.closed (BridgeAncestor.to_graph tm g).
Proof.
  exact (fun tm g => conj (BridgeAncestor_proofs.closed_to_graph tm g)
                          (BridgeAncestor_proofs.closed_of_to_graph tm g)).
Qed.
Print Assumptions Compose_store_closed_iff.

(** premise 1 discharged (C11_is_ancestor_correct + C11_go_placement) *)
Theorem Compose_is_ancestor_sound : forall tm g,
  BridgeAncestor.store_closed g ->
  RefUpdate_proofs.IsAncSound g (BridgeAncestor.b_is_ancestor tm g).
Proof. exact BridgeAncestor_proofs.b_is_ancestor_sound. Qed.
Print Assumptions Compose_is_ancestor_sound.

(** premise 2, strongest true form: calls with at most two inputs (C11_base2_common + C11_go_placement) *)
Theorem Compose_seek_sound : forall tm g,
  BridgeAncestor.store_closed g ->
  BridgeAncestor.SeekSoundUpTo 2 g (BridgeAncestor.b_seek tm g).
Proof. exact BridgeAncestor_proofs.b_seek_sound2. Qed.
Print Assumptions Compose_seek_sound.

(** ... and it cannot be had for three inputs, nor as stated in C10 (C11_base3_wrong_witness through the bridge) *)
Theorem Compose_seek_sound3_refuted :
  ~ (forall tm g, BridgeAncestor.store_closed g ->
       BridgeAncestor.SeekSoundUpTo 3 g (BridgeAncestor.b_seek tm g)).
Proof. exact BridgeAncestor_proofs.b_seek_sound3_refuted. Qed.
Print Assumptions Compose_seek_sound3_refuted.

Theorem Compose_seek_sound_refuted :
  ~ (forall tm g, BridgeAncestor.store_closed g ->
       RefUpdate_proofs.SeekSound g (BridgeAncestor.b_seek tm g)).
Proof. exact BridgeAncestor_proofs.b_seek_sound_refuted. Qed.
Print Assumptions Compose_seek_sound_refuted.

(** premise 2 verbatim, for the guarded oracle (C11's merge base up to two inputs, C10's specification beyond) *)
Theorem Compose_seek_guard_sound : forall tm g,
  BridgeAncestor.store_closed g ->
  RefUpdate_proofs.SeekSound g (BridgeAncestor.b_seek_guard tm g).
Proof. exact BridgeAncestor_proofs.b_seek_guard_sound. Qed.
Print Assumptions Compose_seek_guard_sound.

(** any number (> 1) of stored inputs (C11_base_is_input): if some input is an ancestor-or-self of all the others,
    C11's merge base is reported as an input, and that input is an ancestor-or-self of every input *)
Theorem Compose_seek_base_input : forall tm g cs i c,
  BridgeAncestor.store_closed g -> (1 < length cs)%nat ->
  (forall x, In x cs -> BridgeAncestor.stored g x) ->
  nth_error cs i = Some c ->
  (forall j d, nth_error cs j = Some d -> j <> i -> RefUpdate.anc g c d) ->
  exists c', BridgeAncestor.b_seek tm g cs = RefUpdate.SInput c' /\ In c' cs /\
             forall x, In x cs -> RefUpdate.anc g c' x.
Proof. exact BridgeAncestor_proofs.b_seek_base_input. Qed.
Print Assumptions Compose_seek_base_input.

(** C10_forward_only with NO ancestry premise: in every history of fetch / push / merge / pull operations whose
    merges have at most two inputs, run with C11's IsAncestorOf and SeekCommonAncestor (Go placement, any commit
    times) over a closed store, every ref write old -> new satisfies: not forced => old is an ancestor-or-self of
    new; an existing tag gets a different value only with force. *)
Theorem Compose_forward_only : forall tm g,
  BridgeAncestor.store_closed g ->
  forall st ops, forallb BridgeAncestor.op_arity2b ops = true ->
  Forall (RefUpdate_proofs.trans_ok g)
         (snd (RefUpdate.run_ops g (BridgeAncestor.b_is_ancestor tm g) (BridgeAncestor.b_seek tm g) st ops)).
Proof. exact BridgeAncestor_proofs.compose_forward_only. Qed.
Print Assumptions Compose_forward_only.

(** the same for histories of ANY operations with the guarded merge base *)
Theorem Compose_forward_only_guard : forall tm g,
  BridgeAncestor.store_closed g ->
  forall st ops,
  Forall (RefUpdate_proofs.trans_ok g)
         (snd (RefUpdate.run_ops g (BridgeAncestor.b_is_ancestor tm g) (BridgeAncestor.b_seek_guard tm g) st ops)).
Proof. exact BridgeAncestor_proofs.compose_forward_only_guard. Qed.
Print Assumptions Compose_forward_only_guard.

(** C10_log_true composed *)
Theorem Compose_log_true : forall tm g,
  BridgeAncestor.store_closed g ->
  forall st ops, forallb BridgeAncestor.op_arity2b ops = true ->
  let r := RefUpdate.run_ops g (BridgeAncestor.b_is_ancestor tm g) (BridgeAncestor.b_seek tm g) st ops in
  (RefUpdate_proofs.LogFaithful (RefUpdate.lrefs st) -> RefUpdate_proofs.LogFaithful (RefUpdate.lrefs (fst r))) /\
  (RefUpdate_proofs.LogFaithful (RefUpdate.rrefs st) -> RefUpdate_proofs.LogFaithful (RefUpdate.rrefs (fst r))) /\
  Forall (RefUpdate_proofs.logged (RefUpdate.lrefs (fst r))) (snd r).
Proof. exact BridgeAncestor_proofs.compose_log_true. Qed.
Print Assumptions Compose_log_true.

(** C10_fetch_ok / C10_push_ok composed (no arity condition: no merge base involved) *)
Theorem Compose_fetch_ok : forall tm g st specs gforce,
  BridgeAncestor.store_closed g ->
  RefUpdate_proofs.res_ok g st (RefUpdate.fetch_step g (BridgeAncestor.b_is_ancestor tm g) st specs gforce).
Proof. exact BridgeAncestor_proofs.compose_fetch_ok. Qed.
Print Assumptions Compose_fetch_ok.

Theorem Compose_push_ok : forall tm g st items gf dn dd,
  BridgeAncestor.store_closed g ->
  RefUpdate_proofs.res_ok g st (RefUpdate.push_step g (BridgeAncestor.b_is_ancestor tm g) st items gf dn dd).
Proof. exact BridgeAncestor_proofs.compose_push_ok. Qed.
Print Assumptions Compose_push_ok.

(** C10_merge_ok / C10_pull_ok composed: the branch and at most one other commit / at most one refspec *)
Theorem Compose_merge_ok : forall tm g st branch others mode m,
  BridgeAncestor.store_closed g -> (length others <= 1)%nat ->
  RefUpdate_proofs.res_ok g st (RefUpdate.merge_step g (BridgeAncestor.b_seek tm g) st branch others mode m).
Proof. exact BridgeAncestor_proofs.compose_merge_ok. Qed.
Print Assumptions Compose_merge_ok.

Theorem Compose_pull_ok : forall tm g st branch specs gf mode m,
  BridgeAncestor.store_closed g -> (length specs <= 1)%nat ->
  RefUpdate_proofs.res_ok g st
    (RefUpdate.pull_step g (BridgeAncestor.b_is_ancestor tm g) (BridgeAncestor.b_seek tm g) st branch specs gf mode m).
Proof. exact BridgeAncestor_proofs.compose_pull_ok. Qed.
Print Assumptions Compose_pull_ok.

(** non-vacuity of Compose_forward_only / Compose_log_true: RefUpdate_proofs' five-operation history (fetch,
    rejected push, merge creating a merge commit, pull, push) on a closed graph meets both hypotheses; run with
    C11's functions under REVERSED commit times (children older than parents) and under topological times it
    makes exactly the three moves made with C10's specification oracles, the first a non-forced move 2 -> 1000 *)
Example Compose_forward_only_nonvacuous :
  BridgeAncestor.store_closedb RefUpdate_proofs.ex_graph = true /\
  forallb BridgeAncestor.op_arity2b RefUpdate_proofs.ex_ops = true /\
  snd (RefUpdate.run_ops RefUpdate_proofs.ex_graph
         (BridgeAncestor.b_is_ancestor BridgeAncestor_proofs.ex_tm_rev RefUpdate_proofs.ex_graph)
         (BridgeAncestor.b_seek BridgeAncestor_proofs.ex_tm_rev RefUpdate_proofs.ex_graph)
         RefUpdate_proofs.ex_state RefUpdate_proofs.ex_ops) =
  snd (RefUpdate.run_ops RefUpdate_proofs.ex_graph (RefUpdate.is_ancestor RefUpdate_proofs.ex_graph)
         (RefUpdate.seek_spec RefUpdate_proofs.ex_graph) RefUpdate_proofs.ex_state RefUpdate_proofs.ex_ops) /\
  snd (RefUpdate.run_ops RefUpdate_proofs.ex_graph
         (BridgeAncestor.b_is_ancestor BridgeAncestor_proofs.ex_tm_topo RefUpdate_proofs.ex_graph)
         (BridgeAncestor.b_seek BridgeAncestor_proofs.ex_tm_topo RefUpdate_proofs.ex_graph)
         RefUpdate_proofs.ex_state RefUpdate_proofs.ex_ops) =
  snd (RefUpdate.run_ops RefUpdate_proofs.ex_graph (RefUpdate.is_ancestor RefUpdate_proofs.ex_graph)
         (RefUpdate.seek_spec RefUpdate_proofs.ex_graph) RefUpdate_proofs.ex_state RefUpdate_proofs.ex_ops) /\
  length (snd (RefUpdate.run_ops RefUpdate_proofs.ex_graph
         (BridgeAncestor.b_is_ancestor BridgeAncestor_proofs.ex_tm_rev RefUpdate_proofs.ex_graph)
         (BridgeAncestor.b_seek BridgeAncestor_proofs.ex_tm_rev RefUpdate_proofs.ex_graph)
         RefUpdate_proofs.ex_state RefUpdate_proofs.ex_ops)) = 3%nat /\
  hd_error (snd (RefUpdate.run_ops RefUpdate_proofs.ex_graph
         (BridgeAncestor.b_is_ancestor BridgeAncestor_proofs.ex_tm_rev RefUpdate_proofs.ex_graph)
         (BridgeAncestor.b_seek BridgeAncestor_proofs.ex_tm_rev RefUpdate_proofs.ex_graph)
         RefUpdate_proofs.ex_state RefUpdate_proofs.ex_ops)) =
  Some (RefUpdate.mk_trans RefUpdate.Local RefUpdate_proofs.n_main (Some 2%N) (Some 1000%N) false).
Proof. exact BridgeAncestor_proofs.ex_compose_history. Qed.
Print Assumptions Compose_forward_only_nonvacuous.

(** [store_closedb] decides the hypothesis *)
Theorem Compose_store_closedb_sound : forall g,
  BridgeAncestor.store_closedb g = true -> BridgeAncestor.store_closed g.
Proof. exact BridgeAncestor_proofs.store_closedb_sound. Qed.
Print Assumptions Compose_store_closedb_sound.

(** non-vacuity of the discharged premises: the bridged functions answer "yes" / "input" where the graph says so,
    "no" where it does not, an absent commit (7) gives neither; last line: C11's finding seen through the bridge *)
Example Compose_oracles_nonvacuous :
  BridgeAncestor.b_is_ancestor BridgeAncestor_proofs.ex_tm_rev RefUpdate_proofs.ex_graph 0%N 1000%N = true /\
  BridgeAncestor.b_is_ancestor BridgeAncestor_proofs.ex_tm_rev RefUpdate_proofs.ex_graph 2%N 3%N = false /\
  BridgeAncestor.b_is_ancestor BridgeAncestor_proofs.ex_tm_rev RefUpdate_proofs.ex_graph 7%N 7%N = false /\
  BridgeAncestor.b_seek BridgeAncestor_proofs.ex_tm_rev RefUpdate_proofs.ex_graph [1%N; 1000%N] = RefUpdate.SInput 1%N /\
  BridgeAncestor.b_seek BridgeAncestor_proofs.ex_tm_rev RefUpdate_proofs.ex_graph [3%N; 1%N] = RefUpdate.SInput 1%N /\
  BridgeAncestor.b_seek BridgeAncestor_proofs.ex_tm_rev RefUpdate_proofs.ex_graph [2%N; 3%N] = RefUpdate.SOther /\
  BridgeAncestor.b_seek BridgeAncestor_proofs.ex_tm_rev RefUpdate_proofs.ex_graph [2%N; 7%N] = RefUpdate.SNone /\
  BridgeAncestor.b_seek BridgeAncestor_proofs.ex_tm_rev RefUpdate_proofs.ex_graph [1%N; 2%N; 3%N] = RefUpdate.SInput 1%N /\
  BridgeAncestor.b_seek BridgeAncestor_proofs.wit5_tm BridgeAncestor_proofs.wit5 [2%N; 1%N; 4%N] = RefUpdate.SInput 1%N /\
  RefUpdate.is_ancestor BridgeAncestor_proofs.wit5 1%N 2%N = false.
Proof. exact BridgeAncestor_proofs.ex_compose_oracles. Qed.
Print Assumptions Compose_oracles_nonvacuous.

(** non-vacuity of the per-operation theorems: a merge and a pull that each move the branch, a fetch and a push
    that each report one non-fast-forward rejection, all decided by C11's functions *)
Example Compose_single_ops_nonvacuous :
  BridgeAncestor.store_closedb RefUpdate_proofs.ex_graph = true /\
  length (RefUpdate.r_trace (RefUpdate.merge_step RefUpdate_proofs.ex_graph
            (BridgeAncestor.b_seek BridgeAncestor_proofs.ex_tm_rev RefUpdate_proofs.ex_graph)
            RefUpdate_proofs.ex_state [109%N] [RefUpdate_proofs.n_om] RefUpdate.MFF 1000%N)) = 1%nat /\
  length (RefUpdate.r_trace (RefUpdate.pull_step RefUpdate_proofs.ex_graph
            (BridgeAncestor.b_is_ancestor BridgeAncestor_proofs.ex_tm_rev RefUpdate_proofs.ex_graph)
            (BridgeAncestor.b_seek BridgeAncestor_proofs.ex_tm_rev RefUpdate_proofs.ex_graph)
            RefUpdate_proofs.ex_state [109%N]
            [RefUpdate.mk_spec false false RefUpdate_proofs.n_main RefUpdate_proofs.n_om] false
            RefUpdate.MFF 1000%N)) = 1%nat /\
  RefUpdate.r_nrej (RefUpdate.fetch_step RefUpdate_proofs.ex_graph
            (BridgeAncestor.b_is_ancestor BridgeAncestor_proofs.ex_tm_rev RefUpdate_proofs.ex_graph)
            RefUpdate_proofs.ex_state
            [RefUpdate.mk_spec false false RefUpdate_proofs.n_main (RefUpdate.s_heads ++ [109%N])] false) = 1%nat /\
  RefUpdate.r_nrej (RefUpdate.push_step RefUpdate_proofs.ex_graph
            (BridgeAncestor.b_is_ancestor BridgeAncestor_proofs.ex_tm_rev RefUpdate_proofs.ex_graph)
            RefUpdate_proofs.ex_state
            [RefUpdate.mk_pitem false (Some RefUpdate_proofs.n_main) RefUpdate_proofs.n_main]
            false false false) = 1%nat.
Proof. exact BridgeAncestor_proofs.ex_compose_single_ops. Qed.
Print Assumptions Compose_single_ops_nonvacuous.

(** outside the proved range (three inputs): on C11's witness the wrong base (1, not an ancestor of the branch value
    2) drops an input that is not the branch; the merge commit over the two remaining inputs is a legal move *)
Example Compose_arity3_example :
  BridgeAncestor.store_closedb BridgeAncestor_proofs.wit5m = true /\
  BridgeAncestor.b_seek BridgeAncestor_proofs.wit5_tm BridgeAncestor_proofs.wit5m [2%N; 1%N; 4%N] = RefUpdate.SInput 1%N /\
  RefUpdate.is_ancestor BridgeAncestor_proofs.wit5m 1%N 2%N = false /\
  RefUpdate.r_trace (RefUpdate.merge_step BridgeAncestor_proofs.wit5m
      (BridgeAncestor.b_seek BridgeAncestor_proofs.wit5_tm BridgeAncestor_proofs.wit5m)
      BridgeAncestor_proofs.wit5_state [109%N] [BridgeAncestor_proofs.n_w1; BridgeAncestor_proofs.n_w4]
      RefUpdate.MFF 1000%N) =
    [RefUpdate.mk_trans RefUpdate.Local RefUpdate_proofs.n_main (Some 2%N) (Some 1000%N) false] /\
  RefUpdate.is_ancestor BridgeAncestor_proofs.wit5m 2%N 1000%N = true.
Proof. exact BridgeAncestor_proofs.ex_arity3_still_forward. Qed.
Print Assumptions Compose_arity3_example.

(* ------------------------------------------------------------------ every arity *)

(** C10's premise implies the weak premise *)
Theorem Compose_seek_sound_weak : forall g sk,
  RefUpdate_proofs.SeekSound g sk -> BridgeAncestor.SeekWeak g sk.
Proof. exact BridgeAncestor_proofs.seek_sound_weak. Qed.
Print Assumptions Compose_seek_sound_weak.

(** C10_forward_only under the weak premise, for arbitrary oracles (generalises C10_forward_only) *)
Theorem Compose_forward_only_weak_premise : forall g ia sk,
  RefUpdate_proofs.IsAncSound g ia -> BridgeAncestor.SeekWeak g sk ->
  forall st ops, Forall (RefUpdate_proofs.trans_ok g) (snd (RefUpdate.run_ops g ia sk st ops)).
Proof. exact BridgeAncestor_proofs.forward_only_history_weak. Qed.
Print Assumptions Compose_forward_only_weak_premise.

(** C11 side, any number of inputs, any permutation placement: a returned commit is reachable from an input
    other than itself, unless every input is that commit *)
Theorem Compose_seek_any_arity : forall (G : Graph.graph) ins srt,
  (forall c q, Permutation.Permutation (ins c q) (c :: q)) -> (forall l, Permutation.Permutation (srt l) l) ->
  forall cs, (forall c, In c cs -> Graph.complete G [c]) ->
  forall x, Ancestor.seek_common_ancestor G ins srt cs = Ancestor.SFound x ->
  (forall y, In y cs -> y = x) \/ exists y, In y cs /\ y <> x /\ Graph.reach G [y] x.
Proof. exact BridgeAncestor_proofs.seek_weak. Qed.
Print Assumptions Compose_seek_any_arity.

(** the weak premise discharged for C11's SeekCommonAncestor with the Go placement, every arity *)
Theorem Compose_seek_weak : forall tm g,
  BridgeAncestor.store_closed g -> BridgeAncestor.SeekWeak g (BridgeAncestor.b_seek tm g).
Proof. exact BridgeAncestor_proofs.b_seek_weak. Qed.
Print Assumptions Compose_seek_weak.

(** C10_forward_only with NO ancestry premise and NO arity condition: every history of fetch / push / merge /
    pull operations, run with C11's IsAncestorOf and SeekCommonAncestor (Go placement, any commit times) over a
    closed store, only makes legal ref moves *)
Theorem Compose_forward_only_all : forall tm g,
  BridgeAncestor.store_closed g ->
  forall st ops,
  Forall (RefUpdate_proofs.trans_ok g)
         (snd (RefUpdate.run_ops g (BridgeAncestor.b_is_ancestor tm g) (BridgeAncestor.b_seek tm g) st ops)).
Proof. exact BridgeAncestor_proofs.compose_forward_only_all. Qed.
Print Assumptions Compose_forward_only_all.

Theorem Compose_log_true_all : forall tm g,
  BridgeAncestor.store_closed g ->
  forall st ops,
  let r := RefUpdate.run_ops g (BridgeAncestor.b_is_ancestor tm g) (BridgeAncestor.b_seek tm g) st ops in
  (RefUpdate_proofs.LogFaithful (RefUpdate.lrefs st) -> RefUpdate_proofs.LogFaithful (RefUpdate.lrefs (fst r))) /\
  (RefUpdate_proofs.LogFaithful (RefUpdate.rrefs st) -> RefUpdate_proofs.LogFaithful (RefUpdate.rrefs (fst r))) /\
  Forall (RefUpdate_proofs.logged (RefUpdate.lrefs (fst r))) (snd r).
Proof. exact BridgeAncestor_proofs.compose_log_true_all. Qed.
Print Assumptions Compose_log_true_all.

Theorem Compose_merge_ok_all : forall tm g st branch others mode m,
  BridgeAncestor.store_closed g ->
  RefUpdate_proofs.res_ok g st (RefUpdate.merge_step g (BridgeAncestor.b_seek tm g) st branch others mode m).
Proof. exact BridgeAncestor_proofs.compose_merge_ok_all. Qed.
Print Assumptions Compose_merge_ok_all.

Theorem Compose_pull_ok_all : forall tm g st branch specs gf mode m,
  BridgeAncestor.store_closed g ->
  RefUpdate_proofs.res_ok g st
    (RefUpdate.pull_step g (BridgeAncestor.b_is_ancestor tm g) (BridgeAncestor.b_seek tm g) st branch specs gf mode m).
Proof. exact BridgeAncestor_proofs.compose_pull_ok_all. Qed.
Print Assumptions Compose_pull_ok_all.

(** non-vacuity of the _all theorems: a history with a three-input merge (not [op_arity2b]) on C11's witness
    graph, where the reported base 1 is not an ancestor of the branch value 2: the move 2 -> 1000 is legal *)
Example Compose_forward_only_all_nonvacuous :
  BridgeAncestor.store_closedb BridgeAncestor_proofs.wit5m = true /\
  BridgeAncestor.op_arity2b BridgeAncestor_proofs.ex_op3 = false /\
  BridgeAncestor.b_seek BridgeAncestor_proofs.wit5_tm BridgeAncestor_proofs.wit5m [2%N; 1%N; 4%N] = RefUpdate.SInput 1%N /\
  RefUpdate.is_ancestor BridgeAncestor_proofs.wit5m 1%N 2%N = false /\
  snd (RefUpdate.run_ops BridgeAncestor_proofs.wit5m
         (BridgeAncestor.b_is_ancestor BridgeAncestor_proofs.wit5_tm BridgeAncestor_proofs.wit5m)
         (BridgeAncestor.b_seek BridgeAncestor_proofs.wit5_tm BridgeAncestor_proofs.wit5m)
         BridgeAncestor_proofs.wit5_state
         [BridgeAncestor_proofs.ex_op3;
          RefUpdate.OMerge [97%N] [RefUpdate_proofs.n_main; BridgeAncestor_proofs.n_w4] RefUpdate.MFF 1001%N]) =
    [RefUpdate.mk_trans RefUpdate.Local RefUpdate_proofs.n_main (Some 2%N) (Some 1000%N) false] /\
  RefUpdate.is_ancestor BridgeAncestor_proofs.wit5m 2%N 1000%N = true.
Proof. exact BridgeAncestor_proofs.ex_compose_all. Qed.
Print Assumptions Compose_forward_only_all_nonvacuous.
