(** C16 - interleaving model of the ingest worker pool and of the sorter producer.
    Definitions only (proofs: proofs/Pool_proofs.v, PoolHB_proofs.v).

    Go code modelled (as it is now, i.e. with Inserter.mutex, the cancellable producer
    send and the cancel/drain/close epilogue of IngestTableFromSorter):

      pkg/sorter/sorter.go   SortedBlocks          -> producer thread
      pkg/ingest/inserter.go insertBlock           -> worker threads (one per WithNumWorkers-2)
                             ingestTableFromBlocks -> caller, inner part  (wg.Add/go, Wait, close, <-errChan, sortBlocks)
                             IngestTableFromSorter -> caller, outer part  (cancel, drain, close, <-sorterErrChan)

    Threads are identified by naturals: 0 = caller ("main"), 1 = producer taking the
    send / read-error / close branch, 2 = producer taking the [<-ctx.Done()] branch of its
    select, 3+k = worker k.  A schedule is ANY list of thread ids; an id whose thread is
    not enabled (blocked on a channel / mutex / WaitGroup, finished, or not existing) is
    a stuttering step.  All nondeterminism of the Go runtime (which goroutine runs, which
    ready select branch is taken) is in the schedule.

    The worker's per-block action list is GENERATED from the translator's skeleton
    (gen/Extracted.v [pool_accesses]): an access marked [locked] sits between a Lock and
    an Unlock step of Inserter.mutex (maximal runs of locked accesses share one critical
    section, as the two statements do in the source), an [unlocked] one does not.  In both
    cases the read and the write of a compound assignment (`+=`, `x = append(x, ..)`) are
    SEPARATE atomic steps, so that a lost update is expressible.

    Shared state: blocks channel (FIFO buffer [buf], capacity [c_ccap] = 10, [closed]),
    object store (list used as a set: content-addressed writes commute), rowsCount (uint32,
    wraps), asyncBlocks, Inserter.mutex holder, WaitGroup counter, errChan ([ebuf],
    capacity [c_ecap], [eclosed]), sorterErrChan ([sbuf], capacity 1, [sclosed]), the
    context's cancelled flag.  Go panics (send on / close of a closed channel, unlock of an
    unlocked mutex, negative WaitGroup counter) set [panicked], after which nothing runs.

    Exchange format (run_C16), see the end of the file. *)
From W.lib Require Import Tree.
From Coq Require Import Arith String.
Local Open Scope N_scope.

(* ---------------------------------------------------------------- skeleton *)

Inductive field := FRc | FAb.            (* Inserter.rowsCount | Inserter.asyncBlocks *)
Inductive akind := KR | KW.
Record access := mk_access { a_field : field; a_kind : akind; a_locked : bool }.

Definition field_eqb (a b : field) : bool :=
  match a, b with FRc, FRc | FAb, FAb => true | _, _ => false end.
Definition akind_eqb (a b : akind) : bool :=
  match a, b with KR, KR | KW, KW => true | _, _ => false end.

(* "field:R|W:locked|unlocked" as printed by the translator *)
Definition parse_access (s : string) : option access :=
  if String.eqb s "rowsCount:R:locked" then Some (mk_access FRc KR true)
  else if String.eqb s "rowsCount:W:locked" then Some (mk_access FRc KW true)
  else if String.eqb s "asyncBlocks:R:locked" then Some (mk_access FAb KR true)
  else if String.eqb s "asyncBlocks:W:locked" then Some (mk_access FAb KW true)
  else if String.eqb s "rowsCount:R:unlocked" then Some (mk_access FRc KR false)
  else if String.eqb s "rowsCount:W:unlocked" then Some (mk_access FRc KW false)
  else if String.eqb s "asyncBlocks:R:unlocked" then Some (mk_access FAb KR false)
  else if String.eqb s "asyncBlocks:W:unlocked" then Some (mk_access FAb KW false)
  else None.

Fixpoint parse_accesses (l : list string) : option (list access) :=
  match l with
  | [] => Some []
  | s :: r => match parse_access s, parse_accesses r with
              | Some a, Some l' => Some (a :: l')
              | _, _ => None
              end
  end.

(* worker actions on one received block *)
Inductive act := ASaveBlk | ASaveIdx | ALock | AUnlock | ARead (f : field) | AWrite (f : field).

Definition acc_act (a : access) : act :=
  match a_kind a with KR => ARead (a_field a) | KW => AWrite (a_field a) end.

Fixpoint gen_cs (held : bool) (accs : list access) : list act :=
  match accs with
  | [] => if held then [AUnlock] else []
  | a :: r =>
      (if a_locked a then (if held then [] else [ALock]) else (if held then [AUnlock] else []))
      ++ acc_act a :: gen_cs (a_locked a) r
  end.

(* insertBlock loop body: SaveBlock; (IndexBlockFromBytes;) SaveBlockIndex; shared update *)
Definition gen_body (accs : list access) : list act := ASaveBlk :: ASaveIdx :: gen_cs false accs.

(* the update of each shared field is one read followed by one write of the same field *)
Definition shape_ok (l : list access) : bool :=
  match map (fun a => (a_field a, a_kind a)) l with
  | [(FRc, KR); (FRc, KW); (FAb, KR); (FAb, KW)] => true
  | [(FAb, KR); (FAb, KW); (FRc, KR); (FRc, KW)] => true
  | _ => false
  end.

(** every access to a shared field holds the mutex (and the skeleton has the expected
    read-modify-write shape) *)
Definition lockset_ok (acc : list string) : bool :=
  match parse_accesses acc with
  | Some l => forallb a_locked l && shape_ok l
  | None => false
  end.

(* caller actions *)
Inductive mact :=
| MAdd       (* for j < numWorkers { wg.Add(1); go insertBlock() } *)
| MWait      (* wg.Wait() *)
| MClose     (* close(i.errChan) *)
| MRecvErr   (* err, ok := <-i.errChan; if ok { return nil, err } *)
| MSort      (* sortBlocks(); tbl.RowsCount = i.rowsCount: reads of the shared fields *)
| MCancel    (* cancel() *)
| MDrain     (* for range i.blocks {} *)
| MCloseS    (* close(sorterErrChan) *)
| MRecvS.    (* if sortErr, ok := <-sorterErrChan; ok { return nil, sortErr } *)

(* [pool_post_accesses]; the receive from errChan directly follows its close in the source *)
Definition parse_post (s : string) : option (list mact) :=
  if String.eqb s "i.wg.Add" then Some [MAdd]
  else if String.eqb s "i.wg.Wait" then Some [MWait]
  else if String.eqb s "close" then Some [MClose; MRecvErr]
  else if String.eqb s "i.sortBlocks" then Some [MSort]
  else None.

(* [sorter_post_accesses] (IngestTableFromSorter after SortedBlocks): the receive from
   sorterErrChan directly follows its close *)
Definition parse_outer (s : string) : option (list mact) :=
  if String.eqb s "i.ingestTableFromBlocks" then Some []
  else if String.eqb s "cancel" then Some [MCancel]
  else if String.eqb s "drain" then Some [MDrain]
  else if String.eqb s "close" then Some [MCloseS; MRecvS]
  else None.

Fixpoint parse_prog (p : string -> option (list mact)) (l : list string) : option (list mact) :=
  match l with
  | [] => Some []
  | s :: r => match p s, parse_prog p r with
              | Some a, Some b => Some (a ++ b)
              | _, _ => None
              end
  end.

Definition mact_eqb (a b : mact) : bool :=
  match a, b with
  | MAdd, MAdd | MWait, MWait | MClose, MClose | MRecvErr, MRecvErr | MSort, MSort
  | MCancel, MCancel | MDrain, MDrain | MCloseS, MCloseS | MRecvS, MRecvS => true
  | _, _ => false
  end.
Fixpoint mprog_eqb (a b : list mact) : bool :=
  match a, b with
  | [], [] => true
  | x :: a', y :: b' => mact_eqb x y && mprog_eqb a' b'
  | _, _ => false
  end.

Definition inner_prog : list mact := [MAdd; MWait; MClose; MRecvErr; MSort].
Definition outer_prog : list mact := [MCancel; MDrain; MCloseS; MRecvS].

(** Add, then Wait, then close(errChan), then the reads of the shared fields *)
Definition post_ok (l : list string) : bool :=
  match parse_prog parse_post l with
  | Some p => mprog_eqb p inner_prog
  | None => false
  end.
(** ingestTableFromBlocks, then cancel, then drain the blocks channel, then close(sorterErrChan) *)
Definition outer_ok (l : list string) : bool :=
  match parse_prog parse_outer l with
  | Some p => mprog_eqb p outer_prog
  | None => false
  end.

(** capacity of errChan = number of workers (each worker sends at most one error) *)
Definition errchan_ok (cap : string) : bool :=
  String.eqb cap "numWorkers" || String.eqb cap "i.numWorkers".
(** the producer's send is a select with the ctx.Done case (not `default: blocks <- b`) *)
Definition send_ok (k : string) : bool := String.eqb k "select-send".

Definition ecap_of (cap : string) (w : nat) : nat := if errchan_ok cap then w else 1%nat.

(* ---------------------------------------------------------------- data *)

Inductive fail := FNone | FBlk | FIdx.     (* injected store error: in SaveBlock / in SaveBlockIndex *)
Record blk := mk_blk { b_off : N; b_rows : N; b_fail : fail }.
Inductive pitem := PBlk (b : blk) | PReadErr.       (* producer: next block | chunk read error *)
Inductive obj := OBlk (off : N) | OIdx (off : N).    (* saved objects, content-addressed *)

Inductive wstat :=
| WLoop                               (* at `for blk := range i.blocks` *)
| WBody (pc : list act) (cur : blk)   (* remaining actions on the current block *)
| WErr (cur : blk)                    (* about to `i.errChan <- err` *)
| WExit                               (* returning: deferred wg.Done() pending *)
| WDone.
Record worker := mk_worker { w_st : wstat; w_trc : N; w_tab : list blk }.  (* + the values read *)
Definition worker0 : worker := mk_worker WLoop 0 [].

Inductive res := RErr | ROk (rows : N) (tbl : list blk).

Record cfg := mk_cfg {
  c_body : list act;      (* generated from pool_accesses *)
  c_inner : list mact;    (* generated from pool_post_accesses *)
  c_outer : list mact;    (* generated from sorter_post_accesses *)
  c_w : nat;              (* number of worker goroutines *)
  c_ecap : nat;           (* cap(errChan) *)
  c_ccap : nat;           (* cap(blocks) = 10 *)
  c_select : bool }.      (* producer send is select{ctx.Done | send}; false = `default: send` *)

Record st := mk_st {
  pend : list pitem; ppolled : bool; buf : list blk; closed : bool; cancelled : bool;
  sbuf : list nat; sclosed : bool;
  store : list obj; rc : N; ab : list blk; mutex : option nat; wg : nat;
  ebuf : list N; eclosed : bool;
  ws : list worker; mainpc : list mact; result : option res; panicked : bool }.

Definition two32 : N := 4294967296.
Definition wrap32 (x : N) : N := x mod two32.

Fixpoint set_nth {A} (k : nat) (x : A) (l : list A) : list A :=
  match l, k with
  | [], _ => []
  | _ :: r, O => x :: r
  | y :: r, S k' => y :: set_nth k' x r
  end.

(* sortBlocks: sort.Slice by Offset (offsets are distinct, so the result is unique) *)
Fixpoint ins_blk (b : blk) (l : list blk) : list blk :=
  match l with
  | [] => [b]
  | x :: r => if b_off b <=? b_off x then b :: l else x :: ins_blk b r
  end.
Definition sort_blocks (l : list blk) : list blk := fold_right ins_blk [] l.

(* setters *)
Definition set_prod (s : st) (p : list pitem) (pp : bool) (b : list blk) (c : bool) : st :=
  mk_st p pp b c (cancelled s) (sbuf s) (sclosed s) (store s) (rc s) (ab s) (mutex s) (wg s)
        (ebuf s) (eclosed s) (ws s) (mainpc s) (result s) (panicked s).
Definition set_sbuf (s : st) (x : list nat) : st :=
  mk_st (pend s) (ppolled s) (buf s) (closed s) (cancelled s) x (sclosed s) (store s) (rc s) (ab s)
        (mutex s) (wg s) (ebuf s) (eclosed s) (ws s) (mainpc s) (result s) (panicked s).
Definition set_panic (s : st) : st :=
  mk_st (pend s) (ppolled s) (buf s) (closed s) (cancelled s) (sbuf s) (sclosed s) (store s) (rc s)
        (ab s) (mutex s) (wg s) (ebuf s) (eclosed s) (ws s) (mainpc s) (result s) true.
Definition set_worker (s : st) (k : nat) (wk : worker) : st :=
  mk_st (pend s) (ppolled s) (buf s) (closed s) (cancelled s) (sbuf s) (sclosed s) (store s) (rc s)
        (ab s) (mutex s) (wg s) (ebuf s) (eclosed s) (set_nth k wk (ws s)) (mainpc s) (result s)
        (panicked s).
Definition set_buf (s : st) (b : list blk) : st :=
  mk_st (pend s) (ppolled s) b (closed s) (cancelled s) (sbuf s) (sclosed s) (store s) (rc s) (ab s)
        (mutex s) (wg s) (ebuf s) (eclosed s) (ws s) (mainpc s) (result s) (panicked s).
Definition set_store (s : st) (x : list obj) : st :=
  mk_st (pend s) (ppolled s) (buf s) (closed s) (cancelled s) (sbuf s) (sclosed s) x (rc s) (ab s)
        (mutex s) (wg s) (ebuf s) (eclosed s) (ws s) (mainpc s) (result s) (panicked s).
Definition set_rc (s : st) (x : N) : st :=
  mk_st (pend s) (ppolled s) (buf s) (closed s) (cancelled s) (sbuf s) (sclosed s) (store s) x (ab s)
        (mutex s) (wg s) (ebuf s) (eclosed s) (ws s) (mainpc s) (result s) (panicked s).
Definition set_ab (s : st) (x : list blk) : st :=
  mk_st (pend s) (ppolled s) (buf s) (closed s) (cancelled s) (sbuf s) (sclosed s) (store s) (rc s) x
        (mutex s) (wg s) (ebuf s) (eclosed s) (ws s) (mainpc s) (result s) (panicked s).
Definition set_mutex (s : st) (x : option nat) : st :=
  mk_st (pend s) (ppolled s) (buf s) (closed s) (cancelled s) (sbuf s) (sclosed s) (store s) (rc s)
        (ab s) x (wg s) (ebuf s) (eclosed s) (ws s) (mainpc s) (result s) (panicked s).
Definition set_wg (s : st) (x : nat) : st :=
  mk_st (pend s) (ppolled s) (buf s) (closed s) (cancelled s) (sbuf s) (sclosed s) (store s) (rc s)
        (ab s) (mutex s) x (ebuf s) (eclosed s) (ws s) (mainpc s) (result s) (panicked s).
Definition set_ebuf (s : st) (x : list N) : st :=
  mk_st (pend s) (ppolled s) (buf s) (closed s) (cancelled s) (sbuf s) (sclosed s) (store s) (rc s)
        (ab s) (mutex s) (wg s) x (eclosed s) (ws s) (mainpc s) (result s) (panicked s).
(* caller: new program counter + the caller-owned flags *)
Definition set_main (s : st) (pc : list mact) (r : option res) (ecl scl can : bool) : st :=
  mk_st (pend s) (ppolled s) (buf s) (closed s) can (sbuf s) scl (store s) (rc s) (ab s) (mutex s)
        (wg s) (ebuf s) ecl (ws s) pc r (panicked s).
Definition set_spawn (s : st) (pc : list mact) (w : nat) : st :=
  mk_st (pend s) (ppolled s) (buf s) (closed s) (cancelled s) (sbuf s) (sclosed s) (store s) (rc s)
        (ab s) (mutex s) (wg s + w) (ebuf s) (eclosed s) (ws s ++ repeat worker0 w) pc (result s)
        (panicked s).

(* ---------------------------------------------------------------- steps *)

Inductive lab :=
| LSend | LPoll | LReadErr | LCloseB | LCtxDone       (* producer *)
| LRecv | LRecvClosed | LStore | LFail | LLock | LUnlock | LAcc (k : akind) (f : field)
| LSendErr | LWgDone                                  (* worker *)
| LAdd | LWait | LCloseE | LRecvE | LMainRead | LCancel | LDrain | LDrainEnd | LCloseS | LRecvS
| LPanic.
Definition ev := (nat * lab)%type.

(* thread 1: producer, everything except the ctx.Done branch *)
Definition step_prod (c : cfg) (s : st) : option (st * lab) :=
  match pend s with
  | PBlk b :: p =>
      if c_select c || ppolled s then
        (* select { case blocks <- b: }   resp. the blocking send after the poll *)
        if (List.length (buf s) <? c_ccap c)%nat
        then Some (set_prod s p false (buf s ++ [b]) (closed s), LSend) else None
      else (* old code: select { case <-ctx.Done(): return; default: } *)
        if cancelled s then Some (set_prod s [] (ppolled s) (buf s) (closed s), LCtxDone)
        else Some (set_prod s (pend s) true (buf s) (closed s), LPoll)
  | PReadErr :: p =>
      (* errChan <- err; return *)
      if sclosed s then Some (set_panic s, LPanic)
      else if (List.length (sbuf s) <? 1)%nat
           then Some (set_sbuf (set_prod s [] (ppolled s) (buf s) (closed s)) (sbuf s ++ [1%nat]), LReadErr)
           else None
  | [] => if closed s then None else Some (set_prod s [] (ppolled s) (buf s) true, LCloseB)  (* defer close(blocks) *)
  end.

(* thread 2: producer, `case <-ctx.Done(): return` of the select *)
Definition step_prod_cancel (c : cfg) (s : st) : option (st * lab) :=
  match pend s with
  | PBlk b :: p => if c_select c && cancelled s
                   then Some (set_prod s [] (ppolled s) (buf s) (closed s), LCtxDone) else None
  | _ => None
  end.

Definition next_st (pc : list act) (cur : blk) : wstat :=
  match pc with [] => WLoop | _ => WBody pc cur end.

Definition step_worker (c : cfg) (k : nat) (s : st) : option (st * lab) :=
  match nth_error (ws s) k with
  | None => None
  | Some wk =>
      match w_st wk with
      | WLoop =>
          match buf s with
          | b :: r => Some (set_worker (set_buf s r) k (mk_worker (next_st (c_body c) b) (w_trc wk) (w_tab wk)), LRecv)
          | [] => if closed s then Some (set_worker s k (mk_worker WExit (w_trc wk) (w_tab wk)), LRecvClosed)
                  else None
          end
      | WBody [] cur => None                                  (* never built: see next_st *)
      | WBody (a :: pc) cur =>
          let nx := mk_worker (next_st pc cur) (w_trc wk) (w_tab wk) in
          let er := mk_worker (WErr cur) (w_trc wk) (w_tab wk) in
          match a with
          | ASaveBlk =>
              match b_fail cur with
              | FBlk => Some (set_worker s k er, LFail)
              | _ => Some (set_worker (set_store s (OBlk (b_off cur) :: store s)) k nx, LStore)
              end
          | ASaveIdx =>
              match b_fail cur with
              | FIdx => Some (set_worker s k er, LFail)
              | _ => Some (set_worker (set_store s (OIdx (b_off cur) :: store s)) k nx, LStore)
              end
          | ALock =>
              match mutex s with
              | None => Some (set_worker (set_mutex s (Some k)) k nx, LLock)
              | Some _ => None
              end
          | AUnlock =>
              match mutex s with
              | Some _ => Some (set_worker (set_mutex s None) k nx, LUnlock)
              | None => Some (set_panic s, LPanic)          (* fatal: unlock of unlocked mutex *)
              end
          | ARead FRc => Some (set_worker s k (mk_worker (next_st pc cur) (rc s) (w_tab wk)), LAcc KR FRc)
          | ARead FAb => Some (set_worker s k (mk_worker (next_st pc cur) (w_trc wk) (ab s)), LAcc KR FAb)
          | AWrite FRc => Some (set_worker (set_rc s (wrap32 (w_trc wk + b_rows cur))) k nx, LAcc KW FRc)
          | AWrite FAb => Some (set_worker (set_ab s (w_tab wk ++ [cur])) k nx, LAcc KW FAb)
          end
      | WErr cur =>
          if eclosed s then Some (set_panic s, LPanic)        (* send on closed channel *)
          else if (List.length (ebuf s) <? c_ecap c)%nat
               then Some (set_worker (set_ebuf s (ebuf s ++ [b_off cur])) k (mk_worker WExit (w_trc wk) (w_tab wk)), LSendErr)
               else None
      | WExit =>
          match wg s with
          | O => Some (set_panic s, LPanic)                   (* negative WaitGroup counter *)
          | S n => Some (set_worker (set_wg s n) k (mk_worker WDone (w_trc wk) (w_tab wk)), LWgDone)
          end
      | WDone => None
      end
  end.

(* thread 0: the caller.  [<-errChan] peeks (the channel is closed and has no other reader). *)
Definition step_main (c : cfg) (s : st) : option (st * lab) :=
  match mainpc s with
  | [] => None
  | MAdd :: pc => Some (set_spawn s pc (c_w c), LAdd)
  | MWait :: pc => match wg s with
                   | O => Some (set_main s pc (result s) (eclosed s) (sclosed s) (cancelled s), LWait)
                   | S _ => None
                   end
  | MClose :: pc => if eclosed s then Some (set_panic s, LPanic)
                    else Some (set_main s pc (result s) true (sclosed s) (cancelled s), LCloseE)
  | MRecvErr :: pc =>
      match ebuf s with
      | _ :: _ => Some (set_main s (c_outer c) (Some RErr) (eclosed s) (sclosed s) (cancelled s), LRecvE)
      | [] => if eclosed s then Some (set_main s pc (result s) (eclosed s) (sclosed s) (cancelled s), LRecvE)
              else None
      end
  | MSort :: pc =>
      Some (set_main s pc (Some (ROk (rc s) (sort_blocks (ab s)))) (eclosed s) (sclosed s) (cancelled s), LMainRead)
  | MCancel :: pc => Some (set_main s pc (result s) (eclosed s) (sclosed s) true, LCancel)
  | MDrain :: pc =>
      match buf s with
      | _ :: r => Some (set_buf s r, LDrain)
      | [] => if closed s then Some (set_main s pc (result s) (eclosed s) (sclosed s) (cancelled s), LDrainEnd)
              else None
      end
  | MCloseS :: pc => if sclosed s then Some (set_panic s, LPanic)
                     else Some (set_main s pc (result s) (eclosed s) true (cancelled s), LCloseS)
  | MRecvS :: pc =>
      match sbuf s with
      | _ :: _ => Some (set_main s pc (Some RErr) (eclosed s) (sclosed s) (cancelled s), LRecvS)
      | [] => if sclosed s then Some (set_main s pc (result s) (eclosed s) (sclosed s) (cancelled s), LRecvS)
              else None
      end
  end.

Definition step (c : cfg) (t : nat) (s : st) : option (st * lab) :=
  if panicked s then None else
  match t with
  | 0%nat => step_main c s
  | 1%nat => step_prod c s
  | 2%nat => step_prod_cancel c s
  | S (S (S k)) => step_worker c k s
  end.

(* run a schedule; returns the final state and the trace (chronological) *)
Fixpoint run_tr (c : cfg) (sched : list nat) (s : st) : st * list ev :=
  match sched with
  | [] => (s, [])
  | t :: r => match step c t s with
              | Some (s', l) => let (s'', tr) := run_tr c r s' in (s'', (t, l) :: tr)
              | None => run_tr c r s
              end
  end.
Definition runs (c : cfg) (sched : list nat) (s : st) : st := fst (run_tr c sched s).

Definition init (c : cfg) (items : list pitem) : st :=
  mk_st items false [] false false [] false [] 0 [] None 0 [] false [] (c_inner c ++ c_outer c) None false.

Definition main_done (s : st) : bool := match mainpc s with [] => true | _ => false end.
Definition all_done (s : st) : bool :=
  main_done s && closed s && forallb (fun wk => match w_st wk with WDone => true | _ => false end) (ws s).

(* configuration from the skeleton *)
Definition mk_cfg_of (accs : list access) (inner outer : list mact) (w : nat) (ecap : nat) (sel : bool) : cfg :=
  mk_cfg (gen_body accs) inner outer w ecap 10 sel.

(** the configuration denoted by the translator's skeleton (gen/Extracted.v):
    pool_accesses, pool_post_accesses, sorter_post_accesses, pool_errchan_capacity, sorter_send_kind *)
Definition cfg_of_skeleton (acc post outer : list string) (cap send : string) (w : nat) : option cfg :=
  match parse_accesses acc, parse_prog parse_post post, parse_prog parse_outer outer with
  | Some a, Some p, Some o => Some (mk_cfg (gen_body a) p o w (ecap_of cap w) 10 (send_ok send))
  | _, _, _ => None
  end.

(** all five checks of the skeleton *)
Definition skeleton_ok (acc post outer : list string) (cap send : string) : bool :=
  lockset_ok acc && post_ok post && outer_ok outer && errchan_ok cap && send_ok send.

(** merger (pkg/merge/merger.go): errChan has capacity len(otherTs) + [extra]; its senders are
    one differ per branch plus [senders] further goroutines (mergeTables, the row collector),
    each sending at most once, and nobody receives before Merger.Error() *)
Definition merge_errchan_ok (extra senders : N) : bool := (senders <=? extra)%N.

Definition accs_locked : list access :=
  [mk_access FRc KR true; mk_access FRc KW true; mk_access FAb KR true; mk_access FAb KW true].
Definition accs_unlocked : list access :=
  [mk_access FRc KR false; mk_access FRc KW false; mk_access FAb KR false; mk_access FAb KW false].

Definition blocks_of (l : list pitem) : list blk :=
  flat_map (fun i => match i with PBlk b => [b] | PReadErr => [] end) l.
Definition sum_rows (l : list blk) : N := fold_right (fun b a => b_rows b + a) 0 l.

(** the single-threaded result: every block counted and listed once, in offset order *)
Definition seq_result (blocks : list blk) : res := ROk (wrap32 (sum_rows blocks)) (sort_blocks blocks).

(* ---------------------------------------------------------------- run_C16 (ingest cases) *)

(* after the given schedule, finish with round-robin passes over all thread ids *)
Fixpoint finish (c : cfg) (fuel : nat) (s : st) : st :=
  match fuel with
  | O => s
  | S f => if all_done s || panicked s then s else finish c f (runs c (seq 0 (c_w c + 3)) s)
  end.

(* Exchange format, ingest case:
     (0 w (rows_0 ... rows_{n-1}) (t_0 t_1 ...) lockflag failoff failkind readerr_at)
   w = number of worker goroutines; block j has offset j and rows_j rows; t_i = schedule;
   lockflag 1 = accesses locked (skeleton as extracted), 0 = unlocked;
   failkind 0 = none, 1 = SaveBlock of block failoff fails, 2 = SaveBlockIndex of block failoff fails;
   readerr_at = 0 none, k+1 = chunk read error before block k is produced.
   Observation: (0 rowsCount (off ...) (off ...) 1)   table built: RowsCount, Blocks and BlockIndices
                                                      as offsets, "equals the one-worker table" flag
                (1)                                   an error was returned
                (2)                                   panic
                (3)                                   schedule did not finish (hang) *)
Definition fail_of (k : N) : fail := match k with 1 => FBlk | 2 => FIdx | _ => FNone end.
Fixpoint mk_blocks (off : N) (rows : list N) (foff : N) (fk : fail) : list blk :=
  match rows with
  | [] => []
  | r :: t => mk_blk off r (if off =? foff then fk else FNone) :: mk_blocks (off + 1) t foff fk
  end.
Fixpoint insert_at {A} (k : nat) (x : A) (l : list A) : list A :=
  match k, l with
  | O, _ => x :: l
  | S k', y :: r => y :: insert_at k' x r
  | S _, [] => [x]
  end.
Definition blk_eqb (a b : blk) : bool := (b_off a =? b_off b) && (b_rows a =? b_rows b).
Fixpoint blks_eqb (a b : list blk) : bool :=
  match a, b with
  | [], [] => true
  | x :: a', y :: b' => blk_eqb x y && blks_eqb a' b'
  | _, _ => false
  end.

Definition run_ingest (c : tree) : tree :=
  let w := d_nat (d_nth 1 c) in
  let rows := d_list d_N (d_nth 2 c) in
  let sched := d_list d_nat (d_nth 3 c) in
  let lockf := d_bool (d_nth 4 c) in
  let blocks := mk_blocks 0 rows (d_N (d_nth 5 c)) (fail_of (d_N (d_nth 6 c))) in
  let items0 := map PBlk blocks in
  let items := match d_nat (d_nth 7 c) with O => items0 | S k => insert_at k PReadErr items0 end in
  let cf := mk_cfg_of (if lockf then accs_locked else accs_unlocked) inner_prog outer_prog w w true in
  let fuel := ((List.length rows + w + 4) * (List.length (c_body cf) + 8))%nat in
  let s := finish cf fuel (runs cf sched (init cf items)) in
  if panicked s then Node [Leaf 2]
  else if negb (main_done s) then Node [Leaf 3]
  else match result s with
       | Some (ROk n tbl) =>
           let offs := t_list (fun b => Leaf (b_off b)) tbl in
           let same := match seq_result blocks with
                       | ROk n' tbl' => (n =? n') && blks_eqb tbl tbl'
                       | RErr => false
                       end in
           Node [Leaf 0; Leaf n; offs; offs; t_bool same]
       | Some RErr => Node [Leaf 1]
       | None => Node [Leaf 3]
       end.
