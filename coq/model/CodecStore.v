(** C06 - pkg/objects/persistence.go (the Save and Get functions) over an abstract key-value store.
    Definitions only.

    The hash (meow.Checksum(0, .)) and the block compression (s2.EncodeBetter /
    s2.Decode) never enter Coq: they are the Section variables [H], [compress],
    [decompress].  A store is an association list with at most one entry per key
    ([sset] replaces, like Store.Set).

    Keys, as in the Go code:
      SaveBlock / SaveBlockIndex : prefix ++ H content, value = compress content
      SaveTable / SaveCommit     : prefix ++ H content, value = content
      SaveTableIndex / SaveTableProfile : prefix ++ sum for a CALLER-SUPPLIED sum (the sum
        of the table they belong to) - these two are keyed by the owning table's hash,
        not by the hash of their own bytes. *)
From W.lib Require Import Tree Bytes.
From W.model Require Import CodecBase CodecStrList CodecObjline CodecCommit CodecTable CodecProfile.
Local Open Scope N_scope.

Definition L_blk : bytes := [98; 108; 107; 47].                    (* "blk/" *)
Definition L_tbl : bytes := [116; 98; 108; 47].                    (* "tbl/" *)
Definition L_blkidx : bytes := [98; 108; 107; 105; 100; 120; 47].  (* "blkidx/" *)
Definition L_tblidx : bytes := [116; 98; 108; 105; 100; 120; 47].  (* "tblidx/" *)
Definition L_com : bytes := [99; 111; 109; 47].                    (* "com/" *)
Definition L_tblsum : bytes := [116; 98; 108; 115; 117; 109; 47].  (* "tblsum/" *)
(* objects.Prefixes() *)
Definition prefixes : list bytes := [L_blk; L_tbl; L_blkidx; L_tblidx; L_com; L_tblsum].

Definition store := list (bytes * bytes).

Fixpoint sget (k : bytes) (s : store) : option bytes :=
  match s with
  | [] => None
  | (k', v) :: s' => if beq k' k then Some v else sget k s'
  end.

Fixpoint sset (k v : bytes) (s : store) : store :=
  match s with
  | [] => [(k, v)]
  | (k', v') :: s' => if beq k' k then (k, v) :: s' else (k', v') :: sset k v s'
  end.

Definition skeys (s : store) : list bytes := map fst s.
(* FilterKey *)
Definition filter_key (p : bytes) (s : store) : list bytes := filter (is_prefix p) (skeys s).

Section Store.
  Variable H : bytes -> bytes.
  Variable compress : bytes -> bytes.
  Variable decompress : bytes -> option bytes.

  Definition save_block (s : store) (content : bytes) : store * bytes :=
    (sset (L_blk ++ H content) (compress content) s, H content).
  Definition save_blockindex (s : store) (content : bytes) : store * bytes :=
    (sset (L_blkidx ++ H content) (compress content) s, H content).
  Definition save_table (s : store) (content : bytes) : store * bytes :=
    (sset (L_tbl ++ H content) content s, H content).
  Definition save_commit (s : store) (content : bytes) : store * bytes :=
    (sset (L_com ++ H content) content s, H content).
  Definition save_tableindex (s : store) (sum content : bytes) : store :=
    sset (L_tblidx ++ sum) content s.
  Definition save_tableprofile (s : store) (sum content : bytes) : store :=
    sset (L_tblsum ++ sum) content s.

  Definition obind {A B} (o : option A) (f : A -> option B) : option B :=
    match o with Some a => f a | None => None end.
  Definition ofst {A B} (o : option (A * B)) : option A :=
    match o with Some (a, _) => Some a | None => None end.

  Definition get_block (s : store) (sum : bytes) : option (list (list bytes)) :=
    obind (sget (L_blk ++ sum) s) (fun v => obind (decompress v) (fun c => ofst (decode_block c))).
  Definition get_blockindex (s : store) (sum : bytes) : option blockindex :=
    obind (sget (L_blkidx ++ sum) s) (fun v => obind (decompress v) (fun c => ofst (decode_blockindex c))).
  Definition get_table (s : store) (sum : bytes) : option table :=
    obind (sget (L_tbl ++ sum) s) (fun v => ofst (decode_table v)).
  Definition get_commit (s : store) (sum : bytes) : option commit :=
    obind (sget (L_com ++ sum) s) (fun v => ofst (decode_commit v)).
  Definition get_tableindex (s : store) (sum : bytes) : option (list (list bytes)) :=
    obind (sget (L_tblidx ++ sum) s) (fun v => ofst (decode_block v)).
  Definition get_tableprofile (s : store) (sum : bytes) : option profile :=
    obind (sget (L_tblsum ++ sum) s) (fun v => ofst (decode_profile v)).

  (** save operations as data (used by the invariant theorem and by the driver) *)
  Inductive sop :=
  | SBlock (content : bytes) | SBlockIndex (content : bytes) | STable (content : bytes)
  | SCommit (content : bytes)
  | STableIndex (tablecontent content : bytes)        (* sum := H tablecontent *)
  | STableProfile (tablecontent content : bytes).

  Definition apply_sop (s : store) (o : sop) : store :=
    match o with
    | SBlock c => fst (save_block s c)
    | SBlockIndex c => fst (save_blockindex s c)
    | STable c => fst (save_table s c)
    | SCommit c => fst (save_commit s c)
    | STableIndex t c => save_tableindex s (H t) c
    | STableProfile t c => save_tableprofile s (H t) c
    end.
  Definition apply_sops (s : store) (ops : list sop) : store := fold_left apply_sop ops s.

  (** the key and the value a save operation writes ([apply_sop s o = sset (sop_key o) (sop_val o) s]);
      [sop_hashed]: the kinds that are keyed by the hash of their own content *)
  Definition sop_key (o : sop) : bytes :=
    match o with
    | SBlock c => L_blk ++ H c
    | SBlockIndex c => L_blkidx ++ H c
    | STable c => L_tbl ++ H c
    | SCommit c => L_com ++ H c
    | STableIndex t _ => L_tblidx ++ H t
    | STableProfile t _ => L_tblsum ++ H t
    end.
  Definition sop_val (o : sop) : bytes :=
    match o with
    | SBlock c | SBlockIndex c => compress c
    | STable c | SCommit c => c
    | STableIndex _ c | STableProfile _ c => c
    end.
  Definition sop_hashed (o : sop) : bool :=
    match o with STableIndex _ _ | STableProfile _ _ => false | _ => true end.

  (** "a stored object never disagrees with its identifier" *)
  Definition entry_ok (kv : bytes * bytes) : Prop :=
    let (k, v) := kv in
    (forall sum, k = L_com ++ sum -> sum = H v) /\
    (forall sum, k = L_tbl ++ sum -> sum = H v) /\
    (forall sum, k = L_blk ++ sum -> exists c, decompress v = Some c /\ sum = H c) /\
    (forall sum, k = L_blkidx ++ sum -> exists c, decompress v = Some c /\ sum = H c).
  Definition store_ok (s : store) : Prop := NoDup (skeys s) /\ Forall entry_ok s.
End Store.
