(** Bridge B7a (C15 -> C14): pkg/transaction (Commit, Discard) run on the ref.Store interface,
    instantiated with the SQL model of pkg/ref/sql (model/RefSql.v) and with the map
    specification (model/RefStore.v).  Definitions only (lemmas: proofs/BridgeRefTxn_proofs.v;
    statements: props/Compose3.v).

    WHY A BRIDGE IS NEEDED.  model/Txn.v (C14) is not parametric in the ref store: its state holds
    [heads], [logs], [staged] as total functions over abstract branch / transaction numbers, and
    one SetWithLog / Delete is one atomic [write] BY ASSUMPTION ("atomicity of one SQL transaction
    is the modelling assumption", props/C14.v).  model/RefSql.v (C15) models every method of
    refsql.Store as the SQL statements it issues.  Here the transaction code is restated against
    the interface (names and values are byte strings, the only access to the store is through
    [so_step] = one ref.Store call or one refs.go helper), run on both stores, and related to
    Txn.v's run; Txn.v itself is untouched.

    Layers in this file
    1. statement level: the body of sqlutil.RunInTx as the list of its statements, a connection
       state (committed database + open transaction's working copy) and crash recovery
       ([recover] = SQLite's rollback journal: the committed database); [cstep_crash] = the
       database found after a crash that hit a method after [j] events (BEGIN, s1 .. sn, COMMIT);
    2. GetTransactionLogs, which RefSql.v does not model (it is not one of the nine data
       methods): [c_txlog] = the SQL query, [s_txlog] = its reading on the specification;
    3. [store_ops], [cst]: the machine state = a ref store + the two components that are NOT
       the ref store and stay as abstract (and atomic) as in Txn.v: the [transactions] table
       and the object store (here keyed by content address: [x_objs : value -> option ccommit]);
    4. transaction.Commit / Discard over [store_ops]: [c_tx_commit], [c_tx_discard] produce, like
       Txn.v, the ordered list of store WRITES ([cwrite]) from the reads of the current state;
       [c_run_upto n] = the first n writes happened (crash / failing write n; a write whose
       store call returns an error also stops the run); [d_run_crash n j] (SQL store only) = n
       writes happened and the crash hit write n+1 after j events of its SQL transaction;
    5. the abstraction: [enc]/[H] commit values of Txn.v -> commit objects and their sums,
       [TR t x]: the Txn.v state [t] is represented by the machine state [x] over the map
       specification; [OBS fk t x]: the same read through the SQL store's own queries
       (Get = [cget], LogReader = [clog], ListTransactionRefs).

    Section variables (the hypotheses on them are explicit premises of the theorems):
      hash : ccommit -> value    objects.SaveCommit's content address (meow hash of the encoded
                                  commit)                              premise: injective
      bn   : branch -> bytes     the branch name                       premise: injective
      tn   : txid -> bytes       id.String(), the uuid text used in ref names "txs/<id>/<branch>"
                                                                       premise: injective, one length
      tb   : txid -> bytes       id[:], the 16 bytes stored in reflogs.txid   premise: injective
      cm_author cm_email cm_line : what SaveRef is passed from the staged commit (never compared). *)
From Coq Require Import List NArith Bool Arith Permutation.
From W.lib Require Import Tree Bytes.
From W.model Require Import RefStore Like RefSql.
From W.model Require Txn.
Import ListNotations.
Local Open Scope N_scope.

(** * 1. Statement level *)

(** one statement run on the open transaction's working copy; [None] = the statement fails *)
Definition stmt := db -> option db.

(** the statements between BEGIN and COMMIT of the four methods that use sqlutil.RunInTx.  A value
    read by a SELECT inside the transaction is bound where the Go code reads it - before any write
    of the same transaction, hence in the database as it is at BEGIN ([d]). *)
Definition tx_body (p : prim) (d : db) : option (list stmt) :=
  match p with
  | PSetLog k v m =>
      let old := sql_select_sum k d in
      Some [ (fun w => Some (sql_upsert_ref k v w));
             (fun w => sql_insert_log (mk_row k (sql_count_logs k w + 1)%nat old v m) w) ]
  | PDelete k =>
      Some [ (fun w => Some (sql_delete_logs k w)); (fun w => Some (sql_delete_ref k w)) ]
  | PRename a b =>
      Some [ (fun w => match sql_select_sum a w with Some _ => Some w | None => None end);
             (fun w => sql_insert_ref b (sql_select_sum a d) w);
             (fun w => sql_move_logs b a w);
             (fun w => Some (sql_delete_ref a w)) ]
  | PCopy a b =>
      Some [ (fun w => sql_insert_ref b (sql_select_sum a w) w);
             (fun w => sql_copy_logs b a w) ]
  | _ => None
  end.

Fixpoint run_stmts (ss : list stmt) (w : db) : option db :=
  match ss with
  | [] => Some w
  | s :: ss' => match s w with Some w' => run_stmts ss' w' | None => None end
  end.

(** the connection: [disk] = the last committed database, [work] = the view of the open transaction *)
Record sqlst := mk_sqlst { disk : db; work : option db }.

Inductive ev := EBegin | EStmt (s : stmt) | ECommit.

(** a failing statement makes RunInTx call tx.Rollback() and return: the transaction is dropped
    and no further event of this body has an effect *)
Definition ev_step (q : sqlst) (e : ev) : sqlst :=
  match e with
  | EBegin => mk_sqlst (disk q) (Some (disk q))
  | EStmt s =>
      match work q with
      | Some w => match s w with
                  | Some w' => mk_sqlst (disk q) (Some w')
                  | None => mk_sqlst (disk q) None
                  end
      | None => q
      end
  | ECommit => match work q with Some w => mk_sqlst w None | None => q end
  end.

Definition tx_events (ss : list stmt) : list ev := EBegin :: map EStmt ss ++ [ECommit].
Definition run_events (es : list ev) (q : sqlst) : sqlst := fold_left ev_step es q.

(** crash recovery: the rollback journal restores the last committed database *)
Definition recover (q : sqlst) : db := disk q.

(** the database found after a crash that hit  BEGIN; ss; COMMIT  after its first [j] events *)
Definition crash_in_tx (d : db) (ss : list stmt) (j : nat) : db :=
  recover (run_events (firstn j (tx_events ss)) (mk_sqlst d None)).

(** ... for a method of refsql.Store: its RunInTx body if it has one; otherwise the method is one
    autocommit statement (Set) or read-only, i.e. one event *)
Definition cstep_crash (fk : filter_kind) (d : db) (p : prim) (j : nat) : db :=
  match tx_body p d with
  | Some ss => crash_in_tx d ss j
  | None => match j with O => d | S _ => fst (cstep fk d p) end
  end.

(** * 2. GetTransactionLogs *)

Definition has_tx (t : bytes) (m : meta) : bool :=
  match m_txid m with Some x => beqb x t | None => false end.

(** SELECT ref, .., newoid, .. FROM reflogs WHERE txid = ?   (the query whose rows are used has no
    ORDER BY; the rows come in table order, which for a rowid table scanned without an index is
    insertion order = the list order of RefSql.v) *)
Definition sql_select_txid (t : bytes) (d : db) : list row :=
  filter (fun r => has_tx t (r_meta r)) (t_logs d).

(** logs[name] = rl  for every row in scan order: the LAST row of a ref wins *)
Definition c_txlog (d : db) (t : bytes) (k : name) : option value :=
  fold_left (fun acc r => if beqb k (r_ref r) then Some (r_new r) else acc) (sql_select_txid t d) None.

(** the specification's reading (what Txn.v's [tx_log_new] assumes): the NEWEST entry of the
    ref's log that carries the transaction id *)
Fixpoint s_txlog_of (t : bytes) (l : list logent) : option value :=
  match l with
  | [] => None
  | e :: l' => if has_tx t (le_meta e) then Some (le_new e) else s_txlog_of t l'
  end.
Definition s_txlog (a : sstate) (t : bytes) (k : name) : option value := s_txlog_of t (logs a k).

(** * 3. The machine state *)

Record store_ops (St : Type) := mk_ops {
  so_step : St -> op -> St * res;                    (* one ref.Store method or refs.go helper *)
  so_txlog : St -> bytes -> name -> option value }. (* GetTransactionLogs(id)[ref].NewOID *)
Arguments so_step {St}.
Arguments so_txlog {St}.

Definition spec_ops : store_ops sstate := mk_ops sstate sstep_op s_txlog.
Definition sql_ops (fk : filter_kind) : store_ops db := mk_ops db (cstep_op fk) c_txlog.

(** a commit object: table, author/time/base message, stack of "commit [tx/..]" prefixes, and the
    SUM of the parent (Go: com.Parents = [][]byte{oldSum}) *)
Record ccommit := mk_cc {
  cc_tbl : N; cc_meta : N; cc_pfx : list Txn.txid; cc_parent : option value }.

Record cst (St : Type) := mk_cst {
  x_store : St;
  x_txs : Txn.txid -> option Txn.txstatus;     (* the transactions table, as in Txn.v *)
  x_objs : value -> option ccommit }.           (* the object store, by content address *)
Arguments mk_cst {St}.
Arguments x_store {St}.
Arguments x_txs {St}.
Arguments x_objs {St}.

Inductive cwrite :=
| CPutCommit (c : ccommit)                       (* objects.SaveCommit *)
| CSaveRef (k : name) (v : value) (m : meta)     (* ref.SaveRef: Get, then SetWithLog *)
| CUpdateTx (id : Txn.txid) (st : Txn.txstatus)  (* UpdateTransaction *)
| CDelete (k : name)                             (* Store.Delete *)
| CDelTx (id : Txn.txid).                        (* DeleteTransaction *)

Definition cplan := (list cwrite * Txn.res)%type.
Definition corder := list (bytes * value) -> list (bytes * value).

Definition act_commit : bytes := [99; 111; 109; 109; 105; 116].   (* "commit" *)
Definition href (b : bytes) : name := head_prefix ++ b.

(** the ref.Store method in which a write changes the SQL database *)
Definition write_prim (w : cwrite) : option prim :=
  match w with
  | CSaveRef k v m => Some (PSetLog k v m)
  | CDelete k => Some (PDelete k)
  | _ => None
  end.

Section Machine.
  Variable hash : ccommit -> value.
  Variable tn : Txn.txid -> bytes.
  Variable tb : Txn.txid -> bytes.
  Variables cm_author cm_email cm_line : ccommit -> bytes.

  (** * 4. Commit / Discard over the interface *)
  Section Generic.
    Context {St : Type}.
    Variable Ops : store_ops St.

    Definition c_apply (x : cst St) (w : cwrite) : cst St * res :=
      match w with
      | CPutCommit c =>
          (mk_cst (x_store x) (x_txs x)
                  (fun v => if beqb v (hash c) then Some c else x_objs x v), ROk)
      | CSaveRef k v m =>
          let '(s', r) := so_step Ops (x_store x) (OSaveRef k v m) in (mk_cst s' (x_txs x) (x_objs x), r)
      | CUpdateTx id st =>
          (match x_txs x id with
           | Some _ => mk_cst (x_store x) (Txn.upd (x_txs x) id (Some st)) (x_objs x)
           | None => x
           end, ROk)
      | CDelete k =>
          let '(s', r) := so_step Ops (x_store x) (OP (PDelete k)) in (mk_cst s' (x_txs x) (x_objs x), r)
      | CDelTx id =>
          (match x_txs x id with
           | Some Txn.InProgress => mk_cst (x_store x) (Txn.upd (x_txs x) id None) (x_objs x)
           | _ => x
           end, ROk)
      end.

    Definition c_apply_all (ws : list cwrite) (x : cst St) : cst St :=
      fold_left (fun x w => fst (c_apply x w)) ws x.

    (** the first [n] writes, stopping at the first one whose store call returns an error;
        the flag says that none did *)
    Fixpoint c_apply_upto (n : nat) (ws : list cwrite) (x : cst St) : cst St * bool :=
      match n, ws with
      | O, _ => (x, true)
      | S _, [] => (x, true)
      | S n', w :: ws' =>
          let '(x', r) := c_apply x w in
          match r with ROk => c_apply_upto n' ws' x' | _ => (x', false) end
      end.

    Definition c_run_upto (n : nat) (p : cplan) (x : cst St) : cst St * Txn.res :=
      let '(x', ok) := c_apply_upto n (fst p) x in
      (x', if (ok && negb (n <? length (fst p))%nat)%bool then snd p else Txn.RErr).
    Definition c_run_full (p : cplan) (x : cst St) : cst St * Txn.res :=
      c_run_upto (length (fst p)) p x.

    (* Store.Get / ref.GetHead: the value or "key not found" *)
    Definition c_get (x : cst St) (k : name) : option value :=
      match snd (so_step Ops (x_store x) (OP (PGet k))) with RVal v => Some v | _ => None end.

    (* ref.ListTransactionRefs(rs, id): branch -> staged sum; None = an error or the slice panic *)
    Definition c_list_tx (x : cst St) (id : Txn.txid) : option (list (bytes * value)) :=
      match snd (so_step Ops (x_store x) (OListRefs (tx_prefix (tn id)))) with
      | RMap m => Some m
      | _ => None
      end.

    Definition commit_meta (com : ccommit) (id : Txn.txid) : meta :=
      mk_meta (cm_author com) (cm_email com) act_commit (cm_line com) (Some (tb id)).

    (** the per-branch loop of transaction.Commit; [lg] = the map returned by GetTransactionLogs
        before the loop, [x] = the repository when the iteration starts *)
    Fixpoint c_commit_loop (id : Txn.txid) (lg : name -> option value)
             (m : list (bytes * value)) (x : cst St) : cplan :=
      match m with
      | [] => ([CUpdateTx id Txn.Committed], Txn.ROk)
      | (b, sum) :: m' =>
          match lg (href b) with
          | Some v =>                                    (* rl.NewOID: read only *)
              match x_objs x v with
              | Some _ => c_commit_loop id lg m' x
              | None => ([], Txn.RErr)
              end
          | None =>
              match x_objs x sum with                    (* objects.GetCommit(db, sum) *)
              | None => ([], Txn.RErr)
              | Some com =>
                  let c' := mk_cc (cc_tbl com) (cc_meta com) (id :: cc_pfx com) (c_get x (href b)) in
                  let ws := [CPutCommit c'; CSaveRef (href b) (hash c') (commit_meta com id)] in
                  let '(ws', r) := c_commit_loop id lg m' (c_apply_all ws x) in
                  (ws ++ ws', r)
              end
          end
      end.

    (** [ord] = Go's map iteration order over the result of ListTransactionRefs *)
    Definition c_tx_commit (ord : corder) (id : Txn.txid) (x : cst St) : cplan :=
      match x_txs x id with
      | Some Txn.InProgress =>
          match c_list_tx x id with
          | Some m => c_commit_loop id (so_txlog Ops (x_store x) (tb id)) (ord m) x
          | None => ([], Txn.RErr)
          end
      | _ => ([], Txn.RErr)
      end.

    (** Discard: DeleteTransactionRefs = FilterKey (ORDER BY name), one Delete per key; then
        DeleteTransaction *)
    Definition c_tx_discard (id : Txn.txid) (x : cst St) : cplan :=
      match x_txs x id with
      | Some Txn.InProgress =>
          match snd (so_step Ops (x_store x) (OP (PFilterKey [tx_prefix (tn id)] []))) with
          | RKeys ks => (map CDelete ks ++ [CDelTx id], Txn.ROk)
          | _ => ([], Txn.RErr)
          end
      | _ => ([], Txn.RErr)
      end.
  End Generic.

  (** ** crash inside a write of the SQL store *)
  Definition d_apply_crash (fk : filter_kind) (x : cst db) (w : cwrite) (j : nat) : cst db :=
    match write_prim w with
    | Some p => mk_cst (cstep_crash fk (x_store x) p j) (x_txs x) (x_objs x)
    | None =>        (* one object-store Set / one UPDATE / DeleteTransaction: atomic, as in Txn.v *)
        match j with O => x | S _ => fst (c_apply (sql_ops fk) x w) end
    end.

  (** [n] writes happened; the crash hit write n+1 after [j] events *)
  Definition d_run_crash (fk : filter_kind) (n j : nat) (ws : list cwrite) (x : cst db) : cst db :=
    let '(x', ok) := c_apply_upto (sql_ops fk) n ws x in
    if ok then match nth_error ws n with Some w => d_apply_crash fk x' w j | None => x' end
    else x'.

  (** repositories reached from [x0] by any number of Commits of transaction [id] that crashed
      (each with its own enumeration order and crash point) and left it in progress *)
  Inductive sql_interrupted (fk : filter_kind) (id : Txn.txid) (x0 : cst db) : cst db -> Prop :=
  | si_0 : sql_interrupted fk id x0 x0
  | si_S : forall x (cord : corder) n j,
      sql_interrupted fk id x0 x -> (forall l, Permutation (cord l) l) ->
      x_txs (d_run_crash fk n j (fst (c_tx_commit (sql_ops fk) cord id x)) x) id = Some Txn.InProgress ->
      sql_interrupted fk id x0 (d_run_crash fk n j (fst (c_tx_commit (sql_ops fk) cord id x)) x).

  (** * 5. Abstraction *)
  Variable bn : Txn.branch -> bytes.

  Fixpoint enc (c : Txn.commit) : ccommit :=
    match c with
    | Txn.Root t m p => mk_cc t m p None
    | Txn.Child t m p par => mk_cc t m p (Some (hash (enc par)))
    end.
  Definition H (c : Txn.commit) : value := hash (enc c).

  Definition ent_rel (le : logent) (e : Txn.logent) : Prop :=
    le_old le = option_map H (Txn.l_old e) /\ le_new le = H (Txn.l_new e) /\
    m_txid (le_meta le) = option_map tb (Txn.l_tx e).

  Definition encp (e : Txn.branch * Txn.commit) : bytes * value := (bn (fst e), H (snd e)).

  Definition is_some {A} (o : option A) : bool := match o with Some _ => true | None => false end.

  (** the Txn.v state [t] is represented by [x] (over the map specification) *)
  Record TR (t : Txn.state) (x : cst sstate) : Prop := mk_TR {
    tr_heads : forall b, m_get (href (bn b)) (refs (x_store x)) = option_map H (Txn.heads t b);
    tr_logs : forall b, Forall2 ent_rel (logs (x_store x) (href (bn b))) (Txn.logs t b);
    tr_staged : forall id, Permutation (s_list_refs (tx_prefix (tn id)) (x_store x))
                                       (map encp (Txn.staged t id));
    tr_txs : forall id, x_txs x id = Txn.txs t id;
    tr_objs : forall c, Txn.stored t c = is_some (x_objs x (H c));
    tr_addr : forall v cc, x_objs x v = Some cc -> hash cc = v }.

  (** the same, read through the SQL store's own queries *)
  Record OBS (fk : filter_kind) (t : Txn.state) (x : cst db) : Prop := mk_OBS {
    ob_heads : forall b, cget (x_store x) (href (bn b)) = option_map H (Txn.heads t b);
    ob_logs : forall b, exists l, clog (x_store x) (href (bn b)) = (l, true) /\
                                  Forall2 ent_rel l (Txn.logs t b);
    ob_staged : forall id, exists m, c_list_tx (sql_ops fk) x id = Some m /\
                                     Permutation m (map encp (Txn.staged t id));
    ob_txlog : forall id b, c_txlog (x_store x) (tb id) (href (bn b)) =
                            option_map H (Txn.tx_log_new id (Txn.logs t b));
    ob_txs : forall id, x_txs x id = Txn.txs t id;
    ob_objs : forall c, Txn.stored t c = is_some (x_objs x (H c)) }.

  Inductive write_rel : Txn.write -> cwrite -> Prop :=
  | wr_put : forall c, write_rel (Txn.WPutCommit c) (CPutCommit (enc c))
  | wr_set : forall b c tx m, m_txid m = option_map tb tx ->
      write_rel (Txn.WSetWithLog b c tx) (CSaveRef (href (bn b)) (H c) m)
  | wr_upd : forall id st, write_rel (Txn.WUpdateTx id st) (CUpdateTx id st)
  | wr_del : forall id b, write_rel (Txn.WDelStaged id b) (CDelete (tx_prefix (tn id) ++ bn b))
  | wr_deltx : forall id, write_rel (Txn.WDelTx id) (CDelTx id).

  (** the premises on the encodings *)
  Definition inj {A B} (f : A -> B) : Prop := forall x y, f x = f y -> x = y.
  Definition enc_ok : Prop :=
    inj hash /\ inj bn /\ inj tn /\ inj tb /\ (forall i j, length (tn i) = length (tn j)).
End Machine.

(** * A concrete instance of the encodings, for the executable examples
    ("bytes" are lists of N without a range condition in these models) *)
Definition ex_hash (c : ccommit) : value :=
  [cc_tbl c; cc_meta c; N.of_nat (length (cc_pfx c))] ++ cc_pfx c ++
  match cc_parent c with None => [0] | Some v => 1 :: v end.
Definition ex_bn (b : Txn.branch) : bytes := [b].
Definition ex_tn (i : Txn.txid) : bytes := [i].
Definition ex_tb (i : Txn.txid) : bytes := [i; i].
Definition ex_none (c : ccommit) : bytes := [].
