(** C06 - tree coders and [run_C06] (trusted only by the correspondence).

    case = (tag payload...) :
      (1 (cell...) trailer)                       StrList
      (2 ((cell...)...) trailer)                  Block
      (11 (ty u)...)                              packfile object headers

    observation of a round-trip case ([obs_rt]):
      (st)                                        the encoder refused: st = 1 error, 2 panic
      (0 enc (1))                                 encoded, decoding enc++trailer failed
      (0 enc (0 value rest (0 reenc)))            decoded value (as in the case), bytes left in
                                                  the reader, re-encoding of the decoded value
    StrList adds the result of the slice decoder:  (obs_rt (cell...)) .
    headers: ((enc (ty u rest))...)  with [decode_len (enc ++ [0xAA])]. *)
From W.lib Require Import Tree Bytes.
From W.model Require Import CodecBase CodecStrList CodecPackfile.
Local Open Scope N_scope.

Definition obs_rt {X} (refusal : N) (enc : X -> option bytes)
           (dec : bytes -> option (X * bytes)) (tx : X -> tree) (x : X) (trailer : bytes) : tree :=
  match enc x with
  | None => Node [Leaf refusal]
  | Some b =>
      Node [Leaf 0; t_bytes b;
            match dec (b ++ trailer) with
            | None => Node [Leaf 1]
            | Some (y, rest) =>
                Node [Leaf 0; tx y; t_bytes rest;
                      match enc y with
                      | None => Node [Leaf refusal]
                      | Some b2 => Node [Leaf 0; t_bytes b2]
                      end]
            end]
  end.

Definition t_cells (sl : list bytes) : tree := t_list t_bytes sl.
Definition d_cells (t : tree) : list bytes := d_list d_bytes t.
Definition t_rows (r : list (list bytes)) : tree := t_list t_cells r.
Definition d_rows (t : tree) : list (list bytes) := d_list d_cells t.

Definition run_strlist (c : tree) : tree :=
  let sl := d_cells (d_nth 1 c) in
  Node [obs_rt 2 encode_strlist decode_strlist t_cells sl (d_bytes (d_nth 2 c));
        match encode_strlist sl with
        | None => Node []
        | Some b => t_opt t_cells (decode_strlist_bytes b)
        end].

Definition run_block (c : tree) : tree :=
  obs_rt 2 encode_block decode_block t_rows (d_rows (d_nth 1 c)) (d_bytes (d_nth 2 c)).

Definition run_header1 (p : tree) : tree :=
  let e := encode_len (d_N (d_nth 0 p)) (d_N (d_nth 1 p)) in
  Node [t_bytes e;
        match decode_len (e ++ [170]) with
        | None => Node []
        | Some (ty, u, rest) => Node [Leaf ty; Leaf u; t_bytes rest]
        end].
Definition run_header (c : tree) : tree :=
  match c with
  | Node (_ :: ps) => Node (map run_header1 ps)
  | _ => Node []
  end.

Definition run_C06 (c : tree) : tree :=
  match d_N (d_nth 0 c) with
  | 1 => run_strlist c
  | 2 => run_block c
  | 11 => run_header c
  | _ => Node [Leaf 98]
  end.
