(** C06 - tree coders and [run_C06] (trusted only by the correspondence).

    case = (tag payload...) ; byte strings are nodes of byte leaves:
      (1 (cell...) trailer)                          StrList
      (2 ((cell...)...) trailer)                     Block
      (3 (u32...) trailer)   (4 (u64...) trailer)    UintList / FloatList
      (5 commit trailer)      commit = (table name email ((sg abs) (sg abs)) message (parent...))
                              time = (unix seconds, zone minutes) as signed numbers (sg 1 = negative)
      (6 table trailer)       table = ((column...) (pk...) rows (block...) (index...))
      (7 blockindex trailer)  blockindex = (offsets (row...))
      (8 profile trailer)     profile = (version rowsCount (column...)),
                              column = (name naCount min max mean median std pct minLen maxLen avgLen top)
                              optional = () | (x) ; pct = (u64...) ; top = ((value count)...)
      (9 string trailer)                             pkt-line
      (10 ((ty bytes)...))                           packfile
      (11 (ty u)...)                                 packfile object headers
      (12 (op...))                                   store: op = (kind content) kind 1 block 2 block index
                                                     3 table 4 commit | (5 tablecontent content) table index
                                                     | (6 tablecontent content) table profile
      (13 fmt bytes)                                 decode arbitrary bytes with the reader of format fmt (1..11)
      (14 mode n size seed)                          volume case: n distinct valid objects (built by the harness from
                                                     seed) saved through one badger transaction that overflows

    observation of a round-trip case ([obs_rt]):
      (st)                                        the encoder refused: st = 1 error, 2 panic
      (0 enc (1))                                 encoded, decoding enc++trailer failed
      (0 enc (0 value rest R))                    decoded value (coded as in the case), bytes left in the
                                                  reader, R = (st) | (0 reenc) re-encoding of the decoded value
    StrList adds the result of the slice decoder:  (obs_rt ((cell...))?) .
    packfile value = (version (ty bytes)...).
    headers: ((enc (ty u rest))...)  with [decode_len (enc ++ [0xAA])].
    store: (((prefix ident value)...) (get...)) entries sorted by prefix++ident, where ident is the
      CONTENT whose hash is the key suffix (the model runs with H = identity, Go maps each
      hash back to the content it came from) and value is the stored value, decompressed for
      blocks and block indices; get = (0 object) | (1), one per op, through Get<Kind>.
    decode-only: (1) | (0 value rest R).
    volume: (saved readable keys) - the prediction is (n n n): every Save returns an identifier,
      every identifier reads back equal (C06_saved_objects_persist), the store lists exactly those keys. *)
From W.lib Require Import Tree Bytes.
From W.model Require Import CodecBase CodecStrList CodecPackfile CodecObjline CodecCommit
     CodecTable CodecProfile CodecStore.
Local Open Scope N_scope.

Definition obs_reenc {X} (refusal : N) (enc : X -> option bytes) (y : X) : tree :=
  match enc y with
  | None => Node [Leaf refusal]
  | Some b2 => Node [Leaf 0; t_bytes b2]
  end.

Definition obs_dec {X} (refusal : N) (enc : X -> option bytes)
           (dec : bytes -> option (X * bytes)) (tx : X -> tree) (b : bytes) : tree :=
  match dec b with
  | None => Node [Leaf 1]
  | Some (y, rest) => Node [Leaf 0; tx y; t_bytes rest; obs_reenc refusal enc y]
  end.

Definition obs_rt {X} (refusal : N) (enc : X -> option bytes)
           (dec : bytes -> option (X * bytes)) (tx : X -> tree) (x : X) (trailer : bytes) : tree :=
  match enc x with
  | None => Node [Leaf refusal]
  | Some b => Node [Leaf 0; t_bytes b; obs_dec refusal enc dec tx (b ++ trailer)]
  end.

Definition t_cells (sl : list bytes) : tree := t_list t_bytes sl.
Definition d_cells (t : tree) : list bytes := d_list d_bytes t.
Definition t_rows (r : list (list bytes)) : tree := t_list t_cells r.
Definition d_rows (t : tree) : list (list bytes) := d_list d_cells t.
Definition t_nums (l : list N) : tree := t_list Leaf l.
Definition d_nums (t : tree) : list N := d_list d_N t.
Definition t_objs (l : list (N * bytes)) : tree :=
  t_list (fun o => Node [Leaf (fst o); t_bytes (snd o)]) l.
Definition d_objs (t : tree) : list (N * bytes) :=
  d_list (fun o => (d_N (d_nth 0 o), d_bytes (d_nth 1 o))) t.

Definition run_strlist (c : tree) : tree :=
  let sl := d_cells (d_nth 1 c) in
  Node [obs_rt 2 encode_strlist decode_strlist t_cells sl (d_bytes (d_nth 2 c));
        match encode_strlist sl with
        | None => Node []
        | Some b => t_opt t_cells (decode_strlist_bytes b)
        end].

(* packfile: the decoded value also carries the version *)
Definition dec_packfile_obs (b : bytes) : tree :=
  match decode_packfile b with
  | None => Node [Leaf 1]
  | Some ((v, objs), rest) =>
      Node [Leaf 0; Node (Leaf v :: match t_objs objs with Node l => l | Leaf _ => [] end);
            t_bytes rest; obs_reenc 2 encode_packfile objs]
  end.
Definition run_packfile (c : tree) : tree :=
  match encode_packfile (d_objs (d_nth 1 c)) with
  | None => Node [Leaf 2]
  | Some b => Node [Leaf 0; t_bytes b; dec_packfile_obs b]
  end.

Definition dec_header_obs (b : bytes) : tree :=
  match decode_len b with
  | None => Node []
  | Some (ty, u, rest) => Node [Leaf ty; Leaf u; t_bytes rest]
  end.
Definition run_header1 (p : tree) : tree :=
  let e := encode_len (d_N (d_nth 0 p)) (d_N (d_nth 1 p)) in
  Node [t_bytes e; dec_header_obs (e ++ [170])].
Definition run_header (c : tree) : tree :=
  match c with
  | Node (_ :: ps) => Node (map run_header1 ps)
  | _ => Node []
  end.

(** store *)
Definition idH (b : bytes) : bytes := b.
Definition d_sop (t : tree) : sop :=
  let c1 := d_bytes (d_nth 1 t) in
  match d_N (d_nth 0 t) with
  | 1 => SBlock c1
  | 2 => SBlockIndex c1
  | 3 => STable c1
  | 4 => SCommit c1
  | 5 => STableIndex c1 (d_bytes (d_nth 2 t))
  | _ => STableProfile c1 (d_bytes (d_nth 2 t))
  end.

Fixpoint split_key (ps : list bytes) (k : bytes) : bytes * bytes :=
  match ps with
  | [] => ([], k)
  | p :: ps' => if is_prefix p k then (p, skipn (length p) k) else split_key ps' k
  end.

Fixpoint ins_entry (e : bytes * bytes) (l : list (bytes * bytes)) : list (bytes * bytes) :=
  match l with
  | [] => [e]
  | x :: l' => if bleb (fst e) (fst x) then e :: l else x :: ins_entry e l'
  end.
Definition sort_entries (l : list (bytes * bytes)) := fold_right ins_entry [] l.

Definition t_entry (e : bytes * bytes) : tree :=
  let (p, ident) := split_key prefixes (fst e) in
  Node [t_bytes p; t_bytes ident; t_bytes (snd e)].

Definition t_res {X} (tx : X -> tree) (o : option X) : tree :=
  match o with Some x => Node [Leaf 0; tx x] | None => Node [Leaf 1] end.

Definition run_get (s : store) (o : sop) : tree :=
  match o with
  | SBlock c => t_res t_rows (get_block Some s (idH c))
  | SBlockIndex c => t_res t_blockindex (get_blockindex Some s (idH c))
  | STable c => t_res t_table (get_table s (idH c))
  | SCommit c => t_res t_commit (get_commit s (idH c))
  | STableIndex t _ => t_res t_rows (get_tableindex s (idH t))
  | STableProfile t _ => t_res t_profile (get_tableprofile s (idH t))
  end.

Definition run_store (c : tree) : tree :=
  let ops := d_list d_sop (d_nth 1 c) in
  let s := apply_sops idH idH [] ops in
  Node [t_list t_entry (sort_entries s); t_list (run_get s) ops].

(** decode-only *)
Definition dec_strict_time := false.
Definition run_decode (c : tree) : tree :=
  let b := d_bytes (d_nth 2 c) in
  match d_N (d_nth 1 c) with
  | 1 => obs_dec 2 encode_strlist decode_strlist t_cells b
  | 2 => obs_dec 2 encode_block decode_block t_rows b
  | 3 => obs_dec 2 encode_uintlist decode_uintlist t_nums b
  | 4 => obs_dec 2 encode_floatlist decode_floatlist t_nums b
  | 5 => obs_dec 1 encode_commit decode_commit t_commit b
  | 6 => obs_dec 2 encode_table decode_table t_table b
  | 7 => obs_dec 2 encode_blockindex decode_blockindex t_blockindex b
  | 8 => obs_dec 1 encode_profile decode_profile t_profile b
  | 9 => obs_dec 1 encode_pktline decode_pktline t_bytes b
  | 10 => dec_packfile_obs b
  | 11 => dec_header_obs b
  | _ => Node [Leaf 98]
  end.

Definition run_C06 (c : tree) : tree :=
  let tr := d_bytes (d_nth 2 c) in
  match d_N (d_nth 0 c) with
  | 1 => run_strlist c
  | 2 => obs_rt 2 encode_block decode_block t_rows (d_rows (d_nth 1 c)) tr
  | 3 => obs_rt 2 encode_uintlist decode_uintlist t_nums (d_nums (d_nth 1 c)) tr
  | 4 => obs_rt 2 encode_floatlist decode_floatlist t_nums (d_nums (d_nth 1 c)) tr
  | 5 => obs_rt 1 encode_commit decode_commit t_commit (d_commit (d_nth 1 c)) tr
  | 6 => obs_rt 2 encode_table decode_table t_table (d_table (d_nth 1 c)) tr
  | 7 => obs_rt 2 encode_blockindex decode_blockindex t_blockindex (d_blockindex (d_nth 1 c)) tr
  | 8 => obs_rt 1 encode_profile decode_profile t_profile (d_profile (d_nth 1 c)) tr
  | 9 => obs_rt 1 encode_pktline decode_pktline t_bytes (d_bytes (d_nth 1 c)) tr
  | 10 => run_packfile c
  | 11 => run_header c
  | 12 => run_store c
  | 13 => run_decode c
  | 14 => let n := Leaf (d_N (d_nth 2 c)) in Node [n; n; n]
  | _ => Node [Leaf 98]
  end.
