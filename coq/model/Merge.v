(** Model of pkg/merge (merger.go mergeTables / Start, row_resolver.go Resolve /
    tryResolve, row_collector.go) and of the result paths of cmd/wrgl/merge_cmd.go.
    Definitions only.

    Interfaces assumed (proved for the real code by other properties):
    - the per-branch diff (diff.DiffTables with WithEmitUnchangedRow) is modelled by its
      specification (C04): one event per key present in the branch or in the base;
    - row sums and key sums are injective hashes: a row sum is modelled by the row's
      cell sequence IN THE TABLE'S OWN LAYOUT, a key sum by the key cells;
    - the discarded-key hash set is a set (C20);
    - the collector's sorter is "stable sort on the configured key positions, keep
      the first row of every run of equal key cells, drop the removed columns" (C19);
      Go's sort.Slice is not stable: the model and the code can differ only when two
      rows tie on the configured key positions.
    - tables come from ingest: every row has the width of the column list (C01/C17).

    Exchange format (same as harness/c05.go).
    case  = (mode base (other ...) policy remmode blocks)
      mode    0 library merge, 1 CLI (merge --no-gui, --no-commit, commit + export), 2 CompareColumns only
      table   ((col ...) (pkname ...) ((cell ...) ...))
      policy  for unresolved records: 0 nothing, 1 SaveResolvedRow(pk, nil), 2 SaveResolvedRow(pk, ResolvedRow)
      remmode removedCols: 0 nil, 1 union of ColDiff.Removed
      blocks  0 SortedRows, 1 SortedBlocks
    observation mode 0: (0 names layers baseIdx otherIdx basePK otherPK recs cols rows) | (1) | (2)
      layers ((added ...) (removed ...)) per branch; baseIdx per names index () | (j)
      recs   ascending by key: (key basePresent (present ...) resolved rowopt (unresolvedCol ...))
    observation mode 2: (0 names layers baseIdx otherIdx basePK otherPK) | (2)
    observation mode 1: (0 names flags resolutions rest commit) | (1) | (2)
      flags per branch per column 0 | 1 NEW | 2 REMOVED; resolutions sorted;
      commit ((col ...) ((cell ...) ...)) when no record is unresolved, else (1): the command
             (without --no-gui, merge tool unable to start) refuses *)
From W.lib Require Import Tree Bytes GoSlice.
From W.model Require Import ColDiff.
From Coq Require Import Arith.

Definition row := list bytes.
Record table := { t_cols : list name; t_pk : list name; t_rows : list row }.

(** slice.KeyIndices: every index whose column equals the key name (no break) *)
Definition all_indices (cols : list name) (k : name) : list nat :=
  map fst (filter (fun p => beqb (snd p) k) (combine (seq 0 (length cols)) cols)).
Definition key_indices (cols pk : list name) : list nat := flat_map (all_indices cols) pk.
Definition pk_idx (t : table) : list nat := key_indices (t_cols t) (t_pk t).
Definition pick (idx : list nat) (r : row) : list bytes := map (fun i => nth i r []) idx.

(** the key sum of a row: hash of the key cells; keyless: the row sum *)
Definition key_of (t : table) (r : row) : list bytes :=
  match pk_idx t with [] => r | idx => pick idx r end.

Definition lookup (t : table) (k : list bytes) : option row :=
  find (fun r => keqb (key_of t r) k) (t_rows t).

Fixpoint names_eqb (a b : list name) : bool :=
  match a, b with
  | [], [] => true
  | x :: a', y :: b' => beqb x y && names_eqb a' b'
  | _, _ => false
  end.

(** Differ.diffTables: rows are compared only when the key names agree and
    (the branch has a key or the columns are identical) *)
Definition diff_enabled (base o : table) : bool :=
  names_eqb (t_pk o) (t_pk base) &&
  (negb (Nat.eqb (length (pk_idx o)) 0) || names_eqb (t_cols o) (t_cols base)).

(** ---- Merge records ---- *)
Record mrec := { m_base : option row; m_others : list (option row) }.

Definition sum_eqb (a b : option row) : bool :=
  match a, b with
  | Some x, Some y => keqb x y
  | None, None => true
  | _, _ => false
  end.

Definition mk_mrec (base : table) (others : list table) (k : list bytes) : mrec :=
  {| m_base := lookup base k;
     m_others := map (fun o => if diff_enabled base o then lookup o k else None) others |}.

(** mergeTables: a key whose base row exists and equals (by sum) every branch row is skipped *)
Definition no_changes (m : mrec) : bool :=
  match m_base m with
  | None => false
  | Some _ => forallb (fun o => sum_eqb o (m_base m)) (m_others m)
  end.

(** ---- RowResolver ---- *)
Record resolution := {
  r_resolved : bool;
  r_row : option row;          (* ResolvedRow (nil when the resolver returns early) *)
  r_unres : list nat           (* UnresolvedCols, ascending *)
}.

Record cstate := { c_add : option bytes; c_mod : option bytes; c_rem : bool; c_res : bytes; c_unres : bool }.

Definition is_some {A} (o : option A) : bool := match o with Some _ => true | None => false end.

(** one iteration of the inner loop of tryResolve (column i, one row of r.rows) *)
Definition cell_step (cd : coldiff) (base_row : option row) (i : nat) (st : cstate) (lr : nat * row) : cstate :=
  let layer := fst lr in
  let v := nth i (snd lr) [] in
  let bv := match base_row with Some b => nth i b [] | None => [] end in
  let unresolve := {| c_add := c_add st; c_mod := c_mod st; c_rem := c_rem st; c_res := bv; c_unres := true |} in
  let assign (a m : option bytes) (r : bool) :=
    {| c_add := a; c_mod := m; c_rem := r; c_res := v; c_unres := c_unres st |} in
  if in_added cd layer i then
    match c_add st with
    | None => assign (Some v) (c_mod st) (c_rem st)
    | Some a => if beqb a v then assign (c_add st) (c_mod st) (c_rem st) else unresolve
    end
  else match c_add st with
  | Some _ => st                                             (* continue *)
  | None =>
    if in_removed cd layer i then
      match c_mod st with
      | None => assign None None true
      | Some _ => unresolve
      end
    else if negb (is_some base_row) || negb (beqb bv v) then
      if c_rem st then unresolve
      else match c_mod st with
           | None => assign None (Some v) (c_rem st)
           | Some m => if beqb m v then assign None (c_mod st) (c_rem st) else unresolve
           end
    else if c_rem st || is_some (c_mod st) then st          (* continue *)
    else assign None None (c_rem st)
  end.

Definition cell_init (cd : coldiff) (base_row : option row) (rem_layers : list nat) (i : nat) : cstate :=
  {| c_add := None; c_mod := None;
     c_rem := existsb (fun layer => negb (in_added cd layer i)) rem_layers;
     c_res := match base_row with Some b => nth i b [] | None => [] end;
     c_unres := false |}.

Definition resolve_cell (cd : coldiff) (base_row : option row) (rem_layers : list nat)
           (rows : list (nat * row)) (i : nat) : cstate :=
  fold_left (cell_step cd base_row i) rows (cell_init cd base_row rem_layers i).

(** uniqSums: of the layers holding the same row sum only the last survives;
    r.rows is then sorted by layer *)
Fixpoint uniq_layers (i : nat) (l : list (option row)) : list (nat * row) :=
  match l with
  | [] => []
  | None :: t => uniq_layers (S i) t
  | Some r :: t =>
      if existsb (fun o => sum_eqb o (Some r)) t then uniq_layers (S i) t
      else (i, r) :: uniq_layers (S i) t
  end.

Fixpoint none_positions (i : nat) (l : list (option row)) : list nat :=
  match l with
  | [] => []
  | None :: t => i :: none_positions (S i) t
  | Some _ :: t => none_positions (S i) t
  end.

Definition try_resolve (cd : coldiff) (m : mrec) : resolution :=
  let rem_layers := match m_base m with None => [] | Some _ => none_positions 0 (m_others m) end in
  let rows := map (fun lr => (fst lr, rearrange (nth (fst lr) (cd_other_idx cd) []) (snd lr)))
                  (uniq_layers 0 (m_others m)) in
  let base_row := option_map (rearrange (cd_base_idx cd)) (m_base m) in
  let cells := map (resolve_cell cd base_row rem_layers rows) (seq 0 (length (cd_names cd))) in
  let unres := map fst (filter (fun p => c_unres (snd p)) (combine (seq 0 (length cells)) cells)) in
  {| r_resolved := match rem_layers with
                   | [] => match unres with [] => true | _ => false end
                   | _ => false
                   end;
     r_row := Some (map c_res cells);
     r_unres := unres |}.

Definition resolve (cd : coldiff) (m : mrec) : resolution :=
  let non_nils := length (filter is_some (m_others m)) in
  let unchanges := length (filter (fun o => is_some o && is_some (m_base m) && sum_eqb o (m_base m)) (m_others m)) in
  if Nat.eqb non_nils 0 || Nat.eqb unchanges non_nils
  then {| r_resolved := true; r_row := None; r_unres := [] |}
  else try_resolve cd m.

(** ---- sorting ---- *)
(** stable: [isort] inserts from the right, so an element goes before the first
    element that is not less than it - ties keep their input order *)
Fixpoint insert_by {A} (lt : A -> A -> bool) (x : A) (l : list A) : list A :=
  match l with
  | [] => [x]
  | y :: t => if lt y x then y :: insert_by lt x t else x :: l
  end.
Definition isort {A} (lt : A -> A -> bool) (l : list A) : list A :=
  fold_right (insert_by lt) [] l.

(** keep the first element of every run of [eqb]-equal elements *)
Fixpoint dedupe_runs {A} (eqb : A -> A -> bool) (prev : option A) (l : list A) : list A :=
  match l with
  | [] => []
  | x :: t =>
      match prev with
      | Some p => if eqb p x then dedupe_runs eqb prev t else x :: dedupe_runs eqb (Some x) t
      | None => x :: dedupe_runs eqb (Some x) t
      end
  end.

(** the keys for which some branch emits a diff event, ascending, without repetition *)
Definition all_keys (base : table) (others : list table) : list (list bytes) :=
  let en := filter (diff_enabled base) others in
  match en with
  | [] => []
  | _ => dedupe_runs keqb None
           (isort klt (map (key_of base) (t_rows base) ++ flat_map (fun o => map (key_of o) (t_rows o)) en))
  end.

Record keyrec := { k_key : list bytes; k_m : mrec; k_res : resolution }.

Definition merge_records (cd : coldiff) (base : table) (others : list table) : list keyrec :=
  flat_map (fun k => let m := mk_mrec base others k in
                     if no_changes m then [] else [{| k_key := k; k_m := m; k_res := resolve cd m |}])
           (all_keys base others).

(** ---- RowCollector + sorter ---- *)
(** objects.StringSliceIsLess(pk, a, b) *)
Definition row_lt (pk : list nat) (a b : row) : bool :=
  match pk with
  | [] => klt a b
  | _ => klt (pick pk a) (pick pk b)
  end.

Definition union_removed (cd : coldiff) : list bool :=
  map (fun i => existsb (fun l => in_removed cd l i) (seq 0 (cd_layers cd))) (seq 0 (length (cd_names cd))).

Definition remove_cols {A} (removed : list bool) (r : list A) : list A :=
  map snd (filter (fun p => negb (nth (fst p) removed false)) (combine (seq 0 (length r)) r)).

(** rows handed to the collector's sorter, in order: resolved rows, the caller's rows
    for unresolved records (policy 2), untouched base rows (base layout!) *)
Definition collected_rows (base : table) (recs : list keyrec) (policy : nat) : list row :=
  let resolved := flat_map (fun kr => if r_resolved (k_res kr)
                                      then match r_row (k_res kr) with Some r => [r] | None => [] end
                                      else []) recs in
  let manual := flat_map (fun kr => if r_resolved (k_res kr) then []
                                    else match policy, r_row (k_res kr) with
                                         | 2, Some r => [r]
                                         | _, _ => []
                                         end) recs in
  let discarded := map k_key (filter (fun kr => r_resolved (k_res kr) || negb (Nat.eqb policy 0)) recs) in
  let untouched := match pk_idx base with
                   | [] => t_rows base      (* the empty key is hashed: never found in the set *)
                   | idx => filter (fun r => negb (existsb (keqb (pick idx r)) discarded)) (t_rows base)
                   end in
  resolved ++ manual ++ untouched.

Definition sorted_rows (pk : list nat) (rows : list row) : list row :=
  dedupe_runs (fun a b => keqb (pick pk a) (pick pk b)) None (isort (row_lt pk) rows).

(** SortedBlocks removes the columns from the encoded row: StrListEditor.findOffsets
    panics (in the sorter goroutine) when a removed index is not below the row's width *)
Definition remove_panics (removed : list bool) (rows : list row) : bool :=
  existsb (fun r => existsb (fun i => Nat.leb (length r) i) (true_positions removed)) rows.

Definition result_rows (base : table) (recs : list keyrec) (policy : nat)
           (removed : option (list bool)) (blocks : bool) : res (list row) :=
  let rows := collected_rows base recs policy in
  let rm := match removed with Some l => l | None => [] end in
  if blocks && remove_panics rm rows then Panic
  else Ok (map (remove_cols rm) (sorted_rows (pk_idx base) rows)).

Fixpoint all_pk_equal (pk : list name) (l : list table) : bool :=
  match l with
  | [] => true
  | t :: r => names_eqb (t_pk t) pk && all_pk_equal pk r
  end.

(** Merger.Start refuses branches whose key names differ from the first branch's *)
Definition start_ok (others : list table) : bool :=
  match others with
  | [] => true
  | o :: r => all_pk_equal (t_pk o) r
  end.

Definition header_of (t : table) : header := (t_cols t, t_pk t).

Record merge_out := {
  mo_cd : coldiff;
  mo_recs : list keyrec;
  mo_cols : list name;
  mo_rows : list row
}.

Definition run_merge (base : table) (others : list table) (policy remmode : nat) (blocks : bool)
  : res merge_out :=
  if negb (start_ok others) then Err COther else
  rbind (compare_columns (header_of base) (map header_of others)) (fun cd =>
    let recs := merge_records cd base others in
    let removed := if Nat.eqb remmode 1 then Some (union_removed cd) else None in
    rbind (result_rows base recs policy removed blocks) (fun rows =>
      Ok {| mo_cd := cd; mo_recs := recs;
            mo_cols := remove_cols (match removed with Some l => l | None => [] end) (cd_names cd);
            mo_rows := rows |})).

(** ---- tree coders ---- *)
Definition d_table (t : tree) : table :=
  {| t_cols := d_list d_bytes (d_nth 0 t);
     t_pk := d_list d_bytes (d_nth 1 t);
     t_rows := d_list (d_list d_bytes) (d_nth 2 t) |}.

Definition t_row (r : row) : tree := t_list t_bytes r.

Definition t_keyrec (kr : keyrec) : tree :=
  Node [ t_row (k_key kr);
         t_bool (is_some (m_base (k_m kr)));
         t_list (fun o => t_bool (is_some o)) (m_others (k_m kr));
         t_bool (r_resolved (k_res kr));
         t_opt t_row (r_row (k_res kr));
         t_list t_nat (r_unres (k_res kr)) ].

Definition t_status {A} (r : res A) : tree := Node [Leaf (status r)].

Definition run_lib (base : table) (others : list table) (policy remmode : nat) (blocks : bool) : tree :=
  match run_merge base others policy remmode blocks with
  | Ok o => Node (Leaf 0 :: t_coldiff_parts (mo_cd o) ++
                  [t_list t_keyrec (mo_recs o); t_list t_bytes (mo_cols o); t_list t_row (mo_rows o)])
  | r => t_status r
  end.

Definition run_coldiff (base : table) (others : list table) : tree :=
  match compare_columns (header_of base) (map header_of others) with
  | Ok cd => Node (Leaf 0 :: t_coldiff_parts cd)
  | r => t_status r
  end.

(** cmd/wrgl runMerge without --no-gui (`wrgl merge BRANCH COMMIT`, blocks = true: commit through
    SortedBlocks; `--no-commit`, blocks = false: MERGE csv through SortedRows), with the merge tool
    unable to start.  collectMergeConflicts drains Merger.Start: the records it receives are the
    unresolved ones.  None: the result is produced with removedCols = union of the Removed sets;
    otherwise the merge tool is asked for, i.e. here the command refuses and changes nothing. *)
Inductive cmd_outcome := CmdCommitted (o : merge_out) | CmdRefused | CmdFailed (st : N).

Definition all_resolved (recs : list keyrec) : bool := forallb (fun kr => r_resolved (k_res kr)) recs.

Definition cmd_merge (base : table) (others : list table) (blocks : bool) : cmd_outcome :=
  match run_merge base others 0 1 false with
  | Ok o0 =>
      if all_resolved (mo_recs o0) then
        match run_merge base others 0 1 blocks with
        | Ok o => CmdCommitted o
        | r => CmdFailed (status r)
        end
      else CmdRefused
  | r => CmdFailed (status r)
  end.

(** merge --no-gui writes the unresolved records and the remaining rows
    (SaveResolvedRow(pk, nil) for each, SortedRows(nil)). *)
Definition run_cli (base : table) (others : list table) : tree :=
  match others with
  | [_; _] =>
      match run_merge base others 1 0 false with
      | Ok o =>
          let cd := mo_cd o in
          let flags := map (fun l => t_list (fun i => Leaf (if in_added cd l i then 1
                                                           else if in_removed cd l i then 2 else 0)%N)
                                           (seq 0 (length (cd_names cd))))
                           (seq 0 (cd_layers cd)) in
          let unresolved := filter (fun kr => negb (r_resolved (k_res kr))) (mo_recs o) in
          let resolutions := isort klt (flat_map (fun kr => match r_row (k_res kr) with Some r => [r] | None => [] end)
                                                 unresolved) in
          let commit :=
            match cmd_merge base others true with
            | CmdCommitted o2 => Node [t_list t_bytes (mo_cols o2); t_list t_row (mo_rows o2)]
            | CmdRefused => Node [Leaf 1]
            | CmdFailed st => Node [Leaf st]
            end in
          Node [Leaf 0; t_list t_bytes (cd_names cd); Node flags; t_list t_row resolutions;
                t_list t_row (mo_rows o); commit]
      | r => t_status r
      end
  | _ => Node [Leaf 1]
  end.

Definition run_C05 (c : tree) : tree :=
  let mode := d_nat (d_nth 0 c) in
  let base := d_table (d_nth 1 c) in
  let others := d_list d_table (d_nth 2 c) in
  let policy := d_nat (d_nth 3 c) in
  let remmode := d_nat (d_nth 4 c) in
  let blocks := d_bool (d_nth 5 c) in
  match mode with
  | 0 => run_lib base others policy remmode blocks
  | 1 => run_cli base others
  | _ => run_coldiff base others
  end.
