(** C06 - pkg/encoding/objline/scalar.go, field.go.  Definitions only.

    WriteString : u16 length + bytes; refuses (returns an ERROR) above 65535 bytes.
    WriteField  : label, ' ', body, '\n'.   ReadField: the same three parts, exact.
    Time        : [time.Time] is modelled at the granularity the format keeps,
                  (unix seconds : Z, zone offset in whole minutes : Z).
      EncodeTime = fmt.Sprintf("%010d %s", t.Unix(), t.Format("-0700")):
        seconds zero-padded to width 10 INCLUDING a '-' sign, more digits from 10^10 on;
        zone = sign, hours, minutes, each zero-padded to 2 digits (more from 100 h on).
      WriteTime writes 16 zero bytes for the zero instant (t.IsZero(): unix second
        -62135596800, whatever the zone) and EncodeTime otherwise (which is 16 bytes
        exactly when -999999999 <= sec <= 9999999999 and |zone| < 6000).
      ReadTime reads 16 bytes: all zero -> time.Time{} (zero instant, UTC); otherwise
        DecodeTime = strconv.ParseInt(s[0:10], 10, 64) (an optional sign, then digits
        only), byte 10 is NOT inspected, time.Parse("-0700", s[11:16]) (sign, two digit
        hours <= 24, two digit minutes <= 60 - the range check of Go >= 1.20).
      So the time field is not canonical ("+000000005x-0000" reads as second 5, UTC).
      [strict = true] keeps only the 16-byte strings that EncodeTime/WriteTime produce
      (used to state the re-encoding theorems); [strict = false] is the real reader. *)
From W.lib Require Import Tree Bytes.
From W.model Require Import CodecBase.
From Coq Require Import ZArith.
Local Open Scope N_scope.

(** * strings and fields *)
Definition enc_string (s : bytes) : option bytes :=
  if 65535 <? len s then None else Some (be 2 (len s) ++ s).

(* ReadString: an io.EOF of the second read is returned to the caller, which treats it
   as an error, so a short read always fails *)
Definition dec_string (b : bytes) : option (bytes * bytes) :=
  match rd_be 2 b with
  | None => None
  | Some (l, b1) => take (N.to_nat l) b1
  end.

Definition enc_field (label body : bytes) : bytes := label ++ [SP] ++ body ++ [NL].

Definition dec_field {X} (label : bytes) (f : bytes -> option (X * bytes)) (b : bytes)
  : option (X * bytes) :=
  match expect (label ++ [SP]) b with
  | None => None
  | Some b1 =>
      match f b1 with
      | None => None
      | Some (x, b2) =>
          match expect [NL] b2 with
          | None => None
          | Some b3 => Some (x, b3)
          end
      end
  end.

(* objline.ReadBytes into a buffer of n bytes *)
Definition dec_raw (n : nat) (b : bytes) : option (bytes * bytes) := take n b.

(** * time *)
Definition time := (Z * Z)%type.
Definition zero_sec : Z := (-62135596800)%Z.
Definition zero_time : time := (zero_sec, 0%Z).

Definition fmt_sec (s : Z) : bytes :=
  if (s <? 0)%Z then 45 :: fmt_pad 9 (Z.abs_N s) else fmt_pad 10 (Z.to_N s).

Definition fmt_zone (z : Z) : bytes :=
  let a := Z.abs_N z in
  (if (z <? 0)%Z then 45 else 43) :: fmt_pad 2 (a / 60) ++ fmt_pad 2 (a mod 60).

Definition encode_time_raw (t : time) : bytes := fmt_sec (fst t) ++ [SP] ++ fmt_zone (snd t).

Definition zeros16 : bytes := [0;0;0;0; 0;0;0;0; 0;0;0;0; 0;0;0;0].

Definition encode_time (t : time) : bytes :=
  if (fst t =? zero_sec)%Z then zeros16 else encode_time_raw t.

Definition parse_int (s : bytes) : option Z :=
  match s with
  | [] => None
  | c :: r =>
      if c =? 43 then match parse_uint r with Some n => Some (Z.of_N n) | None => None end
      else if c =? 45 then match parse_uint r with Some n => Some (- Z.of_N n)%Z | None => None end
      else match parse_uint s with Some n => Some (Z.of_N n) | None => None end
  end.

Definition parse_zone (s : bytes) : option Z :=
  match s with
  | [sg; h1; h2; m1; m2] =>
      if is_digit h1 && is_digit h2 && is_digit m1 && is_digit m2 then
        let hr := (h1 - 48) * 10 + (h2 - 48) in
        let mm := (m1 - 48) * 10 + (m2 - 48) in
        if (24 <? hr) || (60 <? mm) then None
        else if sg =? 43 then Some (Z.of_N (hr * 60 + mm))
        else if sg =? 45 then Some (- Z.of_N (hr * 60 + mm))%Z
        else None
      else None
  | _ => None
  end.

(* ReadTime on the 16 bytes it has read *)
Definition decode_time_real (b : bytes) : option time :=
  if forallb (N.eqb 0) b then Some zero_time
  else
    match parse_int (firstn 10 b), parse_zone (skipn 11 b) with
    | Some s, Some z => Some (s, z)
    | _, _ => None
    end.

Definition decode_time_g (strict : bool) (b : bytes) : option time :=
  match decode_time_real b with
  | Some t => if strict && negb (beq (encode_time t) b) then None else Some t
  | None => None
  end.

Definition dec_time (strict : bool) (b : bytes) : option (time * bytes) :=
  match take 16 b with
  | None => None
  | Some (h, b1) =>
      match decode_time_g strict h with
      | Some t => Some (t, b1)
      | None => None
      end
  end.

(** instants that survive the 16-byte field: the zero time (which reads back in UTC),
    or seconds in [-999999999, 9999999999] with a zone of at most 24h59 *)
Definition wf_time (t : time) : Prop :=
  t = zero_time \/
  ((-999999999 <= fst t <= 9999999999)%Z /\ (-1499 <= snd t <= 1499)%Z).

Definition t_time (t : time) : tree := Node [t_Z (fst t); t_Z (snd t)].
Definition d_time (t : tree) : time := (d_Z (d_nth 0 t), d_Z (d_nth 1 t)).
