(** C16 - the progress tracker (pkg/progress/progress.go SingleTracker / joinedTracker) and
    its consumer (cmd/wrgl diff_cmd.go, merge_cmd.go).  Definitions only.

      Start():  go func() { defer close(t.c)
                  for { select { case <-t.done: return
                                 case <-t.ticker.C: t.c <- Event{...} } } }()
      consumer: for { select { case e := <-progChan: ...      (loop of cmd/wrgl)
                               case d, ok := <-dataChan: if !ok { break loop } ... } }
                pt.Stop()
      Stop():   t.ticker.Stop(); close(t.done)
      forms:    [CloseSelect]  the code as it is now (fix "progress tracker goroutine blocked forever ..."):
                               the tick send is `select { case t.c <- ev: case <-t.done: return }`
                [Close]        before that fix: plain `t.c <- ev` (goroutine can stay parked for ever)
                [Handshake]    seeded variant: Stop does `t.done <- true` instead of close(t.done)

    A schedule is any list of actions; a disabled action is a stuttering step. *)
From W.lib Require Import Tree.
From Coq Require Import Arith String.

Inductive tform := Handshake | Close | CloseSelect.
Inductive gst := GSel | GSend | GDone.                 (* the tracker goroutine *)
Inductive cst := CLoop (k : nat) | CStop | CStopSend | CDone.   (* the consumer; k data items left *)
Record tst := mk_tst { tg : gst; tc : cst; tick : bool; stopped : bool; tdone : bool }.

Inductive tact :=
| TTick        (* the ticker fires (its channel has one slot) *)
| TTake        (* goroutine: case <-t.ticker.C *)
| TDeliver     (* goroutine's send on t.c meets the consumer's receive *)
| TData        (* consumer: receives a data item / sees the data channel closed *)
| TStop        (* consumer: pt.Stop() *)
| TDoneRecv.   (* goroutine: case <-t.done (from select, or from the send select of CloseSelect) *)

Definition tstep (f : tform) (a : tact) (s : tst) : option tst :=
  match a with
  | TTick => if stopped s || tick s then None else Some (mk_tst (tg s) (tc s) true (stopped s) (tdone s))
  | TTake => match tg s with
             | GSel => if tick s then Some (mk_tst GSend (tc s) false (stopped s) (tdone s)) else None
             | _ => None
             end
  | TDeliver => match tg s, tc s with
                | GSend, CLoop k => Some (mk_tst GSel (CLoop k) (tick s) (stopped s) (tdone s))
                | _, _ => None
                end
  | TData => match tc s with
             | CLoop (S k) => Some (mk_tst (tg s) (CLoop k) (tick s) (stopped s) (tdone s))
             | CLoop O => Some (mk_tst (tg s) CStop (tick s) (stopped s) (tdone s))
             | _ => None
             end
  | TStop => match tc s, f with
             | CStop, Handshake => Some (mk_tst (tg s) CStopSend (tick s) true (tdone s))
             | CStop, _ => Some (mk_tst (tg s) CDone (tick s) true true)
             | _, _ => None
             end
  | TDoneRecv => match f, tg s, tc s with
                 | Handshake, GSel, CStopSend => Some (mk_tst GDone CDone (tick s) (stopped s) true)
                 | Handshake, _, _ => None
                 | _, GSel, _ => if tdone s then Some (mk_tst GDone (tc s) (tick s) (stopped s) true) else None
                 | CloseSelect, GSend, _ => if tdone s then Some (mk_tst GDone (tc s) (tick s) (stopped s) true) else None
                 | _, _, _ => None
                 end
  end.

Fixpoint trun (f : tform) (sched : list tact) (s : tst) : tst :=
  match sched with
  | [] => s
  | a :: r => match tstep f a s with Some s' => trun f r s' | None => trun f r s end
  end.

Definition tinit (k : nat) : tst := mk_tst GSel (CLoop k) false false false.
Definition consumer_done (s : tst) : bool := match tc s with CDone => true | _ => false end.
Definition goroutine_done (s : tst) : bool := match tg s with GDone => true | _ => false end.
(* steps the consumer itself can take *)
Definition consumer_enabled (f : tform) (s : tst) : Prop :=
  exists s', tstep f TData s = Some s' \/ tstep f TStop s = Some s'.
Definition tenabled (f : tform) (s : tst) : Prop := exists a s', tstep f a s = Some s'.

(** translator constant [progress_tick_send]: how the goroutine sends a tick *)
Definition progress_ok (tick_send : string) : bool := String.eqb tick_send "select-with-done".
Definition progress_form (tick_send : string) : tform := if progress_ok tick_send then CloseSelect else Close.

(* ---------------------------------------------------------------- progress bars of a command *)
(** cmd/wrgl/utils.WithProgressBar + cmd/wrgl ingestTable + Inserter:
      WithProgressBar: defer barContainer.Wait()   -- returns when every STARTED bar is completed
      ingestTable:     blkPT := NewBar(..); defer blkPT.Done(); ... ingest.IngestTable(.., WithProgressBar(blkPT))
      Inserter:        pt.Incr() per saved block (the bar is started lazily by the first Incr);
                       pt.Done() only on the success path of ingestTableFromBlocks
    [defer_done] = the caller completes the bar on every path (the code as it is). *)
Inductive ingest_outcome := IOk | IErr (saved : nat).     (* error after [saved] blocks were saved *)
Definition bar_started (o : ingest_outcome) : bool :=
  match o with IOk => true | IErr saved => negb (Nat.eqb saved 0) end.
Definition bar_done (defer_done : bool) (o : ingest_outcome) : bool :=
  defer_done || match o with IOk => true | IErr _ => false end.
(* what the caller of the command sees: Some 0 = success, Some 1 = the error, None = Wait() never returns *)
Definition command_result (bars_on defer_done : bool) (o : ingest_outcome) : option N :=
  if negb bars_on || negb (bar_started o) || bar_done defer_done o
  then Some (match o with IOk => 0%N | IErr _ => 1%N end) else None.
