(** Specification of the three-way merge (C05), name based.  Definitions only.

    Cell states.  For a key k and a column c a table is in one of the states
      SNoCell   the table has no column c, or (a branch, the base having the row) removed row k
      SVal v    the table has the row and the column, with value v
      SAbsent   only for the base: the base has column c but not row k
    The participating branches are those that have the row, plus - when the base has
    the row - those that removed it.  A branch state that differs from the base
    state is a change.  No change: base state; one distinct change: it; two
    different changes: conflict. *)
From W.lib Require Import Tree Bytes GoSlice.
From W.model Require Import ColDiff Merge.
From Coq Require Import Arith.

Inductive cst := SNoCell | SVal (v : bytes) | SAbsent.

Definition cst_eqb (a b : cst) : bool :=
  match a, b with
  | SNoCell, SNoCell => true
  | SVal x, SVal y => beqb x y
  | SAbsent, SAbsent => true
  | _, _ => false
  end.

Definition changed (bst s : cst) : bool := negb (cst_eqb s bst).

(** two participating branches made different changes *)
Definition conflictb (bst : cst) (sts : list cst) : bool :=
  existsb (fun s1 => existsb (fun s2 => changed bst s1 && changed bst s2 && negb (cst_eqb s1 s2)) sts) sts.

(** the merged state when there is no conflict: the change if one was made, else the base state *)
Definition spec_value (bst : cst) (sts : list cst) : cst :=
  match find (changed bst) sts with Some s => s | None => bst end.

(** a merged row stores "" where the merged table has no cell *)
Definition render (s : cst) : bytes := match s with SVal v => v | _ => [] end.

(** ---- states of a Merge record, read through the ColDiff index maps ---- *)
Definition base_st (cd : coldiff) (m : mrec) (i : nat) : cst :=
  match nth i (cd_base_idx cd) None with
  | None => SNoCell
  | Some j => match m_base m with Some b => SVal (nth j b []) | None => SAbsent end
  end.

Definition layer_cell (cd : coldiff) (l : nat) (r : row) (i : nat) : cst :=
  match nth i (nth l (cd_other_idx cd) []) None with
  | Some j => SVal (nth j r [])
  | None => SNoCell
  end.

Definition layer_states (cd : coldiff) (m : mrec) (i : nat) (lo : nat * option row) : list cst :=
  match snd lo with
  | Some r => [layer_cell cd (fst lo) r i]
  | None => if is_some (m_base m) then [SNoCell] else []
  end.

Definition states (cd : coldiff) (m : mrec) (i : nat) : list cst :=
  flat_map (layer_states cd m i) (combine (seq 0 (length (m_others m))) (m_others m)).

(** some branch removed the row (which the base has) *)
Definition row_removed (m : mrec) : bool :=
  is_some (m_base m) && existsb (fun o => negb (is_some o)) (m_others m).

(** ---- consistency of a ColDiff with its own index maps (what CompareColumns
    establishes for duplicate-free column lists): Added = branch \ base,
    Removed = base \ branch, all maps as long as Names ---- *)
Definition has_col (idx : list (option nat)) (i : nat) : bool := is_some (nth i idx None).

Definition cd_consistent (cd : coldiff) : Prop :=
  length (cd_base_idx cd) = length (cd_names cd) /\
  length (cd_other_idx cd) = cd_layers cd /\
  forall l, l < cd_layers cd ->
    length (nth l (cd_other_idx cd) []) = length (cd_names cd) /\
    forall i, i < length (cd_names cd) ->
      in_added cd l i = has_col (nth l (cd_other_idx cd) []) i && negb (has_col (cd_base_idx cd) i) /\
      in_removed cd l i = has_col (cd_base_idx cd) i && negb (has_col (nth l (cd_other_idx cd) []) i).

(** layers holding the same row sum are interchangeable for the resolver: they must
    then show the same cells through their index maps (true whenever equal cell
    sequences come from equal column lists; FALSE across different layouts - known
    finding merge-rowsum-compared-across-layouts) *)
Definition dedupe_ok (cd : coldiff) (m : mrec) : Prop :=
  forall l l' r r', nth_error (m_others m) l = Some (Some r) -> nth_error (m_others m) l' = Some (Some r') ->
    keqb r r' = true -> forall i, layer_cell cd l r i = layer_cell cd l' r' i.

(** ---- the guarded table-level specification: all tables have the same column
    list, with the key columns first ---- *)
Fixpoint is_prefix_names (p l : list name) : bool :=
  match p, l with
  | [], _ => true
  | x :: p', y :: l' => beqb x y && is_prefix_names p' l'
  | _ :: _, [] => false
  end.

Inductive row_outcome := OStay (r : row) | OGone | OConflict | ORow (r : row).

(** per key, on rows in the common layout: base row [b], branch rows [os] *)
Definition cell_states (b : option row) (os : list (option row)) (i : nat) : list cst :=
  flat_map (fun o => match o with
                     | Some r => [SVal (nth i r [])]
                     | None => if is_some b then [SNoCell] else []
                     end) os.
Definition cell_base (b : option row) (i : nat) : cst :=
  match b with Some r => SVal (nth i r []) | None => SAbsent end.

Definition spec_row (width : nat) (b : option row) (os : list (option row)) : row_outcome :=
  let present := filter is_some os in
  let changed_rows := filter (fun o => negb (sum_eqb o b)) present in
  match b, changed_rows with
  | Some r, [] =>
      if Nat.eqb (length present) (length os) then OStay r      (* nobody touched the row *)
      else OGone                                                (* removed, unchanged elsewhere *)
  | _, _ =>
      if is_some b && negb (Nat.eqb (length present) (length os)) then
        OConflict                                               (* removed vs changed *)
      else if existsb (fun i => conflictb (cell_base b i) (cell_states b os i)) (seq 0 width)
      then OConflict
      else ORow (map (fun i => render (spec_value (cell_base b i) (cell_states b os i))) (seq 0 width))
  end.

(** ---- table level, under the "same layout" guard ---- *)
(** a table in the common layout: columns [cols], key [pk], rows as wide as the columns,
    keys distinct (what ingest produces) *)
Definition wf_table (cols pk : list name) (t : table) : Prop :=
  t_cols t = cols /\ t_pk t = pk /\ (forall r, In r (t_rows t) -> length r = length cols) /\
  NoDup (map (key_of t) (t_rows t)).

(** the guard: duplicate-free columns, the (non-empty) key is a prefix of them, and the base
    and every branch have exactly these columns and this key: merged layout = base layout *)
Definition guard (cols pk : list name) (base : table) (others : list table) : Prop :=
  NoDup cols /\ pk <> [] /\ (exists rest, cols = pk ++ rest) /\ others <> [] /\
  wf_table cols pk base /\ Forall (wf_table cols pk) others.

(** key cells of a row in the common layout: the first |pk| cells *)
Definition kf (p : nat) (r : row) : list bytes := pick (seq 0 p) r.

(** the keys occurring in the base or in a branch *)
Definition table_keys (pk : list name) (base : table) (others : list table) (k : list bytes) : Prop :=
  exists t, (t = base \/ In t others) /\ exists r, In r (t_rows t) /\ kf (length pk) r = k.

(** the row the merge result must hold for key k (None: no row).  Conflicting keys follow the
    caller's policy: 0 = left alone (the base row stays), 1 = dropped (as merge --no-gui does) *)
Definition final_row (cols : list name) (base : table) (others : list table) (policy : nat) (k : list bytes)
  : option row :=
  match spec_row (length cols) (lookup base k) (map (fun o => lookup o k) others) with
  | OStay r | ORow r => Some r
  | OGone => None
  | OConflict => if Nat.eqb policy 0 then lookup base k else None
  end.

Definition outcome_row (o : row_outcome) : option row :=
  match o with OStay r | ORow r => Some r | OGone | OConflict => None end.
Definition is_conflict (o : row_outcome) : bool := match o with OConflict => true | _ => false end.

(** disjoint edits: for a key, the two branches never change the same cell, a removed row is
    untouched by the other branch, and a new key is added by one branch only *)
Definition disjoint_at (n : nat) (b x y : option row) : Prop :=
  match b, x, y with
  | Some br, Some xr, Some yr => forall i, i < n -> nth i xr [] = nth i br [] \/ nth i yr [] = nth i br []
  | Some br, None, Some yr => yr = br
  | Some br, Some xr, None => xr = br
  | Some br, None, None => True
  | None, Some _, Some _ => False
  | None, _, _ => True
  end.

(** the combination of disjoint edits: every changed cell is kept *)
Definition combined (n : nat) (b x y : option row) : option row :=
  match b, x, y with
  | Some br, Some xr, Some yr =>
      Some (map (fun i => if beqb (nth i xr []) (nth i br []) then nth i yr [] else nth i xr []) (seq 0 n))
  | Some _, _, _ => None
  | None, Some xr, _ => Some xr
  | None, None, y => y
  end.
