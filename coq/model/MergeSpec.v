(** Specification of the three-way merge (C05), name based.  Definitions only.

    Cell states.  For a key k and a column c a table is in one of the states
      SNoCell   the table has no column c, or (a branch, the base having the row) removed row k
      SVal v    the table has the row and the column, with value v
      SAbsent   only for the base: the base has column c but not row k
    The participating branches are those that have the row, plus - when the base has
    the row - those that removed it.  A branch state that differs from the base
    state is a change.  No change: base state; one distinct change: it; two
    different changes: conflict. *)
From W.lib Require Import Tree Bytes GoSlice.
From W.model Require Import ColDiff Merge.
From Coq Require Import Arith.

Inductive cst := SNoCell | SVal (v : bytes) | SAbsent.

Definition cst_eqb (a b : cst) : bool :=
  match a, b with
  | SNoCell, SNoCell => true
  | SVal x, SVal y => beqb x y
  | SAbsent, SAbsent => true
  | _, _ => false
  end.

Definition changed (bst s : cst) : bool := negb (cst_eqb s bst).

(** two participating branches made different changes *)
Definition conflictb (bst : cst) (sts : list cst) : bool :=
  existsb (fun s1 => existsb (fun s2 => changed bst s1 && changed bst s2 && negb (cst_eqb s1 s2)) sts) sts.

(** the merged state when there is no conflict: the change if one was made, else the base state *)
Definition spec_value (bst : cst) (sts : list cst) : cst :=
  match find (changed bst) sts with Some s => s | None => bst end.

(** a merged row stores "" where the merged table has no cell *)
Definition render (s : cst) : bytes := match s with SVal v => v | _ => [] end.

(** ---- states of a Merge record, read through the ColDiff index maps ---- *)
Definition base_st (cd : coldiff) (m : mrec) (i : nat) : cst :=
  match nth i (cd_base_idx cd) None with
  | None => SNoCell
  | Some j => match m_base m with Some b => SVal (nth j b []) | None => SAbsent end
  end.

Definition layer_cell (cd : coldiff) (l : nat) (r : row) (i : nat) : cst :=
  match nth i (nth l (cd_other_idx cd) []) None with
  | Some j => SVal (nth j r [])
  | None => SNoCell
  end.

Definition layer_states (cd : coldiff) (m : mrec) (i : nat) (lo : nat * option row) : list cst :=
  match snd lo with
  | Some r => [layer_cell cd (fst lo) r i]
  | None => if is_some (m_base m) then [SNoCell] else []
  end.

Definition states (cd : coldiff) (m : mrec) (i : nat) : list cst :=
  flat_map (layer_states cd m i) (combine (seq 0 (length (m_others m))) (m_others m)).

(** some branch removed the row (which the base has) *)
Definition row_removed (m : mrec) : bool :=
  is_some (m_base m) && existsb (fun o => negb (is_some o)) (m_others m).

(** ---- consistency of a ColDiff with its own index maps (what CompareColumns
    establishes for duplicate-free column lists): Added = branch \ base,
    Removed = base \ branch, all maps as long as Names ---- *)
Definition has_col (idx : list (option nat)) (i : nat) : bool := is_some (nth i idx None).

Definition cd_consistent (cd : coldiff) : Prop :=
  length (cd_base_idx cd) = length (cd_names cd) /\
  length (cd_other_idx cd) = cd_layers cd /\
  forall l, l < cd_layers cd ->
    length (nth l (cd_other_idx cd) []) = length (cd_names cd) /\
    forall i, i < length (cd_names cd) ->
      in_added cd l i = has_col (nth l (cd_other_idx cd) []) i && negb (has_col (cd_base_idx cd) i) /\
      in_removed cd l i = has_col (cd_base_idx cd) i && negb (has_col (nth l (cd_other_idx cd) []) i).

(** layers holding the same row sum are interchangeable for the resolver: they must
    then show the same cells through their index maps (true whenever equal cell
    sequences come from equal column lists; FALSE across different layouts - known
    finding merge-rowsum-compared-across-layouts) *)
Definition dedupe_ok (cd : coldiff) (m : mrec) : Prop :=
  forall l l' r r', nth_error (m_others m) l = Some (Some r) -> nth_error (m_others m) l' = Some (Some r') ->
    keqb r r' = true -> forall i, layer_cell cd l r i = layer_cell cd l' r' i.

(** ---- the guarded table-level specification: all tables have the same column
    list, with the key columns first ---- *)
Fixpoint is_prefix_names (p l : list name) : bool :=
  match p, l with
  | [], _ => true
  | x :: p', y :: l' => beqb x y && is_prefix_names p' l'
  | _ :: _, [] => false
  end.

Inductive row_outcome := OStay (r : row) | OGone | OConflict | ORow (r : row).

(** per key, on rows in the common layout: base row [b], branch rows [os] *)
Definition cell_states (b : option row) (os : list (option row)) (i : nat) : list cst :=
  flat_map (fun o => match o with
                     | Some r => [SVal (nth i r [])]
                     | None => if is_some b then [SNoCell] else []
                     end) os.
Definition cell_base (b : option row) (i : nat) : cst :=
  match b with Some r => SVal (nth i r []) | None => SAbsent end.

Definition spec_row (width : nat) (b : option row) (os : list (option row)) : row_outcome :=
  let present := filter is_some os in
  let changed_rows := filter (fun o => negb (sum_eqb o b)) present in
  match b, changed_rows with
  | Some r, [] =>
      if Nat.eqb (length present) (length os) then OStay r      (* nobody touched the row *)
      else OGone                                                (* removed, unchanged elsewhere *)
  | _, _ =>
      if is_some b && negb (Nat.eqb (length present) (length os)) then
        OConflict                                               (* removed vs changed *)
      else if existsb (fun i => conflictb (cell_base b i) (cell_states b os i)) (seq 0 width)
      then OConflict
      else ORow (map (fun i => render (spec_value (cell_base b i) (cell_states b os i))) (seq 0 width))
  end.
