(** Model of ref.IsAncestorOf (pkg/ref/commits_queue.go) and ref.SeekCommonAncestor
    (pkg/ref/utils.go), loop for loop, plus the tree coders of the C11 harness.
    Definitions only.

    SeekCommonAncestor:
      1. pre-check: the first input i (n > 1) such that IsAncestorOf(c_i, c_j) = (true, nil)
         for every other POSITION j is returned (an error counts as "no");
      2. one queue per input ("walker" = (bases[i], qs[i])); rounds of
         a. [elim]: for i downwards, for j downwards, j <> i: if qs[j].Seen(bases[i])
            delete j from both slices and, if i > j, i--;
         b. if one walker is left: return its base;
         c. every queue does PopInsertParents (EOF: base = nil, counted), an error aborts;
         d. all EOF: "common ancestor commit not found".
    Exchange format (harness/c11.go):
      case  = (kind graph (query ...)); graph = (node ...), node i = (time (parent ...) present)
      kind 0: query (a b)            obs (0 bool) | (1)
      kind 1: query (c ...)          obs (0 idx) | (1) error | (2) not found | (3) nil,nil
      kind 2: query (exact (root ...)) obs (status (popped ...)); exact = 0: popped sorted
      kind 3: NewCommitsQueue(roots), then PopUntil(t) for each target in turn:
              query (exact (root ...) (target ...))
              obs (status (tobs ...) (remaining ...) (seen ...)), status 1 = NewCommitsQueue failed;
              tobs = (0 (popped ...)) returned the target | (1 (popped ...)) EOF | (2 ()) error (stops;
              remaining and seen are then reported empty); remaining = queue content afterwards,
              seen = the seen set (sorted); exact = 0: popped and remaining sorted
      kind 4: NewCommitsQueue(roots), npops x PopInsertParents (stopping at EOF), RemoveAncestors(sums):
              query (exact (root ...) npops (sum ...))
              obs (status (remaining ...) (seen ...)), status 1 = NewCommitsQueue failed, 2 = a pop failed,
              3 = RemoveAncestors returned an error
      kind 5: the merge command (runMerge through wrgl.VerifRunMerge): heads/main = first head, the
              others passed as hex sums; query (head ...), obs as kind 1 = the base the command used
      observation = (obs ...). *)
From W.lib Require Import Tree GoSort.
From W.model Require Import Graph Queue.
From Coq Require Import List NArith ZArith Bool Arith.
Import ListNotations.

(** the deletion loops of step 2a over any element type *)
Section Elim.
  Variable A : Type.
  Variable fires : A -> A -> bool.    (* fires e w  =  qs[w].Seen(bases[e]) *)
  Variable d : A.

  Definition remove_nth (j : nat) (l : list A) : list A := firstn j l ++ skipn (S j) l.

  (* for j := jj-1; j >= 0; j-- { ... }  returns the adjusted i and the slices *)
  Fixpoint elim_inner (jj i : nat) (st : list A) : nat * list A :=
    match jj with
    | O => (i, st)
    | S j =>
        if Nat.eqb i j then elim_inner j i st
        else if fires (nth i st d) (nth j st d)
             then elim_inner j (if Nat.ltb j i then pred i else i) (remove_nth j st)
             else elim_inner j i st
    end.

  (* for i := ii-1; i >= 0; i-- { inner }   ([fuel] >= ii; i never grows) *)
  Fixpoint elim_outer (fuel ii : nat) (st : list A) : list A :=
    match fuel with
    | O => st
    | S f =>
        match ii with
        | O => st
        | S i => let '(i', st') := elim_inner (length st) i st in elim_outer f i' st'
        end
    end.

  Definition elim (st : list A) : list A := elim_outer (length st) (length st) st.
End Elim.

Record walker := mk_w { w_base : option id; w_q : cq }.
Definition w_dummy : walker := mk_w None (mk_cq [] []).

(* qs[w].Seen(bases[e]); a nil base is the empty string, which no queue has seen *)
Definition w_fires (e w : walker) : bool :=
  match w_base e with
  | None => false
  | Some x => seen (w_q w) x
  end.

Inductive seekres :=
| SFound (x : id)
| SNil            (* (nil, nil) *)
| SNotFound       (* "common ancestor commit not found" *)
| SErr            (* GetCommit error *)
| SFuel.

Section Generic.
  Variable g : graph.
  Variable ins : id -> list id -> list id.
  Variable srt : list id -> list id.

  (** IsAncestorOf(commit1 = a, commit2 = b) *)
  Fixpoint anc_loop (fuel : nat) (q : cq) (a : id) : outcome bool :=
    match fuel with
    | O => Fuel
    | S f =>
        match pop_insert_parents g ins q with
        | PEof => Ok false
        | PErr => Err
        | POk x q' => if N.eqb x a then Ok true else anc_loop f q' a
        end
    end.

  Definition is_ancestor_of (a b : id) : outcome bool :=
    match new_queue g srt [b] with
    | Ok q => anc_loop (walk_fuel g) q a
    | Err => Err
    | Fuel => Fuel
    end.

  Definition anc_true (c d : id) : bool :=
    match is_ancestor_of c d with Ok true => true | _ => false end.

  (* the pre-check over positions *)
  Definition indexed (cs : list id) : list (nat * id) := combine (seq 0 (length cs)) cs.
  Definition is_base_at (ics : list (nat * id)) (ic : nat * id) : bool :=
    forallb (fun jd => Nat.eqb (fst ic) (fst jd) || anc_true (snd ic) (snd jd)) ics.
  Definition pre_check (cs : list id) : option id :=
    if Nat.ltb 1 (length cs)
    then match find (is_base_at (indexed cs)) (indexed cs) with
         | Some ic => Some (snd ic)
         | None => None
         end
    else None.

  Fixpoint init_walkers (cs : list id) : outcome (list walker) :=
    match cs with
    | [] => Ok []
    | c :: r =>
        match new_queue g srt [c] with
        | Ok q => match init_walkers r with
                  | Ok ws => Ok (mk_w (Some c) q :: ws)
                  | Err => Err
                  | Fuel => Fuel
                  end
        | Err => Err
        | Fuel => Fuel
        end
    end.

  (* step 2c; the count of EOFs *)
  Fixpoint pop_all (st : list walker) : outcome (list walker * nat) :=
    match st with
    | [] => Ok ([], 0)
    | w :: r =>
        match pop_insert_parents g ins (w_q w) with
        | PErr => Err
        | PEof =>
            match pop_all r with
            | Ok (r', e) => Ok (mk_w None (w_q w) :: r', S e)
            | Err => Err
            | Fuel => Fuel
            end
        | POk x q' =>
            match pop_all r with
            | Ok (r', e) => Ok (mk_w (Some x) q' :: r', e)
            | Err => Err
            | Fuel => Fuel
            end
        end
    end.

  Fixpoint seek_loop (fuel : nat) (st : list walker) : seekres :=
    match fuel with
    | O => SFuel
    | S f =>
        let st1 := elim walker w_fires w_dummy st in
        if Nat.eqb (length st1) 1
        then match w_base (hd w_dummy st1) with Some x => SFound x | None => SNil end
        else match pop_all st1 with
             | Err => SErr
             | Fuel => SFuel
             | Ok (st2, eofs) =>
                 if Nat.eqb eofs (length st2) then SNotFound else seek_loop f st2
             end
    end.

  (* every round that does not end the loop pops at least one commit; each of the
     n queues can pop at most |g| commits *)
  Definition seek_fuel (n : nat) : nat := S (S (n * length g)).

  Definition seek_common_ancestor (cs : list id) : seekres :=
    match pre_check cs with
    | Some c => SFound c
    | None =>
        match init_walkers cs with
        | Ok st => seek_loop (seek_fuel (length cs)) st
        | Err => SErr
        | Fuel => SFuel
        end
    end.
End Generic.

(** the instances the Go code runs *)
Definition t_is_ancestor_of (g : graph) := is_ancestor_of g (ins_time g) (srt_time g).
Definition t_seek (g : graph) := seek_common_ancestor g (ins_time g) (srt_time g).

(** cmd/wrgl/merge_cmd.go runMerge: commits = [branch head; the other heads in argument
    order]; the base is ONE call  ref.SeekCommonAncestor(db, commits...)  over all heads
    (an error, "not found" included, aborts the merge). *)
Definition merge_base (g : graph) ins srt (heads : list id) : seekres :=
  seek_common_ancestor g ins srt heads.
Definition t_merge_base (g : graph) := merge_base g (ins_time g) (srt_time g).

(** NOT what the code does (kept for the refutation C11_fold_not_all_at_once_refuted):
    folding the two-input search over the heads from the left *)
Fixpoint seek_fold_loop (g : graph) ins srt (base : id) (cs : list id) : seekres :=
  match cs with
  | [] => SFound base
  | c :: r =>
      match seek_common_ancestor g ins srt [base; c] with
      | SFound b => seek_fold_loop g ins srt b r
      | e => e
      end
  end.
Definition seek_fold (g : graph) ins srt (cs : list id) : seekres :=
  match cs with
  | [] => seek_common_ancestor g ins srt []
  | c :: r => seek_fold_loop g ins srt c r
  end.
Definition t_seek_fold (g : graph) := seek_fold g (ins_time g) (srt_time g).

(** tree coders (trusted only by the correspondence) *)
Fixpoint d_graph (i : N) (ns : list tree) : graph :=
  match ns with
  | [] => []
  | n :: r =>
      let rest := d_graph (N.succ i) r in
      if d_bool (d_nth 2 n)
      then (i, (Z.of_N (d_N (d_nth 0 n)), d_list d_N (d_nth 1 n))) :: rest
      else rest
  end.

Definition t_id (x : id) : tree := Leaf x.

Fixpoint nins (x : N) (l : list N) : list N :=
  match l with
  | [] => [x]
  | y :: r => if N.leb x y then x :: y :: r else y :: nins x r
  end.
Definition nsort (l : list N) : list N := fold_right nins [] l.

Definition ord (exact : bool) (l : list id) : list id := if exact then l else nsort l.

Fixpoint pu_run (g : graph) (exact : bool) (q : cq) (ts : list id) (acc : list tree) : tree :=
  match ts with
  | [] => Node [Leaf 0; Node (rev acc); t_list t_id (ord exact (q_items q)); t_list t_id (nsort (q_seen q))]
  | b :: r =>
      match t_pop_until g q b with
      | Ok (Some _, q', l) => pu_run g exact q' r (Node [Leaf 0; t_list t_id (ord exact l)] :: acc)
      | Ok (None, q', l) => pu_run g exact q' r (Node [Leaf 1; t_list t_id (ord exact l)] :: acc)
      | Err => Node [Leaf 0; Node (rev (Node [Leaf 2; Node []] :: acc)); Node []; Node []]
      | Fuel => Node [Leaf 9]
      end
  end.

(* npops x PopInsertParents, stopping at EOF; None = a pop failed *)
Fixpoint pre_pops (g : graph) (n : nat) (q : cq) : option cq :=
  match n with
  | O => Some q
  | S n' =>
      match t_pop_insert_parents g q with
      | PEof => Some q
      | PErr => None
      | POk _ q' => pre_pops g n' q'
      end
  end.

Definition run_query (kind : nat) (g : graph) (q : tree) : tree :=
  match kind with
  | 0%nat =>
      match t_is_ancestor_of g (d_N (d_nth 0 q)) (d_N (d_nth 1 q)) with
      | Ok b => Node [Leaf 0; t_bool b]
      | Err => Node [Leaf 1]
      | Fuel => Node [Leaf 9]
      end
  | 1%nat =>
      match t_seek g (d_list d_N q) with
      | SFound x => Node [Leaf 0; t_id x]
      | SErr => Node [Leaf 1]
      | SNotFound => Node [Leaf 2]
      | SNil => Node [Leaf 3]
      | SFuel => Node [Leaf 9]
      end
  | 2%nat =>
      let '(status, popped) := t_walk g (d_list d_N (d_nth 1 q)) in
      let popped' := if d_bool (d_nth 0 q) then popped else nsort popped in
      Node [t_nat status; t_list t_id popped']
  | 3%nat =>
      match t_new_queue g (d_list d_N (d_nth 1 q)) with
      | Ok q0 => pu_run g (d_bool (d_nth 0 q)) q0 (d_list d_N (d_nth 2 q)) []
      | _ => Node [Leaf 1; Node []; Node []; Node []]
      end
  | 5%nat =>
      match t_merge_base g (d_list d_N q) with
      | SFound x => Node [Leaf 0; t_id x]
      | SErr => Node [Leaf 1]
      | SNotFound => Node [Leaf 2]
      | SNil => Node [Leaf 3]
      | SFuel => Node [Leaf 9]
      end
  | _ =>
      let exact := d_bool (d_nth 0 q) in
      match t_new_queue g (d_list d_N (d_nth 1 q)) with
      | Ok q0 =>
          match pre_pops g (d_nat (d_nth 2 q)) q0 with
          | Some q1 =>
              match t_remove_ancestors g q1 (d_list d_N (d_nth 3 q)) with
              | Ok q2 => Node [Leaf 0; t_list t_id (ord exact (q_items q2)); t_list t_id (nsort (q_seen q2))]
              | Err => Node [Leaf 3; Node []; Node []]
              | Fuel => Node [Leaf 9]
              end
          | None => Node [Leaf 2; Node []; Node []]
          end
      | _ => Node [Leaf 1; Node []; Node []]
      end
  end.

Definition run_C11 (c : tree) : tree :=
  let kind := d_nat (d_nth 0 c) in
  let g := d_graph 0 (d_list (fun x => x) (d_nth 1 c)) in
  Node (map (run_query kind g) (d_list (fun x => x) (d_nth 2 c))).
