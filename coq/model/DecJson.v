(** Model of payload.Hex.UnmarshalJSON (pkg/api/payload/hex.go), the custom JSON decoder every
    sum in a remote's JSON reply goes through, with encoding/hex.Decode's write into the
    destination array as an explicit index.  Definitions only.

    [checked = true]: the code as it is (after fix 7e27cd0): the value must be a quoted string
    and must not decode to more than 16 bytes.  [checked = false]: the code before the fix
    (slice b[1:len(b)-1] and hex.Decode straight into the 16-byte array). *)
From Coq Require Import List Lia Arith ZArith.
From W.lib Require Import Tree Bytes GoSlice Reader.
From W.model Require Import DecPrim DecPack.
Local Open Scope N_scope.

(** hex.Decode(dst, src) with len(dst) = dst_len: the decoded bytes; Panic when dst[i] is
    written with i >= dst_len; an error on a non-hex character or an odd length *)
Fixpoint hex_decode_loop (dst_len i : nat) (src : bytes) (acc : bytes) : res bytes :=
  match src with
  | [] => Ok acc
  | [_] => Err COther                                  (* ErrLength / InvalidByteError *)
  | a :: b :: rest =>
      match hexval a, hexval b with
      | Some x, Some y =>
          if (dst_len <=? i)%nat then Panic            (* dst[i] = ... *)
          else hex_decode_loop dst_len (S i) rest (acc ++ [x * 16 + y])
      | _, _ => Err COther
      end
  end.
Definition hex_decode (dst_len : nat) (src : bytes) : res bytes := hex_decode_loop dst_len 0 src [].

Definition quote : N := 34.

(** Hex.UnmarshalJSON(b): the 16-byte array afterwards (a shorter string fills a prefix) *)
Definition hex_unmarshal (checked : bool) (b : bytes) : res bytes :=
  if checked && ((length b <? 2)%nat || negb (nth 0 b 0 =? quote) || negb (last b 0 =? quote))
  then Err COther
  else
    match slice_range b 1 (length b - 1) with            (* b[1 : len(b)-1] *)
    | Ok inner =>
        if checked && (16 <? length inner / 2)%nat then Err COther
        else match hex_decode 16 inner with
             | Ok d => Ok (pad 16 d)
             | Err e => Err e
             | Panic => Panic
             end
    | Err e => Err e
    | Panic => Panic
    end.
