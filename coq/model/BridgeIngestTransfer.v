(** Bridge B3 (C01/C03 -> C07): from the tables and store writes of the ingest model
    (model/Ingest.v, model/IngestSpec.v) to the repository state of the transfer model
    (model/Transfer.v, model/TransferSpec.v).  Definitions only; proofs are in
    proofs/BridgeIngestTransfer_proofs.v, statements in props/ComposeB3.v.

    The two representations.
      ingest   : a table carries its blocks and block indices AS CONTENTS
                 ([t_blocks : list (list row)], [t_blockidx : list blkidx]); the store is
                 the ordered list of written objects [list wobj].
      transfer : everything is an abstract id (an [N]); a table is (number of columns, pk,
                 list of (block id, recorded block-index name), rest); a block-index is
                 NAMED by the pair (pk, block id) it is the index of ([Transfer.xid]);
                 the row shape of a block is a function [bshape] of its id.
    The abstraction therefore goes through id functions, Section variables standing for
    MeowHash exactly like [table_id] of IngestSpec.v:
      [Hb] block sum, [Hi] block-index sum, [Ht] table sum (= [table_id Hb Hi Ht]),
      [Hz] identity of the compressed block bytes, [Hr] "the rest of the table bytes"
      (column names, row count).  NOTHING is assumed of them here; the theorems state
      which (restricted) injectivity / consistency facts they need. *)
From W.lib Require Import Tree Bytes.
From W.model Require Import Sorter SorterSpec Ingest IngestSpec.
From W.model Require Transfer TransferSpec.
From Coq Require Import Arith Sorting.Permutation.
Local Open Scope N_scope.

(** row shape of a block, in the encoding of [Transfer.bshape]:
    0 = no rows, 1 = ragged, w+2 = every row has w cells *)
Definition shape_of (blk : list row) : N :=
  match blk with
  | [] => 0
  | r :: rest => if forallb (fun r' => Nat.eqb (length r') (length r)) rest
                 then N.of_nat (length r) + 2 else 1
  end.

Definition pkN (pk : list nat) : list N := map N.of_nat pk.

(** the written objects of a write list, by kind *)
Definition w_blocks (w : list wobj) : list (list row) :=
  flat_map (fun o => match o with WBlock b => [b] | _ => [] end) w.
Definition w_idxs (w : list wobj) : list blkidx :=
  flat_map (fun o => match o with WBlockIdx i => [i] | _ => [] end) w.
Definition w_tblidx (w : list wobj) : list table :=
  flat_map (fun o => match o with WTableIdx T _ => [T] | _ => [] end) w.
Definition w_tables (w : list wobj) : list table :=
  flat_map (fun o => match o with WTable T => [T] | _ => [] end) w.

(** a crash during the writes: the store holds a prefix of them *)
Definition crash_prefix (p w : list wobj) : Prop := exists q, w = p ++ q.

Section Bridge.
  Variable H : list bytes -> N.                 (* hash of a cell list (Ingest.v) *)
  Variable Hb : list row -> N.                  (* block sum *)
  Variable Hz : list row -> N.                  (* identity of the compressed block bytes *)
  Variable Hi : blkidx -> N.                    (* block-index sum *)
  Variable Ht : list bytes * list nat * N * list N * list N -> N.   (* table sum *)
  Variable Hr : list bytes -> N -> N.           (* rest of the table bytes *)

  Definition tid (T : table) : N := table_id Hb Hi Ht T.

  (** The name of the block index RECORDED in a table next to block [blk]: the transfer
      model only ever asks of a recorded name whether it equals [reindex pk b] (IndexTable
      compares the recorded sum with the sum of the index it has just rebuilt), so the
      recorded content [i] is named (pk, b) exactly when its sum is the sum of
      [index_block H pk blk], and by a name different from (pk, b) otherwise. *)
  Definition abs_xid (pk : list nat) (blk : list row) (i : blkidx) : Transfer.xid :=
    if Hi i =? Hi (index_block H pk blk) then Transfer.reindex (pkN pk) (Hb blk)
    else (pkN pk ++ [0], Hb blk).

  (** the table object as the transfer model sees it ([Table.ReadFrom] reads as many
      block-index sums as block sums, hence [combine]; a sound table has equally many) *)
  Definition abs_table (T : table) : Transfer.table :=
    Transfer.mkTable
      (N.of_nat (length (t_columns T)))
      (pkN (t_pk T))
      (map (fun p => (Hb (fst p), abs_xid (t_pk T) (fst p) (snd p)))
           (combine (t_blocks T) (t_blockidx T)))
      (Hr (t_columns T) (t_rowscount T)).

  (** the stores (newest write first, like [Transfer.put_*]; every object under its sum -
      that a Save keys an object by the hash of its content is C06_key_is_hash) *)
  Definition abs_blocks (w : list wobj) : list (N * N) :=
    map (fun b => (Hb b, Hz b)) (rev (w_blocks w)).
  Definition abs_tables (w : list wobj) : list (N * Transfer.table) :=
    map (fun T => (tid T, abs_table T)) (rev (w_tables w)).
  Definition abs_tblidx (w : list wobj) : list N := map tid (rev (w_tblidx w)).
  (** a block-index name (pk, b) is present when the index content it denotes has been
      written; pk ranges over the keys of the stored tables, b over the stored blocks
      (no other name is ever asked for by the tables of this store) *)
  Definition abs_blkidx (w : list wobj) : list Transfer.xid :=
    flat_map (fun T =>
      flat_map (fun blk =>
        if Transfer.memN (Hi (index_block H (t_pk T) blk)) (map Hi (w_idxs w))
        then [Transfer.reindex (pkN (t_pk T)) (Hb blk)] else [])
        (w_blocks w))
      (w_tables w).

  (** The repository holding the objects written by [w].  The ingest model records neither
      commits nor table profiles (Ingest.v: "Not modelled: profile"; the code writes the
      profile between the table index and the table when the sorter has a summary), so
      the commit objects [cs] and the set [pf] of table ids that have a profile are given
      from outside. *)
  Definition repo_of_writes (cs : list (N * Transfer.commit)) (pf : list N) (w : list wobj)
    : Transfer.repo :=
    Transfer.mkRepo cs (abs_tables w) (abs_blocks w) (abs_blkidx w) (abs_tblidx w) pf.

  (** every stored table object has its profile *)
  Definition profiles_cover (pf : list N) (w : list wobj) : Prop :=
    forall T, In (WTable T) w -> In (tid T) pf.

  (** [bshape] agrees with the rows of the stored blocks (the shape of a block is a
      function of its content, hence of its id: implied by injectivity of [Hb]) *)
  Definition shape_consistent (bshape : N -> N) (w : list wobj) : Prop :=
    forall blk, In (WBlock blk) w -> bshape (Hb blk) = shape_of blk.

  (** the canonical shape function of a finite store: look the id up among the stored
      blocks ([shape_consistent] holds for it as soon as [Hb] is injective on them) *)
  Definition bshape_for (w : list wobj) (n : N) : N :=
    match find (fun b => Hb b =? n) (w_blocks w) with Some b => shape_of b | None => 0 end.

  (** hash injectivity, restricted to the objects of two write lists *)
  Definition blocks_inj (w1 w2 : list wobj) : Prop :=
    forall a b, In (WBlock a) w1 -> In (WBlock b) w2 -> Hb a = Hb b -> a = b.
  Definition tables_inj (w1 w2 : list wobj) : Prop :=
    forall A B, In (WTable A) w1 -> In (WTable B) w2 -> tid A = tid B ->
      t_columns A = t_columns B /\ t_pk A = t_pk B /\ t_rowscount A = t_rowscount B /\
      map Hb (t_blocks A) = map Hb (t_blocks B).

  (** what the transfer side needs of a write list: every table OBJECT in it is sound
      (C03) and its blocks, block indices and table index are in it too *)
  Definition writes_sound (w : list wobj) : Prop :=
    forall T, In (WTable T) w ->
      (exists tidx, WF_table H T tidx /\ In (WTableIdx T tidx) w) /\
      (forall blk, In blk (t_blocks T) -> In (WBlock blk) w) /\
      (forall i, In i (t_blockidx T) -> In (WBlockIdx i) w).

  (** * Ingest runs: the two producer paths of C03 *)
  Inductive job :=
  | JCsv (sort_rows : list nat -> list row -> list row)
         (arrive : list asyncblock -> list asyncblock)
         (run_size : N) (columns pknames : list bytes) (rows : list row)
  | JSorter (sort_rows : list nat -> list row -> list row)
            (arrive : list asyncblock -> list asyncblock)
            (columns : list bytes) (pk : list nat) (s : sorter).

  Definition job_result (j : job) : ingest_result * list wobj :=
    match j with
    | JCsv sort_rows arrive run_size columns pknames rows =>
        ingest_table H sort_rows arrive run_size columns pknames rows
    | JSorter sort_rows arrive columns pk s =>
        ingest_from_sorter H sort_rows arrive columns pk s
    end.
  Definition job_writes (j : job) : list wobj := snd (job_result j).

  (** exactly the premises of C03_ingest_wf / C03_sorter_any_rows_wf *)
  Definition job_ok (j : job) : Prop :=
    match j with
    | JCsv sort_rows arrive run_size columns pknames rows =>
        sort_ok (length columns) sort_rows /\ any_arrival arrive /\
        incl pknames columns /\ NoDup pknames /\
        wf_rows (length columns) rows /\ cells_in_limit rows
    | JSorter sort_rows arrive columns pk s =>
        any_arrival arrive /\ wf_pk (length columns) pk /\ NoDup pk /\
        exists rows, wf_rows (length columns) rows /\
                     Permutation (concat (runs_of sort_rows pk s)) rows /\
                     Forall (run_sorted pk) (runs_of sort_rows pk s)
    end.

  (** everything written by a sequence of ingests, in order *)
  Definition all_writes (js : list job) : list wobj := concat (map job_writes js).

  (** the tables produced by the jobs *)
  Definition job_table (j : job) : option table :=
    match fst (job_result j) with IOk T _ => Some T | _ => None end.
End Bridge.
