(** Decoder models, part 2: string / uint32 / float64 lists and block validation.
    (pkg/objects/{str_list.go,uint_list.go,float_list.go,block.go ValidateBlockBytes})
    Definitions only.

    [pc : precap] is the pre-allocation discipline: [Capped 1024] is the code as it is
    (maxPrealloc), [Uncapped] the code before fix b9fd78c (make sized by the count field).
    [checked : bool] in the validators: [true] is the code as it is, [false] the code before
    fix 8ed4fbc (no length checks before indexing). *)
From Coq Require Import String.
From Coq Require Import List Lia Arith ZArith.
From W.lib Require Import Tree Bytes GoSlice Reader.
From W.model Require Import DecPrim.
Local Open Scope N_scope.
Local Open Scope prog_scope.

(** sizes used by the meter: string header 16, slice header 24, pointer 8 *)
Definition sz_string : N := 16.
Definition sz_slice : N := 24.

(** ensureBufSize: d.buf doubles until it can hold n bytes.
    [ensure_buf cap n] = (capacity afterwards, bytes allocated on the way). *)
Fixpoint ensure_buf_loop (fuel : nat) (cap n cost : N) : N * N :=
  match fuel with
  | O => (cap, cost)
  | S f => if n <=? cap then (cap, cost) else ensure_buf_loop f (2 * cap) n (cost + 2 * cap)
  end.
Definition ensure_buf (cap n : N) : N * N := ensure_buf_loop (S (N.to_nat (N.size n))) cap n 0.

(** StrListDecoder.Read (reuseRecords = false).  The decoder's scratch buffer d.buf lives as
    long as the decoder, so its capacity [cap] (4 for a new decoder) is threaded through.
    The "EOF on the last cell" case: a 0-byte EOF while reading the LAST cell's bytes is
    not an error, the cell is "". *)
Definition strlist_cell (count i : N) (st : list bytes * N) : prog (list bytes * N) :=
  let '(sl, cap) := st in
  '(lb, e) <- rdf S_slist_u16 2 ;;                      (* readUint16 *)
  match e with
  | Some c => Fail c
  | None =>
      l <- lift (be_u16 (pad 2 lb)) ;;
      if l =? 0 then _ <- alloc sz_string ;; Ret (sl ++ [[]], cap)
      else
        let '(cap', cost) := ensure_buf cap l in           (* d.ensureBufSize(int(l)) *)
        _ <- alloc cost ;;
        if l <=? cap' then                                 (* d.buf[:l] *)
          '(d, e2) <- rdf S_slist_cell (N.to_nat l) ;;
          _ <- alloc (sz_string + N.of_nat (length d)) ;;  (* append(sl, string(d.buf[:n])) *)
          if ioerr_is_eof e2 && (i =? count - 1) then Ret (sl ++ [d], cap')   (* break *)
          else match e2 with Some c => Fail c | None => Ret (sl ++ [d], cap') end
        else Crash
  end.

(* NewStrListDecoder: buf = make([]byte, 4) *)
Definition strlist_cap0 : N := 4.

(** The two modes of the list decoders.  New...Decoder(true) ("reuseRecords") keeps a result
    slice of capacity 256 in the decoder; strSlice / makeUintSlice / makeFloatSlice then
    allocate only when the (capped) count n exceeds that capacity, and allocate n elements.
    New...Decoder(false) allocates n elements at every call.  [ru] = the reuse flag;
    [n] is the count AFTER the maxPrealloc clamp ([prealloc pc count]): a clamp that covers
    only one of the two branches is the [Uncapped] discipline on the other. *)
Definition reuse_cap0 : N := 256.
Definition prealloc_cost (ru : bool) (esz n : N) : N :=
  if ru then (if reuse_cap0 <? n then esz * n else 0) else esz * n.
(* what the constructor allocates besides the scratch buffer *)
Definition ctor_cost (ru : bool) (esz : N) : N := if ru then esz * reuse_cap0 else 0.

Definition strlist_read_g (ru : bool) (pc : precap) (F : nat) (cap : N) : prog (list bytes * N) :=
  cb <- rd_exact S_slist_u32 4 ;;                        (* readUint32 *)
  count <- lift (be_u32 cb) ;;
  _ <- alloc (prealloc_cost ru sz_string (prealloc pc count)) ;;   (* strSlice *)
  for_n F (strlist_cell count) count 0 ([], cap).
Definition strlist_read := strlist_read_g false.

(* a fresh decoder reading one record *)
Definition strlist_read1 (pc : precap) (F : nat) : prog (list bytes) :=
  _ <- alloc 4 ;;
  '(sl, _) <- strlist_read pc F strlist_cap0 ;;
  Ret sl.
Definition strlist_read1_reuse (pc : precap) (F : nat) : prog (list bytes) :=
  _ <- alloc (4 + ctor_cost true sz_string) ;;           (* NewStrListDecoder(true) *)
  '(sl, _) <- strlist_read_g true pc F strlist_cap0 ;;
  Ret sl.

(** StrListDecoder.ReadBytes (reuseRecords = false): the raw bytes of one record, which is
    kept whole in d.buf.
    Errors are wrapped with %w: the class is kept. *)
Definition strlist_rb_cell (count i : N) (st : bytes * N) : prog (bytes * N) :=
  let '(acc, cap) := st in
  let n := N.of_nat (length acc) in
  let '(cap1, c1) := ensure_buf cap (n + 2) in
  _ <- alloc c1 ;;
  if n + 2 <=? cap1 then                                  (* d.buf[n:n+2] *)
    '(lb, e1) <- rdf S_slist_rb1 2 ;;
    match e1 with
    | Some c => Fail c
    | None =>
        l <- lift (be_u16 (pad 2 lb)) ;;
        let '(cap2, c2) := ensure_buf cap1 (n + 2 + l) in
        _ <- alloc c2 ;;
        if n + 2 + l <=? cap2 then                        (* d.buf[n:n+l] *)
          '(d, e2) <- rdf S_slist_rb2 (N.to_nat l) ;;
          let acc' := acc ++ lb ++ d in
          if ioerr_is_eof e2 && (i =? count - 1) then Ret (acc', cap2)
          else match e2 with Some c => Fail c | None => Ret (acc', cap2) end
        else Crash
    end
  else Crash.

Definition strlist_read_bytes_g (ru : bool) (F : nat) : prog bytes :=
  '(hb, e) <- rdf S_slist_rb0 4 ;;
  match e with
  | Some c => Fail c
  | None =>
      count <- lift (be_u32 (pad 4 hb)) ;;
      '(acc, _) <- for_n F (strlist_rb_cell count) count 0 (hb, 4) ;;
      (* !reuseRecords: b = make([]byte, n); copy.  reuseRecords: d.buf[:n] itself *)
      _ <- alloc (if ru then 0 else N.of_nat (length acc)) ;;
      Ret acc
  end.

Definition strlist_read_bytes := strlist_read_bytes_g false.

(** StrListDecoder.Decode(b) on a byte slice, new decoder: (outcome, bytes allocated) *)
Fixpoint strlist_decode_loop (fuel : nat) (b : bytes) (count i : N) (off : nat)
         (sl : list bytes) (cap m : N) : res (list bytes) * N :=
  if i <? count then
    match fuel with
    | O => (Err CFuel, m)
    | S f =>
        match rbind (slice_from b off) be_u16 with         (* Uint16(b[offset:]) *)
        | Ok l =>
            let off := (off + 2)%nat in
            if l =? 0 then strlist_decode_loop f b count (i + 1) off (sl ++ [[]]) cap (m + sz_string)
            else
              let '(cap', cost) := ensure_buf cap l in
              if l <=? cap' then
                match slice_from b off with                (* copy(d.buf[:l], b[offset:]) *)
                | Ok tl =>
                    strlist_decode_loop f b count (i + 1) (off + N.to_nat l)%nat
                      (sl ++ [pad (N.to_nat l) tl]) cap' (m + cost + sz_string + l)
                | Err e => (Err e, m + cost)
                | Panic => (Panic, m + cost)
                end
              else (Panic, m + cost)
        | Err e => (Err e, m)
        | Panic => (Panic, m)
        end
    end
  else (Ok sl, m).

Definition strlist_decode_g (ru : bool) (pc : precap) (b : bytes) : res (list bytes) * N :=
  let m0 := 4 + ctor_cost ru sz_string in
  match be_u32 b with
  | Ok count =>
      strlist_decode_loop (S (length b)) b count 0 4 [] strlist_cap0
                          (m0 + prealloc_cost ru sz_string (prealloc pc count))
  | Err e => (Err e, m0)
  | Panic => (Panic, m0)
  end.
Definition strlist_decode := strlist_decode_g false.

(** ValidateStrListBytes(b): number of bytes of the record *)
Fixpoint validate_strlist_loop (checked : bool) (fuel : nat) (b : bytes) (count i : N)
         (off : nat) : res nat :=
  if i <? count then
    match fuel with
    | O => Err CFuel
    | S f =>
        if checked && (length b <? off + 2)%nat then Err COther
        else
          match rbind (slice_from b off) be_u16 with
          | Ok l =>
              let off' := (off + 2 + N.to_nat l)%nat in
              if (length b <? off')%nat then Err COther
              else validate_strlist_loop checked f b count (i + 1) off'
          | Err e => Err e
          | Panic => Panic
          end
    end
  else Ok off.

Definition validate_strlist_gen (checked : bool) (b : bytes) : res nat :=
  if checked && (length b <? 4)%nat then Err COther
  else
    match be_u32 b with
    | Ok count => validate_strlist_loop checked (S (length b)) b count 0 4
    | Err e => Err e
    | Panic => Panic
    end.

Definition validate_strlist := validate_strlist_gen true.
Definition validate_strlist_unchecked := validate_strlist_gen false.

(** ValidateBlockBytes(b) *)
Fixpoint validate_block_loop (checked : bool) (fuel : nat) (b : bytes) (n i : N) (off : nat)
  : res unit :=
  if i <? n then
    match fuel with
    | O => Err CFuel
    | S f =>
        match rbind (slice_from b off) (validate_strlist_gen checked) with
        | Ok m => validate_block_loop checked f b n (i + 1) (off + m)%nat
        | Err e => Err e
        | Panic => Panic
        end
    end
  else Ok tt.

Definition validate_block_gen (checked : bool) (b : bytes) : res unit :=
  if checked && (length b <? 4)%nat then Err COther
  else
    match be_u32 b with
    | Ok n => validate_block_loop checked (S (length b)) b n 0 4
    | Err e => Err e
    | Panic => Panic
    end.

Definition validate_block := validate_block_gen true.
Definition validate_block_unchecked := validate_block_gen false.

(** UintListDecoder.Read *)
Definition uintlist_read_g (ru : bool) (pc : precap) (F : nat) : prog (list N) :=
  nb <- rd_exact S_ulist_u32 4 ;;
  n <- lift (be_u32 nb) ;;
  _ <- alloc (prealloc_cost ru 4 (prealloc pc n)) ;;      (* makeUintSlice *)
  for_n F (fun _ sl =>
             ub <- rd_exact S_ulist_u32 4 ;;
             u <- lift (be_u32 ub) ;;
             _ <- alloc 4 ;;
             Ret (sl ++ [u])) n 0 [].

Definition uintlist_read := uintlist_read_g false.
(* NewUintListDecoder(ru) + Read *)
Definition uintlist_entry (ru : bool) (pc : precap) (F : nat) : prog (list N) :=
  _ <- alloc (4 + ctor_cost ru 4) ;; uintlist_read_g ru pc F.

(** FloatListDecoder.Read; values as their 64 bits *)
Definition floatlist_read_g (ru : bool) (pc : precap) (F : nat) : prog (list N) :=
  nb <- rd_exact S_flist_u32 4 ;;
  n <- lift (be_u32 nb) ;;
  _ <- alloc (prealloc_cost ru 8 (prealloc pc n)) ;;      (* makeFloatSlice *)
  for_n F (fun _ sl =>
             fb <- rd_exact S_flist_f64 8 ;;
             f <- lift (be_u64 fb) ;;
             _ <- alloc 8 ;;
             Ret (sl ++ [f])) n 0 [].
Definition floatlist_read := floatlist_read_g false.
(* NewFloatListDecoder(ru) + Read *)
Definition floatlist_entry (ru : bool) (pc : precap) (F : nat) : prog (list N) :=
  _ <- alloc (8 + ctor_cost ru 8) ;; floatlist_read_g ru pc F.
