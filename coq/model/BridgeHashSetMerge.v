(** Bridge B5 (C20 -> C05): the merge collector of model/Merge.v with its discarded-key
    set implemented by the on-disk hash set of model/HashSet.v.  Definitions only.

    model/Merge.v ([collected_rows]) keeps the discarded keys as a list of key-cell lists and
    asks [existsb (keqb (pick idx r)) discarded]; its header justifies this by the remark "the
    discarded-key hash set is a set (C20)".  Here the same collector is written over the C20
    model: the operation sequence of pkg/merge/row_collector.go on pkg/index/hash_set.go,

        NewHashSet(file, bsz)                      hs_new bsz          (CreateRowCollector: bsz = 0)
        SaveResolvedRow(pk, _) -> Add(pk)          OAdd (hk key)       one per discarded key
        collectRowsThatStayedTheSame: Flush()      OFlush
          per base row: Has(meow(enc(key cells)))  OHas (hk (pick idx row))
          row re-added iff Has answered false

    is run with [HashSet.run_ops] and the collector reads the [out] values.  Any [RErr]
    among the outputs (Add / Flush / Has returning an error) makes the collector fail, as
    every call site in row_collector.go returns the error.

    [hk] is the 16-byte key sum (meow over the strlist encoding of the key cells) as the
    big-endian number HashSet.v uses for a hash.  For a keyless table the Go code adds the ROW
    sums and queries the sum of the EMPTY cell list ([pick [] r = []]); this is what
    [hs_untouched] does too (model/Merge.v short-cuts that case to "never found"). *)
From W.lib Require Import Tree Bytes GoSlice.
From W.model Require Import ColDiff Merge.
From W.model Require HashSet HashSetSpec.
From Coq Require Import Arith NArith List.
Import ListNotations.

Section HashSetCollector.
  Variable hk : list bytes -> HashSet.hash.
  Variable bsz : nat.                         (* NewHashSet(file, bsz); 0 selects 1024 *)

  (** the calls made on the hash set during one merge *)
  Definition discard_ops (adds queries : list (list bytes)) : list HashSet.op :=
    map (fun k => HashSet.OAdd (hk k)) adds ++
    HashSet.OFlush :: map (fun k => HashSet.OHas (hk k)) queries.

  Definition discard_outs (adds queries : list (list bytes)) : list HashSet.out :=
    HashSet.run_ops (HashSet.hs_new bsz) (discard_ops adds queries).

  Definition out_err (o : HashSet.out) : bool :=
    match o with HashSet.RErr => true | _ => false end.

  (** the loop of collectRowsThatStayedTheSame over the answers of Has, one per row *)
  Fixpoint keep_unfound (rows : list row) (ans : list HashSet.out) : list row :=
    match rows, ans with
    | r :: rows', HashSet.RBool false :: ans' => r :: keep_unfound rows' ans'
    | _ :: rows', _ :: ans' => keep_unfound rows' ans'
    | _, _ => []
    end.

  (** base rows whose key sum the hash set does not hold, after [adds] were added and flushed *)
  Definition hs_untouched (adds : list (list bytes)) (idx : list nat) (rows : list row) : res (list row) :=
    let outs := discard_outs adds (map (pick idx) rows) in
    if existsb out_err outs then Err COther
    else Ok (keep_unfound rows (skipn (S (length adds)) outs)).

  (** [Merge.collected_rows] with the discarded set on the hash set: the three row groups are
      literally those of Merge.v, only [untouched] goes through [hs_untouched] *)
  Definition hs_collected_rows (base : table) (recs : list keyrec) (policy : nat) : res (list row) :=
    let resolved := flat_map (fun kr => if r_resolved (k_res kr)
                                        then match r_row (k_res kr) with Some r => [r] | None => [] end
                                        else []) recs in
    let manual := flat_map (fun kr => if r_resolved (k_res kr) then []
                                      else match policy, r_row (k_res kr) with
                                           | 2, Some r => [r]
                                           | _, _ => []
                                           end) recs in
    let discarded := map k_key (filter (fun kr => r_resolved (k_res kr) || negb (Nat.eqb policy 0)) recs) in
    rbind (hs_untouched discarded (pk_idx base) (t_rows base)) (fun untouched =>
      Ok (resolved ++ manual ++ untouched)).

  (** [Merge.result_rows] over [hs_collected_rows] *)
  Definition hs_result_rows (base : table) (recs : list keyrec) (policy : nat)
             (removed : option (list bool)) (blocks : bool) : res (list row) :=
    rbind (hs_collected_rows base recs policy) (fun rows =>
      let rm := match removed with Some l => l | None => [] end in
      if blocks && remove_panics rm rows then Panic
      else Ok (map (remove_cols rm) (sorted_rows (pk_idx base) rows))).

  (** [Merge.run_merge] over [hs_result_rows] *)
  Definition hs_run_merge (base : table) (others : list table) (policy remmode : nat) (blocks : bool)
    : res merge_out :=
    if negb (start_ok others) then Err COther else
    rbind (compare_columns (header_of base) (map header_of others)) (fun cd =>
      let recs := merge_records cd base others in
      let removed := if Nat.eqb remmode 1 then Some (union_removed cd) else None in
      rbind (hs_result_rows base recs policy removed blocks) (fun rows =>
        Ok {| mo_cd := cd; mo_recs := recs;
              mo_cols := remove_cols (match removed with Some l => l | None => [] end) (cd_names cd);
              mo_rows := rows |})).

  (** ---- what is required of the key sums ---- *)
  (** on a finite list of keys: every sum is a 16-byte value and no two different keys of
      the list collide.  (Demanding this of ALL cell lists would be unsatisfiable: there are
      more than 2^128 of them.) *)
  Definition sums_ok (ks : list (list bytes)) : Prop :=
    (forall k, In k ks -> HashSetSpec.wf_hash (hk k)) /\
    (forall a b, In a ks -> In b ks -> hk a = hk b -> a = b).

  (** decidable form, for concrete instances *)
  Definition sums_okb (ks : list (list bytes)) : bool :=
    forallb (fun k => N.ltb (hk k) (2 ^ 128)%N) ks &&
    forallb (fun a => forallb (fun b => implb (N.eqb (hk a) (hk b)) (keqb a b)) ks) ks.

  (** the keys whose sums reach the hash set in a merge of [base] with [others]: the keys
      of the Merge records (Add) and the key cells of the base rows (Has) *)
  Definition merge_keys (base : table) (others : list table) : list (list bytes) :=
    all_keys base others ++ map (pick (pk_idx base)) (t_rows base).

  (** keyless base: the Has query is the sum of the empty cell list; Merge.v's short cut
      "never found" is right when no discarded key is the empty cell list *)
  Definition keyless_ok (base : table) (others : list table) : Prop :=
    pk_idx base = [] -> ~ In [] (all_keys base others).

  Definition keyless_okb (base : table) (others : list table) : bool :=
    negb (Nat.eqb (length (pk_idx base)) 0) || negb (existsb (keqb []) (all_keys base others)).
End HashSetCollector.

(** a toy key sum used ONLY by the non-vacuity examples: the cells, each preceded by its
    length, read as one big-endian number (collision-free and below 2^128 on the few short
    keys of the examples; checked there with [sums_okb]) *)
Definition hk_toy (k : list bytes) : HashSet.hash :=
  HashSet.hash_of_bytes (flat_map (fun c => N.of_nat (length c) :: c) k).
