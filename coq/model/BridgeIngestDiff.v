(** Bridge B1 (C01/C03 -> C04): the tables produced by the ingest model, seen as tables of
    the diff model.  Definitions only.

    The ingest model (Ingest.v) stores a table as its blocks of rows, a row being its list
    of cells; the diff model (Diff.v) sees a table as blocks of (key, rowid), the key being
    the values of the primary-key columns (the whole row for a keyless table) and the rowid
    standing for the 16-byte hash of the row content.  [to_diff_table] is that view:
      key   = [dkey ncols pk r]    (SorterSpec: the pk columns, all columns without a key)
      rowid = [rid r]              ([rid] = the row hash, a Section variable; its injectivity
                                    is a hypothesis of the theorems, as for C02 / C03)
      pk names = the columns at the key indices (Table.PrimaryKey()), columns = the header.
    The table index the diff model works with is [Diff.tindex] of the blocks (first key of
    every block); the bridge theorem shows it is the table index the ingest wrote. *)
From W.lib Require Import Tree Bytes.
From W.model Require Sorter SorterSpec Ingest IngestSpec Diff DiffSpec.
From Coq Require Import List.
Import ListNotations.

Section Bridge.
  Variable rid : Sorter.row -> N.

  Definition to_diff_row (ncols : nat) (pk : list nat) (r : Sorter.row) : Diff.row :=
    (SorterSpec.dkey ncols pk r, rid r).

  (** Table.PrimaryKey(): the names of the key columns *)
  Definition pk_names (columns : list bytes) (pk : list nat) : list bytes :=
    map (fun k => nth k columns []) pk.

  Definition to_diff_table (T : Ingest.table) : Diff.tbl :=
    Diff.mk_tbl (pk_names (Ingest.t_columns T) (Ingest.t_pk T))
                (Ingest.t_columns T)
                (map (map (to_diff_row (length (Ingest.t_columns T)) (Ingest.t_pk T)))
                     (Ingest.t_blocks T)).

  (** the key |-> row map of a list of INPUT rows, as the flat row list of the diff
      specification (DiffSpec.lookup works on it) *)
  Definition input_rows (ncols : nat) (pk : list nat) (rows : list Sorter.row) : list Diff.row :=
    map (to_diff_row ncols pk) rows.
End Bridge.

(** the input rows in key order: the executable in-memory sort of the sorter model applied
    to the whole input (for unique keys this is THE strictly ascending arrangement) *)
Definition sorted_input (pk : list nat) (rows : list Sorter.row) : list Sorter.row :=
  Sorter.isort_rows pk rows.

(** what the property says, on the input rows, without positions:
    [keyed rows k r] = r is a row of the input with key k; [absent rows k] = no row has key k *)
Definition keyed (ncols : nat) (pk : list nat) (rows : list Sorter.row) (k : Sorter.key) (r : Sorter.row) : Prop :=
  In r rows /\ SorterSpec.dkey ncols pk r = k.
Definition absent (ncols : nat) (pk : list nat) (rows : list Sorter.row) (k : Sorter.key) : Prop :=
  forall r, In r rows -> SorterSpec.dkey ncols pk r <> k.

(** an event list [evs] reports exactly the differences between the inputs rows1 / rows2 *)
Definition reports_exactly (rid : Sorter.row -> N) (eu : bool) (ncols : nat) (pk : list nat)
           (rows1 rows2 : list Sorter.row) (evs : list Diff.dev) : Prop :=
  (* every event is about input rows ... *)
  (forall d, In d evs ->
     match d with
     | Diff.Added k i _ =>
         exists r, i = rid r /\ keyed ncols pk rows1 k r /\ absent ncols pk rows2 k
     | Diff.Modified k i _ i' _ =>
         exists r r', i = rid r /\ i' = rid r' /\ keyed ncols pk rows1 k r /\ keyed ncols pk rows2 k r' /\
                      (eu = true \/ r <> r')
     | Diff.Removed k i' _ =>
         exists r', i' = rid r' /\ keyed ncols pk rows2 k r' /\ absent ncols pk rows1 k
     end) /\
  (* ... and every difference is reported *)
  (forall k r, keyed ncols pk rows1 k r -> absent ncols pk rows2 k ->
     exists off, In (Diff.Added k (rid r) off) evs) /\
  (forall k r r', keyed ncols pk rows1 k r -> keyed ncols pk rows2 k r' -> (eu = true \/ r <> r') ->
     exists off off', In (Diff.Modified k (rid r) off (rid r') off') evs) /\
  (forall k r', keyed ncols pk rows2 k r' -> absent ncols pk rows1 k ->
     exists off, In (Diff.Removed k (rid r') off) evs).

(** [rid] only has to tell the rows of the first input from the rows of the second
    (no hash collision between a row of one table and a different row of the other) *)
Definition rid_separates (rid : Sorter.row -> N) (rows1 rows2 : list Sorter.row) : Prop :=
  forall a b, In a rows1 -> In b rows2 -> rid a = rid b -> a = b.

(** the instance of the non-vacuity example: two 3-row CSVs, header a,b *)
Definition ex_rid (r : Sorter.row) : N :=
  fold_left (fun a c => fold_left (fun a x => a * 256 + x + 1) c (a * 256))%N r 7%N.
Definition ex_columns : list bytes := [[97%N]; [98%N]].
Definition ex_rows1 : list Sorter.row := [[[51%N]; [120%N]]; [[49%N]; [121%N]]; [[50%N]; [122%N]]].
Definition ex_rows2 : list Sorter.row := [[[52%N]; [120%N]]; [[50%N]; [122%N]]; [[49%N]; [119%N]]].
