(** Specification vocabulary for ingestion (C01, C02, C03).  Definitions only. *)
From W.lib Require Import Tree Bytes.
From W.model Require Import Sorter SorterSpec Ingest.
From Coq Require Import Arith Sorting.Sorted Sorting.Permutation.
Local Open Scope N_scope.

(** worker scheduling: async blocks arrive in some permutation of the emission order *)
Definition any_arrival (arrive : list asyncblock -> list asyncblock) : Prop :=
  forall l, Permutation (arrive l) l.

(** a header whose names are all non-empty is stored as it is *)
Definition names_nonempty (columns : list bytes) : Prop := Forall (fun c => c <> []) columns.

(** some cell exceeds the 65535-byte limit *)
Definition has_overlimit_cell (rows : list row) : Prop :=
  Exists (fun r => Exists (fun c => max_str_len < blen c) r) rows.

(** the table object is the last object written and nothing is written after it *)
Definition table_written_last (w : list wobj) (T : table) : Prop :=
  exists w0 tidx, w = w0 ++ [WTableIdx T tidx; WTable T] /\
                  Forall (fun o => match o with WTable _ => False | _ => True end) w0.

(** C03: structural soundness of a stored table [T] with table index [tidx];
    [ncols] = number of columns, [H] = hash of a cell list *)
Definition WF_table (H : list bytes -> N) (T : table) (tidx : list key) : Prop :=
  let ncols := length (t_columns T) in
  (* recorded row count = rows actually present *)
  t_rowscount T = N.of_nat (length (rows_of T)) /\
  (* every block has 1..255 rows, every block but the last exactly 255 *)
  Forall (fun b => (1 <= length b <= block_size)%nat) (t_blocks T) /\
  (forall i, (S i < length (t_blocks T))%nat -> length (nth i (t_blocks T) []) = block_size) /\
  (* keys strictly increase across the whole table *)
  keys_strictly_ascending ncols (t_pk T) (rows_of T) /\
  (* block i's index is the index of exactly block i's rows *)
  t_blockidx T = map (index_block H (t_pk T)) (t_blocks T) /\
  length (t_blockidx T) = length (t_blocks T) /\
  (* the table index lists the key of the first row of every block *)
  tidx = map (fun b => dkey ncols (t_pk T) (hd [] b)) (t_blocks T) /\
  (* header: key indices are columns, every row has one cell per column *)
  wf_pk ncols (t_pk T) /\ wf_rows ncols (rows_of T) /\
  Forall (fun k => nth k (t_columns T) [] <> []) (t_pk T).

(** abstract table identity: the hash of (columns, pk, row count, block ids, index ids) *)
Definition table_id (Hb : list row -> N) (Hi : blkidx -> N)
           (Ht : list bytes * list nat * N * list N * list N -> N) (T : table) : N :=
  Ht (t_columns T, t_pk T, t_rowscount T, map Hb (t_blocks T), map Hi (t_blockidx T)).
