(** C06 - pkg/encoding/packfile/packfile.go and pkg/encoding/pktline/pktline.go.
    Definitions only.

    Object header (encodeObjTypeAndLen / decodeObjTypeAndLen): first byte
    [128 | ty<<4 | u&15], then the rest of u in base-128 digits, least significant
    first, every byte but the last with bit 7 set.  The encoder is given twice:
    [encode_len_sm] in the shift/mask form of the Go source (uint8 truncations,
    Go's truncated integer division) and [encode_len_ar] in arithmetic form;
    proofs/CodecPackfile_proofs.v shows them equal for u < 2^64.

    Packfile: "PACK", u32 version (= 1), then objects = header ++ bytes until EOF.
    pkt-line: 4 hex digits of (len+1), the bytes, "\n"; the empty string is "0000".
    WritePktLine never refuses: for len >= 65535 it silently writes only the first
    four hex digits of a longer number (modelled as is).  It has no non-test caller. *)
From W.lib Require Import Tree Bytes.
From W.model Require Import CodecBase.
From Coq Require Import ZArith.
Local Open Scope N_scope.

(** * object header *)
Definition len64 (u : N) : N := N.size u.              (* math/bits.Len64 *)

(* Go: numBytes := (bits-4)/7 + 1; if (bits-4)%7 > 0 { numBytes++ }; if numBytes == 1 { numBytes = 2 }
   on [int]: / and % truncate toward zero = Z.quot / Z.rem *)
Definition num_bytes (bits : N) : nat :=
  let d := (Z.of_N bits - 4)%Z in
  let nb := (Z.quot d 7 + 1)%Z in
  let nb := if (0 <? Z.rem d 7)%Z then (nb + 1)%Z else nb in
  let nb := if (nb =? 1)%Z then 2%Z else nb in
  Z.to_nat nb.

Definition u8 (x : N) : N := x mod 256.                (* conversion to uint8 *)

(* b[0] = 128 | uint8(objType)<<4 | (uint8(u) & 15) *)
Definition byte0_sm (ty u : N) : N :=
  N.lor (N.lor 128 (u8 (N.shiftl (u8 ty) 4))) (N.land (u8 u) 15).

(* for i := 1; i < numBytes; i++ { b[i] = 128 | uint8(u>>bits); bits += 7 }; b[numBytes-1] &= 127
   [k] = numBytes - i bytes still to write *)
Fixpoint cont_sm (k : nat) (u bits : N) : bytes :=
  match k with
  | O => []
  | S k' =>
      let x := N.lor 128 (u8 (N.shiftr u bits)) in
      match k' with
      | O => [N.land x 127]
      | S _ => x :: cont_sm k' u (bits + 7)
      end
  end.

Definition encode_len_sm (ty u : N) : bytes :=
  byte0_sm ty u :: cont_sm (num_bytes (len64 u) - 1) u 4.

(* arithmetic form *)
Fixpoint cont_ar (k : nat) (r : N) : bytes :=
  match k with
  | O => []
  | S k' =>
      match k' with
      | O => [r mod 128]
      | S _ => (128 + r mod 128) :: cont_ar k' (r / 128)
      end
  end.

Definition encode_len_ar (ty u : N) : bytes :=
  (128 + 16 * ty + u mod 16) :: cont_ar (num_bytes (N.size u) - 1) (u / 16).

Definition encode_len := encode_len_sm.

(* u |= uint64(b&127) << bits  (a Go shift by >= 64 gives 0; the result is cut to 64 bits) *)
Definition shl64 (x bits : N) : N :=
  if 64 <=? bits then 0 else (N.shiftl x bits) mod 2 ^ 64.

Fixpoint dec_cont (b : bytes) (u bits : N) : option (N * bytes) :=
  match b with
  | [] => None                                  (* "reading size: data corrupted" *)
  | x :: b' =>
      let u' := N.lor u (shl64 (N.land x 127) bits) in
      if N.land x 128 =? 0 then Some (u', b') else dec_cont b' u' (bits + 7)
  end.

Definition decode_len (b : bytes) : option (N * N * bytes) :=
  match b with
  | [] => None
  | x :: b' =>
      match dec_cont b' (N.land x 15) 4 with
      | Some (u, rest) => Some (N.land (N.shiftr x 4) 7, u, rest)
      | None => None
      end
  end.

(** * packfile *)
Definition PACK : bytes := [80; 65; 67; 75].
Definition pack_version : N := 1.

(* WriteObject.  A Go slice is shorter than 2^63 bytes; [None] only marks byte
   strings that cannot exist as a Go value. *)
Definition encode_obj (o : N * bytes) : option bytes :=
  let '(ty, b) := o in
  if 2 ^ 63 <=? len b then None else Some (encode_len ty (len b) ++ b).

Fixpoint enc_objs (l : list (N * bytes)) : option bytes :=
  match l with
  | [] => Some []
  | o :: l' =>
      match encode_obj o, enc_objs l' with
      | Some a, Some r => Some (a ++ r)
      | _, _ => None
      end
  end.

Definition encode_packfile (l : list (N * bytes)) : option bytes :=
  match enc_objs l with
  | Some r => Some (PACK ++ be 4 pack_version ++ r)
  | None => None
  end.

(* ReadObject: header, size > MaxInt64 refused, then exactly u bytes *)
Definition decode_obj (b : bytes) : option ((N * bytes) * bytes) :=
  match decode_len b with
  | None => None
  | Some (ty, u, b1) =>
      if 2 ^ 63 <=? u then None
      else if u <=? len b1 then
        match take (N.to_nat u) b1 with
        | Some (body, b2) => Some ((ty, body), b2)
        | None => None
        end
      else None                                  (* io.ErrUnexpectedEOF *)
  end.

(* ReadObject until io.EOF; every object consumes at least two bytes *)
Fixpoint read_objs (fuel : nat) (b : bytes) : option (list (N * bytes)) :=
  match b with
  | [] => Some []
  | _ =>
      match fuel with
      | O => None
      | S f =>
          match decode_obj b with
          | None => None
          | Some (o, b') =>
              match read_objs f b' with
              | Some r => Some (o :: r)
              | None => None
              end
          end
      end
  end.

(* NewPackfileReader (magic checked, version read but not checked) + all objects.
   Reads to EOF, so the remainder is always []. *)
Definition decode_packfile (b : bytes) : option ((N * list (N * bytes)) * bytes) :=
  match expect PACK b with
  | None => None
  | Some b1 =>
      match rd_be 4 b1 with
      | None => None
      | Some (v, b2) =>
          match read_objs (length b2) b2 with
          | Some l => Some ((v, l), [])
          | None => None
          end
      end
  end.

Definition wf_obj (o : N * bytes) : Prop := 1 <= fst o <= 7 /\ len (snd o) < 2 ^ 63.
Definition wf_packfile (l : list (N * bytes)) : Prop := Forall wf_obj l.

(** * pkt-line *)
Definition hexchar (d : N) : N := if d <? 10 then 48 + d else 87 + d.   (* lower case *)
Fixpoint hexw (w : nat) (n : N) : bytes :=
  match w with O => [] | S w' => hexw w' (n / 16) ++ [hexchar (n mod 16)] end.
Fixpoint hexdigits_aux (fuel : nat) (n : N) (acc : bytes) : bytes :=
  match fuel with
  | O => acc
  | S f =>
      let acc' := hexchar (n mod 16) :: acc in
      if n / 16 =? 0 then acc' else hexdigits_aux f (n / 16) acc'
  end.
(* fmt.Sprintf("%04x", n) *)
Definition fmt_hex4 (n : N) : bytes :=
  if n <? 65536 then hexw 4 n else hexdigits_aux (S (N.to_nat (N.size n))) n [].

(* copy(b, hex); copy(b[4:], s); b[4+n] = '\n'  on a buffer of n+5 bytes *)
Definition encode_pktline (s : bytes) : option bytes :=
  match s with
  | [] => Some [48; 48; 48; 48]
  | _ => Some (firstn 4 (fmt_hex4 (len s + 1)) ++ s ++ [NL])
  end.

(* encoding/hex accepts both cases *)
Definition hexval (c : N) : option N :=
  if (48 <=? c) && (c <=? 57) then Some (c - 48)
  else if (97 <=? c) && (c <=? 102) then Some (c - 87)
  else if (65 <=? c) && (c <=? 70) then Some (c - 55)
  else None.

Definition hex4val (h : bytes) : option N :=
  match h with
  | [c0; c1; c2; c3] =>
      match hexval c0, hexval c1, hexval c2, hexval c3 with
      | Some h0, Some h1, Some h2, Some h3 => Some (((h0 * 16 + h1) * 16 + h2) * 16 + h3)
      | _, _, _, _ => None
      end
  | _ => None
  end.

Definition decode_pktline (b : bytes) : option (bytes * bytes) :=
  match take 4 b with
  | None => None
  | Some (h, b1) =>
      match hex4val h with
      | None => None
      | Some u =>
          if u =? 0 then Some ([], b1)
          else
            match take (N.to_nat u) b1 with
            | Some (body, b2) => Some (firstn (N.to_nat u - 1) body, b2)   (* b[:u-1], last byte unchecked *)
            | None => None
            end
      end
  end.

Definition wf_pktline (s : bytes) : Prop := len s <= 65534.
