(** C06 - pkg/objects/str_list.go, block.go, uint_list.go, float_list.go.
    Definitions only.

    StrList  : u32 count, then per cell u16 length + bytes.
    Block    : u32 row count, then one StrList per row.
    UintList : u32 count, then u32 each.      FloatList: u32 count, then u64 each
    (a float64 is its 64-bit pattern).

    Refusals ([None]) of the encoders are all PANICS in the Go code:
      - StrListEncoder.Encode: "cell value ... is too long" for a cell > 65535 bytes
        (MaxStrLen), "slice length is too long" for more than 2^32 cells
        (the guard is [len > 1<<32], so exactly 2^32 cells would wrap to count 0);
      - WriteBlockTo: the same through Encode, and "block length is too long";
      - UintListEncoder/FloatListEncoder: index out of range once len >= 2^32.

    [strict]: StrListDecoder.Read tolerates io.EOF while reading the bytes of the
    LAST cell (errors.Is(err, io.EOF) && i == count-1): a stream that ends right
    after a non-zero length prefix decodes that cell as "".  [strict = false] is
    the real reader; [strict = true] is the same reader without that tolerance
    (used only to state the re-encoding theorem). *)
From W.lib Require Import Tree Bytes.
From W.model Require Import CodecBase.
Local Open Scope N_scope.

Definition max_str_len : N := 65535.

(** * StrList *)
Fixpoint enc_cells (sl : list bytes) : option bytes :=
  match sl with
  | [] => Some []
  | s :: sl' =>
      if max_str_len <? len s then None
      else match enc_cells sl' with
           | Some r => Some (be 2 (len s) ++ s ++ r)
           | None => None
           end
  end.

Definition encode_strlist (sl : list bytes) : option bytes :=
  let n := N.of_nat (length sl) in
  if 2 ^ 32 <? n then None
  else match enc_cells sl with
       | Some r => Some (be 4 n ++ r)        (* [be 4] keeps the low 32 bits = uint32(len) *)
       | None => None
       end.

(* StrListDecoder.Read: the loop body for the remaining [n] cells *)
Fixpoint read_cells (strict : bool) (n : nat) (b : bytes) : option (list bytes * bytes) :=
  match n with
  | O => Some ([], b)
  | S n' =>
      match rd_be 2 b with
      | None => None
      | Some (l, b1) =>
          (* l = 0 appends "" without reading, which is what [take 0] gives *)
          match take (N.to_nat l) b1 with
          | Some (s, b2) =>
              match read_cells strict n' b2 with
              | Some (r, t) => Some (s :: r, t)
              | None => None
              end
          | None =>
              (* io.ReadFull failed: io.EOF (nothing left at all) on the last cell is
                 accepted and the cell is ""; anything else is an error *)
              match n', b1 with
              | O, [] => if strict then None else Some ([[]], [])
              | _, _ => None
              end
          end
      end
  end.

Definition decode_strlist_g (strict : bool) (b : bytes) : option (list bytes * bytes) :=
  match rd_be 4 b with
  | None => None
  | Some (count, b1) =>
      if count_fits count b1 then read_cells strict (N.to_nat count) b1 else None
  end.
Definition decode_strlist := decode_strlist_g false.

(** StrListDecoder.Decode (slice based, used on bytes already validated): on
    well-formed input it is the strict reader; on short input the Go code panics
    or returns stale buffer contents - not modelled, [None]. *)
Definition decode_strlist_bytes (b : bytes) : option (list bytes) :=
  match decode_strlist_g true b with
  | Some (sl, _) => Some sl
  | None => None
  end.

(** * Block *)
Fixpoint enc_rows (rows : list (list bytes)) : option bytes :=
  match rows with
  | [] => Some []
  | r :: rows' =>
      match encode_strlist r with
      | None => None
      | Some br =>
          match enc_rows rows' with
          | Some rest => Some (br ++ rest)
          | None => None
          end
      end
  end.

Definition encode_block (rows : list (list bytes)) : option bytes :=
  let n := N.of_nat (length rows) in
  if 2 ^ 32 <? n then None
  else match enc_rows rows with
       | Some r => Some (be 4 n ++ r)
       | None => None
       end.

Fixpoint read_rows (strict : bool) (n : nat) (b : bytes) : option (list (list bytes) * bytes) :=
  match n with
  | O => Some ([], b)
  | S n' =>
      match decode_strlist_g strict b with
      | None => None
      | Some (r, b1) =>
          match read_rows strict n' b1 with
          | Some (rs, t) => Some (r :: rs, t)
          | None => None
          end
      end
  end.

Definition decode_block_g (strict : bool) (b : bytes) : option (list (list bytes) * bytes) :=
  match rd_be 4 b with
  | None => None
  | Some (count, b1) =>
      if count_fits count b1 then read_rows strict (N.to_nat count) b1 else None
  end.
Definition decode_block := decode_block_g false.

(** * UintList / FloatList: u32 count then fixed-width big-endian words *)
Fixpoint enc_words (w : nat) (l : list N) : bytes :=
  match l with [] => [] | u :: l' => be w u ++ enc_words w l' end.

Definition encode_words (w : nat) (l : list N) : option bytes :=
  let n := N.of_nat (length l) in
  if 2 ^ 32 <=? n then None else Some (be 4 n ++ enc_words w l).

Fixpoint read_words (w : nat) (n : nat) (b : bytes) : option (list N * bytes) :=
  match n with
  | O => Some ([], b)
  | S n' =>
      match rd_be w b with
      | None => None
      | Some (u, b1) =>
          match read_words w n' b1 with
          | Some (r, t) => Some (u :: r, t)
          | None => None
          end
      end
  end.

Definition decode_words (w : nat) (b : bytes) : option (list N * bytes) :=
  match rd_be 4 b with
  | None => None
  | Some (count, b1) =>
      if count_fits count b1 then read_words w (N.to_nat count) b1 else None
  end.

Definition encode_uintlist := encode_words 4.
Definition decode_uintlist := decode_words 4.
Definition encode_floatlist := encode_words 8.
Definition decode_floatlist := decode_words 8.

(** well-formedness of values (what a Go value of the type always satisfies, plus
    the format limits under which the encoder does not refuse) *)
Definition wf_strlist (sl : list bytes) : Prop :=
  N.of_nat (length sl) < 2 ^ 32 /\ Forall (fun s => len s <= max_str_len) sl.
Definition wf_block (rows : list (list bytes)) : Prop :=
  N.of_nat (length rows) < 2 ^ 32 /\ Forall wf_strlist rows.
Definition wf_words (w : nat) (l : list N) : Prop :=
  N.of_nat (length l) < 2 ^ 32 /\ Forall (fun u => u < 256 ^ N.of_nat w) l.
Definition wf_uintlist := wf_words 4.
Definition wf_floatlist := wf_words 8.
