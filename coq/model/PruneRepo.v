(** Repository state for the prune model (C12): the object store projected on what
    pkg/prune looks at, the atomic delete operations, and the abstract notions the
    theorems are stated with (reachability, Closed, RefsResolve, liveness).
    Definitions only.

    ids are [N] (a 16-byte sum read big-endian, or any abstract numbering: only the
    order and equality of ids are used).  Maps are association lists with
    first-binding lookup; sets are lists.  [sortu] gives the strictly ascending,
    duplicate-free key list that objects.GetAll*Keys returns (FilterKey + sort.Slice
    on the bytes).

      commits : id -> (table id, parents)         "com/"
      tables  : id -> (blocks, block indices)     "tbl/"     (Table.Blocks, Table.BlockIndices)
      tblidx, prof : set of table ids             "tblidx/", "tblsum/"
      blocks, blkidx : set of ids                 "blk/", "blkidx/"
      refs    : list of (name, commit id)         every entry of ref.ListAllRefs: heads/, tags/,
                                                  remotes/, txs/ - prune does not look at names

    A shallow commit is a commit whose table id has no binding in [tables]. *)
From Coq Require Import List NArith Bool Arith.
Import ListNotations.
Local Open Scope N_scope.

Record commit := mkCommit { c_table : N; c_parents : list N }.
Record table := mkTable { t_blocks : list N; t_blkidx : list N }.

Record state := mkState {
  commits : list (N * commit);
  tables  : list (N * table);
  tblidx  : list N;
  prof    : list N;
  blocks  : list N;
  blkidx  : list N;
  refs    : list (N * N) }.

(* ---- maps and sets ---- *)
Fixpoint get {A} (m : list (N * A)) (k : N) : option A :=
  match m with
  | [] => None
  | (k', v) :: m' => if k' =? k then Some v else get m' k
  end.
Definition rem {A} (k : N) (m : list (N * A)) : list (N * A) :=
  filter (fun p => negb (fst p =? k)) m.
Definition mem (k : N) (l : list N) : bool := existsb (N.eqb k) l.
Definition srem (k : N) (l : list N) : list N := filter (fun x => negb (x =? k)) l.

(* sorted, duplicate-free keys *)
Fixpoint ins (x : N) (l : list N) : list N :=
  match l with
  | [] => [x]
  | y :: l' =>
      match x ?= y with
      | Lt => x :: l
      | Eq => l
      | Gt => y :: ins x l'
      end
  end.
Definition sortu (l : list N) : list N := fold_right ins [] l.

Definition get_commit (s : state) (c : N) : option commit := get (commits s) c.
Definition get_table (s : state) (t : N) : option table := get (tables s) t.
Definition commit_keys (s : state) : list N := sortu (map fst (commits s)).   (* GetAllCommitKeys *)
Definition table_keys (s : state) : list N := sortu (map fst (tables s)).     (* GetAllTableKeys *)
Definition block_keys (s : state) : list N := sortu (blocks s).               (* GetAllBlockKeys *)
Definition blkidx_keys (s : state) : list N := sortu (blkidx s).              (* GetAllBlockIndexKeys *)

(* ---- atomic deletes: one objects.Delete* call = one store.Delete(key) ---- *)
Inductive kind := KTable | KTblIdx | KProf | KBlock | KBlkIdx | KCommit.
Inductive del := Del (k : kind) (id : N).

Definition kind_eqb (a b : kind) : bool :=
  match a, b with
  | KTable, KTable | KTblIdx, KTblIdx | KProf, KProf
  | KBlock, KBlock | KBlkIdx, KBlkIdx | KCommit, KCommit => true
  | _, _ => false
  end.

Definition apply_del (d : del) (s : state) : state :=
  match d with
  | Del KTable t  => mkState (commits s) (rem t (tables s)) (tblidx s) (prof s) (blocks s) (blkidx s) (refs s)
  | Del KTblIdx t => mkState (commits s) (tables s) (srem t (tblidx s)) (prof s) (blocks s) (blkidx s) (refs s)
  | Del KProf t   => mkState (commits s) (tables s) (tblidx s) (srem t (prof s)) (blocks s) (blkidx s) (refs s)
  | Del KBlock b  => mkState (commits s) (tables s) (tblidx s) (prof s) (srem b (blocks s)) (blkidx s) (refs s)
  | Del KBlkIdx b => mkState (commits s) (tables s) (tblidx s) (prof s) (blocks s) (srem b (blkidx s)) (refs s)
  | Del KCommit c => mkState (rem c (commits s)) (tables s) (tblidx s) (prof s) (blocks s) (blkidx s) (refs s)
  end.
Definition apply_dels (ds : list del) (s : state) : state :=
  fold_left (fun s d => apply_del d s) ds s.

(* ---- abstract notions ---- *)

(** [reach s c]: c is the target of some ref, or a parent (as recorded in a stored
    commit) of a reachable commit.  Ids, not objects: a dangling id can be "reachable". *)
Inductive reach (s : state) : N -> Prop :=
| reach_ref : forall n c, In (n, c) (refs s) -> reach s c
| reach_parent : forall c cm p,
    reach s c -> get_commit s c = Some cm -> In p (c_parents cm) -> reach s p.

(** every stored commit's parents are stored *)
Definition Closed (s : state) : Prop :=
  forall c cm p, get_commit s c = Some cm -> In p (c_parents cm) -> get_commit s p <> None.
(** the same for reachable commits only (what the ref walk needs; what crash states keep) *)
Definition ClosedReach (s : state) : Prop :=
  forall c cm p, reach s c -> get_commit s c = Some cm -> In p (c_parents cm) -> get_commit s p <> None.
(** the parent relation of the stored commits is well-founded.  With content addressing a commit's
    id is the hash of bytes that contain its parents' ids, so a cycle would be a hash cycle: this is
    an outside-world premise (like hash injectivity), explicit in the theorems that need it. *)
Definition Acyclic (s : state) : Prop :=
  exists rank : N -> nat, forall c cm p,
    get_commit s c = Some cm -> In p (c_parents cm) -> (rank p < rank c)%nat.
(** every ref points at a stored commit *)
Definition RefsResolve (s : state) : Prop :=
  forall n c, In (n, c) (refs s) -> get_commit s c <> None.

(** a stored commit no ref reaches *)
Definition removable (s : state) (c : N) : Prop := get_commit s c <> None /\ ~ reach s c.
(** table id named by a stored reachable commit *)
Definition live_table (s : state) (t : N) : Prop :=
  exists c cm, reach s c /\ get_commit s c = Some cm /\ c_table cm = t.
(** block / block index listed by a stored live table *)
Definition live_block (s : state) (b : N) : Prop :=
  exists t tb, live_table s t /\ get_table s t = Some tb /\ In b (t_blocks tb).
Definition live_blkidx (s : state) (b : N) : Prop :=
  exists t tb, live_table s t /\ get_table s t = Some tb /\ In b (t_blkidx tb).

(** what a reachable commit needs: the delete [d] would take something away from it *)
Definition needed (s : state) (d : del) : Prop :=
  match d with
  | Del KCommit c => reach s c
  | Del KTable t | Del KTblIdx t | Del KProf t => live_table s t
  | Del KBlock b => live_block s b
  | Del KBlkIdx b => live_blkidx s b
  end.

(** everything the commit [c] had in [s] is still there in [s']: the commit object, and - wherever
    they existed - its table, table index, profile, and each block / block index the table lists
    (a lookup that failed before may of course still fail: shallow commit, missing index) *)
Definition commit_intact (s s' : state) (c : N) : Prop :=
  get_commit s' c = get_commit s c /\
  forall cm, get_commit s c = Some cm ->
    get_table s' (c_table cm) = get_table s (c_table cm) /\
    mem (c_table cm) (tblidx s') = mem (c_table cm) (tblidx s) /\
    mem (c_table cm) (prof s') = mem (c_table cm) (prof s) /\
    forall tb, get_table s (c_table cm) = Some tb ->
      (forall b, In b (t_blocks tb) -> mem b (blocks s') = mem b (blocks s)) /\
      (forall b, In b (t_blkidx tb) -> mem b (blkidx s') = mem b (blkidx s)).

(** two states hold the same objects and refs (representation-independent equality) *)
Definition same_objs (a b : state) : Prop :=
  (forall c, get_commit a c = get_commit b c) /\
  (forall t, get_table a t = get_table b t) /\
  (forall t, mem t (tblidx a) = mem t (tblidx b)) /\
  (forall t, mem t (prof a) = mem t (prof b)) /\
  (forall x, mem x (blocks a) = mem x (blocks b)) /\
  (forall x, mem x (blkidx a) = mem x (blkidx b)) /\
  refs a = refs b.

(* ---- executable checks of the hypotheses (used for the non-vacuity examples and by run_C12) ---- *)
Definition closedb (s : state) : bool :=
  forallb (fun kc => forallb (fun p => match get_commit s p with Some _ => true | None => false end)
                             (c_parents (snd kc)))
          (commits s).
(* parents have smaller ids than their children: a sufficient, checkable condition for Acyclic *)
Definition acyclicb (s : state) : bool :=
  forallb (fun kc => forallb (fun p => p <? fst kc) (c_parents (snd kc))) (commits s).
Definition refs_resolveb (s : state) : bool :=
  forallb (fun r => match get_commit s (snd r) with Some _ => true | None => false end) (refs s).
