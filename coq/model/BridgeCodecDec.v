(** Bridge B6 (C06 <-> C17/C18): the two families of decoder models decode the same thing.
    Definitions only.

    C06 (model/Codec*.v) models every object format as a PURE decoder over a complete byte
    string, [decode_X : bytes -> option (X * bytes)] ([None] = any error), with round-trip
    theorems against the encoders.  C17/C18 (lib/Reader.v, model/Dec*.v) model the same Go
    functions as reader state machines ([prog]) run over ANY chunking of the stream, with an
    explicit outcome [res] (value / error class / panic) and an allocation meter.

    This file holds the vocabulary that connects them:
      - the value conversions where the two families chose different Coq types for the same
        Go value (commit time: zone in minutes vs in seconds; table / block index / profile
        records; a profile column as a list of twelve field values vs a record);
      - [codec_agrees conv D C]: for every all-Full read-kind table, every byte string b
        (valid or not), every partition of b into reads and either EOF flag, the reader-level
        decoder D returns [Ok (conv v)] and leaves exactly t unread when the pure decoder
        says [C b = Some (v, t)], and returns an error - never a panic, never the model's
        out-of-fuel marker - when [C b = None].
      - [pack_view]: the packfile consumer of the reader family returns the objects read so
        far TOGETHER with the class of the error that ended the stream, where the codec
        family returns [None] for anything but a clean end; [pack_view] is that projection. *)
From Coq Require Import String.
From Coq Require Import List ZArith.
From W.lib Require Import Tree Bytes GoSlice Reader.
From W.model Require CodecBase CodecStrList CodecObjline CodecCommit CodecTable CodecProfile
     CodecPackfile.
From W.model Require Import DecPrim DecLists DecObjects DecPack DecReceive DecRun.
Import ListNotations.
Local Open Scope N_scope.

(** * value conversions (codec value -> reader-family value) *)

(** time: C06 keeps the zone in whole minutes (what the format can hold), C17/C18 in seconds
    (what time.Parse returns) *)
Definition conv_time (t : CodecObjline.time) : gotime := mk_time (fst t) (snd t * 60)%Z.

(** time.Parse("-0700", .) in seconds from the codec's parser in minutes *)
Definition codec_parse_tz (s : bytes) : option Z :=
  match CodecObjline.parse_zone s with Some z => Some (z * 60)%Z | None => None end.

Definition conv_commit (c : CodecCommit.commit) : commit :=
  mk_commit (CodecCommit.c_table c) (CodecCommit.c_name c) (CodecCommit.c_email c)
            (conv_time (CodecCommit.c_time c)) (CodecCommit.c_msg c) (CodecCommit.c_parents c).

Definition conv_table (t : CodecTable.table) : table :=
  mk_table (CodecTable.t_columns t) (CodecTable.t_pk t) (CodecTable.t_rowscount t)
           (CodecTable.t_blocks t) (CodecTable.t_indices t).

Definition conv_bidx (x : CodecTable.blockindex) : bytes * list bytes :=
  (CodecTable.bi_off x, CodecTable.bi_rows x).

(** a profile column: the codec's list of twelve field values <-> the reader family's record *)
Definition list_of_col (c : colprof) : list CodecProfile.fval :=
  [CodecProfile.VStr (cp_name c); CodecProfile.VNum (cp_na c);
   CodecProfile.VF64 (cp_min c); CodecProfile.VF64 (cp_max c); CodecProfile.VF64 (cp_mean c);
   CodecProfile.VF64 (cp_median c); CodecProfile.VF64 (cp_std c); CodecProfile.VPct (cp_pct c);
   CodecProfile.VNum (cp_minlen c); CodecProfile.VNum (cp_maxlen c); CodecProfile.VNum (cp_avglen c);
   CodecProfile.VTop (cp_top c)].

Definition conv_col (l : list CodecProfile.fval) : colprof :=
  match l with
  | [CodecProfile.VStr name; CodecProfile.VNum na;
     CodecProfile.VF64 mn; CodecProfile.VF64 mx; CodecProfile.VF64 mean;
     CodecProfile.VF64 med; CodecProfile.VF64 std; CodecProfile.VPct pct;
     CodecProfile.VNum minl; CodecProfile.VNum maxl; CodecProfile.VNum avgl;
     CodecProfile.VTop top] =>
      mk_colprof name na mn mx mean med std pct minl maxl avgl top
  | _ => empty_col                       (* not a column the codec's reader can produce *)
  end.

Definition conv_profile (p : CodecProfile.profile) : profile :=
  mk_profile (CodecProfile.p_version p) (CodecProfile.p_rowscount p)
             (map conv_col (CodecProfile.p_cols p)).

(** * agreement of a reader-level decoder with a pure decoder *)
Definition codec_agrees {A B} (conv : B -> A) (D : nat -> prog A)
           (C : bytes -> option (B * bytes)) : Prop :=
  forall (k : string -> read_kind), all_full k ->
  forall (b : bytes) (p : list nat) (eof_with_data : bool),
    let x := run_on (kinds_of k) D (chunked p b eof_with_data) in
    match C b with
    | Some (v, t) => outcome x = Ok (conv v) /\ rest (snd (fst x)) = t
    | None => exists e, outcome x = Err e /\ e <> CFuel
    end.

(** the same statement for decoders the repository runs on a complete slice
    (objects.Get*: bytes.NewReader over the stored value) *)
Definition codec_agrees_on_bytes {A B} (conv : B -> A) (D : nat -> prog A)
           (C : bytes -> option (B * bytes)) : Prop :=
  forall b : bytes,
    match C b with
    | Some (v, _) => fst (dec_on D b) = Ok (conv v)
    | None => exists e, fst (dec_on D b) = Err e /\ e <> CFuel
    end.

(** packfile: what the codec family calls a successfully decoded packfile *)
Definition pack_view (r : res (N * list (N * bytes) * errclass)) : option (N * list (N * bytes)) :=
  match r with
  | Ok (v, objs, CEof) => Some (v, objs)
  | _ => None
  end.

Definition packfile_agrees : Prop :=
  forall (k : string -> read_kind), all_full k ->
  forall (b : bytes) (p : list nat) (eof_with_data : bool),
    let x := run_on (kinds_of k) packfile_read (chunked p b eof_with_data) in
    pack_view (outcome x)
      = match CodecPackfile.decode_packfile b with Some (vl, _) => Some vl | None => None end
    /\ outcome x <> Panic /\ outcome x <> Err CFuel
    /\ (forall v objs e, outcome x = Ok (v, objs, e) -> e <> CFuel).

(** composition: whatever the encoder writes is read back through any chunking *)
Definition reads_back {A B} (conv : B -> A) (D : nat -> prog A) (bs : bytes) (v : B) : Prop :=
  forall (k : string -> read_kind), all_full k ->
  forall (p : list nat) (eof_with_data : bool),
    outcome (run_on (kinds_of k) D (chunked p bs eof_with_data)) = Ok (conv v).
