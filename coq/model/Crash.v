(** C13 - operations as lists of atomic writes, crash prefixes, re-runs (definitions only).

    Every mutating operation of the repository is a function
        (skeletons, block schedule, state, input) |-> (list of atomic writes, ok?)
    A crash after the n-th write leaves [crash n ws s]; an injected write error at position n
    leaves the same state and the operation returns the error.

    The ORDER of the writes is not hard-wired: it is generated from WRITE-ORDER SKELETONS,
    lists of call names that the translator regenerates from the Go source on every run
    (coq/gen/Extracted.v).  [norm] keeps the names that matter for an operation, the writes
    are emitted in the order of the remaining names, and the theorems are parametric in the
    [*_skel_ok] predicates below ("derived indices before the object that advertises them;
    table before commit; commit before ref; prune deletes tables before blocks and commits
    last, children before parents").  gen/Tie_C13.v evaluates these predicates on the
    regenerated lists.  A harmless reordering of independent writes in the code reorders the
    model with it; an order the predicates forbid makes the tie obligation fail.

    Go code modelled (line numbers of the current tree):
      cmd/wrgl/commit_cmd.go   commit (180-247): ref.GetHead; ingestTable; objects.SaveCommit; saveHead
                               commitWithTable (311-336), commitTempBranch (249-255: ref.DeleteHead + commit)
      pkg/ingest/inserter.go   insertBlock (69-): per block SaveBlock then SaveBlockIndex, any
                               interleaving between workers; ingestTableFromBlocks (180-):
                               SaveTableIndex, SaveTableProfile (only if the sorter has a profiler), SaveTable
      cmd/wrgl/merge_cmd.go    runMerge (163-): identical commits (nothing), fast-forward (ref.SaveRef
                               only), ff=never (createMergeCommit), commitMergeResult (518-: IngestTableFromBlocks with a fresh sorter => no profile
                               inside ingest; ingest.ProfileTable AFTER the table; createMergeCommit:
                               SaveCommit; ref.CommitMerge)
      pkg/api/utils/object_receiver.go  saveBlock, saveTable (IndexTable, ProfileTable, SaveTable),
                               saveCommit (parents must exist)
      pkg/ingest/index.go      IndexTable: per block GetBlock, SaveBlockIndex, compare with the table's
                               block-index sum; then SaveTableIndex
      cmd/wrgl/fetch/root.go   Fetch: fetchObjects (completes only when every wanted commit has been
                               received) then saveFetchedRefs (ref.SaveFetchRef = SetWithLog per ref)
      pkg/prune/prune.go       Prune: findCommitsToRemove; early return when nothing is removable;
                               pruneTables (DeleteTable, DeleteTableIndex, DeleteTableProfile per table);
                               DeleteBlock*; DeleteBlockIndex*; DeleteCommit* over childrenFirst(...)

    Exchange format (shared with harness/c13.go):
      table  = (meta ((blk idx) ...))
      cid    = (table (parent-cid ...) nonce)
      shape  = (table (shape ...))
      pobj   = (0 blk) | (1 table) | (2 cid)
      op     = (0 r table nonce)              commit
             | (1 r table nonce)              commitWithTable
             | (2 r)                          DeleteHead
             | (3 r (cid ...) table nonce)    merge commit (real merge: ingest, profile, commit, ref)
             | (4 r cid nonce)                merge, ff=never
             | (5 r cid)                      merge, fast-forward
             | (6 (pobj ...) ((r cid force) ...))   fetch: receive the packfile objects, then save refs
             | (9 r rr (pobj ...) cid force table nonce)   `wrgl pull b<r> origin refs/heads/b<rr-10>:
                                              refs/remotes/origin/b<rr-10>` through the real CLI against the
                                              reference server; observation = (status ref-writes verdicts refs ())
                                              with one verdict per ref write (crash right before it) + one for
                                              the completed run
             | (7)                            prune
             | (8 (pobj ...) ((r cid force) ...))   fetch, same model; the Go side runs the exported
                                              fetch.Fetch against the in-process reference server
                                              (the object list is the generator's prediction)
      case   = (universe setup op op2 flags)   universe: ignored by the model (row-level
               description of the tables for the Go side); setup = ((op (n)?) ...) run to completion
               or crashed after n writes; op = the operation under test; op2 = the same operation as
               re-run (fresh nonce); flags = (workers cli), ignored by the model
      write  = (kind id) with kind 0 PutBlock 1 PutBlkIdx 2 PutTblIdx 3 PutProf 4 PutTable 5 PutCommit
               6 SetRefLog (id = (r cid full)) 7 DelRef 8 DelBlock 9 DelBlkIdx 10 DelTable 11 DelTblIdx
               12 DelProf 13 DelCommit
      observation = (status trace verdicts refs counts)
        status   0 = op returned nil, 1 = op returned an error
        trace    canonical write trace: maximal runs of {PutBlock,PutBlkIdx}, of
                 {DelTable,DelTblIdx,DelProf}, of DelBlock, of DelBlkIdx, of DelCommit are sorted by
                 (id, kind) (worker interleaving / key = hash order are not observable)
        verdicts one (inv rerun fault) triple per prefix length n = 0..L: inv = the crash state
                 satisfies Inv, rerun = op2 from the crash state returns what op returned, ends in an
                 Inv state and agrees with the uninterrupted run on ref |-> history shape (for n = L
                 this is "the completed operation is idempotent": false for commit, true for the
                 others); fault =
                 an error injected into write n makes the op return an error and leaves exactly
                 the crash state (always 1 in the model: that is what a write list means)
        refs     ((r shape) ...) of the uninterrupted final state, sorted
        counts   (#commits #tables #tblidx #prof #blocks #blkidx) of the uninterrupted final state *)
From Coq Require Import List NArith Bool String.
From W.lib Require Import Tree.
From W.model Require Import CrashRepo.
Import ListNotations.
Local Open Scope N_scope.

(* ------------------------------------------------------------------ skeletons *)

(** Call names are encoded as numbers ([encode], table [names]) before they reach the model,
    so that the extracted code contains no Coq [string]: a skeleton is a [list N] of codes,
    names the model does not know are dropped. *)
Record skels := mkSkels {
  sk_ingest : list N;         (* Inserter.ingestTableFromBlocks *)
  sk_insert_block : list N;   (* Inserter.insertBlock *)
  sk_recv_table : list N;     (* ObjectReceiver.saveTable *)
  sk_index_table : list N;    (* ingest.IndexTable *)
  sk_recv_commit : list N;    (* ObjectReceiver.saveCommit *)
  sk_fetch : list N;          (* fetch.Fetch *)
  sk_prune : list N;          (* prune.Prune *)
  sk_prune_tables : list N;   (* prune.pruneTables *)
  sk_prune_commit_order : N;  (* what the commit-deletion loop ranges over *)
  sk_commit : list N;         (* cmd/wrgl commit *)
  sk_commit_with_table : list N; (* cmd/wrgl commitWithTable *)
  sk_merge_result : list N;   (* cmd/wrgl commitMergeResult *)
  sk_create_merge : list N    (* cmd/wrgl createMergeCommit *)
}.

Definition n_SaveBlock : N := 1.
Definition n_SaveBlockIndex : N := 2.
Definition n_SaveTableIndex : N := 3.
Definition n_SaveTableProfile : N := 4.
Definition n_SaveTable : N := 5.
Definition n_IndexTable : N := 6.
Definition n_ProfileTable : N := 7.
Definition n_CommitExist : N := 8.
Definition n_SaveCommit : N := 9.
Definition n_fetchObjects : N := 10.
Definition n_saveFetchedRefs : N := 11.
Definition n_pruneTables : N := 12.
Definition n_DeleteBlock : N := 13.
Definition n_DeleteBlockIndex : N := 14.
Definition n_DeleteCommit : N := 15.
Definition n_DeleteTable : N := 16.
Definition n_DeleteTableIndex : N := 17.
Definition n_DeleteTableProfile : N := 18.
Definition n_childrenFirst : N := 19.
Definition n_ingestTable : N := 20.
Definition n_saveHead : N := 21.
Definition n_IngestTableFromBlocks : N := 22.
Definition n_createMergeCommit : N := 23.
Definition n_CommitMerge : N := 24.

Definition names : list (string * N) := [
  ("objects.SaveBlock"%string, n_SaveBlock);
  ("objects.SaveBlockIndex"%string, n_SaveBlockIndex);
  ("objects.SaveTableIndex"%string, n_SaveTableIndex);
  ("objects.SaveTableProfile"%string, n_SaveTableProfile);
  ("objects.SaveTable"%string, n_SaveTable);
  ("ingest.IndexTable"%string, n_IndexTable);
  ("ingest.ProfileTable"%string, n_ProfileTable);
  ("objects.CommitExist"%string, n_CommitExist);
  ("objects.SaveCommit"%string, n_SaveCommit);
  ("fetchObjects"%string, n_fetchObjects);
  ("saveFetchedRefs"%string, n_saveFetchedRefs);
  ("pruneTables"%string, n_pruneTables);
  ("objects.DeleteBlock"%string, n_DeleteBlock);
  ("objects.DeleteBlockIndex"%string, n_DeleteBlockIndex);
  ("objects.DeleteCommit"%string, n_DeleteCommit);
  ("objects.DeleteTable"%string, n_DeleteTable);
  ("objects.DeleteTableIndex"%string, n_DeleteTableIndex);
  ("objects.DeleteTableProfile"%string, n_DeleteTableProfile);
  ("childrenFirst"%string, n_childrenFirst);
  ("ingestTable"%string, n_ingestTable);
  ("saveHead"%string, n_saveHead);
  ("ingest.IngestTableFromBlocks"%string, n_IngestTableFromBlocks);
  ("createMergeCommit"%string, n_createMergeCommit);
  ("ref.CommitMerge"%string, n_CommitMerge)].
Definition code_of (x : string) : option N :=
  match find (fun e => String.eqb (fst e) x) names with Some e => Some (snd e) | None => None end.
Definition encode (sk : list string) : list N :=
  flat_map (fun x => match code_of x with Some c => [c] | None => [] end) sk.
(** the marker of the commit-deletion loop; anything but childrenFirst is 0 *)
Definition encode_order (s : string) : N := match code_of s with Some c => c | None => 0 end.

Definition norm (vocab : list N) (sk : list N) : list N :=
  filter (fun x => memb N.eqb x vocab) sk.
Definition one_of (allowed : list (list N)) (l : list N) : bool :=
  memb (list_eqb N.eqb) l allowed.

Definition vocab_ingest := [n_SaveTableIndex; n_SaveTableProfile; n_SaveTable].
Definition vocab_insert_block := [n_SaveBlock; n_SaveBlockIndex].
Definition vocab_recv_table := [n_IndexTable; n_ProfileTable; n_SaveTable].
Definition vocab_index_table := [n_SaveBlockIndex; n_SaveTableIndex].
Definition vocab_recv_commit := [n_CommitExist; n_SaveCommit].
Definition vocab_fetch := [n_fetchObjects; n_saveFetchedRefs].
Definition vocab_prune := [n_pruneTables; n_DeleteBlock; n_DeleteBlockIndex; n_DeleteCommit].
Definition vocab_prune_tables := [n_DeleteTable; n_DeleteTableIndex; n_DeleteTableProfile].
Definition vocab_commit := [n_ingestTable; n_SaveCommit; n_saveHead].
Definition vocab_commit_with_table := [n_SaveCommit; n_saveHead].
Definition vocab_merge_result := [n_IngestTableFromBlocks; n_ProfileTable; n_createMergeCommit].
Definition vocab_create_merge := [n_SaveCommit; n_CommitMerge].

(** the orders under which the theorems are proved *)
Definition ingest_skel_ok (sk : list N) : bool :=
  one_of [[n_SaveTableIndex; n_SaveTableProfile; n_SaveTable];
          [n_SaveTableProfile; n_SaveTableIndex; n_SaveTable]] (norm vocab_ingest sk).
Definition insert_block_skel_ok (sk : list N) : bool :=
  one_of [[n_SaveBlock; n_SaveBlockIndex]; [n_SaveBlockIndex; n_SaveBlock]] (norm vocab_insert_block sk).
Definition recv_table_skel_ok (sk : list N) : bool :=
  one_of [[n_IndexTable; n_ProfileTable; n_SaveTable];
          [n_ProfileTable; n_IndexTable; n_SaveTable]] (norm vocab_recv_table sk).
Definition index_table_skel_ok (sk : list N) : bool :=
  one_of [[n_SaveBlockIndex; n_SaveTableIndex]] (norm vocab_index_table sk).
Definition recv_commit_skel_ok (sk : list N) : bool :=
  one_of [[n_CommitExist; n_SaveCommit]] (norm vocab_recv_commit sk).
Definition fetch_skel_ok (sk : list N) : bool :=
  one_of [[n_fetchObjects; n_saveFetchedRefs]] (norm vocab_fetch sk).
Definition prune_skel_ok (sk : list N) : bool :=
  one_of [[n_pruneTables; n_DeleteBlock; n_DeleteBlockIndex; n_DeleteCommit];
          [n_pruneTables; n_DeleteBlockIndex; n_DeleteBlock; n_DeleteCommit]] (norm vocab_prune sk).
Definition prune_tables_skel_ok (sk : list N) : bool :=
  one_of [[n_DeleteTable; n_DeleteTableIndex; n_DeleteTableProfile];
          [n_DeleteTable; n_DeleteTableProfile; n_DeleteTableIndex]] (norm vocab_prune_tables sk).
Definition prune_commit_order_ok (c : N) : bool := N.eqb c n_childrenFirst.
Definition commit_skel_ok (sk : list N) : bool :=
  one_of [[n_ingestTable; n_SaveCommit; n_saveHead]] (norm vocab_commit sk).
Definition commit_with_table_skel_ok (sk : list N) : bool :=
  one_of [[n_SaveCommit; n_saveHead]] (norm vocab_commit_with_table sk).
Definition merge_result_skel_ok (sk : list N) : bool :=
  one_of [[n_IngestTableFromBlocks; n_ProfileTable; n_createMergeCommit]] (norm vocab_merge_result sk).
Definition create_merge_skel_ok (sk : list N) : bool :=
  one_of [[n_SaveCommit; n_CommitMerge]] (norm vocab_create_merge sk).

(** receive = saveTable + IndexTable + saveCommit *)
Definition recv_skel_ok (tbl idx com : list N) : bool :=
  recv_table_skel_ok tbl && index_table_skel_ok idx && recv_commit_skel_ok com.

Definition skels_ok (sk : skels) : bool :=
  ingest_skel_ok (sk_ingest sk) && insert_block_skel_ok (sk_insert_block sk) &&
  recv_skel_ok (sk_recv_table sk) (sk_index_table sk) (sk_recv_commit sk) &&
  fetch_skel_ok (sk_fetch sk) &&
  prune_skel_ok (sk_prune sk) && prune_tables_skel_ok (sk_prune_tables sk) &&
  prune_commit_order_ok (sk_prune_commit_order sk) &&
  commit_skel_ok (sk_commit sk) && commit_with_table_skel_ok (sk_commit_with_table sk) &&
  merge_result_skel_ok (sk_merge_result sk) && create_merge_skel_ok (sk_create_merge sk).

(** from the strings of gen/Extracted.v to the model's skeletons *)
Definition mk_skels (ing blk rtab idx rcom fetch prune ptab : list string) (order : string)
    (com cwt mres cmerge : list string) : skels :=
  mkSkels (encode ing) (encode blk) (encode rtab) (encode idx) (encode rcom) (encode fetch)
    (encode prune) (encode ptab) (encode_order order)
    (encode com) (encode cwt) (encode mres) (encode cmerge).

(** the skeletons of the current tree (what the translator emits today, plus the cmd/wrgl
    functions commit, commitWithTable, commitMergeResult, createMergeCommit) *)
Definition base_skels : skels := Eval vm_compute in mk_skels
  ["i.wg.Wait"; "close"; "i.sortBlocks"; "objects.SaveTableIndex"; "objects.SaveTableProfile"; "objects.SaveTable"]%string
  ["objects.SaveBlock"; "objects.SaveBlockIndex"]%string
  ["objects.ReadTableFrom"; "ingest.IndexTable"; "ingest.ProfileTable"; "objects.SaveTable"]%string
  ["objects.SaveBlockIndex"; "objects.SaveTableIndex"]%string
  ["objects.ReadCommitFrom"; "objects.CommitExist"; "objects.SaveCommit"]%string
  ["fetchObjects"; "saveFetchedRefs"]%string
  ["findCommitsToRemove"; "pruneTables"; "objects.DeleteBlock"; "objects.DeleteBlockIndex"; "objects.DeleteCommit"]%string
  ["objects.DeleteTable"; "objects.DeleteTableIndex"; "objects.DeleteTableProfile"]%string
  "childrenFirst"%string
  ["ref.GetHead"; "ingestTable"; "objects.SaveCommit"; "saveHead"]%string
  ["ref.GetHead"; "objects.SaveCommit"; "saveHead"]%string
  ["ingest.IngestTableFromBlocks"; "objects.GetTable"; "ingest.ProfileTable"; "createMergeCommit"]%string
  ["objects.SaveCommit"; "ref.CommitMerge"]%string.

(** skeletons regenerated from the source for the functions the translator extracts today,
    the cmd/wrgl ones from the current tree; used by gen/Tie_C13.v and extract/Ex_C13.v *)
Definition tie_skels (ing blk rtab idx rcom fetch prune ptab : list string) (order : string) : skels :=
  mkSkels (encode ing) (encode blk) (encode rtab) (encode idx) (encode rcom) (encode fetch)
    (encode prune) (encode ptab) (encode_order order)
    (sk_commit base_skels) (sk_commit_with_table base_skels)
    (sk_merge_result base_skels) (sk_create_merge base_skels).

(** the tree before commit 2b449a8 (table object stored BEFORE its index and profile) *)
Definition prefix_ingest_skel : list N := [n_SaveTable; n_SaveTableIndex; n_SaveTableProfile].
Definition prefix_recv_table_skel : list N := [n_SaveTable; n_IndexTable; n_ProfileTable].

(* ------------------------------------------------------------------ worker interleavings *)

(** [Interleave ls out]: [out] is a shuffle of the lists [ls], each list in its own order
    (the workers of the inserter each write their blocks' pairs in order) *)
Inductive Interleave {A : Type} : list (list A) -> list A -> Prop :=
| il_done : forall ls, Forall (fun l => l = []) ls -> Interleave ls []
| il_step : forall ls1 x l ls2 out,
    Interleave (ls1 ++ l :: ls2) out -> Interleave (ls1 ++ (x :: l) :: ls2) (x :: out).

(** a schedule picks one interleaving *)
Definition schedule := list (list write) -> list write.
Definition sequential : schedule := @concat write.
Definition valid_sched (sched : schedule) : Prop := forall ls, Interleave ls (sched ls).

(* ------------------------------------------------------------------ ingest *)

Definition is_name (a b : N) : bool := N.eqb a b.

Definition block_pair_writes (sk : skels) (p : N * N) : list write :=
  flat_map (fun nm =>
      if is_name nm n_SaveBlock then [PutBlock (fst p)]
      else if is_name nm n_SaveBlockIndex then [PutBlkIdx (snd p)] else [])
    (norm vocab_insert_block (sk_insert_block sk)).

Definition ingest_tail (sk : skels) (t : table) (hasprof : bool) : list write :=
  flat_map (fun nm =>
      if is_name nm n_SaveTableIndex then [PutTblIdx t]
      else if is_name nm n_SaveTableProfile then (if hasprof then [PutProf t] else [])
      else if is_name nm n_SaveTable then [PutTable t] else [])
    (norm vocab_ingest (sk_ingest sk)).

(** [hasprof]: the sorter has a profiler (true when the rows come from SortFile, false for the
    fresh sorter that merge hands to IngestTableFromBlocks) *)
Definition ingest_writes (sk : skels) (sched : schedule) (t : table) (hasprof : bool) : list write :=
  sched (map (block_pair_writes sk) (t_rows t)) ++ ingest_tail sk t hasprof.

(* ------------------------------------------------------------------ commit *)

Definition opt_list {A} (o : option A) : list A := match o with Some a => [a] | None => [] end.
Definition stored (c : cid) (s : state) : bool := memb cid_eqb c (commits s).
Definition table_present (t : table) (s : state) : bool := memb table_eqb t (tables s).
Definition is_anc (a c : cid) : bool := memb cid_eqb a (ancestors c).

Definition commit_writes (sk : skels) (sched : schedule) (s : state) (r : N) (t : table) (nonce : N) : list write :=
  let c := Cid t (opt_list (head_of r s)) nonce in
  flat_map (fun nm =>
      if is_name nm n_ingestTable then ingest_writes sk sched t true
      else if is_name nm n_SaveCommit then [PutCommit c]
      else if is_name nm n_saveHead then [SetRefLog r c true] else [])
    (norm vocab_commit (sk_commit sk)).

Definition commit_with_table_writes (sk : skels) (s : state) (r : N) (t : table) (nonce : N) : list write :=
  let c := Cid t (opt_list (head_of r s)) nonce in
  flat_map (fun nm =>
      if is_name nm n_SaveCommit then [PutCommit c]
      else if is_name nm n_saveHead then [SetRefLog r c true] else [])
    (norm vocab_commit_with_table (sk_commit_with_table sk)).

(* ------------------------------------------------------------------ merge *)

Definition create_merge_writes (sk : skels) (r : N) (c : cid) : list write :=
  flat_map (fun nm =>
      if is_name nm n_SaveCommit then [PutCommit c]
      else if is_name nm n_CommitMerge then [SetRefLog r c true] else [])
    (norm vocab_create_merge (sk_create_merge sk)).

Definition merge_commit_writes (sk : skels) (sched : schedule) (r : N) (c : cid) : list write :=
  flat_map (fun nm =>
      if is_name nm n_IngestTableFromBlocks then ingest_writes sk sched (c_table c) false
      else if is_name nm n_ProfileTable then [PutProf (c_table c)]
      else if is_name nm n_createMergeCommit then create_merge_writes sk r c else [])
    (norm vocab_merge_result (sk_merge_result sk)).

(* ------------------------------------------------------------------ receive *)

Inductive pobj := PBlock (b : N) | PTable (t : table) | PCommit (c : cid).

(** the block index IndexTable derives from a block (a function of the block content and the
    table's primary key); the extracted model uses [fun _ b => b]: one numbering for a block
    and its index under the fixed key of the harness *)
Definition deriver := N -> N -> N.

(** IndexTable's loop: per block GetBlock (error when absent), SaveBlockIndex of the derived
    index, error when it differs from the sum the table announces *)
Fixpoint index_blocks (dv : deriver) (s : state) (meta : N) (rows : list (N * N)) : list write * bool :=
  match rows with
  | [] => ([], true)
  | (b, i) :: rest =>
      if memb N.eqb b (blocks s) then
        if N.eqb (dv meta b) i then
          let '(ws, ok) := index_blocks dv s meta rest in (PutBlkIdx (dv meta b) :: ws, ok)
        else ([PutBlkIdx (dv meta b)], false)
      else ([], false)
  end.

Definition index_table_writes (sk : skels) (dv : deriver) (s : state) (t : table) : list write * bool :=
  fold_left (fun (acc : list write * bool) nm =>
      let '(ws, ok) := acc in
      if ok then
        if is_name nm n_SaveBlockIndex then
          let '(ws', ok') := index_blocks dv s (t_meta t) (t_rows t) in (ws ++ ws', ok')
        else if is_name nm n_SaveTableIndex then (ws ++ [PutTblIdx t], true)
        else acc
      else acc)
    (norm vocab_index_table (sk_index_table sk)) ([], true).

Definition recv_table_writes (sk : skels) (dv : deriver) (s : state) (t : table) : list write * bool :=
  fold_left (fun (acc : list write * bool) nm =>
      let '(ws, ok) := acc in
      if ok then
        if is_name nm n_IndexTable then
          let '(ws', ok') := index_table_writes sk dv s t in (ws ++ ws', ok')
        else if is_name nm n_ProfileTable then
          (* ProfileTable reads every block first *)
          if inclb N.eqb (t_blocks t) (blocks s) then (ws ++ [PutProf t], true) else (ws, false)
        else if is_name nm n_SaveTable then (ws ++ [PutTable t], true)
        else acc
      else acc)
    (norm vocab_recv_table (sk_recv_table sk)) ([], true).

Definition recv_commit_writes (sk : skels) (s : state) (c : cid) : list write * bool :=
  fold_left (fun (acc : list write * bool) nm =>
      let '(ws, ok) := acc in
      if ok then
        if is_name nm n_CommitExist then
          if inclb cid_eqb (c_parents c) (commits s) then acc else (ws, false)
        else if is_name nm n_SaveCommit then (ws ++ [PutCommit c], true)
        else acc
      else acc)
    (norm vocab_recv_commit (sk_recv_commit sk)) ([], true).

Definition recv_obj (sk : skels) (dv : deriver) (s : state) (o : pobj) : list write * bool :=
  match o with
  | PBlock b => ([PutBlock b], true)
  | PTable t => recv_table_writes sk dv s t
  | PCommit c => recv_commit_writes sk s c
  end.

(** ObjectReceiver.Receive over the concatenated packfiles: objects in order, stop at the
    first error *)
Fixpoint receive (sk : skels) (dv : deriver) (s : state) (objs : list pobj) : list write * bool :=
  match objs with
  | [] => ([], true)
  | o :: rest =>
      let '(ws, ok) := recv_obj sk dv s o in
      if ok then
        let '(ws', ok') := receive sk dv (apply_all ws s) rest in (ws ++ ws', ok')
      else (ws, false)
  end.

(** saveFetchedRefs for non-tag destinations: skip when unchanged; new ref; fast-forward;
    forced; otherwise rejected (the remaining refs are still processed, the call fails at the
    end); IsAncestorOf fails at once when the new commit is absent *)
Fixpoint save_refs (s : state) (upd : list (N * cid * bool)) : list write * bool :=
  match upd with
  | [] => ([], true)
  | (r, c, force) :: rest =>
      match head_of r s with
      | None =>
          let '(ws, ok) := save_refs (apply (SetRefLog r c false) s) rest in
          (SetRefLog r c false :: ws, ok)
      | Some old =>
          if cid_eqb old c then save_refs s rest
          else if negb (stored c s) then ([], false)
          else if is_anc old c || force then
            let '(ws, ok) := save_refs (apply (SetRefLog r c false) s) rest in
            (SetRefLog r c false :: ws, ok)
          else let '(ws, ok) := save_refs s rest in (ws, false)
      end
  end.

(** fetchObjects: NewUploadPackSession wants the advertised commits that are not stored; with
    nothing wanted no transfer takes place; otherwise the session ends without error only when
    every wanted commit has been received and saved *)
Definition fetch_objects (sk : skels) (dv : deriver) (s : state) (objs : list pobj)
    (upd : list (N * cid * bool)) : list write * bool :=
  if forallb (fun u => stored (snd (fst u)) s) upd then ([], true)
  else
    let '(ws, ok) := receive sk dv s objs in
    (ws, ok && forallb (fun u => stored (snd (fst u)) (apply_all ws s)) upd).

Definition fetch_writes (sk : skels) (dv : deriver) (s : state) (objs : list pobj)
    (upd : list (N * cid * bool)) : list write * bool :=
  fold_left (fun (acc : list write * bool) nm =>
      let '(ws, ok) := acc in
      if ok then
        let cur := apply_all ws s in
        if is_name nm n_fetchObjects then
          let '(ws', ok') := fetch_objects sk dv cur objs upd in (ws ++ ws', ok')
        else if is_name nm n_saveFetchedRefs then
          let '(ws', ok') := save_refs cur upd in (ws ++ ws', ok')
        else acc
      else acc)
    (norm vocab_fetch (sk_fetch sk)) ([], true).

(* ------------------------------------------------------------------ prune *)

Definition ref_targets (s : state) : list cid := map (fun e => fst (snd e)) (refs s).
Definition reachable (s : state) : list cid := flat_map ancestors (ref_targets s).
Definition commits_to_remove (s : state) : list cid :=
  filter (fun c => negb (memb cid_eqb c (reachable s))) (commits s).
Definition surviving (s : state) : list cid :=
  filter (fun c => memb cid_eqb c (reachable s)) (commits s).

(** prune.childrenFirst: Kahn's algorithm among the commits to remove.  [kparents c] is the
    Go map entry parents[c] (to-remove parents, with multiplicity), [pending0] the map
    pendingChildren after the first loop.  Counters are [nat] with saturating [pred]; the Go
    ints never go below zero when the key list has no duplicates (excluded in the theorems). *)
Definition kparents (l : list cid) (c : cid) : list cid :=
  filter (fun p => memb cid_eqb p l) (c_parents c).
Definition countb (x : cid) (l : list cid) : nat := length (filter (cid_eqb x) l).
Definition pending0 (l : list cid) (p : cid) : nat := countb p (flat_map (kparents l) l).
Definition upd_pend (f : cid -> nat) (p : cid) (n : nat) : cid -> nat :=
  fun x => if cid_eqb x p then n else f x.
Fixpoint dec_parents (ps : list cid) (pend : cid -> nat) (q : list cid) : (cid -> nat) * list cid :=
  match ps with
  | [] => (pend, q)
  | p :: ps' =>
      let n := pred (pend p) in
      dec_parents ps' (upd_pend pend p n) (if Nat.eqb n 0 then q ++ [p] else q)
  end.
Fixpoint kahn_loop (l : list cid) (fuel : nat) (queue : list cid) (pend : cid -> nat) (res : list cid) : list cid :=
  match fuel with
  | O => res
  | S f =>
      match queue with
      | [] => res
      | c :: q =>
          let '(pend', q') := dec_parents (kparents l c) pend q in
          kahn_loop l f q' pend' (res ++ [c])
      end
  end.
Definition children_first (l : list cid) : list cid :=
  kahn_loop l (S (length l)) (filter (fun c => Nat.eqb (pending0 l c) 0) l) (pending0 l) [].

Definition prune_table_writes (sk : skels) (t : table) : list write :=
  flat_map (fun nm =>
      if is_name nm n_DeleteTable then [DelTable t]
      else if is_name nm n_DeleteTableIndex then [DelTblIdx t]
      else if is_name nm n_DeleteTableProfile then [DelProf t] else [])
    (norm vocab_prune_tables (sk_prune_tables sk)).

Definition kept_table (s : state) (t : table) : bool :=
  memb table_eqb t (map c_table (surviving s)).
Definition tables_to_remove (s : state) : list table := filter (fun t => negb (kept_table s t)) (tables s).
Definition kept_tables (s : state) : list table := filter (kept_table s) (tables s).
Definition blocks_to_remove (s : state) : list N :=
  filter (fun b => negb (memb N.eqb b (flat_map t_blocks (kept_tables s)))) (blocks s).
Definition blkidx_to_remove (s : state) : list N :=
  filter (fun i => negb (memb N.eqb i (flat_map t_blkidx (kept_tables s)))) (blkidx s).
Definition commit_order (sk : skels) (l : list cid) : list cid :=
  if is_name (sk_prune_commit_order sk) n_childrenFirst then children_first l else l.

(** all sets are computed from the state at the start (findCommitsToRemove, GetAll*Keys and
    the keep marks are computed before the first delete of the phase that uses them; the
    deletes of earlier phases do not change them) *)
Definition prune_writes (sk : skels) (s : state) : list write :=
  match commits_to_remove s with
  | [] => []                       (* early return: nothing is swept *)
  | _ =>
    flat_map (fun nm =>
        if is_name nm n_pruneTables then flat_map (prune_table_writes sk) (tables_to_remove s)
        else if is_name nm n_DeleteBlock then map DelBlock (blocks_to_remove s)
        else if is_name nm n_DeleteBlockIndex then map DelBlkIdx (blkidx_to_remove s)
        else if is_name nm n_DeleteCommit then map DelCommit (commit_order sk (commits_to_remove s))
        else [])
      (norm vocab_prune (sk_prune sk))
  end.

(* ------------------------------------------------------------------ operations *)

Inductive op :=
| OCommit (r : N) (t : table) (nonce : N)
| OCommitTable (r : N) (t : table) (nonce : N)
| ODelHead (r : N)
| OMergeCommit (r : N) (others : list cid) (t : table) (nonce : N)
| OMergeNoFF (r : N) (other : cid) (nonce : N)
| OMergeFF (r : N) (other : cid)
| OFetch (objs : list pobj) (upd : list (N * cid * bool))
| OPrune
| OPull (r rr : N) (objs : list pobj) (c : cid) (force : bool) (t : table) (nonce : N).
(** [OPull r rr objs c force t nonce] = `wrgl pull BRANCH REMOTE REFSPEC` (pull_cmd.go
    pullSingleRepo): fetch the remote branch (advertised commit [c]) into the remote-tracking
    ref [rr]; then, when the local branch [r] does NOT exist - whatever else the name may
    resolve to, e.g. the remote-tracking ref of an earlier, interrupted pull - create it at the
    fetched commit (ref.SaveRef, action "pull"); when it exists and differs from the fetched
    commit, runMerge (fast-forward or a real merge whose result table is [t]); else "Already up
    to date". *)

Definition flag_of (r : N) (s : state) : bool :=
  match get_ref r s with Some (_, f) => f | None => false end.

(** runMerge's checks on the other commits: they resolve (GetCommit) and their tables exist *)
Definition others_ok (s : state) (others : list cid) : bool :=
  forallb (fun c => stored c s && table_present (c_table c) s) others.

(** runMerge with one other commit: nothing when it is the head itself; fast-forward (one ref
    write) when one of the two contains the other; a real merge only when they diverged *)
Definition diverged (h : cid) (others : list cid) : bool :=
  match others with
  | [o] => negb (cid_eqb h o) && negb (is_anc h o) && negb (is_anc o h)
  | _ => true   (* several merge heads (pull): the base computation is C11's subject *)
  end.

Definition ff_writes (s : state) (r : N) (h o : cid) : list write * bool :=
  if cid_eqb h o then ([], true)            (* "All commits are identical, nothing to merge" *)
  else if is_anc h o then ([SetRefLog r o true], true)
  else if is_anc o h then ([SetRefLog r h (flag_of r s)], true)
  else ([], false).

(** runMerge BRANCH COMMIT... *)
Definition merge_op_writes (sk : skels) (sched : schedule) (s : state) (r : N) (others : list cid)
    (t : table) (nonce : N) : list write * bool :=
  match head_of r s with
  | None => ([], false)
  | Some h =>
      if others_ok s others then
        if diverged h others
        then (merge_commit_writes sk sched r (Cid t (h :: others) nonce), true)
        else match others with [o1] => ff_writes s r h o1 | _ => ([], false) end
      else ([], false)
  end.

(** what pull does after its fetch succeeded, in the state [s1] the fetch left *)
Definition pull_tail (sk : skels) (sched : schedule) (s1 : state) (r rr : N) (t : table) (nonce : N)
    : list write * bool :=
  match head_of rr s1 with
  | None => ([], false)           (* "nothing to create ref from" *)
  | Some c' =>
      match head_of r s1 with
      | None => ([SetRefLog r c' false], true)
      | Some h => if cid_eqb c' h then ([], true)      (* "Already up to date." *)
                  else merge_op_writes sk sched s1 r [c'] t nonce
      end
  end.

Definition pull_writes (sk : skels) (dv : deriver) (sched : schedule) (s : state) (r rr : N)
    (objs : list pobj) (c : cid) (force : bool) (t : table) (nonce : N) : list write * bool :=
  let '(wf, okf) := fetch_writes sk dv s objs [(rr, c, force)] in
  if okf then
    let '(wt, okt) := pull_tail sk sched (apply_all wf s) r rr t nonce in (wf ++ wt, okt)
  else (wf, false).

Definition op_writes (sk : skels) (dv : deriver) (sched : schedule) (s : state) (o : op) : list write * bool :=
  match o with
  | OCommit r t nonce => (commit_writes sk sched s r t nonce, true)
  | OCommitTable r t nonce => (commit_with_table_writes sk s r t nonce, true)
  | ODelHead r => ([DelRef r], true)
  | OMergeCommit r others t nonce => merge_op_writes sk sched s r others t nonce
  | OMergeNoFF r other nonce =>
      match head_of r s with
      | None => ([], false)
      | Some h =>
          if others_ok s [other] then
            if cid_eqb h other then ([], true)
            else if is_anc h other then (create_merge_writes sk r (Cid (c_table other) [h; other] nonce), true)
            else if is_anc other h then (create_merge_writes sk r (Cid (c_table h) [h; other] nonce), true)
            else ([], false)
          else ([], false)
      end
  | OMergeFF r other =>
      match head_of r s with
      | None => ([], false)
      | Some h => if others_ok s [other] then ff_writes s r h other else ([], false)
      end
  | OFetch objs upd => fetch_writes sk dv s objs upd
  | OPrune => (prune_writes sk s, true)
  | OPull r rr objs c force t nonce => pull_writes sk dv sched s r rr objs c force t nonce
  end.

Definition run_op (sk : skels) (dv : deriver) (sched : schedule) (s : state) (o : op) : state :=
  apply_all (fst (op_writes sk dv sched s o)) s.

(** what the theorems assume about the environment of an operation and the code does not
    check itself *)
Definition op_pre (s : state) (o : op) : Prop :=
  match o with
  | OCommitTable _ t _ => In t (tables s)
      (* commitWithTable is called with the table of the temp commit that was just made, or
         whose table was just read back (getCommitTable) *)
  | OMergeNoFF r _ _ => forall h, head_of r s = Some h -> In (c_table h) (tables s)
      (* with ff=never and the other commit an ancestor of the head, createMergeCommit re-uses
         the head's table; nothing checks that it exists *)
  | _ => True
  end.

(** every state a history of operations can leave behind, each operation run to completion
    (n >= number of writes) or cut by a crash / write error after n writes *)
Inductive reach (sk : skels) (dv : deriver) : state -> Prop :=
| reach_init : reach sk dv empty_state
| reach_step : forall s o sched n,
    reach sk dv s -> valid_sched sched -> op_pre s o ->
    reach sk dv (crash n (fst (op_writes sk dv sched s o)) s).

(** variants of the skeletons used by the [_refuted] witnesses *)
Definition with_table_first (sk : skels) : skels :=
  mkSkels prefix_ingest_skel (sk_insert_block sk) prefix_recv_table_skel (sk_index_table sk)
    (sk_recv_commit sk) (sk_fetch sk) (sk_prune sk) (sk_prune_tables sk) (sk_prune_commit_order sk)
    (sk_commit sk) (sk_commit_with_table sk) (sk_merge_result sk) (sk_create_merge sk).
(** the commit-deletion loop ranging over commitsToRemove directly (key = hash order), the
    tree before b7554dd *)
Definition with_hash_order (sk : skels) : skels :=
  mkSkels (sk_ingest sk) (sk_insert_block sk) (sk_recv_table sk) (sk_index_table sk)
    (sk_recv_commit sk) (sk_fetch sk) (sk_prune sk) (sk_prune_tables sk) 0
    (sk_commit sk) (sk_commit_with_table sk) (sk_merge_result sk) (sk_create_merge sk).
(** a prune that deletes the commits first *)
Definition with_commits_first (sk : skels) : skels :=
  mkSkels (sk_ingest sk) (sk_insert_block sk) (sk_recv_table sk) (sk_index_table sk)
    (sk_recv_commit sk) (sk_fetch sk)
    [n_DeleteCommit; n_pruneTables; n_DeleteBlock; n_DeleteBlockIndex] (sk_prune_tables sk)
    (sk_prune_commit_order sk)
    (sk_commit sk) (sk_commit_with_table sk) (sk_merge_result sk) (sk_create_merge sk).

(* ------------------------------------------------------------------ exchange-tree coders *)

Definition t_pair (p : N * N) : tree := Node [Leaf (fst p); Leaf (snd p)].
Definition t_table (t : table) : tree := Node [Leaf (t_meta t); Node (map t_pair (t_rows t))].
Fixpoint t_cid (c : cid) : tree :=
  match c with Cid t ps n => Node [t_table t; Node (map t_cid ps); Leaf n] end.
Fixpoint t_shape (h : shape) : tree :=
  match h with Shape t ps => Node [t_table t; Node (map t_shape ps)] end.

Definition d_pair (t : tree) : N * N := (d_N (d_nth 0 t), d_N (d_nth 1 t)).
Definition d_table (t : tree) : table := mkTable (d_N (d_nth 0 t)) (d_list d_pair (d_nth 1 t)).
Fixpoint d_cid (t : tree) : cid :=
  match t with
  | Node [tb; Node ps; Leaf n] => Cid (d_table tb) (map d_cid ps) n
  | _ => Cid (mkTable 0 []) [] 0
  end.
Definition d_pobj (t : tree) : pobj :=
  match d_N (d_nth 0 t) with
  | 0 => PBlock (d_N (d_nth 1 t))
  | 1 => PTable (d_table (d_nth 1 t))
  | _ => PCommit (d_cid (d_nth 1 t))
  end.
Definition d_upd (t : tree) : N * cid * bool :=
  (d_N (d_nth 0 t), d_cid (d_nth 1 t), d_bool (d_nth 2 t)).
Definition d_op (t : tree) : op :=
  match d_N (d_nth 0 t) with
  | 0 => OCommit (d_N (d_nth 1 t)) (d_table (d_nth 2 t)) (d_N (d_nth 3 t))
  | 1 => OCommitTable (d_N (d_nth 1 t)) (d_table (d_nth 2 t)) (d_N (d_nth 3 t))
  | 2 => ODelHead (d_N (d_nth 1 t))
  | 3 => OMergeCommit (d_N (d_nth 1 t)) (d_list d_cid (d_nth 2 t)) (d_table (d_nth 3 t)) (d_N (d_nth 4 t))
  | 4 => OMergeNoFF (d_N (d_nth 1 t)) (d_cid (d_nth 2 t)) (d_N (d_nth 3 t))
  | 5 => OMergeFF (d_N (d_nth 1 t)) (d_cid (d_nth 2 t))
  | 6 | 8 => OFetch (d_list d_pobj (d_nth 1 t)) (d_list d_upd (d_nth 2 t))
  | 9 => OPull (d_N (d_nth 1 t)) (d_N (d_nth 2 t)) (d_list d_pobj (d_nth 3 t)) (d_cid (d_nth 4 t))
               (d_bool (d_nth 5 t)) (d_table (d_nth 6 t)) (d_N (d_nth 7 t))
  | _ => OPrune
  end.

Definition t_write (w : write) : tree :=
  match w with
  | PutBlock b => Node [Leaf 0; Leaf b]
  | PutBlkIdx i => Node [Leaf 1; Leaf i]
  | PutTblIdx t => Node [Leaf 2; t_table t]
  | PutProf t => Node [Leaf 3; t_table t]
  | PutTable t => Node [Leaf 4; t_table t]
  | PutCommit c => Node [Leaf 5; t_cid c]
  | SetRefLog r c f => Node [Leaf 6; Node [Leaf r; t_cid c; t_bool f]]
  | DelRef r => Node [Leaf 7; Leaf r]
  | DelBlock b => Node [Leaf 8; Leaf b]
  | DelBlkIdx i => Node [Leaf 9; Leaf i]
  | DelTable t => Node [Leaf 10; t_table t]
  | DelTblIdx t => Node [Leaf 11; t_table t]
  | DelProf t => Node [Leaf 12; t_table t]
  | DelCommit c => Node [Leaf 13; t_cid c]
  end.

(* total order on trees, for canonical sorting *)
Fixpoint tree_cmp (a b : tree) : comparison :=
  match a, b with
  | Leaf x, Leaf y => N.compare x y
  | Leaf _, Node _ => Lt
  | Node _, Leaf _ => Gt
  | Node l1, Node l2 =>
      (fix go (l1 l2 : list tree) : comparison :=
         match l1, l2 with
         | [], [] => Eq
         | [], _ :: _ => Lt
         | _ :: _, [] => Gt
         | x :: l1', y :: l2' =>
             match tree_cmp x y with Eq => go l1' l2' | c => c end
         end) l1 l2
  end.
Definition tree_leb (a b : tree) : bool := match tree_cmp a b with Gt => false | _ => true end.
Fixpoint insert_sorted (x : tree) (l : list tree) : list tree :=
  match l with
  | [] => [x]
  | y :: l' => if tree_leb x y then x :: l else y :: insert_sorted x l'
  end.
Definition sort_trees (l : list tree) : list tree := fold_right insert_sorted [] l.

(** group of a write kind: writes of one group that are adjacent are sorted by (id, kind) *)
Definition kind_group (k : N) : N :=
  match k with
  | 0 | 1 => 1
  | 10 | 11 | 12 => 2
  | 8 => 3
  | 9 => 4
  | 13 => 5
  | _ => 0
  end.
(** sort key: (id kind); the trace keeps (kind id) *)
Definition sort_key (w : tree) : tree := Node [d_nth 1 w; d_nth 0 w].
Definition unkey (k : tree) : tree := Node [d_nth 1 k; d_nth 0 k].
Definition flush_run (run : list tree) : list tree := map unkey (sort_trees (map sort_key run)).
Fixpoint canon_go (ws : list tree) (g : N) (run : list tree) : list tree :=
  match ws with
  | [] => flush_run run
  | w :: rest =>
      let gw := kind_group (d_N (d_nth 0 w)) in
      if N.eqb gw 0 then flush_run run ++ w :: canon_go rest 0 []
      else if N.eqb gw g then canon_go rest g (run ++ [w])
      else flush_run run ++ canon_go rest gw [w]
  end.
Definition canon_trace (ws : list write) : list tree := canon_go (map t_write ws) 0 [].

Definition run_step (sk : skels) (s : state) (t : tree) : state :=
  let o := d_op (d_nth 0 t) in
  let ws := fst (op_writes sk (fun _ b => b) sequential s o) in
  match d_opt d_nat (d_nth 1 t) with
  | Some n => crash n ws s
  | None => apply_all ws s
  end.

Definition ref_entry (e : N * refval) : tree := Node [Leaf (fst e); t_shape (shape_of (fst (snd e)))].

Definition run_C13_sk (sk : skels) (c : tree) : tree :=
  let dv : deriver := fun _ b => b in
  let s0 := fold_left (run_step sk) (d_list (fun x => x) (d_nth 1 c)) empty_state in
  let o := d_op (d_nth 2 c) in
  let o2 := d_op (d_nth 3 c) in
  let '(ws, ok) := op_writes sk dv sequential s0 o in
  let final := apply_all ws s0 in
  let verdict (n : nat) : tree :=
    let sn := crash n ws s0 in
    let '(ws2, ok2) := op_writes sk dv sequential sn o2 in
    let f2 := apply_all ws2 sn in
    Node [t_bool (inv_b sn); t_bool (Bool.eqb ok2 ok && inv_b f2 && obs_eqb f2 final); Leaf 1] in
  let is_ref (w : write) := match w with SetRefLog _ _ _ | DelRef _ => true | _ => false end in
  let ref_positions :=
    (fix go (l : list write) (i : nat) : list nat :=
       match l with [] => [] | w :: l' => if is_ref w then i :: go l' (S i) else go l' (S i) end) ws 0%nat in
  match o with
  | OPull _ _ _ _ _ _ _ =>
      (* run through the real CLI on badger + sqlite: only the ref store can be observed and
         faulted; one verdict per ref write (crash right before it) and one for the completed run *)
      Node [ Leaf (if ok then 0 else 1);
             Node (map t_write (filter is_ref ws));
             Node (map verdict (ref_positions ++ [length ws]));
             Node (sort_trees (map ref_entry (refs final)));
             Node [] ]
  | _ =>
  Node [ Leaf (if ok then 0 else 1);
         Node (canon_trace ws);
         Node (map verdict (seq 0 (S (length ws))));
         Node (sort_trees (map ref_entry (refs final)));
         Node [t_nat (length (commits final)); t_nat (length (tables final)); t_nat (length (tblidx final));
               t_nat (length (prof final)); t_nat (length (blocks final)); t_nat (length (blkidx final))] ]
  end.

Definition run_C13 : tree -> tree := run_C13_sk base_skels.
