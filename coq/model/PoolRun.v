(** C16 - dispatcher of the exchange cases (definitions only).
    case kinds (leading tag leaf):
      0  ingest worker pool      -> Pool.run_ingest   (format there)
      2  differ/merger dataflow  -> PoolFlow.run_flow (format there)
      3  regression: failing store + spilled sorter chunks (child process)   -> (1) = error returned
      4  regression: failing slow store, producer must not leak              -> (1) = error returned
      5  merge end to end, repeated under different GOMAXPROCS / yields      -> (0) = all runs agree
      6  regression: store Get failing during a merge (errChan capacity)     -> (1) = error returned
      7  ingest as kind 0 with varying-length keys in the second column      -> Pool.run_ingest
      8  diff / merge with real progress ticks, watchdog on Stop/Error/Close -> (0) = returned, nothing left
      9  `wrgl commit` with the k-th block write failing, k = 0..nblocks     -> run_commit: pool model + bar model
     10  `wrgl diff NEW.csv OLD.csv -n N` on raw files                       -> (0 added removed modified) *)
From W.lib Require Import Tree.
From W.model Require Import Pool PoolFlow PoolTracker.

(* (9 requestedWorkers nblocks bars): outcome of the command for every failing block position.
   The pool model (effective workers = requested - 2, at least 1; block k-1 fails in SaveBlock)
   gives the ingest outcome, the bar model what the command's caller sees. *)
Definition run_commit (c : tree) : tree :=
  let req := d_nat (d_nth 1 c) in
  let n := d_nat (d_nth 2 c) in
  let bars := d_bool (d_nth 3 c) in
  let w := Nat.max 1 (req - 2) in
  let rows := Node (map (fun _ => Leaf 255) (seq 0 n)) in
  let one (k : nat) : tree :=
    let ic := Node [Leaf 0; t_nat w; rows; Node []; Leaf 1;
                    t_nat (k - 1); Leaf (if Nat.eqb k 0 then 0 else 1); Leaf 0] in
    let o := match d_N (d_nth 0 (run_ingest ic)) with 0%N => IOk | _ => IErr k end in
    match command_result bars true o with Some r => Leaf r | None => Leaf 3 end in
  Node (map one (seq 0 (S n))).

Definition run_C16 (c : tree) : tree :=
  match d_nat (d_nth 0 c) with
  | 0%nat | 7%nat => run_ingest c
  | 2%nat => run_flow c
  | 3%nat | 4%nat | 6%nat => Node [Leaf 1]
  | 9%nat => run_commit c
  | 10%nat => Node [Leaf 0; d_nth 3 c; d_nth 4 c; d_nth 5 c]
  | _ => Node [Leaf 0]
  end.
