(** C16 - dispatcher of the exchange cases (definitions only).
    case kinds (leading tag leaf):
      0  ingest worker pool      -> Pool.run_ingest   (format there)
      2  differ/merger dataflow  -> PoolFlow.run_flow (format there)
      3  regression: failing store + spilled sorter chunks (child process)   -> (1) = error returned
      4  regression: failing slow store, producer must not leak              -> (1) = error returned
      5  merge end to end, repeated under different GOMAXPROCS / yields      -> (0) = all runs agree
      6  regression: store Get failing during a merge (errChan capacity)     -> (1) = error returned
      7  ingest as kind 0 with varying-length keys in the second column      -> Pool.run_ingest
      8  diff / merge with real progress ticks, watchdog on Stop/Error/Close -> (0) = returned, nothing left *)
From W.lib Require Import Tree.
From W.model Require Import Pool PoolFlow.

Definition run_C16 (c : tree) : tree :=
  match d_nat (d_nth 0 c) with
  | 0%nat | 7%nat => run_ingest c
  | 2%nat => run_flow c
  | 3%nat | 4%nat | 6%nat => Node [Leaf 1]
  | _ => Node [Leaf 0]
  end.
