(** C07 - specification side of the transfer model: invariants, preconditions and
    postconditions used by the theorems of props/C07.v.  Definitions only. *)
From W.lib Require Import Tree.
From W.model Require Import Transfer.
From Coq Require Import List NArith Bool.
Import ListNotations.
Local Open Scope N_scope.

Definition rstate (r : rres) : repo := match r with ROk d => d | RErr d => d end.

(** every stored commit's parents are stored *)
Definition Closed (d : repo) : Prop :=
  forall c cc, lookup c (commits d) = Some cc ->
  forall p, In p (c_parents cc) -> has_commit d p = true.

Section Spec.
Variable bshape : N -> N.

(** what IndexTable checks about the table bytes and the rows of its blocks:
    pk in range, every block non-empty with rows as wide as the columns, and the
    recorded block-index ids equal to re-indexing the blocks *)
Definition table_sound (tc : table) : Prop :=
  (forall k, In k (t_pk tc) -> k < t_cols tc) /\
  (forall b x, In (b, x) (t_blocks tc) -> fits bshape (t_cols tc) b = true /\ x = reindex (t_pk tc) b).

(** a stored table is usable: sound, all its blocks and their indices present,
    table index and profile present *)
Definition table_ok (d : repo) (t : N) (tc : table) : Prop :=
  table_sound tc /\
  (forall b x, In (b, x) (t_blocks tc) -> has_block d b = true /\ In x (blkidx d)) /\
  In t (tblidx d) /\ In t (prof d).

Definition TablesWF (d : repo) : Prop :=
  forall t tc, lookup t (tables d) = Some tc -> table_ok d t tc.

(** what the sender needs of the source: stored tables are sound and have their blocks *)
Definition SrcWF (s : repo) : Prop :=
  forall t tc, lookup t (tables s) = Some tc ->
    table_sound tc /\ forall b, In b (tbl_blocks tc) -> has_block s b = true.

End Spec.

(** hash injectivity in the words of the model: an id present in both stores names the
    same content in both *)
Definition agree {V} (a b : list (N * V)) : Prop :=
  forall k x y, lookup k a = Some x -> lookup k b = Some y -> x = y.
Definition compat (a b : repo) : Prop :=
  agree (commits a) (commits b) /\ agree (tables a) (tables b) /\ agree (blocks a) (blocks b).

(** parent-first and closed modulo what the destination holds: every parent of a listed
    commit is listed earlier or is already stored at the destination.  ([closed_mod_commons]
    in the proofs derives it from "is an ancestor-or-self of a declared common commit".) *)
Definition parent_first (dst : repo) (to_send : list (N * commit)) : Prop :=
  forall pre c cc post, to_send = pre ++ (c, cc) :: post ->
  forall p, In p (c_parents cc) -> In p (map fst pre) \/ has_commit dst p = true.

(** ancestor-or-self in the commit graph of a store *)
Inductive anc (s : repo) : N -> N -> Prop :=
| anc_refl a : anc s a a
| anc_step a b cc p : lookup b (commits s) = Some cc -> In p (c_parents cc) -> anc s a p -> anc s a b.

Definition parent_first_commons (src : repo) (commons : list N) (to_send : list (N * commit)) : Prop :=
  forall pre c cc post, to_send = pre ++ (c, cc) :: post ->
  forall p, In p (c_parents cc) -> In p (map fst pre) \/ exists c0, In c0 commons /\ anc src p c0.

(** a table the caller asked to be sent and the source can send *)
Definition sent_table (src : repo) (to_send : list (N * commit)) (tbs : list N) (t : N) (tc : table) : Prop :=
  exists c cc, In (c, cc) to_send /\ c_table cc = t /\ memN t tbs = true /\ lookup t (tables src) = Some tc.

(** the table of a declared common commit *)
Definition common_table (src : repo) (commons : list N) (t : N) : Prop :=
  exists c cc, In c commons /\ lookup c (commits src) = Some cc /\ c_table cc = t.

Record exact_pre (bshape : N -> N) (src dst : repo) (to_send : list (N * commit)) (tbs commons : list N) : Prop := {
  pre_src_wf : SrcWF bshape src;
  pre_sent_in_src : forall c cc, In (c, cc) to_send -> lookup c (commits src) = Some cc;
  pre_commons_in_src : forall c, In c commons -> has_commit src c = true;
  pre_parent_first : parent_first dst to_send;
  pre_dst_closed : Closed dst;
  pre_dst_wf : TablesWF bshape dst;
  pre_compat : compat src dst }.


(** The same without any well-formedness of the destination's tables: it may hold ANY subset
    of objects of ANY kind. *)
Record exact_pre_any (bshape : N -> N) (src dst : repo) (to_send : list (N * commit)) (tbs commons : list N) : Prop := {
  apre_src_wf : SrcWF bshape src;
  apre_sent_in_src : forall c cc, In (c, cc) to_send -> lookup c (commits src) = Some cc;
  apre_commons_in_src : forall c, In c commons -> has_commit src c = true;
  apre_parent_first : parent_first dst to_send;
  apre_dst_closed : Closed dst;
  (* NOT required: that the tables stored at the destination are usable.  The destination may
     hold any subset of objects of any kind (a table object without its indices, indices
     without the table, ...).  Only the tables of the declared-common commits, whose blocks
     the sender withholds, must be usable there if present: *)
  apre_commons_usable : forall t tc, common_table src commons t ->
                       lookup t (tables dst) = Some tc -> table_ok bshape dst t tc;
  apre_compat : compat src dst }.

(** declared common commits are full at the destination *)
Definition commons_full (src dst : repo) (commons : list N) : Prop :=
  forall t, common_table src commons t -> has_table dst t = true.

Record exact_post (bshape : N -> N) (src dst : repo) (to_send : list (N * commit)) (tbs : list N) (d' : repo) : Prop := {
  (* the sent objects are there, identical *)
  post_commits : forall c cc, In (c, cc) to_send -> lookup c (commits d') = Some cc;
  post_tables : forall t tc, sent_table src to_send tbs t tc -> lookup t (tables d') = Some tc;
  post_blocks : forall t tc b, sent_table src to_send tbs t tc -> In b (tbl_blocks tc) ->
                has_block d' b = true /\ lookup b (blocks d') = lookup b (blocks src);
  post_compat : compat src d';
  (* rebuilt indices, usable tables, closed history *)
  post_closed : Closed d';
  post_wf : TablesWF bshape d';
  (* exactly those: nothing else appears, nothing present before changes *)
  frame_commits : forall c, has_commit d' c = true <-> has_commit dst c = true \/ In c (map fst to_send);
  frame_tables : forall t, has_table d' t = true <-> has_table dst t = true \/ exists tc, sent_table src to_send tbs t tc;
  frame_blocks : forall b, has_block d' b = true <->
                 has_block dst b = true \/ exists t tc, sent_table src to_send tbs t tc /\ In b (tbl_blocks tc);
  frame_blkidx : forall x, In x (blkidx d') <->
                 In x (blkidx dst) \/ exists t tc, sent_table src to_send tbs t tc /\ In x (map snd (t_blocks tc));
  frame_tblidx : forall t, In t (tblidx d') <-> In t (tblidx dst) \/ exists tc, sent_table src to_send tbs t tc;
  frame_prof : forall t, In t (prof d') <-> In t (prof dst) \/ exists tc, sent_table src to_send tbs t tc;
  keep_commits : forall c, has_commit dst c = true -> lookup c (commits d') = lookup c (commits dst);
  keep_tables : forall t, has_table dst t = true -> lookup t (tables d') = lookup t (tables dst);
  keep_blocks : forall b, has_block dst b = true -> lookup b (blocks d') = lookup b (blocks dst) }.


(** ... and the corresponding conclusion: every SENT table is usable afterwards; all stored
    tables are if they all were before. *)
Record exact_post_any (bshape : N -> N) (src dst : repo) (to_send : list (N * commit)) (tbs : list N) (d' : repo) : Prop := {
  (* the sent objects are there, identical *)
  apost_commits : forall c cc, In (c, cc) to_send -> lookup c (commits d') = Some cc;
  apost_tables : forall t tc, sent_table src to_send tbs t tc -> lookup t (tables d') = Some tc;
  apost_blocks : forall t tc b, sent_table src to_send tbs t tc -> In b (tbl_blocks tc) ->
                has_block d' b = true /\ lookup b (blocks d') = lookup b (blocks src);
  apost_compat : compat src d';
  (* rebuilt indices, usable tables, closed history *)
  apost_closed : Closed d';
  apost_usable : forall t tc, sent_table src to_send tbs t tc -> table_ok bshape d' t tc;
  apost_wf : TablesWF bshape dst -> TablesWF bshape d';
  (* exactly those: nothing else appears, nothing present before changes *)
  aframe_commits : forall c, has_commit d' c = true <-> has_commit dst c = true \/ In c (map fst to_send);
  aframe_tables : forall t, has_table d' t = true <-> has_table dst t = true \/ exists tc, sent_table src to_send tbs t tc;
  aframe_blocks : forall b, has_block d' b = true <->
                 has_block dst b = true \/ exists t tc, sent_table src to_send tbs t tc /\ In b (tbl_blocks tc);
  aframe_blkidx : forall x, In x (blkidx d') <->
                 In x (blkidx dst) \/ exists t tc, sent_table src to_send tbs t tc /\ In x (map snd (t_blocks tc));
  aframe_tblidx : forall t, In t (tblidx d') <-> In t (tblidx dst) \/ exists tc, sent_table src to_send tbs t tc;
  aframe_prof : forall t, In t (prof d') <-> In t (prof dst) \/ exists tc, sent_table src to_send tbs t tc;
  akeep_commits : forall c, has_commit dst c = true -> lookup c (commits d') = lookup c (commits dst);
  akeep_tables : forall t, has_table dst t = true -> lookup t (tables d') = lookup t (tables dst);
  akeep_blocks : forall b, has_block dst b = true -> lookup b (blocks d') = lookup b (blocks dst) }.

(** shape of the packfile sequence: a partition of the stream into non-empty packfiles
    (one empty packfile when there is nothing to send) *)
Definition packs_of (objs : list obj) (packs : list (list obj)) : Prop :=
  concat packs = objs /\
  (objs = [] -> packs = [[]]) /\ (objs <> [] -> Forall (fun p => p <> []) packs).

(** order of the stream *)
Definition blocks_before_tables (cb0 : list N) (objs : list obj) : Prop :=
  forall l1 t tc l2, objs = l1 ++ OTable t tc :: l2 ->
  forall b, In b (tbl_blocks tc) -> (exists z, In (OBlock b z) l1) \/ In b cb0.
Definition table_before_commits (objs : list obj) : Prop :=
  forall l1 c cc l2, objs = l1 ++ OCommit c cc :: l2 ->
  forall tc, ~ In (OTable (c_table cc) tc) l2.
Definition commits_in_order (to_send : list (N * commit)) (objs : list obj) : Prop :=
  flat_map (fun o => match o with OCommit c cc => [(c, cc)] | _ => [] end) objs = to_send.
Definition parents_before_children (dst : repo) (objs : list obj) : Prop :=
  forall l1 c cc l2, objs = l1 ++ OCommit c cc :: l2 ->
  forall p, In p (c_parents cc) -> (exists pc, In (OCommit p pc) l1) \/ has_commit dst p = true.

(** projection of a transfer result on (destination state, rejected?) *)
Definition tstate (r : tres) : option rres :=
  match r with
  | TDone d _ => Some (ROk d)
  | TRecvErr d _ => Some (RErr d)
  | _ => None
  end.
Definition tpacks (r : tres) : list (list obj) :=
  match r with
  | TDone _ ps | TRecvErr _ ps | TSendErr _ ps => ps
  | TFuel => []
  end.

(** the blocks the sender treats as common from the start *)
Definition initial_common_blocks (src : repo) (commons : list N) : list N :=
  match common_tables src commons with Some ct => common_blocks src ct | None => [] end.

(** a block the sender will not send because it is in a declared-common commit's table,
    but that a transmitted table needs *)
Definition needed_common_block (src : repo) (commons : list N) (objs : list obj) (b : N) : Prop :=
  In b (initial_common_blocks src commons) /\ exists t tc, In (OTable t tc) objs /\ In b (tbl_blocks tc).

(** * Write-order facts the model relies on (checked against the regenerated skeletons
      of ObjectReceiver.saveBlock / saveTable / saveCommit by gen/Tie_C07.v) *)
From Coq Require Import String.

Fixpoint skel_index (s : string) (l : list string) : option nat :=
  match l with
  | [] => None
  | x :: l' => if String.eqb x s then Some O else option_map S (skel_index s l')
  end.
(* both occur, first occurrence of a strictly before first occurrence of b *)
Definition skel_before (a b : string) (l : list string) : bool :=
  match skel_index a l, skel_index b l with
  | Some i, Some j => Nat.ltb i j
  | _, _ => false
  end.
Definition skel_last (a : string) (l : list string) : bool :=
  match rev l with x :: _ => String.eqb x a | [] => false end.

(* block:  validation before the only write;
   table:  parse, IndexTable (block indices + table index), ProfileTable, and the table object last;
   commit: parse, parent existence check, and the commit object last *)
Definition recv_skel_ok (blk tbl com : list string) : bool :=
  skel_before "objects.ValidateBlockBytes" "objects.SaveCompressedBlock" blk
  && skel_last "objects.SaveCompressedBlock" blk
  && skel_before "objects.ReadTableFrom" "ingest.IndexTable" tbl
  && skel_before "ingest.IndexTable" "ingest.ProfileTable" tbl
  && skel_before "ingest.ProfileTable" "objects.SaveTable" tbl
  && skel_last "objects.SaveTable" tbl
  && skel_before "objects.ReadCommitFrom" "objects.CommitExist" com
  && skel_before "objects.CommitExist" "objects.SaveCommit" com
  && skel_last "objects.SaveCommit" com.

(* IndexTable: block indices are written before the table index *)
Definition index_skel_ok (idx : list string) : bool :=
  skel_before "objects.SaveBlockIndex" "objects.SaveTableIndex" idx
  && skel_last "objects.SaveTableIndex" idx.
