(** Exchange-tree coders and the extracted entry points [run_C17], [run_C18].
    Definitions only; trusted only by the correspondence.

    ---- C18 ----
    case  = (kind bytes (n1 n2 ...) eofflag mode)
      kind: 0 packfile (NewPackfileReader + ReadObject until it fails)   1 pkt-line sequence
            2 Commit.ReadFrom   3 Table.ReadFrom   4 ReadBlockFrom   5 BlockIndex.ReadFrom
            6 UintListDecoder.Read   7 TableProfile.ReadFrom   8 StrListDecoder.Read
            9 FloatListDecoder.Read
      (n1 n2 ...) chunk sizes of the partition, eofflag = last chunk arrives with io.EOF;
      mode is for the Go side only (0 = the harness's own chunk reader for exactly this
      partition; 1/2/3 = iotest.OneByteReader / HalfReader / DataErrReader over bytes.Reader,
      whose chunking depends on the requested sizes: the model then runs the partition it
      is given, which by C18 is immaterial).
    obs   = (0 value) | (1 class) | (2)       class: 1 io.EOF, 2 io.ErrUnexpectedEOF, 3 other
      packfile value  = (version ((type body) ...) class-of-terminating-error)
      pkt-line value  = ((line ...) class-of-terminating-error)
      commit value    = (table authorName authorEmail (neg |sec| neg |off|) message (parent ...))
      table value     = ((col ...) (pk ...) rows (blocksum ...) (indexsum ...))
      block value     = ((cell ...) ...)
      block index     = (sortedOff (row ...))
      uint/float list = (u ...)              floats as their 64 bits
      profile value   = (version rows (col ...)),
        col = (name na omin omax omean omedian ostd opct minlen maxlen avglen otop),
        o.. = () | (x),  pct = (bits ...),  top = ((value count) ...)
      strlist value   = (cell ...)

    ---- C17 ----
    case  = (entry bytes)  for entry < 20:
       0 ValidateStrListBytes -> n      1 ValidateBlockBytes -> ()
       2 StrListDecoder.Read  3 StrListDecoder.ReadBytes -> bytes
       4 ValidateStrListBytes then Decode (error if validation fails)
       5 ReadBlockFrom  6 Table.ReadFrom  7 BlockIndex.ReadFrom  8 Commit.ReadFrom
       9 TableProfile.ReadFrom  10 decodeObjTypeAndLen -> (type u)
       11 ReadObject once, on a reader positioned after a valid header -> (type body)
       12 NewPackfileReader + ReadObject until failure (as C18 kind 0)
       13 ReadPktLine -> line   14 UintListDecoder.Read   15 FloatListDecoder.Read
       16 / 17 / 18 = 2 / 3 / 4 with NewStrListDecoder(true)   19 = 14 with NewUintListDecoder(true)
       21 = 15 with NewFloatListDecoder(true)
    case  = (22 commitbytes cut nparents) Commit.ReadFrom on the first cut bytes of a valid commit
    case  = (23 tablebytes cut)           Table.ReadFrom on the first cut bytes of a valid table
    obs   = (0 value) | (1) | (2)            values as for C18
    case  = (30..35 stored missing [(decoded)]) objects.GetCommit / GetTable / GetBlock / GetBlockIndex /
       GetTableIndex / GetTableProfile over a store holding [stored] under the key (missing = 1:
       no such key); for 32 / 33 the 4th element is () when s2.Decode fails, else (decoded bytes)
    case  = (40 bytes)            payload.Hex.UnmarshalJSON(bytes) -> the 16-byte array
    case  = (41 bytes t)          json.Unmarshal(bytes, reply type t)            obs (0) | (2)
    case  = (42 bytes m status)   client call m against a server replying bytes  obs (0) | (2)
    case  = (20 packfile ((content sum) ...) ((compressed decoded) ...) ((blocksum (pk ...) idxsum) ...) [(a b c)])
       optional store faults: a-1 = index of the Store.Set that fails, b-1 = key prefix all of
       whose Sets fail (0 blk/ 1 blkidx/ 2 tbl/ 3 tblidx/ 4 tblsum/ 5 com/), c-1 = index of the
       Store.Get that fails; 0 = none
       ObjectReceiver.Receive on an empty store; the three tables are meow.Checksum,
       s2.Decode (absent = corrupt) and the block-index sums, computed by the harness.
    obs   = (status (blk ...) (blkidx ...) (tbl ...) (tblidx ...) (tblsum ...) (com ...))
       keys per kind, sorted, without duplicates. *)
From Coq Require Import String.
From Coq Require Import List Lia Arith ZArith.
From W.lib Require Import Tree Bytes GoSlice Reader.
From W.model Require Import DecPrim DecLists DecObjects DecPack DecReceive DecJson.
Local Open Scope N_scope.

(** strconv.ParseInt(s, 10, 64) for the <= 18-digit strings DecodeTime passes (no overflow) *)
Fixpoint parse_digits (s : bytes) (acc : N) : option N :=
  match s with
  | [] => Some acc
  | c :: s' => if (48 <=? c) && (c <=? 57) then parse_digits s' (acc * 10 + (c - 48)) else None
  end.
Definition go_parse_int (s : bytes) : option Z :=
  match s with
  | [] => None
  | c :: tl =>
      if c =? 43 then match tl with [] => None | _ => option_map Z.of_N (parse_digits tl 0) end
      else if c =? 45 then match tl with [] => None | _ => option_map (fun n => (- Z.of_N n)%Z) (parse_digits tl 0) end
      else option_map Z.of_N (parse_digits s 0)
  end.

(** time.Parse("-0700", s): offset in seconds *)
Definition go_parse_tz (s : bytes) : option Z :=
  match s with
  | [sg; h1; h2; m1; m2] =>
      match parse_digits [h1; h2] 0, parse_digits [m1; m2] 0 with
      | Some hr, Some mm =>
          if (24 <? hr) || (60 <? mm) then None
          else
            let off := Z.of_N ((hr * 60 + mm) * 60) in
            if sg =? 43 then Some off else if sg =? 45 then Some (- off)%Z else None
      | _, _ => None
      end
  | _ => None
  end.

(** coders *)
Definition t_Z (z : Z) : list tree := [Leaf (if (z <? 0)%Z then 1 else 0); Leaf (Z.abs_N z)].
Definition t_N (n : N) : tree := Leaf n.
Definition t_class (e : errclass) : tree :=
  Leaf (match e with CEof => 1 | CUnexp => 2 | COther => 3 | CFuel => 9 end).

Definition t_res18 {A} (f : A -> tree) (r : res A) : tree :=
  match r with
  | Ok a => Node [Leaf 0; f a]
  | Err e => Node [Leaf 1; t_class e]
  | Panic => Node [Leaf 2]
  end.
Definition t_res17 {A} (f : A -> tree) (r : res A) : tree :=
  match r with
  | Ok a => Node [Leaf 0; f a]
  | Err CFuel => Node [Leaf 9]
  | Err _ => Node [Leaf 1]
  | Panic => Node [Leaf 2]
  end.

Definition t_objs (l : list (N * bytes)) : tree :=
  t_list (fun o => Node [Leaf (fst o); t_bytes (snd o)]) l.
Definition t_packfile (x : N * list (N * bytes) * errclass) : tree :=
  let '(v, objs, e) := x in Node [Leaf v; t_objs objs; t_class e].
Definition t_pktseq (x : list bytes * errclass) : tree :=
  Node [t_list t_bytes (fst x); t_class (snd x)].
Definition t_commit (c : commit) : tree :=
  Node [t_bytes (c_table c); t_bytes (c_author_name c); t_bytes (c_author_email c);
        Node (t_Z (t_sec (c_time c)) ++ t_Z (t_off (c_time c)));
        t_bytes (c_message c); t_list t_bytes (c_parents c)].
Definition t_table (t : table) : tree :=
  Node [t_list t_bytes (tb_columns t); t_list t_N (tb_pk t); Leaf (tb_rows t);
        t_list t_bytes (tb_blocks t); t_list t_bytes (tb_indices t)].
Definition t_block (b : list (list bytes)) : tree := t_list (t_list t_bytes) b.
Definition t_bidx (x : bytes * list bytes) : tree := Node [t_bytes (fst x); t_list t_bytes (snd x)].
Definition t_col (c : colprof) : tree :=
  Node [t_bytes (cp_name c); Leaf (cp_na c);
        t_opt t_N (cp_min c); t_opt t_N (cp_max c); t_opt t_N (cp_mean c);
        t_opt t_N (cp_median c); t_opt t_N (cp_std c); t_opt (t_list t_N) (cp_pct c);
        Leaf (cp_minlen c); Leaf (cp_maxlen c); Leaf (cp_avglen c);
        t_opt (t_list (fun vc => Node [t_bytes (fst vc); Leaf (snd vc)])) (cp_top c)].
Definition t_profile (p : profile) : tree :=
  Node [Leaf (pf_version p); Leaf (pf_rows p); t_list t_col (pf_columns p)].

Definition kd := read_kinds_of_code.
Definition pcap := precap_of_code.

(** Running a decoder [D] (parametrised by its loop fuel) on a reader: the fuel is the linear
    function [dec_fuel] of the number of bytes the stream still holds.
    Result: (outcome, reader afterwards, bytes allocated). *)
Definition run_on {A} (k : site -> read_kind) (D : nat -> prog A) (r : reader) : res A * reader * N :=
  exec k (D (dec_fuel (rest r))) r 0.
Definition outcome {A} (x : res A * reader * N) : res A := fst (fst x).
Definition allocated {A} (x : res A * reader * N) : N := snd x.

Definition on_reader {A} (p : nat -> prog A) (r : reader) : res A := outcome (run_on kd p r).

(** Specification vocabulary of C17 / C18 (statements only; proofs in proofs/DecTop_proofs.v).

    [robust D c k]: on EVERY well-formed byte string b (each byte < 256), the decoder D read
    from bytes.NewReader(b) does not panic, does not exhaust its fuel (dec_fuel b = |b| + 2,
    so its loops terminate within a linear number of iterations), and allocates at most
    c*|b| + k bytes.
    [chunk_independent D]: for every table of read kinds that is all-Full (what the
    translator extracts from the source), EVERY byte string s (valid or not), EVERY partition
    p of it into successive reads (empty reads included) and either way of delivering EOF,
    D decodes the same value / fails with the same error class as on the whole buffer. *)
Definition robust {A} (D : nat -> prog A) (c k : N) : Prop :=
  forall b, wf_bytes b ->
    let x := run_on read_kinds_of_code D (whole b) in
    outcome x <> Panic /\ outcome x <> Err CFuel /\
    allocated x <= c * N.of_nat (length b) + k.

Definition chunk_independent {A} (D : nat -> prog A) : Prop :=
  forall (k : string -> read_kind), all_full k ->
  forall (s : bytes) (p : list nat) (eof_with_data : bool),
    outcome (run_on (kinds_of k) D (chunked p s eof_with_data))
    = outcome (run_on (kinds_of k) D (whole s)) /\
    allocated (run_on (kinds_of k) D (chunked p s eof_with_data))
    = allocated (run_on (kinds_of k) D (whole s)) /\
    rest (snd (fst (run_on (kinds_of k) D (chunked p s eof_with_data))))
    = rest (snd (fst (run_on (kinds_of k) D (whole s)))).

Definition run_C18 (c : tree) : tree :=
  let kind := d_nat (d_nth 0 c) in
  let s := d_bytes (d_nth 1 c) in
  let p := d_list d_nat (d_nth 2 c) in
  let e := d_bool (d_nth 3 c) in
  let r := chunked p s e in
  match kind with
  | 0%nat => t_res18 t_packfile (on_reader packfile_read r)
  | 1%nat => t_res18 t_pktseq (on_reader pktline_seq r)
  | 2%nat => t_res18 t_commit (on_reader (commit_read go_parse_int go_parse_tz) r)
  | 3%nat => t_res18 t_table (on_reader (table_read pcap) r)
  | 4%nat => t_res18 t_block (on_reader (block_read pcap) r)
  | 5%nat => t_res18 t_bidx (on_reader blockindex_read r)
  | 6%nat => t_res18 (t_list t_N) (on_reader (uintlist_read pcap) r)
  | 7%nat => t_res18 t_profile (on_reader (profile_read pcap) r)
  | 8%nat => t_res18 (t_list t_bytes) (on_reader (strlist_read1 pcap) r)
  | _ => t_res18 (t_list t_N) (on_reader (floatlist_read pcap) r)
  end.

(** C17 *)
Definition on_bytes {A} (p : nat -> prog A) (b : bytes) : res A := on_reader p (whole b).

Definition validated_decode (ru : bool) (b : bytes) : res (list bytes) :=
  match validate_strlist b with
  | Ok _ => fst (strlist_decode_g ru pcap b)
  | Err e => Err e
  | Panic => Panic
  end.

(* association tables of the Receive case *)
Fixpoint assoc {V} (l : list (bytes * V)) (k : bytes) : option V :=
  match l with
  | [] => None
  | (k', v) :: l' => if beqb k' k then Some v else assoc l' k
  end.
Definition d_pair (t : tree) : bytes * bytes := (d_bytes (d_nth 0 t), d_bytes (d_nth 1 t)).
Definition d_idx (t : tree) : (bytes * list N) * bytes :=
  ((d_bytes (d_nth 0 t), d_list d_N (d_nth 1 t)), d_bytes (d_nth 2 t)).
Fixpoint assoc_idx (l : list ((bytes * list N) * bytes)) (k : bytes) (pk : list N) : bytes :=
  match l with
  | [] => []
  | ((k', pk'), v) :: l' =>
      if beqb k' k && (if list_eq_dec N.eq_dec pk' pk then true else false) then v
      else assoc_idx l' k pk
  end.

(* sorted, duplicate-free key lists *)
Fixpoint ins_key (k : bytes) (l : list bytes) : list bytes :=
  match l with
  | [] => [k]
  | x :: l' => match bcmp k x with Lt => k :: l | Eq => l | Gt => x :: ins_key k l' end
  end.
Definition sort_keys (l : list bytes) : list bytes := fold_right ins_key [] l.

Definition t_store (st : store) : list tree :=
  [t_list t_bytes (sort_keys (map fst (st_blk st))); t_list t_bytes (sort_keys (st_blkidx st));
   t_list t_bytes (sort_keys (map fst (st_tbl st))); t_list t_bytes (sort_keys (st_tblidx st));
   t_list t_bytes (sort_keys (st_tblprof st)); t_list t_bytes (sort_keys (map fst (st_com st)))].

Definition run_receive (c : tree) : tree :=
  let pack := d_bytes (d_nth 1 c) in
  let hmap := d_list d_pair (d_nth 2 c) in
  let zmap := d_list d_pair (d_nth 3 c) in
  let imap := d_list d_idx (d_nth 4 c) in
  let H := fun b => match assoc hmap b with Some s => s | None => [] end in
  let unz := assoc zmap in
  let dopt := fun t => match d_N t with 0 => None | n => Some (N.to_nat (n - 1)) end in
  let fp := mk_faults (dopt (d_nth 0 (d_nth 5 c)))
                      (match d_N (d_nth 1 (d_nth 5 c)) with 0 => None | n => Some (n - 1) end)
                      (dopt (d_nth 2 (d_nth 5 c))) in
  let '(r, st, _) := receive H unz (assoc_idx imap) go_parse_int go_parse_tz pcap fp empty_store pack in
  Node (Leaf (match r with Err CFuel => 9 | _ => status r end) :: t_store st).

Definition run_C17 (c : tree) : tree :=
  let entry := d_nat (d_nth 0 c) in
  let b := d_bytes (d_nth 1 c) in
  match entry with
  | 0%nat => t_res17 t_nat (validate_strlist b)
  | 1%nat => t_res17 (fun _ => Node []) (validate_block b)
  | 2%nat => t_res17 (t_list t_bytes) (on_bytes (strlist_read1 pcap) b)
  | 3%nat => t_res17 t_bytes (on_bytes strlist_read_bytes b)
  | 4%nat => t_res17 (t_list t_bytes) (validated_decode false b)
  | 5%nat => t_res17 t_block (on_bytes (block_read pcap) b)
  | 6%nat => t_res17 t_table (on_bytes (table_read pcap) b)
  | 7%nat => t_res17 t_bidx (on_bytes blockindex_read b)
  | 8%nat => t_res17 t_commit (on_bytes (commit_read go_parse_int go_parse_tz) b)
  | 9%nat => t_res17 t_profile (on_bytes (profile_read pcap) b)
  | 10%nat => t_res17 (fun x => Node [Leaf (fst x); Leaf (snd x)]) (on_bytes objhdr_read b)
  | 11%nat => t_res17 (fun x => Node [Leaf (fst x); t_bytes (snd x)]) (on_bytes object_read b)
  | 12%nat => t_res17 t_packfile (on_bytes packfile_read b)
  | 13%nat => t_res17 t_bytes (on_bytes (fun _ => pktline_read) b)
  | 14%nat => t_res17 (t_list t_N) (on_bytes (uintlist_read pcap) b)
  | 15%nat => t_res17 (t_list t_N) (on_bytes (floatlist_read pcap) b)
  | 16%nat => t_res17 (t_list t_bytes) (on_bytes (strlist_read1_reuse pcap) b)
  | 17%nat => t_res17 t_bytes (on_bytes (strlist_read_bytes_g true) b)
  | 18%nat => t_res17 (t_list t_bytes) (validated_decode true b)
  | 19%nat => t_res17 (t_list t_N) (on_bytes (uintlist_entry true pcap) b)
  | 21%nat => t_res17 (t_list t_N) (on_bytes (floatlist_entry true pcap) b)
  | 22%nat => t_res17 t_commit (on_bytes (commit_read go_parse_int go_parse_tz)
                                         (firstn (d_nat (d_nth 2 c)) b))
  | 23%nat => t_res17 t_table (on_bytes (table_read pcap) (firstn (d_nat (d_nth 2 c)) b))
  | 20%nat => run_receive c
  | 40%nat => t_res17 t_bytes (hex_unmarshal true b)
  (* 41 json.Unmarshal into a reply type, 42 a client call over a hostile HTTP reply: encoding/json
     and net/http are not modelled; the observation is "returned (0) / panicked (2)" and the
     property says it returns *)
  | 41%nat => Node [Leaf 0]
  | 42%nat => Node [Leaf 0]
  | _ =>
      (* persistence readers: (entry stored missing [decoded]) *)
      let v := if d_bool (d_nth 2 c) then None else Some b in
      let unz := fun _ : bytes => d_opt d_bytes (d_nth 3 c) in
      match entry with
      | 30%nat => t_res17 t_commit (fst (get_commit go_parse_int go_parse_tz true v))
      | 31%nat => t_res17 t_table (fst (get_table pcap true v))
      | 32%nat => t_res17 t_block (fst (load_block unz pcap v))
      | 33%nat => t_res17 t_bidx (fst (load_block_index unz v))
      | 34%nat => t_res17 t_block (fst (get_table_index pcap v))
      | _ => t_res17 t_profile (fst (get_table_profile pcap v))
      end
  end.
