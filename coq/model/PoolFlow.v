(** C16 - the differ/merger dataflow (pkg/diff/diff.go diffTables, pkg/merge/merger.go
    mergeTables).  Definitions only.

    Each of the N "other" tables is diffed against the base table by its own goroutine,
    which sends its diff events on its own unbuffered channel; mergeTables receives from
    all N channels with reflect.Select, i.e. in ANY interleaving that preserves each
    layer's order, and groups the events by primary-key hash in a Go map:

        if m, ok := merges[pkSum]; !ok {
            merges[pkSum] = &Merge{PK: d.PK, Base: d.OldSum, BaseOffset: d.OldOffset,
                                   Others: make([][]byte, n), OtherOffsets: make([]uint32, n)}
            merges[pkSum].Others[chosen] = d.Sum; merges[pkSum].OtherOffsets[chosen] = d.Offset
        } else { m.Others[chosen] = d.Sum; m.OtherOffsets[chosen] = d.Offset }

    afterwards every record whose layers all equal the base is dropped and the others are
    resolved (a function of the record) and emitted in map-iteration order.

    A sum (16-byte row hash) is an N; nil is None.  The map is an association list in
    insertion order (an order no theorem depends on). *)
From W.lib Require Import Tree.
From W.model Require Import Pool.
From Coq Require Import Arith.
Local Open Scope N_scope.

(* objects.Diff *)
Record dev := mk_dev { d_pk : N; d_sum : option N; d_off : N; d_old : option N; d_oldoff : N }.
(* merge.Merge (grouping fields) *)
Record mrec := mk_mrec { m_pk : N; m_base : option N; m_baseoff : N; m_others : list (option N * N) }.

Definition lookup (k : N) (m : list mrec) : option mrec := find (fun r => m_pk r =? k) m.
Definition set_other (i : nat) (e : dev) (r : mrec) : mrec :=
  mk_mrec (m_pk r) (m_base r) (m_baseoff r) (set_nth i (d_sum e, d_off e) (m_others r)).
Definition update (k : N) (f : mrec -> mrec) (m : list mrec) : list mrec :=
  map (fun r => if m_pk r =? k then f r else r) m.

(* one iteration of the select loop: event [e] received from channel [i] of [n] *)
Definition mstep (n : nat) (m : list mrec) (ie : nat * dev) : list mrec :=
  let (i, e) := ie in
  match lookup (d_pk e) m with
  | None => m ++ [set_other i e (mk_mrec (d_pk e) (d_old e) (d_oldoff e) (repeat (None, 0) n))]
  | Some _ => update (d_pk e) (set_other i e) m
  end.
Definition group (n : nat) (s : list (nat * dev)) : list mrec := fold_left (mstep n) s [].

(* `noChanges`: the record has a base and every layer equals it *)
Definition opt_eqb (a b : option N) : bool :=
  match a, b with Some x, Some y => x =? y | None, None => true | _, _ => false end.
Definition no_changes (r : mrec) : bool :=
  match m_base r with
  | Some b => forallb (fun o => opt_eqb (fst o) (Some b)) (m_others r)
  | None => false
  end.
(* the records handed to the resolver (as a list in map order) *)
Definition emitted (m : list mrec) : list mrec := filter (fun r => negb (no_changes r)) m.

(** all interleavings of N streams: the received sequence, tagged with the channel index *)
Inductive interleave {A} : list (list A) -> list (nat * A) -> Prop :=
| il_nil ls : Forall (fun l => l = []) ls -> interleave ls []
| il_cons ls i x tl s :
    nth_error ls i = Some (x :: tl) -> interleave (set_nth i tl ls) s -> interleave ls ((i, x) :: s).

(* the single-threaded order: all of layer 0, then all of layer 1, ... *)
Fixpoint tag_from {A} (i : nat) (ls : list (list A)) : list (nat * A) :=
  match ls with
  | [] => []
  | l :: r => map (pair i) l ++ tag_from (S i) r
  end.
Definition sequential {A} (ls : list (list A)) : list (nat * A) := tag_from 0 ls.

(** what diffTables guarantees about its events (pkg/diff/diff.go diffRows with
    WithEmitUnchangedRow, tbl2 = the base table in every layer): OldSum/OldOffset of an event
    describe the base row with that key, so they agree between layers. *)
Definition old_agree (ls : list (list dev)) : Prop :=
  forall l1 l2 e1 e2, In l1 ls -> In l2 ls -> In e1 l1 -> In e2 l2 -> d_pk e1 = d_pk e2 ->
    d_old e1 = d_old e2 /\ d_oldoff e1 = d_oldoff e2.

(* ---------------------------------------------------------------- abstract differ *)
(* a table = rows (key, value) sorted by key, keys distinct; row offset = position.
   The sum of a row is represented by its value (two rows with the same key have the same
   sum iff they have the same value). *)
Definition table := list (N * N).
Fixpoint find_row (k : N) (off : N) (t : table) : option (N * N) :=   (* (offset, value) *)
  match t with
  | [] => None
  | (k', v) :: r => if k' =? k then Some (off, v) else find_row k (off + 1) r
  end.
Fixpoint diff1 (base : table) (off : N) (t : table) : list dev :=
  match t with
  | [] => []
  | (k, v) :: r =>
      (match find_row k 0 base with
       | Some (bo, bv) => mk_dev k (Some v) off (Some bv) bo
       | None => mk_dev k (Some v) off None 0
       end) :: diff1 base (off + 1) r
  end.
Fixpoint diff2 (other : table) (off : N) (base : table) : list dev :=
  match base with
  | [] => []
  | (k, v) :: r =>
      match find_row k 0 other with
      | Some _ => diff2 other (off + 1) r
      | None => mk_dev k None 0 (Some v) off :: diff2 other (off + 1) r
      end
  end.
(* events of diffTables(other, base) with WithEmitUnchangedRow *)
Definition diff_events (base other : table) : list dev := diff1 base 0 other ++ diff2 other 0 base.

(* an interleaving chosen by a list of picks: pick p = the (p mod #nonempty)-th non-empty stream *)
Fixpoint nonempty_idx {A} (i : nat) (ls : list (list A)) : list nat :=
  match ls with
  | [] => []
  | [] :: r => nonempty_idx (S i) r
  | _ :: r => i :: nonempty_idx (S i) r
  end.
Fixpoint weave {A} (fuel : nat) (picks : list nat) (ls : list (list A)) : list (nat * A) :=
  match fuel with
  | O => []
  | S f =>
      match nonempty_idx 0 ls with
      | [] => []
      | ne =>
          let (p, picks') := match picks with [] => (0%nat, []) | p :: r => (p, r) end in
          let i := nth (p mod List.length ne) ne 0%nat in
          match nth_error ls i with
          | Some (x :: tl) => (i, x) :: weave f picks' (set_nth i tl ls)
          | _ => []
          end
      end
  end.

(* ---------------------------------------------------------------- run_C16 (dataflow cases) *)
(* Exchange format, dataflow case:
     (2 base (layer ...) (pick ...))   table = ((key val) ...) sorted by key
   Observation: ((events of layer 0) ... ) (records)
     event  = (key sum? off old? oldoff)   with x? = () | (x); events in emission order
     record = (key base? baseoff ((sum? off) ...))   sorted by key *)
Definition d_table (t : tree) : table := d_list (fun r => (d_N (d_nth 0 r), d_N (d_nth 1 r))) t.
Definition t_optN (o : option N) : tree := t_opt Leaf o.
Definition t_dev (e : dev) : tree :=
  Node [Leaf (d_pk e); t_optN (d_sum e); Leaf (d_off e); t_optN (d_old e); Leaf (d_oldoff e)].
Definition t_mrec (r : mrec) : tree :=
  Node [Leaf (m_pk r); t_optN (m_base r); Leaf (m_baseoff r);
        t_list (fun o => Node [t_optN (fst o); Leaf (snd o)]) (m_others r)].
Fixpoint ins_rec (r : mrec) (l : list mrec) : list mrec :=
  match l with
  | [] => [r]
  | x :: t => if m_pk r <=? m_pk x then r :: l else x :: ins_rec r t
  end.
Definition sort_recs (l : list mrec) : list mrec := fold_right ins_rec [] l.

Definition run_flow (c : tree) : tree :=
  let base := d_table (d_nth 1 c) in
  let layers := d_list d_table (d_nth 2 c) in
  let picks := d_list d_nat (d_nth 3 c) in
  let streams := map (diff_events base) layers in
  let total := fold_right (fun l a => (List.length l + a)%nat) 0%nat streams in
  let s := weave (S total) picks streams in
  Node [t_list (t_list t_dev) streams; t_list t_mrec (sort_recs (group (List.length layers) s))].
