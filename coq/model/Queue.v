(** Model of pkg/ref/commits_queue.go (CommitsQueue).  Definitions only.

    A queue is (items, seen): [items] = q.sums in order (q.commits is the same list
    seen through the store), [seen] = the keys of q.seen.  The operations are
    written over an ARBITRARY placement function [ins x items] (where Insert puts a
    new commit) and an arbitrary [srt] (what sort.Sort does in Reset); the theorems
    only assume that both return permutations, which covers every assignment of
    commit times.  The instance that the Go code runs is [ins_time]/[srt_time]:
      Insert : i := sort.Search(n, time(items[i]) <= time(new))  -- literal [GoSort.search]
               so a new commit goes before the first commit that is not newer,
               in particular before existing commits of equal time;
      Reset  : dedupe, GetCommit each, sort newest first (sort.Sort is not stable:
               [srt_time] is one admissible result; the harness compares exact pop
               order only when the initial commits have pairwise distinct times).
    Outcomes: [Err] = GetCommit failed (commit absent from the store); [Fuel] = the
    model's loop bound was exhausted (never happens: see proofs/Queue_proofs.v). *)
From W.lib Require Import GoSort.
From W.model Require Import Graph.
From Coq Require Import List NArith ZArith Bool Arith.
Import ListNotations.

Inductive outcome (A : Type) : Type :=
| Ok (a : A)
| Err
| Fuel.
Arguments Ok {A} a.
Arguments Err {A}.
Arguments Fuel {A}.

Record cq := mk_cq { q_items : list id; q_seen : list id }.

Inductive popres :=
| PEof                        (* io.EOF *)
| POk (x : id) (q : cq)       (* popped x, parents inserted *)
| PErr.                       (* InsertParents failed *)

Section Generic.
  Variable g : graph.
  Variable ins : id -> list id -> list id.
  Variable srt : list id -> list id.

  (* Seen *)
  Definition seen (q : cq) (x : id) : bool := mem x (q_seen q).

  (* Insert: no-op when seen; GetCommit error otherwise propagated *)
  Definition insert (q : cq) (x : id) : outcome cq :=
    if seen q x then Ok q
    else match lookup g x with
         | None => Err
         | Some _ => Ok (mk_cq (ins x (q_items q)) (x :: q_seen q))
         end.

  (* InsertParents *)
  Fixpoint insert_all (q : cq) (ps : list id) : outcome cq :=
    match ps with
    | [] => Ok q
    | p :: r => match insert q p with
                | Ok q' => insert_all q' r
                | Err => Err
                | Fuel => Fuel
                end
    end.

  (* Reset: the loop over initialSums *)
  Fixpoint reset_loop (l items sn : list id) : outcome (list id * list id) :=
    match l with
    | [] => Ok (items, sn)
    | v :: r =>
        if mem v sn then reset_loop r items sn
        else match lookup g v with
             | None => Err
             | Some _ => reset_loop r (items ++ [v]) (v :: sn)
             end
    end.

  (* NewCommitsQueue *)
  Definition new_queue (roots : list id) : outcome cq :=
    match reset_loop roots [] [] with
    | Ok (items, sn) => Ok (mk_cq (srt items) sn)
    | Err => Err
    | Fuel => Fuel
    end.

  (* PopInsertParents: Pop, then insert the parents recorded in the popped commit *)
  Definition pop_insert_parents (q : cq) : popres :=
    match q_items q with
    | [] => PEof
    | x :: r =>
        match insert_all (mk_cq r (q_seen q)) (parents_of g x) with
        | Ok q' => POk x q'
        | _ => PErr
        end
    end.

  (** history walk: PopInsertParents until EOF.
      result (status, popped): 0 = EOF reached, 2 = a PopInsertParents failed
      (popped = the commits returned before it), 9 = fuel *)
  Fixpoint walk_loop (fuel : nat) (q : cq) (acc : list id) : nat * list id :=
    match fuel with
    | O => (9, rev acc)
    | S f =>
        match pop_insert_parents q with
        | PEof => (0, rev acc)
        | PErr => (2, rev acc)
        | POk x q' => walk_loop f q' (x :: acc)
        end
    end.

  (* every pop removes a distinct present commit: |g| + 1 rounds reach EOF *)
  Definition walk_fuel : nat := S (length g).

  (* status 1 = NewCommitsQueue failed *)
  Definition walk (roots : list id) : nat * list id :=
    match new_queue roots with
    | Ok q => walk_loop walk_fuel q []
    | _ => (1, [])
    end.

  (** PopUntil b: loop { PopInsertParents; EOF -> return EOF; error -> return it;
      sum = b -> return sum }.  Result (returned sum or [None] = EOF, queue afterwards,
      the commits popped by this call in order).  An error discards the state. *)
  Fixpoint pop_until (fuel : nat) (q : cq) (b : id) : outcome (option id * cq * list id) :=
    match fuel with
    | O => Fuel
    | S f =>
        match pop_insert_parents q with
        | PEof => Ok (None, q, [])
        | PErr => Err
        | POk x q' =>
            if N.eqb x b then Ok (Some x, q', [x])
            else match pop_until f q' b with
                 | Ok (r, q'', l) => Ok (r, q'', x :: l)
                 | Err => Err
                 | Fuel => Fuel
                 end
        end
    end.

  (** RemoveAncestors(sums): q2 := NewCommitsQueue(sums) is ONE queue shared by the loop
      over q.sums and consumed progressively: an element is dropped when q2 has already
      seen it, otherwise q2 pops (inserting parents) until it returns that element
      (dropped) or reaches EOF (kept) - that inner loop is textually the loop of PopUntil.
      The result of [ra_loop] is the list of kept elements: the compaction loop at the end
      of the Go function keeps the elements whose index is not in indicesToRemove, in
      order.  Any error leaves q untouched and is returned; q.seen is not changed. *)
  Fixpoint ra_loop (items : list id) (q2 : cq) : outcome (list id) :=
    match items with
    | [] => Ok []
    | x :: r =>
        if seen q2 x then ra_loop r q2
        else match pop_until walk_fuel q2 x with
             | Ok (Some _, q2', _) => ra_loop r q2'
             | Ok (None, q2', _) =>
                 match ra_loop r q2' with
                 | Ok kept => Ok (x :: kept)
                 | Err => Err
                 | Fuel => Fuel
                 end
             | Err => Err
             | Fuel => Fuel
             end
    end.

  Definition remove_ancestors (q : cq) (sums : list id) : outcome cq :=
    match new_queue sums with
    | Ok q2 =>
        match ra_loop (q_items q) q2 with
        | Ok kept => Ok (mk_cq kept (q_seen q))
        | Err => Err
        | Fuel => Fuel
        end
    | Err => Err
    | Fuel => Fuel
    end.
End Generic.

(** the placement and the sort that the Go code uses *)
Definition ins_time (g : graph) (x : id) (items : list id) : list id :=
  let t := ctime g x in
  let i := search (length items) (fun i => Z.leb (ctime g (nth i items 0%N)) t) in
  firstn i items ++ x :: skipn i items.

Fixpoint sins (g : graph) (x : id) (l : list id) : list id :=
  match l with
  | [] => [x]
  | y :: r => if Z.leb (ctime g y) (ctime g x) then x :: y :: r else y :: sins g x r
  end.
Definition srt_time (g : graph) (l : list id) : list id := fold_right (sins g) [] l.

Definition t_insert (g : graph) := insert g (ins_time g).
Definition t_new_queue (g : graph) := new_queue g (srt_time g).
Definition t_pop_insert_parents (g : graph) := pop_insert_parents g (ins_time g).
Definition t_walk (g : graph) := walk g (ins_time g) (srt_time g).
Definition t_pop_until (g : graph) := pop_until g (ins_time g) (walk_fuel g).
Definition t_remove_ancestors (g : graph) := remove_ancestors g (ins_time g) (srt_time g).
