(** C15 - the two SQLite string predicates that pkg/ref/sql filterQuery has used
    for prefix filters.  Definitions only.

    [like_match pat s]  =  [s LIKE pat]  (SQLite default LIKE: no ESCAPE clause,
      '%' matches any sequence of characters, '_' matches exactly one character,
      other characters compare equal after folding ASCII upper case to lower
      case; bytes >= 0x80 compare exactly).  sqlite3 func.c patternCompare with
      likeInfoNorm.  A "character" for '_' is one UTF-8 sequence as read by
      sqlite3Utf8Read: a lead byte >= 0xC0 takes its continuation bytes
      (10xxxxxx) with it.  '%' tries every byte offset; on valid UTF-8 text that
      is the same as every character offset.

    [instr h n]  =  [instr(h, n)] on TEXT arguments (func.c instrFunc): 1 if the
      needle is empty, else 1 + number of characters before the first offset -
      taken among offset 0 and the offsets that do not start with a continuation
      byte - at which the needle's bytes occur, else 0.

    Both are tied to the real SQLite by the correspondence cases of kind 1
    (harness/c15.go runs [SELECT ? LIKE ?, instr(?, ?)]). *)
From W.lib Require Import Tree Bytes.
Local Open Scope N_scope.

Definition pct : N := 37.      (* '%' *)
Definition und : N := 95.      (* '_' *)

(* sqlite3UpperToLower for ASCII, identity elsewhere *)
Definition fold_case (c : N) : N := if (65 <=? c) && (c <=? 90) then c + 32 else c.

Definition is_cont (b : N) : bool := (128 <=? b) && (b <? 192).

Fixpoint drop_cont (s : bytes) : bytes :=
  match s with
  | [] => []
  | b :: s' => if is_cont b then drop_cont s' else s
  end.

(* consume one character *)
Definition skip_char (s : bytes) : option bytes :=
  match s with
  | [] => None
  | b :: s' => Some (if 192 <=? b then drop_cont s' else s')
  end.

Fixpoint like_match (pat s : bytes) : bool :=
  match pat with
  | [] => match s with [] => true | _ => false end
  | c :: pat' =>
      if c =? pct then
        (fix try (t : bytes) : bool :=
           like_match pat' t || match t with [] => false | _ :: t' => try t' end) s
      else if c =? und then
        match skip_char s with None => false | Some s' => like_match pat' s' end
      else
        match s with
        | [] => false
        | d :: s' => (fold_case c =? fold_case d) && like_match pat' s'
        end
  end.

(* the pattern the pre-fix code built: prefix + "%" *)
Definition like_prefix (p s : bytes) : bool := like_match (p ++ [pct]) s.

(* instr on TEXT; [first] = we are at offset 0 *)
Fixpoint instr_from (first : bool) (n : N) (h needle : bytes) : N :=
  match h with
  | [] => 0
  | b :: h' =>
      if negb first && is_cont b then instr_from false n h' needle
      else if is_prefix needle h then n
      else instr_from false (n + 1) h' needle
  end.

Definition instr (h needle : bytes) : N :=
  match needle with
  | [] => 1
  | _ => instr_from true 1 h needle
  end.

Definition instr_prefix (p s : bytes) : bool := instr s p =? 1.
