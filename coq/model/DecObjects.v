(** Decoder models, part 3: block, table, block index, commit, table profile.
    (pkg/objects/{block.go ReadBlockFrom, table.go, block_index.go ReadFrom, commit.go,
     table_profile.go, value_counts.go})          Definitions only. *)
From Coq Require Import String.
From Coq Require Import List Lia Arith ZArith.
From W.lib Require Import Tree Bytes GoSlice Reader.
From W.model Require Import DecPrim DecLists.
Local Open Scope N_scope.
Local Open Scope prog_scope.

(** ReadBlockFrom *)
Definition block_read (pc : precap) (F : nat) : prog (list (list bytes)) :=
  _ <- alloc 4 ;;                                         (* b := make([]byte, 4) *)
  nb <- rd_exact S_block_count 4 ;;
  n <- lift (be_u32 nb) ;;
  _ <- alloc (sz_slice * prealloc pc n) ;;                (* make([][]string, 0, c) *)
  _ <- alloc 4 ;;                                         (* NewStrListDecoder(false) *)
  '(blk, _) <- for_n F (fun _ st =>
                          let '(blk, cap) := st in
                          '(line, cap') <- strlist_read pc F cap ;;
                          _ <- alloc sz_slice ;;
                          Ret (blk ++ [line], cap')) n 0 ([], strlist_cap0) ;;
  Ret blk.

(** Table *)
Record table := mk_table {
  tb_columns : list bytes; tb_pk : list N; tb_rows : N;
  tb_blocks : list bytes; tb_indices : list bytes }.

Definition table_meta (pc : precap) (F : nat) : prog (list bytes * list N * N) :=
  cols <- read_field L_columns (strlist_read1 pc F) ;;
  pk <- read_field L_pk (_ <- alloc 4 ;; uintlist_read pc F) ;;
  rows <- read_field L_rows read_u32 ;;
  Ret (cols, pk, rows).

(* Table.readBlock *)
Definition table_block : prog bytes := _ <- alloc 16 ;; rd_exact S_table_block 16.

(* the two loops of Table.ReadFrom: a clean EOF is re-created as a plain error *)
Definition table_sums (F : nat) (bc : N) : prog (list bytes) :=
  for_n F (fun _ l =>
             r <- attempt table_block ;;
             match r with
             | inl CEof => Fail COther
             | inl e => Fail e
             | inr b => _ <- alloc sz_slice ;; Ret (l ++ [b])
             end) bc 0 [].

(* uint32(math.Ceil(float64(rows) / 255)) *)
Definition blocks_count (rows : N) : N := (rows + 254) / 255.

Definition table_read (pc : precap) (F : nat) : prog table :=
  r <- attempt (table_meta pc F) ;;
  match r with
  | inl CEof => Fail COther
  | inl e => Fail e
  | inr (cols, pk, rows) =>
      let bc := blocks_count rows in
      _ <- alloc (2 * sz_slice * prealloc pc bc) ;;
      blocks <- table_sums F bc ;;
      idxs <- table_sums F bc ;;
      Ret (mk_table cols pk rows blocks idxs)
  end.

(** BlockIndex.ReadFrom: (sortedOff, Rows) *)
Definition blockindex_read (F : nat) : prog (bytes * list bytes) :=
  _ <- alloc 1 ;;
  lb <- rd_exact S_bidx_len 1 ;;
  l <- lift (idx lb 0) ;;
  _ <- alloc (sz_slice * l + l) ;;
  off <- rd_exact S_bidx_off (N.to_nat l) ;;
  rows <- for_n F (fun _ rows =>
                     _ <- alloc 32 ;;
                     r <- rd_exact S_bidx_row 32 ;;
                     Ret (rows ++ [r])) l 0 [] ;;
  Ret (off, rows).

(** Commit *)
Record commit := mk_commit {
  c_table : bytes; c_author_name : bytes; c_author_email : bytes; c_time : gotime;
  c_message : bytes; c_parents : list bytes }.

Section Commit.
  Variable parse_int : bytes -> option Z.
  Variable parse_tz : bytes -> option Z.

  Definition commit_parent (ps : list bytes) : prog (list bytes + list bytes) :=
    _ <- alloc 16 ;;
    r <- attempt (read_field L_parent (read_bytes_into 16)) ;;
    match r with
    | inl CEof => Ret (inr ps)                             (* break *)
    | inl e => Fail e
    | inr b => _ <- alloc sz_slice ;; Ret (inl (ps ++ [b]))
    end.

  Definition commit_read (F : nat) : prog commit :=
    _ <- alloc 16 ;;                                       (* c.Table = make([]byte, 16) *)
    tbl <- read_field L_table (read_bytes_into 16) ;;
    an <- read_field L_authorName read_string ;;
    ae <- read_field L_authorEmail read_string ;;
    tm <- read_field L_time (read_time parse_int parse_tz) ;;
    msg <- read_field L_message read_string ;;
    parents <- loop_u F commit_parent [] ;;
    Ret (mk_commit tbl an ae tm msg parents).
End Commit.

(** Table profile *)
Record colprof := mk_colprof {
  cp_name : bytes; cp_na : N;
  cp_min : option N; cp_max : option N; cp_mean : option N; cp_median : option N;
  cp_std : option N; cp_pct : option (list N);
  cp_minlen : N; cp_maxlen : N; cp_avglen : N;
  cp_top : option (list (bytes * N)) }.
Record profile := mk_profile { pf_version : N; pf_rows : N; pf_columns : list colprof }.

Definition empty_col : colprof :=
  mk_colprof [] 0 None None None None None None 0 0 0 None.

Inductive pfield := PF_name | PF_na | PF_min | PF_max | PF_mean | PF_median | PF_std
                  | PF_pct | PF_minlen | PF_maxlen | PF_avglen | PF_top.

Definition pfield_table : list (bytes * pfield) := Eval compute in
  [(bs "name", PF_name); (bs "naCount", PF_na); (bs "min", PF_min); (bs "max", PF_max);
   (bs "mean", PF_mean); (bs "median", PF_median); (bs "stdDeviation", PF_std);
   (bs "percentiles", PF_pct); (bs "minStrLen", PF_minlen); (bs "maxStrLen", PF_maxlen);
   (bs "avgStrLen", PF_avglen); (bs "topValues", PF_top)].

(* profileFieldMap[field] *)
Fixpoint pfield_lookup (tbl : list (bytes * pfield)) (nm : bytes) : option pfield :=
  match tbl with
  | [] => None
  | (k, f) :: tbl' => if beqb k nm then Some f else pfield_lookup tbl' nm
  end.
Definition pfield_of_name := pfield_lookup pfield_table.

(* readValueCounts: every NextBytes failure becomes a ParseError *)
Definition next_bytes_pe (n : nat) : prog bytes :=
  '(b, e) <- next_bytes n ;;
  match e with Some _ => Fail COther | None => Ret b end.

Definition value_counts_read (pc : precap) (F : nat) : prog (list (bytes * N)) :=
  b <- next_bytes_pe 4 ;;
  n <- lift (be_u32 b) ;;
  _ <- alloc (24 * prealloc pc n) ;;                      (* make(ValueCounts, 0, c) *)
  for_n F (fun _ a =>
             b1 <- next_bytes_pe 4 ;;
             cnt <- lift (be_u32 b1) ;;
             b2 <- next_bytes_pe 2 ;;
             l <- lift (be_u16 b2) ;;
             v <- next_bytes_pe (N.to_nat l) ;;
             _ <- alloc (24 + l) ;;
             Ret (a ++ [(v, cnt)])) n 0 [].

(* profileFloat64Field.Read: initField allocates the float when the pointer is nil *)
Definition read_float_field (cur : option N) : prog (option N) :=
  _ <- alloc (match cur with None => 8 | Some _ => 0 end) ;;
  f <- read_f64 ;;
  Ret (Some f).

Definition read_pfield (pc : precap) (F : nat) (f : pfield) (c : colprof) : prog colprof :=
  let '(mk_colprof name na mn mx mean med std pct minl maxl avgl top) := c in
  match f with
  | PF_name => s <- read_string ;; Ret (mk_colprof s na mn mx mean med std pct minl maxl avgl top)
  | PF_na => u <- read_u32 ;; Ret (mk_colprof name u mn mx mean med std pct minl maxl avgl top)
  | PF_min => v <- read_float_field mn ;; Ret (mk_colprof name na v mx mean med std pct minl maxl avgl top)
  | PF_max => v <- read_float_field mx ;; Ret (mk_colprof name na mn v mean med std pct minl maxl avgl top)
  | PF_mean => v <- read_float_field mean ;; Ret (mk_colprof name na mn mx v med std pct minl maxl avgl top)
  | PF_median => v <- read_float_field med ;; Ret (mk_colprof name na mn mx mean v std pct minl maxl avgl top)
  | PF_std => v <- read_float_field std ;; Ret (mk_colprof name na mn mx mean med v pct minl maxl avgl top)
  | PF_pct =>
      _ <- alloc 8 ;;                                      (* NewFloatListDecoder(false) *)
      l <- floatlist_read pc F ;;
      Ret (mk_colprof name na mn mx mean med std (Some l) minl maxl avgl top)
  | PF_minlen => u <- read_u16 ;; Ret (mk_colprof name na mn mx mean med std pct u maxl avgl top)
  | PF_maxlen => u <- read_u16 ;; Ret (mk_colprof name na mn mx mean med std pct minl u avgl top)
  | PF_avglen => u <- read_u16 ;; Ret (mk_colprof name na mn mx mean med std pct minl maxl u top)
  | PF_top =>
      l <- value_counts_read pc F ;;
      Ret (mk_colprof name na mn mx mean med std pct minl maxl avgl (Some l))
  end.

(* the inner  for { ReadUint16(&j); if j == 0 { break }; ... }  of one column *)
Definition profile_col_step (pc : precap) (F : nat) (fields : list bytes) (nfields : N)
           (col : colprof) : prog (colprof + colprof) :=
  j <- read_u16 ;;
  if j =? 0 then Ret (inr col)
  else if nfields <? j then Fail COther
  else
    fld <- lift (idx fields (N.to_nat j - 1)) ;;            (* fields[j-1] *)
    match pfield_of_name fld with
    | None => Fail COther
    | Some f => col' <- read_pfield pc F f col ;; Ret (inl col')
    end.

Definition sz_colprof : N := 120.

Definition profile_columns (pc : precap) (F : nat) (fields : list bytes) (count : N)
  : prog (list colprof) :=
  let nfields := N.of_nat (length fields) mod 65536 in     (* uint16(len(fields)) *)
  _ <- alloc (8 * prealloc pc count) ;;                    (* make([]*ColumnProfile, 0, c) *)
  for_n F (fun _ cols =>
             _ <- alloc (8 + sz_colprof) ;;                (* append(.., &ColumnProfile{}) *)
             col <- loop_u F (profile_col_step pc F fields nfields) empty_col ;;
             Ret (cols ++ [col])) count 0 [].

Definition profile_read (pc : precap) (F : nat) : prog profile :=
  version <- read_field L_version read_u32 ;;
  fields <- read_field L_fields (strlist_read1 pc F) ;;
  rows <- read_field L_rowsCount read_u32 ;;
  count <- read_field L_colsCount read_u32 ;;
  cols <- read_field L_columns (profile_columns pc F fields count) ;;
  Ret (mk_profile version rows cols).
