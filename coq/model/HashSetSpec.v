(** Abstract specification for C20: a plain (multi)set of hashes with a pending
    batch.  [fl] is the flushed content as a list (a hash repeated inside one
    unflushed batch is stored twice - allowed by the property, recorded here),
    membership is list membership. *)
From W.lib Require Import Tree.
From W.model Require Import HashSet.
From Coq Require Import Arith.
Local Open Scope N_scope.

Record spec := mk_spec { fl : list hash; pend : list hash; sb : nat }.

Definition spec_new (batch_size : nat) : spec :=
  mk_spec [] [] (if Nat.eqb batch_size 0 then 1024%nat else batch_size).

Definition mem (h : hash) (l : list hash) : bool := existsb (N.eqb h) l.

Definition spec_flush (s : spec) : spec := mk_spec (fl s ++ pend s) [] (sb s).

Definition spec_fanout (l : list hash) : list nat :=
  map (fun k => length (filter (fun h => (fb h <=? k)%nat) l)) (seq 0 256).

Definition spec_step (s : spec) (o : op) : spec * out :=
  match o with
  | OAdd h =>
      if mem h (fl s) then (s, RUnit)
      else
        let s' := mk_spec (fl s) (pend s ++ [h]) (sb s) in
        if (sb s <=? length (pend s'))%nat then (spec_flush s', RUnit) else (s', RUnit)
  | OFlush => (spec_flush s, RUnit)
  | OHas h => (s, RBool (mem h (fl s)))
  | OReopen b => (mk_spec (fl s) [] (if Nat.eqb b 0 then 1024%nat else b), RUnit)
  | OLen => (s, RNat (length (fl s)))
  | ODump => (s, RDump (spec_fanout (fl s)) (sort_hashes (fl s)))
  end.

Fixpoint spec_run (s : spec) (ops : list op) : list out :=
  match ops with
  | [] => []
  | o :: ops' => let '(s', r) := spec_step s o in r :: spec_run s' ops'
  end.

Definition wf_hash (h : hash) : Prop := h < 2 ^ 128.
Definition wf_op (o : op) : Prop :=
  match o with OAdd h | OHas h => wf_hash h | _ => True end.

(** Representation invariant of the file + in-memory state. *)
From Coq Require Import Sorting.Sorted.
Definition HS_inv (s : hs) : Prop :=
  length (table s) = size s /\
  Sorted N.le (table s) /\
  fanout s = spec_fanout (table s) /\
  Forall wf_hash (table s) /\ Forall wf_hash (batch s).
