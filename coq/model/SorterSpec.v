(** Specification vocabulary for the sorter (C19) and the tables built from its
    output (C01, C02, C03).  Definitions only. *)
From W.lib Require Import Tree Bytes.
From W.model Require Import Sorter.
From Coq Require Import Arith Sorting.Sorted Sorting.Permutation.
Local Open Scope N_scope.

(** well-formed input: every row has [ncols] cells, key / removed indices are columns *)
Definition wf_rows (ncols : nat) (rows : list row) : Prop := Forall (fun r => length r = ncols) rows.
Definition wf_pk (ncols : nat) (pk : list nat) : Prop := Forall (fun i => (i < ncols)%nat) pk.
Definition cells_in_limit (rows : list row) : Prop :=
  Forall (fun r => Forall (fun c => blen c <= max_str_len) r) rows.

(** the key of a row: its key columns, or all its columns when there is no key *)
Definition dkey (ncols : nat) (pk : list nat) (r : row) : key := key_of (pk_indices ncols pk) r.

(** strictly ascending / ascending keys *)
Definition keys_strictly_ascending (ncols : nat) (pk : list nat) (l : list row) : Prop :=
  StronglySorted (fun a b => kcmp (dkey ncols pk a) (dkey ncols pk b) = Lt) l.

(** what sort.Slice(rows, StringSliceIsLess(pk)) guarantees: a permutation in which no
    later row is less than an earlier one *)
Definition run_sorted (pk : list nat) (run : list row) : Prop :=
  StronglySorted (fun a b => string_slice_is_less pk b a = false) run.
Definition sort_ok (ncols : nat) (sort_rows : list nat -> list row -> list row) : Prop :=
  forall pk l, wf_pk ncols pk -> wf_rows ncols l ->
    Permutation (sort_rows pk l) l /\ run_sorted pk (sort_rows pk l).

(** removed columns: distinct columns, none of them a key column *)
Definition wf_removed (ncols : nat) (pk rem : list nat) : Prop :=
  Forall (fun c => (c < ncols)%nat) rem /\
  forall c, In c rem -> ~ In c (pk_indices ncols pk).

(** [out] is the sorted, key-deduplicated image of [rows] with the removed columns dropped *)
Definition sorted_dedup_of (ncols : nat) (pk rem : list nat) (rows out : list row) : Prop :=
  exists kept : list row,
    out = map (remove_cols rem) kept /\
    (* keys strictly ascending: in particular no key twice *)
    keys_strictly_ascending ncols pk kept /\
    (* every output row is an input row ... *)
    (forall r, In r kept -> In r rows) /\
    (* ... and every input key is represented *)
    (forall r, In r rows -> exists p, In p kept /\ dkey ncols pk p = dkey ncols pk r) /\
    (* the key columns survive the removal: read at their shifted positions they give the key *)
    (forall p, In p kept ->
       key_of (map (shift_idx rem) (pk_indices ncols pk)) (remove_cols rem p) = dkey ncols pk p).

(** [bs] cuts the kept rows [l] into blocks of 255 (the last one 1..255), numbered
    from [off], each carrying the key of its first row *)
Inductive chunked (ncols : nat) (pk rem : list nat) : nat -> list row -> list sblock -> Prop :=
| ch_nil : forall off, chunked ncols pk rem off [] []
| ch_last : forall off l, l <> [] -> (length l <= block_size)%nat ->
    chunked ncols pk rem off l [mk_sblock off (map (remove_cols rem) l) (dkey ncols pk (hd [] l))]
| ch_full : forall off l1 l2 bs, length l1 = block_size -> l2 <> [] ->
    chunked ncols pk rem (S off) l2 bs ->
    chunked ncols pk rem off (l1 ++ l2)
            (mk_sblock off (map (remove_cols rem) l1) (dkey ncols pk (hd [] l1)) :: bs).

(** histories in which the sorter is not fed again between a Close and the next Reset *)
Fixpoint well_used (closed : bool) (ops : list sop) : Prop :=
  match ops with
  | [] => True
  | OpAdd _ :: ops' => closed = false /\ well_used false ops'
  | OpReset :: ops' => well_used false ops'
  | OpClose :: ops' => well_used true ops'
  end.
