(** * Txn.v - model of pkg/transaction (Commit, Discard) over pkg/ref and pkg/objects (C14).
    Definitions only (proofs: proofs/Txn_proofs.v, statements: props/C14.v).

    ** What is modelled
    The Go code as it is now:
    - [transaction.Commit]: GetTransaction (error if missing), status check (error if
      already committed), ListTransactionRefs, GetTransactionLogs, then for each staged
      branch in Go map order (= ANY order: the enumeration [ord] is a parameter):
      if the reflog of heads/<branch> already records this txid -> GetCommit(rl.NewOID)
      (read only) and continue; else GetCommit(staged sum), GetHead, build c' (staged
      commit with Parents := [current head] or none, Message := "commit [tx/<id>]\n" ++ msg),
      SaveCommit c', SaveRef heads/<branch> := c' with a reflog carrying the txid (one SQL
      transaction: the old value logged is the one read INSIDE it); finally
      UpdateTransaction(status := committed).
    - [transaction.Discard]: GetTransaction, status check (error if committed) BEFORE
      DeleteTransactionRefs (one Delete per staged ref), then DeleteTransaction.
    Every operation is a [plan] = the list of ATOMIC store writes it performs, in order,
    plus the result it returns when none of them fails.  A crash at write n / an injected
    failure of write n = apply the first n writes only ([run_upto]).
    Reads are not steps: every read of Commit/Discard (GetTransaction, ListTransactionRefs,
    GetTransactionLogs, GetCommit, GetHead - since the repair of ed29119 a GetHead error
    other than "key not found" aborts as well) returns its error at once, so a failing read
    between write n-1 and write n leaves exactly the state of the first n writes and an
    error ([run_read_fault]); the forall-n theorems therefore cover failing reads too.

    Content addressing is identity of content: a commit id IS the commit value
    (table, meta = author/time/base message, stack of "commit [tx/..]" message prefixes,
    parent).  Re-creating the same commit from the same head gives the same id.
    The pre-fix code (no status check / no skip of logged branches; discard deleting first)
    is kept as [tx_commit_v0] / [tx_discard_v0] for the refutation witnesses.

    ** Exchange format (the Go side is harness/c14.go and encodes the same way)
    case   = (flags (branchspec ...) (op ...))
      flags      : 0 normal | 1 the transaction is never created (every op must fail)
                   | 2 as 0, but the implementation side runs the COMMANDS `wrgl transaction commit` /
                     `discard` on a real repository directory (badger + sqlite); same model
      branchspec = (hist staged late other)        branch index = position in the list
        hist   : 0 new branch | 1 one plain commit | 2 two plain commits
                 | 3 one plain commit + one commit landed by an earlier, committed transaction
                 | 4 one plain commit + TWO head updates logged with THE transaction's id (outside
                     [pre]: what a double-logging commit leaves; GetTransactionLogs must report the
                     newest, Commit then treats the branch as landed)
        staged : () | (t)   staged in THE transaction with a fresh commit of table id t
        late   : 0 | 1      a plain commit lands on the branch after staging
        other  : () | (t)   staged in another, in-progress transaction with table id t
      op = (0 mode n perm) Commit with a fault | (1 perm) Commit
         | (2 mode n perm) Discard with a fault | (3 perm) Discard
         | (4 half victim perm) Commit while ONE SQL statement inside SetWithLog of heads/<victim>
           fails (half 0: the reflogs insert, 1: the refs upsert; SQLite trigger below the
           ref.Store method), or (half 2) the UPDATE of the transactions row (status flip) fails
         | (6 b t) an ORDINARY commit (table t, no transaction id) lands on branch b - another writer
           between an interrupted Commit and its re-run: the re-run must leave it the head
           (newobjs is 9 from then on: the other writer's objects are not the transaction's)
         | (5 half victim perm) Discard while the DELETE of the staged ref of <victim> (half 0) or
           of the transactions row (half 1) fails; after half 0, while the transaction is still
           in progress, nrefs is 9 and snap is () (how many refs went first is the store's order).  Model: SetWithLog is atomic ([run_setwithlog_fault]).  How many
           other branches landed before the victim depends on the enumeration order: from this
           op on, while not all branches have landed, moved and newobjs are 9 and snap is ()
        mode 0: the n-th (0-based) and all later mutating store calls fail (crash: state = prefix)
        mode 1: only the n-th mutating store call fails
        mode 2: the n-th store call of ANY kind (reads included) fails; not predicted by the
                model: observation (3), and every later error class is masked as 3
        perm : enumeration order used by the MODEL (list of branch indices first); Go uses its
               map order; the observation is independent of it
    observation = (opobs ...), one per op:
      opobs   = (3) for a mode-2 op | (err (moved newobjs status nrefs) snap)
      err     : 0 ok | 1 error | 3 masked
      moved   : number of branches whose head differs from the head before the first op
      newobjs : number of commit objects stored since then; 9 from the second faulted Commit of
                the script on while not all branches have landed (after two partial runs WHICH
                objects exist depends on the two enumeration orders)
      status  : 0 no such transaction | 1 in progress | 2 committed
      nrefs   : number of staged refs txs/<id>/.. of the transaction still present
      snap    : () while 0 < moved < number of staged branches or 0 < nrefs < that number (WHICH
                branches moved / WHICH refs are deleted depends on the enumeration order), else
                ((head ...) (log ...) (stagedref ...) (otherref ...) (txlog ...)) per branch, with
                txlog = () | (chain): NewOID that GetTransactionLogs reports for heads/<b>,
                head = () | (chain), chain = ((table nthis nother) ... root) or ... 9) if an object
                is missing; log = ((old new txflag) ... newest first), txflag 0 none | 1 this tx | 2 other;
                stagedref/otherref = () | (table) *)
From Coq Require Import String.
From Coq Require Import List NArith Bool Arith Permutation.
From W.lib Require Import Tree.
Import ListNotations.
Local Open Scope N_scope.

Definition branch := N.
Definition txid := N.

(** ** Commits (content-addressed: the value is the id) *)
Inductive commit :=
| Root (tbl meta : N) (pfx : list txid)
| Child (tbl meta : N) (pfx : list txid) (parent : commit).

Definition c_table (c : commit) : N := match c with Root t _ _ | Child t _ _ _ => t end.
Definition c_meta (c : commit) : N := match c with Root _ m _ | Child _ m _ _ => m end.
Definition c_pfx (c : commit) : list txid := match c with Root _ _ p | Child _ _ p _ => p end.
Definition c_parent (c : commit) : option commit :=
  match c with Root _ _ _ => None | Child _ _ _ p => Some p end.
Definition mk_commit (t m : N) (px : list txid) (par : option commit) : commit :=
  match par with None => Root t m px | Some p => Child t m px p end.

Fixpoint list_N_eqb (a b : list N) : bool :=
  match a, b with
  | [], [] => true
  | x :: a', y :: b' => (x =? y) && list_N_eqb a' b'
  | _, _ => false
  end.

Fixpoint commit_eqb (a b : commit) : bool :=
  match a, b with
  | Root t1 m1 p1, Root t2 m2 p2 => (t1 =? t2) && (m1 =? m2) && list_N_eqb p1 p2
  | Child t1 m1 p1 c1, Child t2 m2 p2 c2 =>
      (t1 =? t2) && (m1 =? m2) && list_N_eqb p1 p2 && commit_eqb c1 c2
  | _, _ => false
  end.

(** The commit that Commit creates for a staged commit [sum] on a branch whose head is [old]. *)
Definition tx_commit_of (id : txid) (sum : commit) (old : option commit) : commit :=
  mk_commit (c_table sum) (c_meta sum) (id :: c_pfx sum) old.

(** ** State *)
Inductive txstatus := InProgress | Committed.
Record logent := mk_log { l_old : option commit; l_new : commit; l_tx : option txid }.

Record state := mk_state {
  heads  : branch -> option commit;          (* refs heads/<b> *)
  logs   : branch -> list logent;            (* reflog of heads/<b>, newest first *)
  staged : txid -> list (branch * commit);   (* refs txs/<id>/<b>; keys distinct *)
  txs    : txid -> option txstatus;          (* transactions table; None = no row *)
  stored : commit -> bool }.                 (* commit objects in the object store *)

Definition upd {A} (f : N -> A) (k : N) (v : A) : N -> A :=
  fun x => if x =? k then v else f x.

Definition init : state :=
  mk_state (fun _ => None) (fun _ => []) (fun _ => []) (fun _ => None) (fun _ => false).

(** ** Atomic writes *)
Inductive write :=
| WPutCommit (c : commit)                              (* objects.SaveCommit: one Set *)
| WSetWithLog (b : branch) (c : commit) (tx : option txid)  (* SetWithLog: one SQL transaction *)
| WUpdateTx (id : txid) (st : txstatus)                (* UpdateTransaction: one UPDATE *)
| WDelStaged (id : txid) (b : branch)                  (* Delete of txs/<id>/<b> *)
| WDelTx (id : txid).                                  (* DeleteTransaction: one SQL transaction *)

Definition tx_eqb (a b : option txid) : bool :=
  match a, b with Some x, Some y => x =? y | None, None => true | _, _ => false end.

Definition apply (s : state) (w : write) : state :=
  match w with
  | WPutCommit c =>
      mk_state (heads s) (logs s) (staged s) (txs s) (fun x => commit_eqb x c || stored s x)
  | WSetWithLog b c tx =>
      mk_state (upd (heads s) b (Some c))
               (upd (logs s) b (mk_log (heads s b) c tx :: logs s b))
               (staged s) (txs s) (stored s)
  | WUpdateTx id st =>
      match txs s id with
      | Some _ => mk_state (heads s) (logs s) (staged s) (upd (txs s) id (Some st)) (stored s)
      | None => s                          (* UPDATE ... WHERE id = ? matches no row *)
      end
  | WDelStaged id b =>
      mk_state (heads s) (logs s)
               (upd (staged s) id (filter (fun e => negb (fst e =? b)) (staged s id)))
               (txs s) (stored s)
  | WDelTx id =>
      match txs s id with
      | Some InProgress => mk_state (heads s) (logs s) (staged s) (upd (txs s) id None) (stored s)
      | _ => s                             (* refused (committed) or no row *)
      end
  end.

Definition apply_all (ws : list write) (s : state) : state := fold_left apply ws s.

Inductive res := ROk | RErr.
Definition plan := (list write * res)%type.

(** crash at write n / failure of write n: the first n writes happened. *)
Definition run_upto (n : nat) (p : plan) (s : state) : state * res :=
  (apply_all (firstn n (fst p)) s, if (n <? length (fst p))%nat then RErr else snd p).
Definition run_full (p : plan) (s : state) : state * res := (apply_all (fst p) s, snd p).
(** a read fails after n writes: same state, always an error. *)
Definition run_read_fault (n : nat) (p : plan) (s : state) : state * res :=
  (apply_all (firstn n (fst p)) s, RErr).

(** a failure INSIDE SetWithLog of heads/<victim> (the refs upsert or the reflogs insert of
    its one SQL transaction fails): the step is atomic, so nothing of it happened and the
    operation stops there = the writes before the first [WSetWithLog victim] happened.
    (If the plan has no such write the operation runs to its end.)  An instance of
    [run_upto], hence covered by the forall-n theorems. *)
Fixpoint swl_index (b : branch) (ws : list write) : nat :=
  match ws with
  | [] => 0%nat
  | WSetWithLog b' _ _ :: r => if b' =? b then 0%nat else S (swl_index b r)
  | _ :: r => S (swl_index b r)
  end.
Definition run_setwithlog_fault (victim : branch) (p : plan) (s : state) : state * res :=
  run_upto (swl_index victim (fst p)) p s.

(** the same for any one write chosen by a predicate (the status flip, the Delete of one staged
    ref, DeleteTransaction): single SQL statements / transactions, atomic. *)
Fixpoint cut_index (f : write -> bool) (ws : list write) : nat :=
  match ws with
  | [] => 0%nat
  | w :: r => if f w then 0%nat else S (cut_index f r)
  end.
Definition run_write_fault (f : write -> bool) (p : plan) (s : state) : state * res :=
  run_upto (cut_index f (fst p)) p s.
Definition is_swl (b : branch) (w : write) : bool :=
  match w with WSetWithLog b' _ _ => b' =? b | _ => false end.
Definition is_updtx (w : write) : bool := match w with WUpdateTx _ _ => true | _ => false end.
Definition is_delstaged (b : branch) (w : write) : bool :=
  match w with WDelStaged _ b' => b' =? b | _ => false end.
Definition is_deltx (w : write) : bool := match w with WDelTx _ => true | _ => false end.

(** ** transaction.Commit *)
(* GetTransactionLogs(id)[heads/b].NewOID : newest entry of b's reflog carrying the txid *)
Fixpoint tx_log_new (id : txid) (l : list logent) : option commit :=
  match l with
  | [] => None
  | e :: l' => if tx_eqb (l_tx e) (Some id) then Some (l_new e) else tx_log_new id l'
  end.

(* the per-branch loop; [lg] is the snapshot of GetTransactionLogs taken before the loop,
   [s] the store as it is when the iteration starts *)
Fixpoint commit_loop (id : txid) (lg : branch -> option commit)
         (m : list (branch * commit)) (s : state) : plan :=
  match m with
  | [] => ([WUpdateTx id Committed], ROk)
  | (b, sum) :: m' =>
      match lg b with
      | Some c => if stored s c then commit_loop id lg m' s else ([], RErr)
      | None =>
          if stored s sum then
            let c' := tx_commit_of id sum (heads s b) in
            let ws := [WPutCommit c'; WSetWithLog b c' (Some id)] in
            let '(ws', r) := commit_loop id lg m' (apply_all ws s) in
            (ws ++ ws', r)
          else ([], RErr)
      end
  end.

Definition order := list (branch * commit) -> list (branch * commit).

Definition tx_commit (ord : order) (id : txid) (s : state) : plan :=
  match txs s id with
  | None => ([], RErr)
  | Some Committed => ([], RErr)
  | Some InProgress =>
      commit_loop id (fun b => tx_log_new id (logs s b)) (ord (staged s id)) s
  end.

(** ** transaction.Discard *)
Definition discard_writes (ord : order) (id : txid) (s : state) : list write :=
  map (fun e => WDelStaged id (fst e)) (ord (staged s id)) ++ [WDelTx id].

Definition tx_discard (ord : order) (id : txid) (s : state) : plan :=
  match txs s id with
  | None => ([], RErr)
  | Some Committed => ([], RErr)
  | Some InProgress => (discard_writes ord id s, ROk)
  end.

(** ** The code before the two repairs (for the refutation witnesses only) *)
Fixpoint commit_loop_v0 (id : txid) (m : list (branch * commit)) (s : state) : plan :=
  match m with
  | [] => ([WUpdateTx id Committed], ROk)
  | (b, sum) :: m' =>
      if stored s sum then
        let c' := tx_commit_of id sum (heads s b) in
        let ws := [WPutCommit c'; WSetWithLog b c' (Some id)] in
        let '(ws', r) := commit_loop_v0 id m' (apply_all ws s) in
        (ws ++ ws', r)
      else ([], RErr)
  end.

Definition tx_commit_v0 (ord : order) (id : txid) (s : state) : plan :=
  match txs s id with
  | None => ([], RErr)
  | Some _ => commit_loop_v0 id (ord (staged s id)) s
  end.

Definition tx_discard_v0 (ord : order) (id : txid) (s : state) : plan :=
  (discard_writes ord id s,
   match txs s id with Some InProgress => ROk | _ => RErr end).

(** ** Specification (C14) *)
Definition lookup (b : branch) (m : list (branch * commit)) : option commit :=
  match find (fun e => fst e =? b) m with Some e => Some (snd e) | None => None end.

(* the one commit that the transaction must put on branch b, from the pre-transaction state *)
Definition new_head (id : txid) (s0 : state) (b : branch) : option commit :=
  match lookup b (staged s0 id) with
  | Some sum => Some (tx_commit_of id sum (heads s0 b))
  | None => None
  end.

Definition new_commits (id : txid) (s0 : state) : list commit :=
  map (fun e => tx_commit_of id (snd e) (heads s0 (fst e))) (staged s0 id).

(* the all-branches outcome *)
Definition all_outcome (id : txid) (s0 : state) : state :=
  mk_state
    (fun b => match new_head id s0 b with Some c => Some c | None => heads s0 b end)
    (fun b => match new_head id s0 b with
              | Some c => mk_log (heads s0 b) c (Some id) :: logs s0 b
              | None => logs s0 b end)
    (staged s0)
    (upd (txs s0) id (Some Committed))
    (fun c => stored s0 c || existsb (commit_eqb c) (new_commits id s0)).

(* observational equality of states (states are records of functions) *)
Definition st_eq (s1 s2 : state) : Prop :=
  (forall b, heads s1 b = heads s2 b) /\ (forall b, logs s1 b = logs s2 b) /\
  (forall i, staged s1 i = staged s2 i) /\ (forall i, txs s1 i = txs s2 i) /\
  (forall c, stored s1 c = stored s2 c).

(* a state in which transaction id has been started and staged but no Commit attempted *)
Definition pre (id : txid) (s0 : state) : Prop :=
  txs s0 id = Some InProgress /\
  (forall b, tx_log_new id (logs s0 b) = None) /\
  NoDup (map fst (staged s0 id)) /\
  (forall b sum, In (b, sum) (staged s0 id) -> stored s0 sum = true).

(* an enumeration order is any permutation of what it is given *)
Definition order_ok (ord : order) (l : list (branch * commit)) : Prop :=
  Permutation (ord l) l.

(* branch b has not moved between s0 and s *)
Definition unmoved (s0 s : state) (b : branch) : Prop :=
  heads s b = heads s0 b /\ logs s b = logs s0 b.
(* branch b has been advanced by exactly the transaction's one commit, and logged *)
Definition landed (id : txid) (s0 s : state) (b : branch) : Prop :=
  exists sum, In (b, sum) (staged s0 id) /\
    let c' := tx_commit_of id sum (heads s0 b) in
    heads s b = Some c' /\ stored s c' = true /\
    logs s b = mk_log (heads s0 b) c' (Some id) :: logs s0 b.

(** ** Write-order skeletons: what the proofs rely on, as a check over the ordered list of
    store-level calls that the translator extracts from the source of Commit / Discard
    (source order, loop bodies once).  Call names: "GetTransaction", "ListTransactionRefs",
    "GetTransactionLogs", "GetCommit", "GetHead", "SaveCommit", "SaveRef",
    "UpdateTransaction", "DeleteTransactionRefs", "DeleteTransaction"; optional marker
    "CheckCommitted" for the [if tx.Status == ref.TSCommitted { return error }] guard. *)
Local Open Scope string_scope.
Definition seqb (a b : string) : bool := String.eqb a b.
Definition sk_mem (a : string) (l : list string) : bool := existsb (seqb a) l.

Definition txn_mutating : list string :=
  ["SaveCommit"; "SaveRef"; "UpdateTransaction"; "DeleteTransactionRefs"; "DeleteTransaction";
   "SetWithLog"; "Set"; "Delete"; "Rename"; "Copy"; "NewTransaction"; "GCTransactions";
   "SaveTransactionRef"; "DeleteRef"; "DeleteHead"; "CommitHead"; "Clear"].
Definition is_mut (c : string) : bool := sk_mem c txn_mutating.

(* the calls before the first mutating call *)
Fixpoint sk_before_writes (sk : list string) : list string :=
  match sk with
  | [] => []
  | c :: r => if is_mut c then [] else c :: sk_before_writes r
  end.
Definition sk_writes (sk : list string) : list string := filter is_mut sk.

(* every SaveRef is directly preceded (among writes) by the SaveCommit of its object *)
Fixpoint sk_commit_before_ref (ws : list string) : bool :=
  match ws with
  | [] => true
  | a :: r =>
      if seqb a "SaveCommit" then
        match r with
        | b :: r' => seqb b "SaveRef" && sk_commit_before_ref r'
        | [] => false
        end
      else if seqb a "SaveRef" then false
      else sk_commit_before_ref r
  end.

Definition txn_skel_ok (sk : list string) : bool :=
  let rd := sk_before_writes sk in
  let ws := sk_writes sk in
  (* status read (and checked) before any write; staged refs and tx logs read before the loop *)
  sk_mem "GetTransaction" rd && sk_mem "ListTransactionRefs" rd &&
  sk_mem "GetTransactionLogs" rd &&
  (* only these writes; commit object before its ref; status update exactly once and last *)
  forallb (fun c => sk_mem c ["SaveCommit"; "SaveRef"; "UpdateTransaction"]) ws &&
  sk_commit_before_ref ws &&
  sk_mem "SaveRef" ws &&
  match rev ws with
  | l :: r => seqb l "UpdateTransaction" && negb (sk_mem "UpdateTransaction" r)
  | [] => false
  end.

(* same, and the translator saw the guard that returns on TSCommitted between GetTransaction
   and the first write *)
Fixpoint sk_after (a : string) (l : list string) : list string :=
  match l with [] => [] | c :: r => if seqb c a then r else sk_after a r end.
Definition txn_skel_ok_strict (sk : list string) : bool :=
  txn_skel_ok sk && sk_mem "CheckCommitted" (sk_after "GetTransaction" (sk_before_writes sk)).

Definition txn_discard_skel_ok (sk : list string) : bool :=
  let rd := sk_before_writes sk in
  let ws := sk_writes sk in
  sk_mem "GetTransaction" rd &&
  match ws with
  | [a; b] => seqb a "DeleteTransactionRefs" && seqb b "DeleteTransaction"
  | _ => false
  end.
Definition txn_discard_skel_ok_strict (sk : list string) : bool :=
  txn_discard_skel_ok sk && sk_mem "CheckCommitted" (sk_after "GetTransaction" (sk_before_writes sk)).

(* the skeletons of the code as modelled (source order) *)
Definition txn_commit_skel_ref : list string :=
  ["GetTransaction"; "CheckCommitted"; "ListTransactionRefs"; "GetTransactionLogs";
   "GetCommit"; "GetCommit"; "GetHead"; "SaveCommit"; "SaveRef"; "UpdateTransaction"].
Definition txn_discard_skel_ref : list string :=
  ["GetTransaction"; "CheckCommitted"; "DeleteTransactionRefs"; "DeleteTransaction"].
(* the code before the repairs *)
Definition txn_commit_skel_v0 : list string :=
  ["GetTransaction"; "ListTransactionRefs"; "GetCommit"; "GetHead"; "SaveCommit"; "SaveRef";
   "UpdateTransaction"].
Definition txn_discard_skel_v0 : list string := ["DeleteTransactionRefs"; "DeleteTransaction"].
Local Close Scope string_scope.

(** ** Correspondence driver *)
Definition ID_ME : txid := 1.
Definition ID_OLD : txid := 2.     (* the earlier, committed transaction *)
Definition ID_OTHER : txid := 3.   (* another in-progress transaction *)

Definition plain_commit (b : branch) (t : N) (s : state) : state :=
  let c := mk_commit t t [] (heads s b) in
  apply_all [WPutCommit c; WSetWithLog b c None] s.
(* cmd commit --txid: a commit whose parent is the current head, stored, then the txs/ ref set *)
Definition stage (id : txid) (b : branch) (t : N) (s : state) : state :=
  let c := mk_commit t t [] (heads s b) in
  let s' := apply s (WPutCommit c) in
  mk_state (heads s') (logs s') (upd (staged s') id (staged s' id ++ [(b, c)])) (txs s') (stored s').
Definition new_tx (id : txid) (s : state) : state :=
  mk_state (heads s) (logs s) (staged s) (upd (txs s) id (Some InProgress)) (stored s).

(* a head update logged with THE transaction's id outside Commit (hist 4: two of them on one ref) *)
Definition logged_commit (b : branch) (t : N) (s : state) : state :=
  let c := mk_commit t t [] (heads s b) in
  apply_all [WPutCommit c; WSetWithLog b c (Some ID_ME)] s.

Definition ord_id : order := fun l => l.
Definition ord_by (perm : list N) : order := fun l =>
  flat_map (fun b => filter (fun e => fst e =? b) l) perm ++
  filter (fun e => negb (existsb (N.eqb (fst e)) perm)) l.

Record bspec := mk_bspec { b_hist : N; b_staged : option N; b_late : bool; b_other : option N }.
Definition d_bspec (t : tree) : bspec :=
  mk_bspec (d_N (d_nth 0 t)) (d_opt d_N (d_nth 1 t)) (d_bool (d_nth 2 t)) (d_opt d_N (d_nth 3 t)).

Fixpoint indexed {A} (i : N) (l : list A) : list (N * A) :=
  match l with [] => [] | x :: r => (i, x) :: indexed (i + 1) r end.

Definition fold_steps {A} (l : list A) (f : A -> state -> state) (s : state) : state :=
  fold_left (fun s x => f x s) l s.

Definition setup (flags : N) (bs : list bspec) : state :=
  let ibs := indexed 0 bs in
  let base := fun i => 100 + 10 * i in
  let s := fold_steps ibs (fun '(i, b) s =>
             if b_hist b =? 0 then s
             else let s := plain_commit i (base i) s in
                  if b_hist b =? 2 then plain_commit i (base i + 1) s else s) init in
  let s := new_tx ID_OLD s in
  let s := fold_steps ibs (fun '(i, b) s =>
             if b_hist b =? 3 then stage ID_OLD i (base i + 1) s else s) s in
  let s := fst (run_full (tx_commit ord_id ID_OLD s) s) in
  let s := if flags =? 1 then s else new_tx ID_ME s in
  let s := new_tx ID_OTHER s in
  let s := fold_steps ibs (fun '(i, b) s =>
             if b_hist b =? 4 then logged_commit i (base i + 2) (logged_commit i (base i + 1) s) else s) s in
  let s := fold_steps ibs (fun '(i, b) s =>
             let s := match b_staged b with
                      | Some t => if flags =? 1 then s else stage ID_ME i t s
                      | None => s end in
             match b_other b with Some t => stage ID_OTHER i t s | None => s end) s in
  fold_steps ibs (fun '(i, b) s => if b_late b then plain_commit i (base i + 5) s else s) s.

(* observations *)
Definition count_id (id : txid) (l : list txid) : N :=
  N.of_nat (length (filter (N.eqb id) l)).
Definition t_desc (c : commit) : tree :=
  Node [Leaf (c_table c); Leaf (count_id ID_ME (c_pfx c));
        Leaf (N.of_nat (length (c_pfx c)) - count_id ID_ME (c_pfx c))].
Fixpoint chain (s : state) (c : commit) : list tree :=
  if stored s c then
    t_desc c :: match c with Root _ _ _ => [] | Child _ _ _ p => chain s p end
  else [Leaf 9].
Definition t_chain (s : state) (c : commit) : tree := Node (chain s c).
Definition t_txflag (t : option txid) : tree :=
  match t with None => Leaf 0 | Some i => if i =? ID_ME then Leaf 1 else Leaf 2 end.
Definition t_logent (s : state) (e : logent) : tree :=
  Node [t_opt (t_chain s) (l_old e); t_chain s (l_new e); t_txflag (l_tx e)].
Definition t_status (o : option txstatus) : tree :=
  match o with None => Leaf 0 | Some InProgress => Leaf 1 | Some Committed => Leaf 2 end.

Definition opt_commit_eqb (a b : option commit) : bool :=
  match a, b with Some x, Some y => commit_eqb x y | None, None => true | _, _ => false end.

Definition snapshot (k : nat) (s : state) : tree :=
  let bs := map N.of_nat (seq 0 k) in
  Node [ t_list (fun b => t_opt (t_chain s) (heads s b)) bs;
         t_list (fun b => t_list (t_logent s) (logs s b)) bs;
         t_list (fun b => t_opt (fun c => Leaf (c_table c)) (lookup b (staged s ID_ME))) bs;
         t_list (fun b => t_opt (fun c => Leaf (c_table c)) (lookup b (staged s ID_OTHER))) bs;
         t_list (fun b => t_opt (t_chain s) (tx_log_new ID_ME (logs s b))) bs ].

Definition moved_count (k : nat) (s0 s : state) : nat :=
  length (filter (fun b => negb (opt_commit_eqb (heads s b) (heads s0 b))) (map N.of_nat (seq 0 k))).
(* commit objects stored since s0: only the transaction's own commits can be new in the model;
   two branches can get the SAME object (same data staged on two new branches) *)
Fixpoint dedup (l : list commit) : list commit :=
  match l with
  | [] => []
  | c :: r => if existsb (commit_eqb c) r then dedup r else c :: dedup r
  end.
Definition newobj_count (s0 s : state) : nat :=
  length (filter (fun c => stored s c && negb (stored s0 c)) (dedup (new_commits ID_ME s0))).

Definition t_res (masked : bool) (r : res) : tree :=
  if masked then Leaf 3 else match r with ROk => Leaf 0 | RErr => Leaf 1 end.

(* staged branches that the transaction still has to land: not already logged with its id *)
Definition todo_count (s0 : state) : nat :=
  length (filter (fun e => match tx_log_new ID_ME (logs s0 (fst e)) with None => true | Some _ => false end)
                 (staged s0 ID_ME)).

Definition observe (k : nat) (s0 s : state) (masked amb tamb damb wamb : bool) (r : res) : tree :=
  let mv := moved_count k s0 s in
  let nst := todo_count s0 in
  let nrefs := length (staged s0 ID_ME) in
  let sc := length (staged s ID_ME) in
  let part := negb (Nat.eqb mv nst) in
  let dpart := (damb && match txs s ID_ME with Some InProgress => true | _ => false end)%bool in
  Node [ t_res masked r;
         Node [if (tamb && part)%bool then Leaf 9 else t_nat mv;
               if ((amb || tamb) && part || wamb)%bool then Leaf 9 else t_nat (newobj_count s0 s);
               t_status (txs s ID_ME);
               if dpart then Leaf 9 else t_nat sc];
         if ((Nat.eqb mv 0 && negb tamb || Nat.eqb mv nst) && (Nat.eqb sc 0 || Nat.eqb sc nrefs) && negb dpart)%bool
         then Node [snapshot k s] else Node [] ].

Inductive sop :=
| SCommitF (mode : N) (n : nat) (perm : list N) | SCommit (perm : list N)
| SDiscardF (mode : N) (n : nat) (perm : list N) | SDiscard (perm : list N)
| SCommitT (half : N) (victim : branch) (perm : list N)
| SDiscardT (half : N) (victim : branch) (perm : list N)
| SPlain (b : branch) (t : N).
Definition d_sop (t : tree) : sop :=
  match N.to_nat (d_N (d_nth 0 t)) with
  | 0%nat => SCommitF (d_N (d_nth 1 t)) (d_nat (d_nth 2 t)) (d_list d_N (d_nth 3 t))
  | 1%nat => SCommit (d_list d_N (d_nth 1 t))
  | 2%nat => SDiscardF (d_N (d_nth 1 t)) (d_nat (d_nth 2 t)) (d_list d_N (d_nth 3 t))
  | 3%nat => SDiscard (d_list d_N (d_nth 1 t))
  | 4%nat => SCommitT (d_N (d_nth 1 t)) (d_N (d_nth 2 t)) (d_list d_N (d_nth 3 t))
  | 5%nat => SDiscardT (d_N (d_nth 1 t)) (d_N (d_nth 2 t)) (d_list d_N (d_nth 3 t))
  | _ => SPlain (d_N (d_nth 1 t)) (d_N (d_nth 2 t))
  end.

Fixpoint run_script (k : nat) (s0 s : state) (masked tamb damb wamb : bool) (nf : nat) (ops : list sop) : list tree :=
  match ops with
  | [] => []
  | o :: ops' =>
      let mode2 := match o with SCommitF m _ _ | SDiscardF m _ _ => m =? 2 | _ => false end in
      let nf := match o with SCommitF _ _ _ | SCommitT _ _ _ => S nf | _ => nf end in
      let tamb := match o with SCommitT h _ _ => if h =? 2 then tamb else true | _ => tamb end in
      let damb := match o with SDiscardT h _ _ => if h =? 0 then true else damb | _ => damb end in
      let wamb := match o with SPlain _ _ => true | _ => wamb end in
      let p := match o with
               | SCommitF _ _ perm | SCommit perm | SCommitT _ _ perm => tx_commit (ord_by perm) ID_ME s
               | SDiscardF _ _ perm | SDiscard perm | SDiscardT _ _ perm => tx_discard (ord_by perm) ID_ME s
               | SPlain _ _ => ([], ROk)
               end in
      if mode2 then
        (* a failing read: not predicted; the model continues from "nothing happened",
           which by C14_all_or_completable gives the same state after the next clean run *)
        Node [Leaf 3] :: run_script k s0 s true tamb damb wamb nf ops'
      else
        let '(s', r) := match o with
                        | SCommitF _ n _ | SDiscardF _ n _ => run_upto n p s
                        | SCommitT h v _ => run_write_fault (if h =? 2 then is_updtx else is_swl v) p s
                        | SDiscardT h v _ => run_write_fault (if h =? 0 then is_delstaged v else is_deltx) p s
                        | SPlain b t => (plain_commit b t s, ROk)
                        | _ => run_full p s
                        end in
        observe k s0 s' masked (2 <=? nf)%nat tamb damb wamb r :: run_script k s0 s' masked tamb damb wamb nf ops'
  end.

Definition run_C14 (c : tree) : tree :=
  let flags := d_N (d_nth 0 c) in
  let bs := d_list d_bspec (d_nth 1 c) in
  let ops := d_list d_sop (d_nth 2 c) in
  let s0 := setup flags bs in
  Node (run_script (length bs) s0 s0 false false false false 0 ops).
