(** C06 codecs - shared primitives.  Definitions only.

    Byte strings are [bytes = list N].  A decoder has type
    [bytes -> option (X * bytes)]: it consumes a prefix of the input exactly like
    the Go reader it mirrors (io.ReadFull / Parser.NextBytes of a fixed number of
    bytes; [None] = any error) and returns what is left in the reader.
    An encoder has type [X -> option bytes]; [None] = the Go code refuses
    (returns an error, or panics with a message - recorded at each definition). *)
From W.lib Require Import Tree Bytes.
From Coq Require Import ZArith.
Local Open Scope N_scope.

(** io.ReadFull of exactly n bytes: fails when fewer than n are left. *)
Fixpoint take (n : nat) (b : bytes) : option (bytes * bytes) :=
  match n with
  | O => Some ([], b)
  | S n' =>
      match b with
      | [] => None
      | x :: b' =>
          match take n' b' with
          | Some (h, t) => Some (x :: h, t)
          | None => None
          end
      end
  end.

Definition len (b : bytes) : N := N.of_nat (length b).

(** read a big-endian unsigned integer of w bytes *)
Definition rd_be (w : nat) (b : bytes) : option (N * bytes) :=
  match take w b with
  | Some (h, t) => Some (unbe h, t)
  | None => None
  end.

(** consumeStr: read length-of-s bytes and compare *)
Definition beq (a b : bytes) : bool := beqb a b.
Definition expect (s : bytes) (b : bytes) : option bytes :=
  match take (length s) b with
  | Some (h, t) => if beq h s then Some t else None
  | None => None
  end.

(** [count] elements of at least one byte each can never be read from fewer than
    [count] bytes: the models test this once before converting a 32-bit count
    read from the input into a [nat] recursion bound (the Go loop would fail on
    EOF after at most [length b] iterations; the test only avoids building an
    astronomically large unary number for a hostile count). *)
Definition count_fits (count : N) (b : bytes) : bool := count <=? len b.

(** decimal digits *)
Fixpoint fixw (w : nat) (n : N) : bytes :=        (* the w low decimal digits, ASCII *)
  match w with O => [] | S w' => fixw w' (n / 10) ++ [48 + n mod 10] end.

Fixpoint digits_aux (fuel : nat) (n : N) (acc : bytes) : bytes :=
  match fuel with
  | O => acc
  | S f =>
      let acc' := (48 + n mod 10) :: acc in
      if n / 10 =? 0 then acc' else digits_aux f (n / 10) acc'
  end.
(* a number has no more decimal digits than binary digits *)
Definition digits (n : N) : bytes := digits_aux (S (N.to_nat (N.size n))) n [].

(** zero-padded decimal of at least w digits (fmt %0wd of a non-negative number,
    time.appendInt): exactly w digits below 10^w, all digits above. *)
Definition fmt_pad (w : nat) (n : N) : bytes :=
  if n <? 10 ^ N.of_nat w then fixw w n else digits n.

Definition is_digit (c : N) : bool := (48 <=? c) && (c <=? 57).
Definition dval (l : bytes) : N := fold_left (fun a c => a * 10 + (c - 48)) l 0.
(* strconv.ParseUint(s, 10, 64) for strings of at most 19 characters (no range error) *)
Definition parse_uint (l : bytes) : option N :=
  match l with
  | [] => None
  | _ => if forallb is_digit l then Some (dval l) else None
  end.

(** ASCII of the labels used by the object formats *)
Definition asc (s : list N) : bytes := s.
Definition SP : N := 32.
Definition NL : N := 10.

(** tree coding of a [Z] : (sign abs), sign 1 = negative *)
Definition t_Z (z : Z) : tree :=
  Node [Leaf (if (z <? 0)%Z then 1 else 0); Leaf (Z.abs_N z)].
Definition d_Z (t : tree) : Z :=
  let a := Z.of_N (d_N (d_nth 1 t)) in
  if N.eqb (d_N (d_nth 0 t)) 0 then a else (- a)%Z.
