(** Bridge B4 (C08 -> C09): the upload-pack SERVER of the session model (model/Session.v) instantiated
    with C08's transliterated ClosedSetsFinder (model/ClosedSets.v) followed by a transliteration of
    ObjectSender (pkg/api/utils/object_sender.go) in Session's object vocabulary.
    Definitions only (lemmas: proofs/BridgeClosedSession_proofs.v; statements: props/ComposeB4.v).

    The two slices represent a repository differently:
      Session    : one global commit graph [cgraph] (id -> parents, table, time; an id without entry is a
                   parentless commit with table 0) + per repository the LISTS of stored commit ids and
                   stored table ids ([objs]) + refs ([rstore]); packfile objects are [OTable t | OCommit c]
      ClosedSets : [store] = association list id -> (parents, time, table) (an id without entry is ABSENT:
                   GetCommit fails) + the list of stored table ids; refs = list of ids
    [store_of g o] is the abstraction function: the commits stored in [o], each with the parents / time /
    table that [g] gives it, and the tables stored in [o].

    The server (as harness/c09_server.go assembles it from the repository's own pieces):
      one Process(wants, haves, done) per negotiation request - wants only with the first one;
      it answers ACKs while the finder still has pending wants and the client has not said done;
      then CommitsToSend, TablesToSend, minus the tables the client acknowledged, NewObjectSender with
      CommonCommmits, one packfile per request.
    ObjectSender: for every commit of CommitsToSend in order: if its table is in tablesToSend and not in
      commonTables (= tables of the common commits + tables already enqueued) the table is enqueued - and
      SILENTLY SKIPPED when it is not in the store (enqueueTable returns nil on ErrKeyNotFound) - then
      the commit.  Blocks are part of the table object here (Session: "a table stands for the table
      object with its blocks and indices"). *)
From Coq Require Import List NArith Bool.
From W.lib Require Import Tree.
From W.model Require Import RefUpdate Session.
From W.model Require ClosedSets ClosedSetsSpec.
Import ListNotations.
Local Open Scope N_scope.

(* -------------------------------------------------------- abstraction function *)

(** a Session repository's object store seen as a ClosedSets store *)
Definition cs_commit (g : cgraph) (c : commit) : ClosedSets.commit :=
  ClosedSets.mkCommit (cpar g c) (ctime g c) (ctbl g c).
Definition store_of (g : cgraph) (o : objs) : ClosedSets.store :=
  ClosedSets.mkStore (map (fun c => (c, cs_commit g c)) (o_commits o)) (o_tables o).

(** the history is acyclic, in Session's vocabulary (content addressing; the witness is a rank).
    Implies [ClosedSetsSpec.acyclic (store_of g o)] for every [o]. *)
Definition GAcyclic (g : cgraph) : Prop :=
  exists rank : commit -> nat, forall c p, In p (cpar g c) -> (rank p < rank c)%nat.

(* ------------------------------------------------------------- ObjectSender *)

(** getCommonTables: the tables of the common commits; a GetCommit error fails NewObjectSender *)
Fixpoint common_tables (st : ClosedSets.store) (commons : list ClosedSets.cid) : option (list N) :=
  match commons with
  | [] => Some []
  | k :: r =>
    match ClosedSets.get_commit st k, common_tables st r with
    | Some cm, Some ts => Some (ClosedSets.c_table cm :: ts)
    | _, _ => None
    end
  end.

(** enqueueNextCommit / enqueueTable over the whole list.  [sent] = commonTables.  (CommitsToSend hands
    over commit OBJECTS, so the table of a listed commit is always known; an id that is not stored cannot
    be listed - it is given no table here.) *)
Fixpoint send_objs (st : ClosedSets.store) (tosend sent : list N) (l : list ClosedSets.cid) : list obj :=
  match l with
  | [] => []
  | c :: r =>
    match ClosedSets.get_commit st c with
    | Some cm =>
      let t := ClosedSets.c_table cm in
      if ClosedSets.mem t tosend && negb (ClosedSets.mem t sent)
      then (if ClosedSets.table_exist st t then [OTable t] else [])
             ++ OCommit c :: send_objs st tosend (t :: sent) r
      else OCommit c :: send_objs st tosend sent r
    | None => OCommit c :: send_objs st tosend sent r
    end
  end.

Section Server.
  Variable qsort : list ClosedSets.qitem -> list ClosedSets.qitem.     (* sort.Sort in CommitsQueue.Reset *)
  Variable ord : nat -> list ClosedSets.cid -> list ClosedSets.cid.    (* Go map order of f.Wants *)

  (** what the server streams once negotiation is over: CommitsToSend; TablesToSend minus the table ACKs;
      NewObjectSender(commits, tables, CommonCommmits).  None = a store error ended the session *)
  Definition cs_send (st : ClosedSets.store) (f : ClosedSets.finder) (acked : list N) : option (list obj) :=
    match ClosedSets.commits_to_send ord st f with
    | ClosedSets.Ok (f1, L) =>
      match ClosedSets.tables_to_send ord st f1 with
      | ClosedSets.Ok (f2, T) =>
        match common_tables st (ClosedSets.f_commons f2) with
        | Some ct => Some (send_objs st (filter (fun t => negb (cmem t acked)) T) ct L)
        | None => None
        end
      | _ => None
      end
    | _ => None
    end.

  (** the server run on an explicit list of requests [rs] (any negotiation whatsoever).  A request that is
      refused (unrecognised wants) or hits a store error ends the session: nothing is streamed *)
  Definition round_accepted (o : ClosedSets.round_obs) : bool :=
    match o with ClosedSets.ROk _ => true | _ => false end.
  Definition cs_serve (g : cgraph) (remote : repo) (depth : nat) (rs : list ClosedSets.round)
             (acked : list N) : option (list obj) :=
    let st := store_of g (r_objs remote) in
    match ClosedSets.run_rounds qsort ord st (ref_values (r_refs remote)) (ClosedSets.new_finder depth) rs with
    | (os, Some f) => if forallb round_accepted os then cs_send st f acked else None
    | (_, None) => None
    end.

  (** the requests of a single-want session: the want travels with the first request only *)
  Definition want_rounds (w : commit) (batches : list (list commit * bool)) : list ClosedSets.round :=
    match batches with
    | [] => []
    | (h, d) :: rest => ClosedSets.mkRound [w] h d :: map (fun b => ClosedSets.mkRound [] (fst b) (snd b)) rest
    end.

  (** negotiation: Session's client (popHaves in batches of k, RemoveAncestors on ACKs) against the finder.
      [acc] = the requests sent so far (ghost, and "is this the first request").  None = the server refused
      (unrecognised wants, store error) or the fuel ran out *)
  Fixpoint cs_negotiate (g : cgraph) (lo : objs) (st : ClosedSets.store) (refs : list ClosedSets.cid)
           (wants : list commit) (k fuel : nat) (s : qstate) (f : ClosedSets.finder)
           (acc : list ClosedSets.round) : option (ClosedSets.finder * list ClosedSets.round) :=
    match fuel with
    | O => None
    | S fu =>
      let '(haves, done, s') := pop_haves g (o_tables lo) (S (length g)) k s [] in
      let ws := match acc with [] => wants | _ => [] end in
      match ClosedSets.process qsort ord st refs f ws haves done with
      | ClosedSets.POk f' acks =>
        let acc' := acc ++ [ClosedSets.mkRound ws haves done] in
        if negb done && match ClosedSets.f_wants f' with [] => false | _ => true end
        then cs_negotiate g lo st refs wants k fu (remove_ancestors g acks s') f' acc'
        else Some (f', acc')
      | _ => None
      end
    end.

  (** fetchObjects (Session.fetch_objects) with the reference server replaced by the finder + sender *)
  Definition cs_fetch_objects (g : cgraph) (local remote : repo) (advertised : list commit)
             (depth k p : nat) (table_nego : bool) : fres :=
    let lo := r_objs local in
    let wants := filter (fun c => negb (cmem c (o_commits lo))) advertised in
    match wants with
    | [] => FNothing
    | _ =>
      let st := store_of g (r_objs remote) in
      match cs_negotiate g lo st (ref_values (r_refs remote)) wants k (S (length g))
                         (q_new g (ref_values (r_refs local))) (ClosedSets.new_finder depth) [] with
      | None => FError
      | Some (f, rs) =>
        match cs_send st f (if table_nego then o_tables lo else []) with
        | None => FError
        | Some stream =>
          match receive_packs g lo wants (chunk p stream) with
          | Some (o', [], n) => FDone o' (length rs) n
          | _ => FError
          end
        end
      end
    end.

  (** fetch.Fetch (Session.fetch) over [cs_fetch_objects] *)
  Definition cs_fetch (g : cgraph) (local remote : repo) (specs : list refspec) (gforce : bool)
             (depth k p : nat) (table_nego : bool) : N * repo :=
    let gg := to_graph g in
    let st := mk_state (r_refs local) (r_refs remote) (o_commits (r_objs local)) in
    let adv := map fi_new (fst (resolve_fetch specs (listing (r_refs remote)))) in
    match cs_fetch_objects g local remote adv depth k p table_nego with
    | FError => (1, local)
    | res =>
      let o' := match res with FDone o' _ _ => o' | _ => r_objs local end in
      let r := fetch_step_h (is_ancestor gg) st specs gforce (fun _ => Some (o_commits o')) in
      (r_outcome r, mk_repo o' (lrefs (r_state r)))
    end.
End Server.

(* ------------------------------------------------- hypotheses' names (Session side) *)

(** every commit the client offers as a have is stored locally together with its table (true of
    popHaves: the queue is seeded with the local refs and only commits whose table is stored are offered) *)
Definition HavesStored (g : cgraph) (o : objs) (rs : list ClosedSets.round) : Prop :=
  forall r, In r rs -> forall h, In h (ClosedSets.r_haves r) ->
    In h (o_commits o) /\ In (ctbl g h) (o_tables o).

(** the sender is not shallow below [w] as far as [depth] reaches: it has the table of every commit of
    the region (enqueueTable silently skips a table that is not stored) *)
Definition SenderFull (g : cgraph) (sender : objs) (depth : nat) (level : list commit) : Prop :=
  forall c, In c (match depth with O => anc_closure (to_graph g) level | _ => within_depth g depth level end) ->
            In (ctbl g c) (o_tables sender).

(** depth 0, any wants: the sender has the table of every stored ancestor of every want of every request *)
Definition SenderFullAnc (g : cgraph) (sender : objs) (rs : list ClosedSets.round) : Prop :=
  forall r w a, In r rs -> In w (ClosedSets.r_wants r) -> anc (to_graph g) a w ->
                In a (o_commits sender) -> In (ctbl g a) (o_tables sender).

(** every local ref points at a stored commit (Session_proofs.RefsResolve, restated on the pieces) *)
Definition RefsStored (o : objs) (refs : rstore) : Prop :=
  forall c, In c (ref_values refs) -> In c (o_commits o).

(* ------------------------------------------------- executable forms of the hypotheses *)
(** (used for the non-vacuity examples; each implies the Prop of the same name, proofs file) *)
Definition gacyclicb (g : cgraph) : bool :=
  forallb (fun e : commit * cinfo => forallb (fun p => p <? fst e) (ci_par (snd e))) g.
Definition closedb (g : cgraph) (cs : list commit) : bool :=
  forallb (fun c => forallb (fun p => cmem p cs) (cpar g c)) cs.
Definition refs_storedb (o : objs) (refs : rstore) : bool :=
  forallb (fun c => cmem c (o_commits o)) (ref_values refs).
Definition sender_fullb (g : cgraph) (sender : objs) (depth : nat) (level : list commit) : bool :=
  forallb (fun c => cmem (ctbl g c) (o_tables sender))
          (match depth with O => anc_closure (to_graph g) level | _ => within_depth g depth level end).
Definition sender_allb (g : cgraph) (sender : objs) : bool :=
  forallb (fun c => cmem (ctbl g c) (o_tables sender)) (o_commits sender).
