(** Model of ObjectReceiver.Receive (pkg/api/utils/object_receiver.go) with
    ingest.IndexTable / ProfileTable (pkg/ingest/{index.go,profile.go}) over a store that
    is a set of keys per kind (block and table/commit contents are kept because later
    objects are checked against them).  Definitions only.

    Outside world (Section variables, premises of the theorems):
      H        meow.Checksum(0, .)
      unz      s2.Decode: Some decoded / None = corrupt
      idx_sum  the sum under which IndexTable stores the block index it computes from the
               block with key k under primary key pk (IndexBlock + WriteTo + SaveBlockIndex)
    The length s2.Decode allocates BEFORE decoding is the uvarint header of the payload
    ([s2_decoded_len], klauspost/compress s2.decodedLen): it is concrete because the
    allocation meter charges it. *)
From Coq Require Import String.
From Coq Require Import List Lia Arith ZArith.
From W.lib Require Import Tree Bytes GoSlice Reader.
From W.model Require Import DecPrim DecLists DecObjects DecPack.
Local Open Scope N_scope.

(** binary.Uvarint: (value, bytes read); None = buffer too small or overflow *)
Fixpoint uvarint_loop (b : bytes) (i : nat) (x s : N) : option (N * nat) :=
  match b with
  | [] => None
  | c :: b' =>
      if (i =? 10)%nat then None                        (* MaxVarintLen64 *)
      else if c <? 128 then
        if (i =? 9)%nat && (1 <? c) then None else Some (N.lor x (N.shiftl c s), S i)
      else uvarint_loop b' (S i) (N.lor x (N.shiftl (c mod 128) s)) (s + 7)
  end.
Definition uvarint (b : bytes) : option (N * nat) := uvarint_loop b 0 0 0.

(** s2.decodedLen on a 64-bit platform: what s2.Decode passes to make *)
Definition s2_decoded_len (b : bytes) : option N :=
  match uvarint b with
  | Some (v, _) => if v <=? 4294967295 then Some v else None
  | None => None
  end.

Definition dec_fuel (b : bytes) : nat := S (S (length b)).

Fixpoint lookup {V} (l : list (bytes * V)) (k : bytes) : option V :=
  match l with
  | [] => None
  | (k', v) :: l' => if beqb k' k then Some v else lookup l' k
  end.
Definition has_key {V} (l : list (bytes * V)) (k : bytes) : bool :=
  match lookup l k with Some _ => true | None => false end.
Definition mem (l : list bytes) (k : bytes) : bool := existsb (fun x => beqb x k) l.

Record store := mk_store {
  st_blk : list (bytes * bytes);        (* blk/<sum>    -> compressed block *)
  st_blkidx : list bytes;               (* blkidx/<sum> *)
  st_tbl : list (bytes * bytes);        (* tbl/<sum>    -> table bytes *)
  st_tblidx : list bytes;               (* tblidx/<sum> *)
  st_tblprof : list bytes;              (* tblsum/<sum> *)
  st_com : list (bytes * bytes);        (* com/<sum>    -> commit bytes *)
  st_sets : nat;                        (* number of Store.Set calls so far *)
  st_gets : nat }.                      (* number of Store.Get calls so far *)

Definition empty_store : store := mk_store [] [] [] [] [] [] 0 0.

(** Store faults: the n-th Set fails, every Set on one key prefix fails
    (0 blk/ 1 blkidx/ 2 tbl/ 3 tblidx/ 4 tblsum/ 5 com/), the n-th Get fails. *)
Record faults := mk_faults {
  f_set_at : option nat; f_set_kind : option N; f_get_at : option nat }.
Definition no_faults : faults := mk_faults None None None.

Definition set_ok (fp : faults) (kind : N) (st : store) : bool :=
  negb (match f_set_at fp with Some n => Nat.eqb n (st_sets st) | None => false end
        || match f_set_kind fp with Some k => N.eqb k kind | None => false end).
Definition get_ok (fp : faults) (st : store) : bool :=
  negb (match f_get_at fp with Some n => Nat.eqb n (st_gets st) | None => false end).
Definition bump_gets (st : store) : store :=
  mk_store (st_blk st) (st_blkidx st) (st_tbl st) (st_tblidx st) (st_tblprof st) (st_com st)
           (st_sets st) (S (st_gets st)).

Definition add_blk (st : store) k v :=
  mk_store ((k, v) :: st_blk st) (st_blkidx st) (st_tbl st) (st_tblidx st) (st_tblprof st) (st_com st)
           (S (st_sets st)) (st_gets st).
Definition add_blkidx (st : store) k :=
  mk_store (st_blk st) (k :: st_blkidx st) (st_tbl st) (st_tblidx st) (st_tblprof st) (st_com st)
           (S (st_sets st)) (st_gets st).
Definition add_tbl (st : store) k v :=
  mk_store (st_blk st) (st_blkidx st) ((k, v) :: st_tbl st) (st_tblidx st) (st_tblprof st) (st_com st)
           (S (st_sets st)) (st_gets st).
Definition add_tblidx (st : store) k :=
  mk_store (st_blk st) (st_blkidx st) (st_tbl st) (k :: st_tblidx st) (st_tblprof st) (st_com st)
           (S (st_sets st)) (st_gets st).
Definition add_tblprof (st : store) k :=
  mk_store (st_blk st) (st_blkidx st) (st_tbl st) (st_tblidx st) (k :: st_tblprof st) (st_com st)
           (S (st_sets st)) (st_gets st).
Definition add_com (st : store) k v :=
  mk_store (st_blk st) (st_blkidx st) (st_tbl st) (st_tblidx st) (st_tblprof st) ((k, v) :: st_com st)
           (S (st_sets st)) (st_gets st).

(** running a decoder on a complete byte slice (bytes.NewReader(b)) *)
Definition dec_on {A} (p : nat -> prog A) (b : bytes) : res A * N :=
  let '(r, _, m) := exec_pure (p (dec_fuel b)) b 0 in (r, m).

Section Receive.
  Variable H : bytes -> bytes.
  Variable unz : bytes -> option bytes.
  Variable idx_sum : bytes -> list N -> bytes.
  Variable parse_int : bytes -> option Z.
  Variable parse_tz : bytes -> option Z.
  Variable pc : precap.
  Variable fp : faults.

  Definition s2_charge (b : bytes) : N := match s2_decoded_len b with Some n => n | None => 0 end.

  (* outcome, store, bytes allocated *)
  Definition sres : Type := res unit * store * N.

  (** saveBlock *)
  Definition save_block (st : store) (b : bytes) : sres :=
    let m := s2_charge b in                               (* s2.Decode: make([]byte, dLen) *)
    match unz b with
    | None => (Err COther, st, m)
    | Some content =>
        match validate_block content with
        | Ok _ =>
            if set_ok fp 0 st then (Ok tt, add_blk st (H content) b, m + N.of_nat (length b))
            else (Err COther, st, m)                       (* Store.Set failed *)
        | Err e => (Err e, st, m)
        | Panic => (Panic, st, m)
        end
    end.

  (** objects.GetBlock (the caller counts the Store.Get: [bump_gets]) *)
  Definition get_block (st : store) (sum : bytes) : res (list (list bytes)) * N :=
    if get_ok fp st then
      match lookup (st_blk st) sum with
      | None => (Err COther, 0)
      | Some comp =>
          match unz comp with
          | None => (Err COther, s2_charge comp)
          | Some dst => let '(r, m) := dec_on (block_read pc) dst in (r, s2_charge comp + m)
          end
      end
    else (Err COther, 0).                                  (* Store.Get failed *)

  Definition widths_ok (ncols : nat) (blk : list (list bytes)) : bool :=
    forallb (fun row => (length row =? ncols)%nat) blk.

  (** slice.IndicesToValues(row, pk): vals[k] for every key index, a runtime panic when an
      index is not below len(row).  IndexTable applies it to blk[0] and IndexBlock to every row. *)
  Definition pick (row : list bytes) (k : N) : res bytes :=
    if N.of_nat (length row) <=? k then Panic else idx row (N.to_nat k).
  Fixpoint pick_row (row : list bytes) (pk : list N) : res unit :=
    match pk with
    | [] => Ok tt
    | k :: pk' => match pick row k with Ok _ => pick_row row pk' | Err e => Err e | Panic => Panic end
    end.
  Fixpoint pick_rows (blk : list (list bytes)) (pk : list N) : res unit :=
    match blk with
    | [] => Ok tt
    | row :: blk' => match pick_row row pk with Ok _ => pick_rows blk' pk | r => r end
    end.

  (** IndexTable's guard: every primary-key index must be below the column count *)
  Definition pk_out_of_range (ncols : nat) (pk : list N) : bool :=
    existsb (fun k => N.of_nat ncols <=? k) pk.
  (* a weaker guard ("the largest index is not above the column count") lets ncols through *)
  Definition pk_out_of_range_weak (ncols : nat) (pk : list N) : bool :=
    N.of_nat ncols <? fold_right N.max 0 pk.

  (** the loop of ingest.IndexTable over tbl.Blocks (position i) *)
  Fixpoint index_blocks (st : store) (tbl : table) (blocks : list bytes) (i : nat) (m : N) : sres :=
    match blocks with
    | [] => (Ok tt, st, m)
    | sum :: blocks' =>
        let '(rb, mb) := get_block st sum in
        let st := bump_gets st in
        let m := m + mb in
        match rb with
        | Err _ => (Err COther, st, m)
        | Panic => (Panic, st, m)
        | Ok blk =>
            match blk with
            | [] => (Err COther, st, m)                    (* "block ... is empty" *)
            | _ :: _ =>
                if widths_ok (length (tb_columns tbl)) blk then
                  match pick_rows blk (tb_pk tbl) with     (* IndicesToValues / IndexBlock *)
                  | Panic => (Panic, st, m)
                  | Err e => (Err e, st, m)
                  | Ok _ =>
                  let isum := idx_sum sum (tb_pk tbl) in
                  if set_ok fp 1 st then
                    let st' := add_blkidx st isum in       (* SaveBlockIndex, before the comparison *)
                    match idx (tb_indices tbl) i with      (* tbl.BlockIndices[i] *)
                    | Ok x => if beqb isum x then index_blocks st' tbl blocks' (S i) m
                              else (Err COther, st', m)
                    | Err e => (Err e, st', m)
                    | Panic => (Panic, st', m)
                    end
                  else (Err COther, st, m)                 (* Store.Set failed *)
                  end
                else (Err COther, st, m)
            end
        end
    end.

  Definition index_table (st : store) (tsum : bytes) (tbl : table) : sres :=
    if pk_out_of_range (length (tb_columns tbl)) (tb_pk tbl)
    then (Err COther, st, 0)                               (* "primary key index out of range" *)
    else
      let '(r, st', m) := index_blocks st tbl (tb_blocks tbl) 0 0 in
      match r with
      | Ok _ =>
          if set_ok fp 3 st' then (Ok tt, add_tblidx st' tsum, m)   (* SaveTableIndex *)
          else (Err COther, st', m)
      | _ => (r, st', m)
      end.

  (** ingest.ProfileTable: re-reads every block, then saves the profile *)
  Fixpoint profile_blocks (st : store) (blocks : list bytes) (m : N) : sres :=
    match blocks with
    | [] => (Ok tt, st, m)
    | sum :: blocks' =>
        let '(rb, mb) := get_block st sum in
        let st := bump_gets st in
        match rb with
        | Ok _ => profile_blocks st blocks' (m + mb)
        | Err _ => (Err COther, st, m + mb)
        | Panic => (Panic, st, m + mb)
        end
    end.

  Definition profile_table (st : store) (tsum : bytes) (tbl : table) : sres :=
    let '(r, st', m) := profile_blocks st (tb_blocks tbl) 0 in
    match r with
    | Ok _ =>
        if set_ok fp 4 st' then (Ok tt, add_tblprof st' tsum, m)    (* SaveTableProfile *)
        else (Err COther, st', m)
    | _ => (r, st', m)
    end.

  (** saveTable: index and profile first, the table object last *)
  Definition save_table (st : store) (b : bytes) : sres :=
    let '(rt, m0) := dec_on (table_read pc) b in
    match rt with
    | Err e => (Err e, st, m0)
    | Panic => (Panic, st, m0)
    | Ok tbl =>
        let tsum := H b in
        let '(r1, st1, m1) := index_table st tsum tbl in
        match r1 with
        | Ok _ =>
            let '(r2, st2, m2) := profile_table st1 tsum tbl in
            match r2 with
            | Ok _ =>
                if set_ok fp 2 st2 then (Ok tt, add_tbl st2 tsum b, m0 + m1 + m2 + N.of_nat (length b))
                else (Err COther, st2, m0 + m1 + m2)       (* SaveTable failed *)
            | _ => (r2, st2, m0 + m1 + m2)
            end
        | _ => (r1, st1, m0 + m1)
        end
    end.

  (** saveCommit: parents must exist *)
  Definition save_commit (st : store) (b : bytes) : sres :=
    let '(rc, m0) := dec_on (commit_read parse_int parse_tz) b in
    match rc with
    | Err e => (Err e, st, m0)
    | Panic => (Panic, st, m0)
    | Ok c =>
        if forallb (has_key (st_com st)) (c_parents c)
        then (if set_ok fp 5 st then (Ok tt, add_com st (H b) b, m0 + N.of_nat (length b))
              else (Err COther, st, m0))
        else (Err COther, st, m0)
    end.

  (** Receive: ReadObject until io.EOF, dispatching on the object type.  [s] is what is
      left of the packfile stream after NewPackfileReader. *)
  Fixpoint receive_loop (fuel : nat) (F : nat) (st : store) (s : bytes) (m : N) : sres :=
    match fuel with
    | O => (Err CFuel, st, m)
    | S fuel' =>
        let '(r, s', m1) := exec_pure (object_read F) s m in
        match r with
        | Panic => (Panic, st, m1)
        | Err CEof => (Ok tt, st, m1)                      (* ot = 0, b = nil, break *)
        | Err e => (Err e, st, m1)                         (* "read object error: %w" *)
        | Ok (ot, b) =>
            let '(r2, st2, m2) :=
              if ot =? 3 then save_block st b
              else if ot =? 2 then save_table st b
              else if ot =? 1 then save_commit st b
              else if (ot =? 0) && (match b with [] => true | _ => false end) then (Ok tt, st, 0)
              else (Err COther, st, 0)                     (* "unrecognized object type" *)
            in
            match r2 with
            | Ok _ => receive_loop fuel' F st2 s' (m1 + m2)
            | _ => (r2, st2, m1 + m2)
            end
        end
    end.

  (** NewPackfileReader + Receive on a whole packfile *)
  Definition receive (st : store) (pack : bytes) : sres :=
    let F := dec_fuel pack in
    let '(rv, s, m) := exec_pure (packfile_version F) pack 0 in
    match rv with
    | Ok _ => receive_loop F F st s m
    | Err e => (Err e, st, m)
    | Panic => (Panic, st, m)
    end.

  (** Persistence-layer readers (pkg/objects/persistence.go GetCommit, GetTable, GetBlock,
      GetBlockIndex, GetTableIndex, GetTableProfile) applied to the value the store holds under
      the key ([None] = key not found): (outcome, bytes allocated).
      GetCommit / GetTable assign .Sum on the object that ReadCommitFrom / ReadTableFrom return
      BEFORE looking at the error; [obj_on_err] says whether those return an object together
      with an error ([true]: the code as it is; [false]: a nil object, and the assignment is a
      nil dereference). *)
  Definition set_sum {A} (obj_on_err : bool) (r : res A) : res A :=
    match r with
    | Ok a => Ok a
    | Err e => if obj_on_err then Err e else Panic
    | Panic => Panic
    end.

  Definition get_commit (obj_on_err : bool) (v : option bytes) : res commit * N :=
    match v with
    | None => (Err COther, 0)
    | Some b => let '(r, m) := dec_on (commit_read parse_int parse_tz) b in (set_sum obj_on_err r, m)
    end.

  Definition get_table (obj_on_err : bool) (v : option bytes) : res table * N :=
    match v with
    | None => (Err COther, 0)
    | Some b => let '(r, m) := dec_on (table_read pc) b in (set_sum obj_on_err r, m)
    end.

  (* s2.Decode, then the decoder *)
  Definition load_s2 {A} (D : nat -> prog A) (v : option bytes) : res A * N :=
    match v with
    | None => (Err COther, 0)
    | Some comp =>
        match unz comp with
        | None => (Err COther, s2_charge comp)
        | Some dst => let '(r, m) := dec_on D dst in (r, s2_charge comp + m)
        end
    end.
  Definition load_block := load_s2 (block_read pc).
  Definition load_block_index := load_s2 blockindex_read.

  Definition load_plain {A} (D : nat -> prog A) (v : option bytes) : res A * N :=
    match v with None => (Err COther, 0) | Some b => dec_on D b end.
  Definition get_table_index := load_plain (block_read pc).
  Definition get_table_profile := load_plain (profile_read pc).

  (** Specification of C17 "nothing from a rejected object is left referenced":
      the store is CLOSED when every stored block decompresses and validates, every stored
      table decodes and has all its blocks, the block index named at the same position for
      each of them, its table index and its profile, and every stored commit decodes and
      has its parents. *)
  Definition table_of (c : bytes) : res table := fst (dec_on (table_read pc) c).
  Definition commit_of (c : bytes) : res commit := fst (dec_on (commit_read parse_int parse_tz) c).

  Definition block_ok (comp : bytes) : Prop :=
    exists content, unz comp = Some content /\ validate_block content = Ok tt.

  Definition table_ok (st : store) (t : bytes) (c : bytes) : Prop :=
    exists tbl, table_of c = Ok tbl /\
      (forall i b, nth_error (tb_blocks tbl) i = Some b ->
         has_key (st_blk st) b = true /\
         exists x, nth_error (tb_indices tbl) i = Some x /\ mem (st_blkidx st) x = true) /\
      mem (st_tblidx st) t = true /\ mem (st_tblprof st) t = true.

  Definition commit_ok (st : store) (c : bytes) : Prop :=
    exists cm, commit_of c = Ok cm /\
      forall p, In p (c_parents cm) -> has_key (st_com st) p = true.

  Definition closed (st : store) : Prop :=
    (forall k comp, lookup (st_blk st) k = Some comp -> block_ok comp) /\
    (forall t c, lookup (st_tbl st) t = Some c -> table_ok st t c) /\
    (forall k c, lookup (st_com st) k = Some c -> commit_ok st c).
End Receive.
