(** C08 - negotiation (ClosedSetsFinder) : executable transliteration.

    Go sources: pkg/api/utils/closed_sets_finder.go (Process, ensureWantsAreReachable,
    findCommons, findClosedSetOfObjects, enqueueWants, CommitsToSend, TablesToSend,
    CommonCommmits) and pkg/ref/commits_queue.go (Reset, Insert, Pop, InsertParents,
    PopInsertParents, PopUntil, Seen).  Definitions only; proofs are in
    proofs/ClosedSets*_proofs.v, statements in props/C08.v.

    NOTE: the small commit graph and the time-ordered queue below are this file's OWN
    definitions (C08 must not depend on model/Graph.v / model/Queue.v, which belong to C11
    and are written concurrently).

    What is a parameter and why
      [qsort]  - sort.Sort(q) in CommitsQueue.Reset (pdqsort, not stable, applied to a slice
                 filled in Go map order).  Theorems only assume it returns a permutation.
      [ord]    - `for want := range f.Wants`: Go map iteration order.  [ord i l] is the order
                 used by the i-th call of enqueueWants on the pending wants [l]; theorems
                 quantify over every [ord] returning permutations.
    Ghost fields of [finder] ([f_calls], [f_multi], [f_accepted]) are instrumentation: no
    other field ever depends on them (except [f_calls] selecting [ord]).

    Exchange format (harness/c08.go uses the same):
      case  = (0 depth commits tables refs rounds)
                commits = ((id (parent ...) time table) ...)   ids are small numbers; a
                          commit id that is not listed is an unknown hash
                tables  = (t ...)          table ids present in the object store
                refs    = (id ...)         values of ListAllRefs (any order, duplicates allowed)
                rounds  = (((want ...) (have ...) done) ...)   one Process call each; afterwards
                          CommitsToSend, TablesToSend, CommonCommmits
            | (1 n)                        the chain of n stacked diamonds (3n+1 commits), one
                                           ref and one want at its top, no haves, depth 0
      round observation = (0 (ack ...)) | (1 (unrecognised want ...)) | (2) store error
      obs for (0 ...):
        single mode (every enqueueWants call looped over <= 1 want; nothing depends on map order)
          (0 (round-obs ...) fin)
             fin = (0 (commit ...) (table ...) (common ...) (order cover sound acks))
                     CommitsToSend as the exact list, TablesToSend / CommonCommmits sorted sets,
                     four oracle booleans
                 | (2)     a store error ended the session
        multi mode (some enqueueWants call looped over >= 2 wants: map order matters)
          (1 (canon ...) tabs)
             canon = ((round-obs ...) fin') with CommitsToSend as a sorted SET and, when
                     depth = 0, the table set (else ()); the model lists the distinct canons over
                     the processing orders it tries (the implementation gives exactly one)
             tabs  = (tableset ...)  distinct TablesToSend sets over the orders, only when
                     depth > 0 and there is exactly one round; else ()
      obs for (1 n) = (0 len distinct)   length of CommitsToSend and number of distinct commits *)
From Coq Require Import List NArith Bool Arith.
From W.lib Require Import Tree GoSort.
Import ListNotations.

(* ------------------------------------------------------------------ *)
(** * Own small commit graph                                            *)
(* ------------------------------------------------------------------ *)

Definition cid := N.
Record commit := mkCommit { c_parents : list cid; c_time : N; c_table : N }.
(** object store: commits by id (first binding wins) and the set of table ids present *)
Record store := mkStore { s_commits : list (cid * commit); s_tables : list N }.

Definition mem (x : N) (l : list N) : bool := existsb (N.eqb x) l.

Fixpoint assoc (l : list (cid * commit)) (c : cid) : option commit :=
  match l with
  | [] => None
  | (k, v) :: r => if N.eqb k c then Some v else assoc r c
  end.
(** objects.GetCommit: [None] = ErrKeyNotFound *)
Definition get_commit (g : store) (c : cid) : option commit := assoc (s_commits g) c.
(** objects.TableExist *)
Definition table_exist (g : store) (t : N) : bool := mem t (s_tables g).
Definition parents_of (g : store) (c : cid) : list cid :=
  match get_commit g c with Some cm => c_parents cm | None => [] end.
Definition ncommits (g : store) : nat := length (s_commits g).

Inductive res (A : Type) := Ok (a : A) | ErrStore | Fuel.
Arguments Ok {A} a.
Arguments ErrStore {A}.
Arguments Fuel {A}.

(* ------------------------------------------------------------------ *)
(** * Own time-ordered queue (ref.CommitsQueue)                          *)
(* ------------------------------------------------------------------ *)

Definition qitem := (cid * commit)%type.
(** [q_items] = the parallel slices sums/commits, newest first; [q_seen] = the seen map *)
Record cqueue := mkQ { q_items : list qitem; q_seen : list cid }.

(** Reset, the loop over initialSums (duplicates skipped, GetCommit error returned) *)
Fixpoint q_reset_loop (g : store) (init : list cid) (items : list qitem) (seen : list cid)
  : res (list qitem * list cid) :=
  match init with
  | [] => Ok (items, seen)
  | v :: r =>
      if mem v seen then q_reset_loop g r items seen
      else match get_commit g v with
           | None => ErrStore
           | Some c => q_reset_loop g r (items ++ [(v, c)]) (v :: seen)
           end
  end.

(** Insert: Seen -> nothing; GetCommit; sort.Search for the first index whose time is
    Before-or-Equal the new commit's time; splice in. *)
Definition q_insert (g : store) (q : cqueue) (sum : cid) : res cqueue :=
  if mem sum (q_seen q) then Ok q
  else match get_commit g sum with
       | None => ErrStore
       | Some c =>
           let n := length (q_items q) in
           let i := search n (fun i => match nth_error (q_items q) i with
                                       | Some (_, ci) => N.leb (c_time ci) (c_time c)
                                       | None => false
                                       end) in
           Ok (mkQ (firstn i (q_items q) ++ (sum, c) :: skipn i (q_items q)) (sum :: q_seen q))
       end.

Fixpoint q_insert_parents (g : store) (q : cqueue) (ps : list cid) : res cqueue :=
  match ps with
  | [] => Ok q
  | p :: r => match q_insert g q p with
              | Ok q' => q_insert_parents g q' r
              | e => e
              end
  end.

Inductive pu_res :=
| PUFound (q : cqueue) (c : commit)    (* sum == b *)
| PUEOF (q : cqueue)                   (* io.EOF: queue exhausted *)
| PUErr                                (* GetCommit error inside InsertParents *)
| PUFuel.

(** PopUntil b: loop { PopInsertParents; EOF -> return; err -> return; sum == b -> return } *)
Fixpoint pop_until (g : store) (fuel : nat) (q : cqueue) (b : cid) : pu_res :=
  match q_items q with
  | [] => PUEOF q
  | (s, c) :: rest =>
      match fuel with
      | O => PUFuel
      | S f =>
          match q_insert_parents g (mkQ rest (q_seen q)) (c_parents c) with
          | Ok q' => if N.eqb s b then PUFound q' c else pop_until g f q' b
          | ErrStore => PUErr
          | Fuel => PUFuel
          end
      end
  end.

(** every commit enters the queue at most once, so at most [ncommits] pops ever happen *)
Definition pu_fuel (g : store) : nat := S (ncommits g).

(* ------------------------------------------------------------------ *)
(** * ClosedSetsFinder                                                   *)
(* ------------------------------------------------------------------ *)

Record finder := mkF {
  f_commons : list cid;          (* map keys, no duplicates *)
  f_wants : list cid;            (* map keys (pending wants), no duplicates *)
  f_clists : list (list cid);    (* commitLists, each front first *)
  f_tlists : list (list N);      (* tableSumLists *)
  f_depth : nat;
  f_calls : nat;                 (* ghost: number of enqueueWants calls so far *)
  f_multi : bool;                (* ghost: some enqueueWants call looped over >= 2 wants *)
  f_accepted : list cid          (* ghost: wants of all successful Process calls *)
}.

Definition new_finder (depth : nat) : finder := mkF [] [] [] [] depth 0 false [].

Definition add_set (x : cid) (l : list cid) : list cid := if mem x l then l else l ++ [x].
Definition add_all (xs l : list cid) : list cid := fold_left (fun acc x => add_set x acc) xs l.

(** ** ensureWantsAreReachable *)
Inductive ew_res := EOk (q : cqueue) | EUnrec (sums : list cid) | EErr | EFuel.

Definition confirm (g : store) (c : commit) (w : cid) (confirmed : list cid) : list cid :=
  if table_exist g (c_table c) then w :: confirmed else confirmed.

(** the first loop; returns the queue and the confirmed map *)
Fixpoint ew_loop (g : store) (q : cqueue) (wants : list cid) (confirmed : list cid)
  : res (cqueue * list cid) :=
  match wants with
  | [] => Ok (q, confirmed)
  | w :: r =>
      if mem w (q_seen q) then
        match get_commit g w with                      (* isFullCommit(nil, want) *)
        | None => ErrStore
        | Some c => ew_loop g q r (confirm g c w confirmed)
        end
      else
        match pop_until g (pu_fuel g) q w with
        | PUFound q' c => ew_loop g q' r (confirm g c w confirmed)
        | PUEOF q' => Ok (q', confirmed)               (* break *)
        | PUErr => ErrStore
        | PUFuel => Fuel
        end
  end.

Definition ensure_wants (g : store) (q : cqueue) (wants : list cid) : ew_res :=
  match ew_loop g q wants [] with
  | Ok (q', confirmed) =>
      match filter (fun w => negb (mem w confirmed)) wants with
      | [] => EOk q'
      | sums => EUnrec sums
      end
  | ErrStore => EErr
  | Fuel => EFuel
  end.

(** ** findCommons *)

(** the inner loop of addToCommons: all ancestors of b end up in the ancestors map *)
Fixpoint anc_walk (g : store) (fuel : nat) (q : list cid) (anc : list cid) : res (list cid) :=
  match q with
  | [] => Ok anc
  | s :: q' =>
      match fuel with
      | O => Fuel
      | S f =>
          if mem s anc then anc_walk g f q' anc
          else match get_commit g s with
               | None => ErrStore
               | Some c => anc_walk g f (q' ++ c_parents c) (s :: anc)
               end
      end
  end.

Definition maxdeg (g : store) : nat :=
  fold_right (fun kc m => Nat.max (length (c_parents (snd kc))) m) 0 (s_commits g).
(** at most [ncommits] commits are added, each pushing at most [maxdeg] parents *)
Definition aw_fuel (g : store) : nat := S (S (ncommits g * S (S (maxdeg g)))).

Definition add_to_commons (g : store) (b : cid) (commons anc : list cid)
  : res (list cid * list cid) :=
  if mem b anc then Ok (commons, anc)
  else match anc_walk g (aw_fuel g) [b] anc with
       | Ok anc' => Ok (commons ++ [b], anc')
       | ErrStore => ErrStore
       | Fuel => Fuel
       end.

Fixpoint fc_loop (g : store) (q : cqueue) (haves : list cid) (commons anc : list cid)
  : res (list cid) :=
  match haves with
  | [] => Ok commons
  | h :: r =>
      if mem h anc then fc_loop g q r commons anc
      else if mem h (q_seen q) then
        match add_to_commons g h commons anc with
        | Ok (commons', anc') => fc_loop g q r commons' anc'
        | ErrStore => ErrStore
        | Fuel => Fuel
        end
      else
        match pop_until g (pu_fuel g) q h with
        | PUEOF _ => Ok commons                        (* break at the first unknown have *)
        | PUErr => ErrStore
        | PUFuel => Fuel
        | PUFound q' _ =>
            match add_to_commons g h commons anc with
            | Ok (commons', anc') => fc_loop g q' r commons' anc'
            | ErrStore => ErrStore
            | Fuel => Fuel
            end
        end
  end.

Definition find_commons (g : store) (q : cqueue) (haves : list cid) : res (list cid) :=
  fc_loop g q haves [] [].

(** ** enqueueWants *)

Definition stopb (seen commons : list cid) (c : cid) : bool := mem c seen || mem c commons.

(** number of parent paths starting at [c] whose nodes before the last are not stopped,
    cut at length [k] (exact once [k] exceeds the height of the graph) *)
Fixpoint npaths (g : store) (stop : cid -> bool) (k : nat) (c : cid) : nat :=
  match k with
  | O => 1
  | S k' => if stop c then 1 else S (list_sum (map (npaths g stop k') (parents_of g c)))
  end.

Definition depth_ok (depth d : nat) : bool := Nat.eqb depth 0 || Nat.ltb d depth.

Inductive walk_res :=
| WDone (sums cl : list cid) (tl : list N)
| WDeferred                       (* cont(want, c) returned true: continue wantsLoop *)
| WErr
| WFuel.

(** the inner loop for one want.  [q]: container/list of commitDepth; [sums] is kept newest
    first (it is only ever poured into the alreadySeenCommits map); [cl]/[tl]: PushFront. *)
Fixpoint walk (g : store) (depth : nat) (seen commons : list cid) (defer : bool)
         (fuel : nat) (q : list (cid * nat)) (sums cl : list cid) (tl : list N) : walk_res :=
  match q with
  | [] => WDone sums cl tl
  | (s, d) :: q' =>
      match fuel with
      | O => WFuel
      | S f =>
          if mem s seen then walk g depth seen commons defer f q' (s :: sums) cl tl
          else if mem s commons then walk g depth seen commons defer f q' (s :: sums) cl tl
          else match get_commit g s with
               | None => WErr
               | Some c =>
                   let cl' := s :: cl in
                   let tl' := if depth_ok depth d then c_table c :: tl else tl in
                   if defer && Nat.eqb (length (c_parents c)) 0 then WDeferred
                   else walk g depth seen commons defer f
                             (q' ++ map (fun p => (p, S d)) (c_parents c)) (s :: sums) cl' tl'
               end
      end
  end.

Definition walk_fuel (g : store) (seen commons : list cid) (w : cid) : nat :=
  npaths g (stopb seen commons) (S (ncommits g)) w.

Definition walk_want (g : store) (depth : nat) (seen commons : list cid) (defer : bool) (w : cid)
  : walk_res :=
  walk g depth seen commons defer (walk_fuel g seen commons w) [(w, O)] [] [] [].

(** wantsLoop over the processing order *)
Fixpoint enqueue_loop (g : store) (depth : nat) (commons : list cid) (defer : bool)
         (order : list cid) (seen : list cid) (cls : list (list cid)) (tls : list (list N))
         (deferred : list cid) : res (list (list cid) * list (list N) * list cid) :=
  match order with
  | [] => Ok (cls, tls, deferred)
  | w :: r =>
      match walk_want g depth seen commons defer w with
      | WDone sums cl tl =>
          enqueue_loop g depth commons defer r (sums ++ seen) (cls ++ [cl]) (tls ++ [tl]) deferred
      | WDeferred => enqueue_loop g depth commons defer r seen cls tls (deferred ++ [w])
      | WErr => ErrStore
      | WFuel => Fuel
      end
  end.

Section Finder.
  Variable qsort : list qitem -> list qitem.
  Variable ord : nat -> list cid -> list cid.

  Definition q_new (g : store) (init : list cid) : res cqueue :=
    match q_reset_loop g init [] [] with
    | Ok (items, seen) => Ok (mkQ (qsort items) seen)
    | ErrStore => ErrStore
    | Fuel => Fuel
    end.

  (** enqueueWants(cont); [defer] = cont != nil && len(f.commons) > 0 && !done.  The wants left
      pending afterwards are the deferred ones (findClosedSetOfObjects: f.Wants = wants). *)
  Definition enqueue (g : store) (f : finder) (defer : bool) : res finder :=
    let order := ord (f_calls f) (f_wants f) in
    match enqueue_loop g (f_depth f) (f_commons f) defer order [] (f_clists f) (f_tlists f) [] with
    | Ok (cls, tls, deferred) =>
        Ok (mkF (f_commons f) deferred cls tls (f_depth f) (S (f_calls f))
                (f_multi f || Nat.leb 2 (length order)) (f_accepted f))
    | ErrStore => ErrStore
    | Fuel => Fuel
    end.

  Inductive presult :=
  | POk (f : finder) (acks : list cid)
  | PUnrecognized (sums : list cid)      (* state unchanged *)
  | PErrStore
  | PFuel.

  Definition process (g : store) (refs : list cid) (f : finder) (wants haves : list cid)
             (done : bool) : presult :=
    match q_new g refs with
    | ErrStore => PErrStore
    | Fuel => PFuel
    | Ok q =>
        match (match wants with [] => EOk q | _ => ensure_wants g q wants end) with
        | EUnrec sums => PUnrecognized sums
        | EErr => PErrStore
        | EFuel => PFuel
        | EOk q1 =>
            match find_commons g q1 haves with
            | ErrStore => PErrStore
            | Fuel => PFuel
            | Ok commons =>
                let f1 := mkF (add_all commons (f_commons f)) (add_all wants (f_wants f))
                              (f_clists f) (f_tlists f) (f_depth f) (f_calls f) (f_multi f)
                              (wants ++ f_accepted f) in
                let defer := negb done && negb (Nat.eqb (length (f_commons f1)) 0) in
                match enqueue g f1 defer with
                | Ok f2 => POk f2 commons
                | ErrStore => PErrStore
                | Fuel => PFuel
                end
            end
        end
    end.

  (** CommitsToSend / TablesToSend: walk the still pending wants (cont = nil), then concatenate *)
  Definition flush_wants (g : store) (f : finder) : res finder :=
    match f_wants f with
    | [] => Ok f
    | _ => enqueue g f false
    end.

  Definition commits_to_send (g : store) (f : finder) : res (finder * list cid) :=
    match flush_wants g f with
    | Ok f' => Ok (f', concat (f_clists f'))
    | ErrStore => ErrStore
    | Fuel => Fuel
    end.

  Definition tables_to_send (g : store) (f : finder) : res (finder * list N) :=
    match flush_wants g f with
    | Ok f' => Ok (f', concat (f_tlists f'))
    | ErrStore => ErrStore
    | Fuel => Fuel
    end.

  (** ** sessions: a list of Process calls, then CommitsToSend *)
  Record round := mkRound { r_wants : list cid; r_haves : list cid; r_done : bool }.
  Inductive round_obs := ROk (acks : list cid) | RUnrec (sums : list cid) | RErr | RFuel.

  (** [None] = a store error / fuel ended the session *)
  Fixpoint run_rounds (g : store) (refs : list cid) (f : finder) (rs : list round)
    : list round_obs * option finder :=
    match rs with
    | [] => ([], Some f)
    | r :: rest =>
        match process g refs f (r_wants r) (r_haves r) (r_done r) with
        | POk f' acks => let '(os, fo) := run_rounds g refs f' rest in (ROk acks :: os, fo)
        | PUnrecognized sums => let '(os, fo) := run_rounds g refs f rest in (RUnrec sums :: os, fo)
        | PErrStore => ([RErr], None)
        | PFuel => ([RFuel], None)
        end
    end.

  Definition session (g : store) (refs : list cid) (depth : nat) (rs : list round)
    : list round_obs * option (res (finder * list cid)) :=
    let '(os, fo) := run_rounds g refs (new_finder depth) rs in
    (os, match fo with Some f => Some (commits_to_send g f) | None => None end).
End Finder.

(* ------------------------------------------------------------------ *)
(** * Concrete instances used by the correspondence run                  *)
(* ------------------------------------------------------------------ *)

(** insertion sort, newest first, stable (Go's pdqsort is an insertion sort below 12
    elements); nothing observable depends on the order among equal times *)
Fixpoint q_ins (x : qitem) (l : list qitem) : list qitem :=
  match l with
  | [] => [x]
  | y :: r => if N.leb (c_time (snd y)) (c_time (snd x)) then x :: l else y :: q_ins x r
  end.
Definition isort_time (l : list qitem) : list qitem := fold_right q_ins [] l.

Definition rot {A} (k : nat) (l : list A) : list A := skipn k l ++ firstn k l.
(** six processing orders (all six permutations when there are three wants) *)
Definition ord_variant (k : nat) (l : list cid) : list cid :=
  match k with
  | 0 => l
  | 1 => rev l
  | 2 => rot 1 l
  | 3 => rev (rot 1 l)
  | 4 => rot 2 l
  | _ => rev (rot 2 l)
  end.
(** variant index [v] in 0..35: call 0 uses [v mod 6], every later call [v / 6] *)
Definition ord_of (v : nat) (i : nat) (l : list cid) : list cid :=
  match i with
  | O => ord_variant (v mod 6) l
  | _ => ord_variant (v / 6) l
  end.

(** the chain of n stacked diamonds: commit 0 is the root; diamond i has sides 3i-2, 3i-1
    (parent: top of diamond i-1) and top 3i (parents: both sides).  All share table 0. *)
Fixpoint diamond_commits (n : nat) : list (cid * commit) :=
  match n with
  | O => [(0%N, mkCommit [] 0 0)]
  | S m =>
      let b := N.of_nat (3 * m) in
      ((b + 3)%N, mkCommit [(b + 1)%N; (b + 2)%N] (b + 3)%N 0)
        :: ((b + 2)%N, mkCommit [b] (b + 2)%N 0)
        :: ((b + 1)%N, mkCommit [b] (b + 1)%N 0)
        :: diamond_commits m
  end.
Definition diamond_chain (n : nat) : store := mkStore (diamond_commits n) [0%N].
Definition diamond_top (n : nat) : cid := N.of_nat (3 * n).

(** CommitsToSend for the diamond chain (one ref = one want = the top, no haves, done) *)
Definition diamond_send (n : nat) : option (list cid) :=
  let g := diamond_chain n in
  match process isort_time (ord_of 0) g [diamond_top n] (new_finder 0) [diamond_top n] [] true with
  | POk f _ => match commits_to_send (ord_of 0) g f with
               | Ok (_, l) => Some l
               | _ => None
               end
  | _ => None
  end.

(* ------------------------------------------------------------------ *)
(** * Executable checkers (used for the observation booleans only)       *)
(* ------------------------------------------------------------------ *)

Definition nedges (g : store) : nat :=
  list_sum (map (fun kc => length (c_parents (snd kc))) (s_commits g)).

(** ancestors-or-self of the roots; a missing commit is a parentless node *)
Fixpoint reach_list (g : store) (fuel : nat) (q : list cid) (acc : list cid) : list cid :=
  match fuel with
  | O => acc
  | S f =>
      match q with
      | [] => acc
      | s :: q' =>
          if mem s acc then reach_list g f q' acc
          else reach_list g f (parents_of g s ++ q') (s :: acc)
      end
  end.
Definition ancs (g : store) (roots : list cid) : list cid :=
  reach_list g (S (nedges g + length roots + ncommits g)) roots [].

Fixpoint order_ok_from (g : store) (canc : list cid) (earlier : list cid) (l : list cid) : bool :=
  match l with
  | [] => true
  | c :: r =>
      forallb (fun p => mem p earlier || mem p canc) (parents_of g c)
      && order_ok_from g canc (c :: earlier) r
  end.
Definition order_okb (g : store) (commons l : list cid) : bool :=
  order_ok_from g (ancs g commons) [] l.
Definition cover_okb (g : store) (commons accepted l : list cid) : bool :=
  let canc := ancs g commons in
  forallb (fun a => mem a l || mem a canc) (ancs g accepted).
Definition sound_okb (g : store) (accepted l : list cid) : bool :=
  let wanc := ancs g accepted in forallb (fun c => mem c wanc) l.
Definition acks_okb (g : store) (refs : list cid) (rs : list round) (os : list round_obs) : bool :=
  let ranc := ancs g refs in
  forallb (fun ro => match snd ro with
                     | ROk acks => forallb (fun a => mem a (r_haves (fst ro)) && mem a ranc
                                                     && match get_commit g a with Some _ => true | None => false end) acks
                     | _ => true
                     end) (combine rs os).

(* ------------------------------------------------------------------ *)
(** * Tree coders and run_C08                                            *)
(* ------------------------------------------------------------------ *)

Fixpoint n_ins (x : N) (l : list N) : list N :=
  match l with
  | [] => [x]
  | y :: r => if N.ltb x y then x :: l else if N.eqb x y then l else y :: n_ins x r
  end.
(** sorted, duplicate-free *)
Definition n_set (l : list N) : list N := fold_right n_ins [] l.

Definition t_ns (l : list N) : tree := Node (map Leaf l).

(** lexicographic order on lists of numbers; sorted duplicate-free list of sets *)
Fixpoint lex_ltb (a b : list N) : bool :=
  match a, b with
  | [], [] => false
  | [], _ => true
  | _, [] => false
  | x :: ra, y :: rb => if N.ltb x y then true else if N.eqb x y then lex_ltb ra rb else false
  end.
Fixpoint ll_ins (x : list N) (l : list (list N)) : list (list N) :=
  match l with
  | [] => [x]
  | y :: r => if lex_ltb x y then x :: l else if lex_ltb y x then y :: ll_ins x r else l
  end.
Definition ll_set (l : list (list N)) : list (list N) := fold_right ll_ins [] l.

Fixpoint tree_eqb (a b : tree) {struct a} : bool :=
  match a, b with
  | Leaf x, Leaf y => N.eqb x y
  | Node la, Node lb =>
      (fix go (la lb : list tree) : bool :=
         match la, lb with
         | [], [] => true
         | x :: ra, y :: rb => tree_eqb x y && go ra rb
         | _, _ => false
         end) la lb
  | _, _ => false
  end.
Fixpoint t_distinct (l : list tree) (acc : list tree) : list tree :=
  match l with
  | [] => rev acc
  | t :: r => if existsb (tree_eqb t) acc then t_distinct r acc else t_distinct r (t :: acc)
  end.

Definition d_commit (t : tree) : cid * commit :=
  (d_N (d_nth 0 t), mkCommit (d_list d_N (d_nth 1 t)) (d_N (d_nth 2 t)) (d_N (d_nth 3 t))).
Definition d_round (t : tree) : round :=
  mkRound (d_list d_N (d_nth 0 t)) (d_list d_N (d_nth 1 t)) (d_bool (d_nth 2 t)).

Definition t_round_obs (o : round_obs) : tree :=
  match o with
  | ROk acks => Node [Leaf 0; t_ns acks]
  | RUnrec sums => Node [Leaf 1; t_ns sums]
  | RErr => Node [Leaf 2]
  | RFuel => Node [Leaf 3]
  end.

(** one complete run under the order variant [v] *)
Record run1 := mkRun1 {
  x_rounds : list round_obs;
  x_code : N;                    (* 0 ok, 2 store error, 3 fuel *)
  x_multi : bool;
  x_commits : list cid;
  x_tables : list N;
  x_commons : list cid;
  x_flags : list bool
}.

Definition run_variant (g : store) (refs : list cid) (depth : nat) (rs : list round) (v : nat) : run1 :=
  let '(os, fin) := session isort_time (ord_of v) g refs depth rs in
  match fin with
  | Some (Ok (f, l)) =>
      let tl := match tables_to_send (ord_of v) g f with Ok (_, t) => t | _ => [] end in
      mkRun1 os 0 (f_multi f) l (n_set tl) (n_set (f_commons f))
             [order_okb g (f_commons f) l; cover_okb g (f_commons f) (f_accepted f) l;
              sound_okb g (f_accepted f) l; acks_okb g refs rs os]
  | Some Fuel => mkRun1 os 3 false [] [] [] []
  | _ => mkRun1 os 2 false [] [] [] []
  end.

Definition t_flags (l : list bool) : tree := Node (map t_bool l).

Definition t_single (x : run1) : tree :=
  Node [Leaf 0; t_list t_round_obs (x_rounds x);
        if N.eqb (x_code x) 0
        then Node [Leaf 0; t_ns (x_commits x); t_ns (x_tables x); t_ns (x_commons x); t_flags (x_flags x)]
        else Node [Leaf (x_code x)]].

Definition t_canon (depth : nat) (x : run1) : tree :=
  Node [t_list t_round_obs (x_rounds x);
        if N.eqb (x_code x) 0
        then Node [Leaf 0; t_ns (n_set (x_commits x));
                   if Nat.eqb depth 0 then t_ns (x_tables x) else Node [];
                   t_ns (x_commons x); t_flags (x_flags x)]
        else Node [Leaf (x_code x)]].

Definition run_std (c : tree) : tree :=
  let depth := d_nat (d_nth 1 c) in
  let g := mkStore (d_list d_commit (d_nth 2 c)) (d_list d_N (d_nth 3 c)) in
  let refs := d_list d_N (d_nth 4 c) in
  let rs := d_list d_round (d_nth 5 c) in
  let x0 := run_variant g refs depth rs 0 in
  if x_multi x0 then
    let xs := map (run_variant g refs depth rs) (seq 0 36) in
    Node [Leaf 1; Node (t_distinct (map (t_canon depth) xs) []);
          if negb (Nat.eqb depth 0) && Nat.eqb (length rs) 1 && N.eqb (x_code x0) 0
          then Node (map t_ns (ll_set (map x_tables xs)))
          else Node []]
  else t_single x0.

Definition run_diamond (c : tree) : tree :=
  match diamond_send (d_nat (d_nth 1 c)) with
  | Some l => Node [Leaf 0; t_nat (length l); t_nat (length (n_set l))]
  | None => Node [Leaf 2]
  end.

Definition run_C08 (c : tree) : tree :=
  match d_N (d_nth 0 c) with
  | 1%N => run_diamond c
  | _ => run_std c
  end.
