(** C06 - pkg/objects/table_profile.go and value_counts.go (field framing; a float64
    is its 64-bit pattern).  Definitions only.

    TableProfile.WriteTo: fields "version" (u32), "fields" (StrList of the twelve field
    names), "rowsCount" (u32), "colsCount" (u32), "columns": per column, for every
    NON-EMPTY field j (1-based position in the name list) a u16 j followed by the field's
    content, then a u16 0.  Field kinds, in order:
       1 name (string, empty = "")        2 naCount (u32, empty = 0)
       3..7 min max mean median stdDeviation (optional float64, empty = nil)
       8 percentiles (FloatList, empty = nil slice; an empty non-nil slice is written)
       9..11 minStrLen maxStrLen avgStrLen (u16, empty = 0)
       12 topValues (u32 count, then per value u32 count, u16 length, bytes; empty = nil)
    A column is modelled as the list of its twelve field values ([fval]), so that the
    writer and the reader are loops over the field table as in the Go code.
    Refusals: ERROR of objline.WriteString for a name > 65535 bytes and ERROR of
    writeValueCounts for a top value > 65535 bytes (MaxStrLen guard).
    TableProfile.ReadFrom is driven by the name list stored in the object: index j is
    looked up in that list and the name in the table of known fields; fields may come in
    any order, repeatedly, and may carry "empty" values - the format is not canonical. *)
From W.lib Require Import Tree Bytes.
From W.model Require Import CodecBase CodecStrList CodecObjline.
From Coq Require Import Arith.
Local Open Scope N_scope.

Definition L_version : bytes := [118; 101; 114; 115; 105; 111; 110].
Definition L_fields : bytes := [102; 105; 101; 108; 100; 115].
Definition L_rowsCount : bytes := [114; 111; 119; 115; 67; 111; 117; 110; 116].
Definition L_colsCount : bytes := [99; 111; 108; 115; 67; 111; 117; 110; 116].
Definition L_pcolumns : bytes := [99; 111; 108; 117; 109; 110; 115].

Inductive kind := KStr | KU32 | KU16 | KF64 | KPct | KTop.

Inductive fval :=
| VStr (s : bytes)
| VNum (n : N)
| VF64 (o : option N)
| VPct (o : option (list N))
| VTop (o : option (list (bytes * N))).

(* profileFields: name and kind, in order *)
Definition profile_fields : list (bytes * kind) :=
  [ ([110; 97; 109; 101], KStr);                                          (* name *)
    ([110; 97; 67; 111; 117; 110; 116], KU32);                            (* naCount *)
    ([109; 105; 110], KF64);                                              (* min *)
    ([109; 97; 120], KF64);                                               (* max *)
    ([109; 101; 97; 110], KF64);                                          (* mean *)
    ([109; 101; 100; 105; 97; 110], KF64);                                (* median *)
    ([115; 116; 100; 68; 101; 118; 105; 97; 116; 105; 111; 110], KF64);   (* stdDeviation *)
    ([112; 101; 114; 99; 101; 110; 116; 105; 108; 101; 115], KPct);       (* percentiles *)
    ([109; 105; 110; 83; 116; 114; 76; 101; 110], KU16);                  (* minStrLen *)
    ([109; 97; 120; 83; 116; 114; 76; 101; 110], KU16);                   (* maxStrLen *)
    ([97; 118; 103; 83; 116; 114; 76; 101; 110], KU16);                   (* avgStrLen *)
    ([116; 111; 112; 86; 97; 108; 117; 101; 115], KTop) ].                (* topValues *)
Definition profile_names : list bytes := map fst profile_fields.
Definition profile_kinds : list kind := map snd profile_fields.

Definition empty_of (k : kind) : fval :=
  match k with
  | KStr => VStr []
  | KU32 | KU16 => VNum 0
  | KF64 => VF64 None
  | KPct => VPct None
  | KTop => VTop None
  end.
Definition empty_col : list fval := map empty_of profile_kinds.

(* field.IsEmpty *)
Definition is_empty (v : fval) : bool :=
  match v with
  | VStr [] => true
  | VStr _ => false
  | VNum n => n =? 0
  | VF64 None | VPct None | VTop None => true
  | _ => false
  end.

(* writeValueCounts after its count header *)
Fixpoint enc_topvalues (l : list (bytes * N)) : option bytes :=
  match l with
  | [] => Some []
  | (v, c) :: l' =>
      if max_str_len <? len v then None
      else match enc_topvalues l' with
           | Some r => Some (be 4 c ++ be 2 (len v) ++ v ++ r)
           | None => None
           end
  end.

(* field.Write; a value of the wrong shape for the kind cannot exist in Go: None *)
Definition enc_val (k : kind) (v : fval) : option bytes :=
  match k, v with
  | KStr, VStr s => enc_string s
  | KU32, VNum n => Some (be 4 n)
  | KU16, VNum n => Some (be 2 n)
  | KF64, VF64 (Some f) => Some (be 8 f)
  | KPct, VPct (Some l) => encode_floatlist l
  | KTop, VTop (Some l) =>
      match enc_topvalues l with
      | Some r => Some (be 4 (N.of_nat (length l)) ++ r)
      | None => None
      end
  | _, _ => None
  end.

(* the inner loop over profileFields for one column, j = index of the next field *)
Fixpoint enc_col_from (j : N) (ks : list kind) (vs : list fval) : option bytes :=
  match ks, vs with
  | k :: ks', v :: vs' =>
      if is_empty v then enc_col_from (j + 1) ks' vs'
      else match enc_val k v, enc_col_from (j + 1) ks' vs' with
           | Some body, Some r => Some (be 2 j ++ body ++ r)
           | _, _ => None
           end
  | [], [] => Some (be 2 0)                       (* end of column *)
  | _, _ => None
  end.
Definition enc_col (vs : list fval) : option bytes := enc_col_from 1 profile_kinds vs.

Fixpoint enc_cols (cols : list (list fval)) : option bytes :=
  match cols with
  | [] => Some []
  | c :: cols' =>
      match enc_col c, enc_cols cols' with
      | Some a, Some r => Some (a ++ r)
      | _, _ => None
      end
  end.

Record profile := mk_profile { p_version : N; p_rowscount : N; p_cols : list (list fval) }.

Definition fields_bytes : bytes :=
  match encode_strlist profile_names with Some b => b | None => [] end.

Definition encode_profile (p : profile) : option bytes :=
  match enc_cols (p_cols p) with
  | Some cs =>
      Some (enc_field L_version (be 4 (p_version p)) ++ enc_field L_fields fields_bytes ++
            enc_field L_rowsCount (be 4 (p_rowscount p)) ++
            enc_field L_colsCount (be 4 (N.of_nat (length (p_cols p)))) ++
            enc_field L_pcolumns cs)
  | None => None
  end.

(** reader *)
Fixpoint read_topvalues (n : nat) (b : bytes) : option (list (bytes * N) * bytes) :=
  match n with
  | O => Some ([], b)
  | S n' =>
      match rd_be 4 b with
      | None => None
      | Some (c, b1) =>
          match dec_string b1 with
          | None => None
          | Some (v, b2) =>
              match read_topvalues n' b2 with
              | Some (r, t) => Some ((v, c) :: r, t)
              | None => None
              end
          end
      end
  end.

Definition dec_val (k : kind) (b : bytes) : option (fval * bytes) :=
  match k with
  | KStr => match dec_string b with Some (s, t) => Some (VStr s, t) | None => None end
  | KU32 => match rd_be 4 b with Some (n, t) => Some (VNum n, t) | None => None end
  | KU16 => match rd_be 2 b with Some (n, t) => Some (VNum n, t) | None => None end
  | KF64 => match rd_be 8 b with Some (n, t) => Some (VF64 (Some n), t) | None => None end
  | KPct => match decode_floatlist b with Some (l, t) => Some (VPct (Some l), t) | None => None end
  | KTop =>
      match rd_be 4 b with
      | None => None
      | Some (n, b1) =>
          if count_fits n b1 then
            match read_topvalues (N.to_nat n) b1 with
            | Some (l, t) => Some (VTop (Some l), t)
            | None => None
            end
          else None
      end
  end.

(* profileFieldMap[name] : position in profile_fields *)
Fixpoint find_field (name : bytes) (fs : list (bytes * kind)) (i : nat) : option (nat * kind) :=
  match fs with
  | [] => None
  | (n, k) :: fs' => if beq n name then Some (i, k) else find_field name fs' (S i)
  end.

Fixpoint set_nth {A} (i : nat) (x : A) (l : list A) : list A :=
  match i, l with
  | _, [] => []
  | O, _ :: l' => x :: l'
  | S i', y :: l' => y :: set_nth i' x l'
  end.

(* the "for { ReadUint16 j; j == 0 => break; ... }" loop of one column; every
   iteration consumes at least two bytes *)
Fixpoint read_col (fuel : nat) (fields : list bytes) (col : list fval) (b : bytes)
  : option (list fval * bytes) :=
  match fuel with
  | O => None
  | S f =>
      match rd_be 2 b with
      | None => None
      | Some (j, b1) =>
          if j =? 0 then Some (col, b1)
          else if (N.of_nat (length fields) mod 65536) <? j then None   (* j > uint16(len(fields)) *)
          else
            match nth_error fields (N.to_nat (j - 1)) with
            | None => None
            | Some name =>
                match find_field name profile_fields 0 with
                | None => None                                          (* "summary field not found" *)
                | Some (i, k) =>
                    match dec_val k b1 with
                    | None => None
                    | Some (v, b2) => read_col f fields (set_nth i v col) b2
                    end
                end
            end
      end
  end.

Fixpoint read_cols (n : nat) (fields : list bytes) (b : bytes) : option (list (list fval) * bytes) :=
  match n with
  | O => Some ([], b)
  | S n' =>
      match read_col (length b) fields empty_col b with
      | None => None
      | Some (c, b1) =>
          match read_cols n' fields b1 with
          | Some (r, t) => Some (c :: r, t)
          | None => None
          end
      end
  end.

Definition decode_profile (b : bytes) : option (profile * bytes) :=
  match dec_field L_version (rd_be 4) b with
  | None => None
  | Some (ver, b1) =>
  match dec_field L_fields decode_strlist b1 with
  | None => None
  | Some (fields, b2) =>
  match dec_field L_rowsCount (rd_be 4) b2 with
  | None => None
  | Some (rows, b3) =>
  match dec_field L_colsCount (rd_be 4) b3 with
  | None => None
  | Some (count, b4) =>
  match dec_field L_pcolumns
          (fun b => if count_fits count b then read_cols (N.to_nat count) fields b else None) b4 with
  | None => None
  | Some (cols, b5) => Some (mk_profile ver rows cols, b5)
  end end end end end.

(** well-formed values: the shape Go's types give, and the format limits *)
Definition val_ok (k : kind) (v : fval) : Prop :=
  match k, v with
  | KStr, VStr s => len s <= 65535
  | KU32, VNum n => n < 2 ^ 32
  | KU16, VNum n => n < 2 ^ 16
  | KF64, VF64 None => True
  | KF64, VF64 (Some f) => f < 2 ^ 64
  | KPct, VPct None => True
  | KPct, VPct (Some l) => wf_floatlist l
  | KTop, VTop None => True
  | KTop, VTop (Some l) =>
      N.of_nat (length l) < 2 ^ 32 /\ Forall (fun vc => len (fst vc) <= 65535 /\ snd vc < 2 ^ 32) l
  | _, _ => False
  end.
Definition wf_col (c : list fval) : Prop := Forall2 val_ok profile_kinds c.
Definition wf_profile (p : profile) : Prop :=
  p_version p < 2 ^ 32 /\ p_rowscount p < 2 ^ 32 /\ N.of_nat (length (p_cols p)) < 2 ^ 32 /\
  Forall wf_col (p_cols p).

(* a text field over the limit: the column name or a top value *)
Definition val_overlimit (v : fval) : Prop :=
  match v with
  | VStr s => 65535 < len s
  | VTop (Some l) => Exists (fun vc => 65535 < len (fst vc)) l
  | _ => False
  end.

(** trees: column = (name naCount min max mean median std pct minLen maxLen avgLen top),
    optional = () / (x), top value = (value count) *)
Definition t_fval (v : fval) : tree :=
  match v with
  | VStr s => t_bytes s
  | VNum n => Leaf n
  | VF64 o => t_opt Leaf o
  | VPct o => t_opt (t_list Leaf) o
  | VTop o => t_opt (t_list (fun vc => Node [t_bytes (fst vc); Leaf (snd vc)])) o
  end.
Definition d_fval (k : kind) (t : tree) : fval :=
  match k with
  | KStr => VStr (d_bytes t)
  | KU32 | KU16 => VNum (d_N t)
  | KF64 => VF64 (d_opt d_N t)
  | KPct => VPct (d_opt (d_list d_N) t)
  | KTop => VTop (d_opt (d_list (fun x => (d_bytes (d_nth 0 x), d_N (d_nth 1 x)))) t)
  end.
Definition t_col (c : list fval) : tree := t_list t_fval c.
Definition d_col (t : tree) : list fval :=
  match t with
  | Node l => map (fun kt => d_fval (fst kt) (snd kt)) (combine profile_kinds l)
  | Leaf _ => []
  end.
(* tree: (version rowsCount (column...)) *)
Definition t_profile (p : profile) : tree :=
  Node [Leaf (p_version p); Leaf (p_rowscount p); t_list t_col (p_cols p)].
Definition d_profile (t : tree) : profile :=
  mk_profile (d_N (d_nth 0 t)) (d_N (d_nth 1 t)) (d_list d_col (d_nth 2 t)).
