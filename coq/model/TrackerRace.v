(** C16 - data-race freedom of the progress counters (pkg/progress/progress.go,
    SingleTracker.current / SingleTracker.total).  Definitions only.

    The goroutine doing the work (diff.Differ.diffRows, the merger) updates the counters with
    SetCurrent / Add / SetTotal while the goroutine started by Start() reads them on every
    tick; nothing else orders a counter update with a tick read (the only channels between
    the two goroutines carry data the other way round, via the consumer).  So every update
    is concurrent with every tick read, and the program is race free exactly when the
    accesses themselves synchronise.

    Go memory model (go.dev/ref/mem), the fragment used here:
      - a data race is two accesses of one location by different goroutines, at least one a
        write, not ordered by happens-before, unless ALL accesses involved are atomic
        (sync/atomic) accesses;
      - hb is the transitive closure of program order and synchronisation order;
      - critical sections of one mutex are totally ordered: an Unlock is synchronised before
        every later Lock, so two accesses made while holding the mutex are hb-ordered in
        trace order;
      - an atomic access is synchronised before every later atomic access that observes it;
        we over-approximate nothing here: atomic/atomic pairs are exempt by the first clause.

    The translator constant [progress_counter_access] lists the kinds of all accesses of the
    int64 fields of SingleTracker found in the methods of the type (and the function literals
    in them): "<R|W|RW>:<atomic|locked|plain>". *)
From Coq Require Import List Arith String Relations.
Import ListNotations.
Local Open Scope string_scope.

Inductive rw := AR | AW | ARW.
Inductive sync := Atomic | Locked | Plain.
Record acc := mk_acc { a_rw : rw; a_sync : sync }.

Definition parse_acc (s : string) : option acc :=
  if String.eqb s "R:atomic" then Some (mk_acc AR Atomic)
  else if String.eqb s "W:atomic" then Some (mk_acc AW Atomic)
  else if String.eqb s "RW:atomic" then Some (mk_acc ARW Atomic)
  else if String.eqb s "R:locked" then Some (mk_acc AR Locked)
  else if String.eqb s "W:locked" then Some (mk_acc AW Locked)
  else if String.eqb s "RW:locked" then Some (mk_acc ARW Locked)
  else if String.eqb s "R:plain" then Some (mk_acc AR Plain)
  else if String.eqb s "W:plain" then Some (mk_acc AW Plain)
  else if String.eqb s "RW:plain" then Some (mk_acc ARW Plain)
  else None.

Fixpoint parse_accs (l : list string) : option (list acc) :=
  match l with
  | [] => Some []
  | s :: r => match parse_acc s, parse_accs r with
              | Some a, Some l' => Some (a :: l')
              | _, _ => None
              end
  end.

Definition is_atomic (a : acc) : bool := match a_sync a with Atomic => true | _ => false end.
Definition is_locked (a : acc) : bool := match a_sync a with Locked => true | _ => false end.
Definition writes (a : acc) : bool := match a_rw a with AR => false | _ => true end.
Definition reads (a : acc) : bool := match a_rw a with AW => false | _ => true end.

(** the discipline: all accesses atomic, or all under the mutex; and the list must contain a
    write and a read (otherwise the extractor has lost sight of the counters) *)
Definition discipline_ok (l : list acc) : bool :=
  (forallb is_atomic l || forallb is_locked l) && existsb writes l && existsb reads l.

Definition counters_ok (l : list string) : bool :=
  match parse_accs l with Some a => discipline_ok a | None => false end.

(* ------------------------------------------------------------------ executions *)

(** goroutine 0 = the worker, goroutine 1 = the ticker goroutine of Start(); an event is an
    access by one of them to one of the counters (0 = current, 1 = total).  Any list of events
    whose accesses come from the source's access list is a possible execution: the two
    goroutines are not otherwise ordered. *)
Record ev := mk_ev { e_g : nat; e_loc : nat; e_acc : acc }.

Definition conflict (a b : ev) : bool :=
  Nat.eqb (e_loc a) (e_loc b) && negb (Nat.eqb (e_g a) (e_g b)) &&
  (writes (e_acc a) || writes (e_acc b)) &&
  negb (is_atomic (e_acc a) && is_atomic (e_acc b)).

(** one synchronisation / program-order step between positions i < j of the trace *)
Definition hb1 (tr : list ev) (i j : nat) : Prop :=
  i < j /\ exists a b, nth_error tr i = Some a /\ nth_error tr j = Some b /\
    (e_g a = e_g b \/ (is_locked (e_acc a) = true /\ is_locked (e_acc b) = true)).

Definition hb (tr : list ev) : nat -> nat -> Prop := clos_trans nat (hb1 tr).

Definition race (tr : list ev) : Prop :=
  exists i j a b, i < j /\ nth_error tr i = Some a /\ nth_error tr j = Some b /\
    conflict a b = true /\ ~ hb tr i j.

Definition from_source (src : list acc) (tr : list ev) : Prop :=
  forall e, In e tr -> In (e_acc e) src.

(** witness execution for a source with a plain write w and any read r: the worker writes,
    the ticker reads *)
Definition witness (w r : acc) : list ev := [mk_ev 0 0 w; mk_ev 1 0 r].
