(** C16 - specification vocabulary for the worker-pool model (definitions only). *)
From W.lib Require Import Tree.
From W.model Require Import Pool.
From Coq Require Import Arith Relations.
Local Open Scope N_scope.

(* ---- critical sections *)
Definition is_lock (a : act) : bool := match a with ALock => true | _ => false end.
Definition is_unlock (a : act) : bool := match a with AUnlock => true | _ => false end.
(* remaining actions of a worker that holds the mutex: its Lock is behind, its Unlock ahead *)
Definition pc_in_cs (pc : list act) : bool := negb (existsb is_lock pc) && existsb is_unlock pc.
Definition in_cs (wk : worker) : bool :=
  match w_st wk with WBody pc _ => pc_in_cs pc | _ => false end.

(* ---- executions *)
(** [execs c s tr s']: from [s] the steps labelled [tr] (chronological) lead to [s'] *)
Inductive execs (c : cfg) : st -> list ev -> st -> Prop :=
| execs_nil s : execs c s [] s
| execs_snoc s tr s' t l s'' :
    execs c s tr s' -> step c t s' = Some (s'', l) -> execs c s (tr ++ [(t, l)]) s''.

Definition reachable (c : cfg) (items : list pitem) (s : st) : Prop :=
  exists tr, execs c (init c items) tr s.

Definition enabled (c : cfg) (s : st) : Prop := exists t s' l, step c t s = Some (s', l).

(* ---- happens-before over a trace (positions) *)
Definition thread_of (t : nat) : nat := if Nat.eqb t 2 then 1%nat else t.   (* ids 1 and 2 are the producer *)

(* a subset of the Go memory model's synchronisation edges: program order, the n-th
   Unlock before the m-th Lock of the (single) mutex for n < m, wg.Done before the return
   of wg.Wait.  (Channel edges are not needed and are left out: fewer edges = stronger claim.) *)
Definition hb1 (tr : list ev) (i j : nat) : Prop :=
  (i < j)%nat /\ exists t1 l1 t2 l2,
    nth_error tr i = Some (t1, l1) /\ nth_error tr j = Some (t2, l2) /\
    (thread_of t1 = thread_of t2 \/ (l1 = LUnlock /\ l2 = LLock) \/ (l1 = LWgDone /\ l2 = LWait)).
Definition hb (tr : list ev) : nat -> nat -> Prop := clos_trans nat (hb1 tr).

(* conflicting accesses to rowsCount / asyncBlocks: same field, at least one write.
   [LMainRead] is sortBlocks + `tbl.RowsCount = i.rowsCount`: reads (and sorts) both fields. *)
Definition conflict (l1 l2 : lab) : bool :=
  match l1, l2 with
  | LAcc k1 f1, LAcc k2 f2 => field_eqb f1 f2 && (akind_eqb k1 KW || akind_eqb k2 KW)
  | LAcc _ _, LMainRead | LMainRead, LAcc _ _ => true
  | _, _ => false
  end.

(* ---- termination measure: an upper bound on the number of steps still possible *)
Definition w_cost (wk : worker) : nat :=
  match w_st wk with
  | WLoop => 3
  | WBody pc _ => 3 + List.length pc
  | WErr _ => 2
  | WExit => 1
  | WDone => 0
  end.
Definition item_cost (bl : nat) (i : pitem) : nat := match i with PBlk _ => bl + 4 | PReadErr => 1 end.
Definition m_cost (c : cfg) (a : mact) : nat :=
  match a with
  | MAdd => 2 + 3 * c_w c
  | MRecvErr => 2 + 2 * List.length (c_outer c)
  | _ => 2
  end.
Definition measure (c : cfg) (s : st) : nat :=
  let bl := List.length (c_body c) in
  (fold_right (fun i a => item_cost bl i + a) 0 (pend s)
   + (if closed s then 0 else 1)
   + (if ppolled s then 0 else 1)
   + List.length (buf s) * (bl + 2)
   + fold_right (fun wk a => w_cost wk + a) 0 (ws s)
   + fold_right (fun a n => m_cost c a + n) 0 (mainpc s)
   + (if panicked s then 0 else 1))%nat.
