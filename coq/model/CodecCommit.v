(** C06 - pkg/objects/commit.go.  Definitions only.

    Commit.WriteTo: fields "table" (raw bytes), "authorName", "authorEmail" (strings),
    "time" (16 bytes), "message" (string), then one "parent" field (raw bytes) per parent.
    The only refusal is the ERROR of objline.WriteString for a string > 65535 bytes
    (bytes of earlier fields have by then been written to w; SaveCommit callers encode
    into a buffer first, so nothing reaches the store).
    Commit.ReadFrom reads the table sum and every parent into 16-byte buffers and reads
    parents until io.EOF exactly at a field boundary: it consumes the whole input, so the
    remainder is always []. *)
From W.lib Require Import Tree Bytes.
From W.model Require Import CodecBase CodecObjline.
From Coq Require Import ZArith.
Local Open Scope N_scope.

Definition L_table : bytes := [116; 97; 98; 108; 101].
Definition L_authorName : bytes := [97; 117; 116; 104; 111; 114; 78; 97; 109; 101].
Definition L_authorEmail : bytes := [97; 117; 116; 104; 111; 114; 69; 109; 97; 105; 108].
Definition L_time : bytes := [116; 105; 109; 101].
Definition L_message : bytes := [109; 101; 115; 115; 97; 103; 101].
Definition L_parent : bytes := [112; 97; 114; 101; 110; 116].

Record commit := mk_commit {
  c_table : bytes; c_name : bytes; c_email : bytes; c_time : time; c_msg : bytes;
  c_parents : list bytes }.

Fixpoint enc_parents (ps : list bytes) : bytes :=
  match ps with [] => [] | p :: ps' => enc_field L_parent p ++ enc_parents ps' end.

Definition encode_commit (c : commit) : option bytes :=
  match enc_string (c_name c), enc_string (c_email c), enc_string (c_msg c) with
  | Some n, Some e, Some m =>
      Some (enc_field L_table (c_table c) ++ enc_field L_authorName n ++
            enc_field L_authorEmail e ++ enc_field L_time (encode_time (c_time c)) ++
            enc_field L_message m ++ enc_parents (c_parents c))
  | _, _, _ => None
  end.

(* the loop "for { ReadField(parser, "parent", ...) ; io.EOF => break }" *)
Fixpoint read_parents (fuel : nat) (b : bytes) : option (list bytes) :=
  match b with
  | [] => Some []
  | _ =>
      match fuel with
      | O => None
      | S f =>
          match dec_field L_parent (dec_raw 16) b with
          | None => None
          | Some (p, b') =>
              match read_parents f b' with
              | Some r => Some (p :: r)
              | None => None
              end
          end
      end
  end.

Definition decode_commit_g (strict : bool) (b : bytes) : option (commit * bytes) :=
  match dec_field L_table (dec_raw 16) b with
  | None => None
  | Some (tbl, b1) =>
  match dec_field L_authorName dec_string b1 with
  | None => None
  | Some (name, b2) =>
  match dec_field L_authorEmail dec_string b2 with
  | None => None
  | Some (email, b3) =>
  match dec_field L_time (dec_time strict) b3 with
  | None => None
  | Some (tm, b4) =>
  match dec_field L_message dec_string b4 with
  | None => None
  | Some (msg, b5) =>
  match read_parents (length b5) b5 with
  | None => None
  | Some ps => Some (mk_commit tbl name email tm msg ps, [])
  end end end end end end.
Definition decode_commit := decode_commit_g false.

Definition wf_commit (c : commit) : Prop :=
  length (c_table c) = 16%nat /\ len (c_name c) <= 65535 /\ len (c_email c) <= 65535 /\
  len (c_msg c) <= 65535 /\ wf_time (c_time c) /\ Forall (fun p => length p = 16%nat) (c_parents c).

Definition commit_overlimit (c : commit) : Prop :=
  65535 < len (c_name c) \/ 65535 < len (c_email c) \/ 65535 < len (c_msg c).

(* tree: (table name email (sec zone) message (parent...)) *)
Definition t_commit (c : commit) : tree :=
  Node [t_bytes (c_table c); t_bytes (c_name c); t_bytes (c_email c); t_time (c_time c);
        t_bytes (c_msg c); t_list t_bytes (c_parents c)].
Definition d_commit (t : tree) : commit :=
  mk_commit (d_bytes (d_nth 0 t)) (d_bytes (d_nth 1 t)) (d_bytes (d_nth 2 t)) (d_time (d_nth 3 t))
            (d_bytes (d_nth 4 t)) (d_list d_bytes (d_nth 5 t)).
