(** C09 - "after fetch or push the receiver holds the full history of every updated ref":
    executable model of the client sessions (pkg/api/client/upload_pack_session.go,
    receive_pack_session.go), of the object receiver's commit gate
    (pkg/api/utils/object_receiver.go) and of fetch.Fetch / `wrgl push`, composed with a
    specification-level REFERENCE SERVER.  Definitions only (lemmas: proofs/Session_proofs.v).

    PARTIAL BY NATURE: the real server lives in another repository.  The server side here is a
    reference model; HTTP, gzip, cookies and retry/backoff are not modelled.
    Trusted reference behaviour worth knowing (harness/c09_server.go): the receive-pack server applies the
    refs as soon as every commit IT expected has arrived and answers every later packfile of the session
    with the same report - ReceivePackSession reads only the answer to its LAST packfile, and its want
    lists come out in Go map order, so a server that closed the session at the first report would make
    `wrgl push` fail after its refs were applied.  A table stands for the
    table object together with its blocks and indices (C03/C07/C13: TableUsable).

    Client side, transliterated:
      NewUploadPackSession  wants = advertised commits that are not stored
      popHaves              batches of k from the time-ordered queue seeded with all local refs,
                            only commits whose table is stored; done when the queue runs dry
      negotiate             wants are sent in the first request only; ACKs -> RemoveAncestors
      negotiateTables       acknowledges the offered tables that are stored
      receiveObjects        one packfile per request until every expected commit has arrived
      ObjectReceiver        saveCommit refuses a commit whose parent is not stored
      fetch.Fetch           fetchObjects, then saveFetchedRefs (model/RefUpdate.v); the order of the two
                            is re-read from the source (gen/Extracted.v skel_fetch, [fetch_skel_ok])
      NewReceivePackSession wants = update sums, haves = the remote's refs, done = true; shallow
                            commits to send are refused; tables acknowledged by the server are skipped
    Reference server (spec level; harness/c09_server.go assembles the real one from the repository's
    ClosedSetsFinder / ObjectSender / ObjectReceiver):
      wants must be reachable from its refs and full; commons = the haves it knows, up to the first
      unknown one; it keeps answering ACKs while some want still reaches a root commit without
      meeting a common and the client has not said done; then it streams, parents first,
      the commits of anc(wants) \ anc(commons) with the tables of the commits within [depth]
      (all when 0) that the client did not acknowledge, cut into packfiles of [p] objects.

    Exchange format (harness/c09.go uses the same):
      case = (graph local remote op)
      graph  = ((id (parent ...) table time) ...)      parents before children
      local, remote = ((commit ...) (table ...) ((name id) ...))
      op     = (0 gforce depth k p tb (spec ...) fault?)   fetch;  spec  = (force glob src dst) as in C10
             | (1 gforce p (pitem ...) fault?)             push;   pitem = (force (src)? dst)
      fault  = (mode phase j), see [fault] below; absent or (0 0 0) = none; modes 3 and 4 are the persistent faults
      a push may end with a 6th element src: how the local remote-tracking refs came about - 0 plain refs,
      1 fetched from the remote they are named after, 2 the source remote is gone (no such refs), 3 renamed
      obs    = (outcome local' remote')   outcome 0 ok | 1 error; states with sorted commit / table lists
               and refs ((name id) ...) sorted by name *)
From Coq Require Import List NArith Bool String.
From W.lib Require Import Tree Bytes.
From W.model Require Import RefUpdate.
Import ListNotations.
Local Open Scope N_scope.

(* ------------------------------------------------------------------ graph *)
Record cinfo := mk_ci { ci_par : list commit; ci_tbl : N; ci_time : N }.
Definition cgraph := list (commit * cinfo).

Fixpoint cinfo_of (g : cgraph) (c : commit) : option cinfo :=
  match g with
  | [] => None
  | (x, i) :: g' => if x =? c then Some i else cinfo_of g' c
  end.
Definition cpar (g : cgraph) (c : commit) : list commit :=
  match cinfo_of g c with Some i => ci_par i | None => [] end.
Definition ctbl (g : cgraph) (c : commit) : N :=
  match cinfo_of g c with Some i => ci_tbl i | None => 0 end.
Definition ctime (g : cgraph) (c : commit) : N :=
  match cinfo_of g c with Some i => ci_time i | None => 0 end.

(** the parent relation alone, as model/RefUpdate.v wants it *)
Definition to_graph (g : cgraph) : graph := map (fun e : commit * cinfo => (fst e, ci_par (snd e))) g.

(* ------------------------------------------------------------ object store *)
Record objs := mk_objs { o_commits : list commit; o_tables : list N }.

Definition add1 (x : N) (l : list N) : list N := if cmem x l then l else l ++ [x].

Inductive obj := OTable (t : N) | OCommit (c : commit).

(** ObjectReceiver.Receive over one packfile.  None = "parent commit does not exist" *)
Fixpoint receive (g : cgraph) (o : objs) (expected : list commit) (pack : list obj)
  : option (objs * list commit) :=
  match pack with
  | [] => Some (o, expected)
  | OTable t :: rest => receive g (mk_objs (o_commits o) (add1 t (o_tables o))) expected rest
  | OCommit c :: rest =>
    if forallb (fun p => cmem p (o_commits o)) (cpar g c)
    then receive g (mk_objs (add1 c (o_commits o)) (o_tables o))
                 (filter (fun e => negb (e =? c)) expected) rest
    else None
  end.

(** the receive loop of both sessions: one packfile per request until nothing is expected any more.
    Result: None = a packfile was refused; Some (o, expected, n) after n packfiles - expected <> []
    means the sender ran dry first. *)
Fixpoint receive_packs (g : cgraph) (o : objs) (expected : list commit) (packs : list (list obj))
  : option (objs * list commit * nat) :=
  match packs with
  | [] => Some (o, expected, O)
  | p :: rest =>
    match receive g o expected p with
    | None => None
    | Some (o', e') =>
      match e' with
      | [] => Some (o', [], 1%nat)
      | _ => match receive_packs g o' e' rest with
             | None => None
             | Some (o'', e'', n) => Some (o'', e'', S n)
             end
      end
    end
  end.

(** ObjectSender.WriteObjects cuts after the object that makes the packfile reach the size bound:
    every packfile carries at least one object.  Sizes are not modelled: [p] objects per packfile
    (0 is read as 1); the theorems quantify over every cut into non-empty packfiles. *)
Fixpoint chunk_aux (p : nat) (cur : list obj) (n : nat) (l : list obj) : list (list obj) :=
  match l with
  | [] => match cur with [] => [] | _ => [cur] end
  | x :: rest =>
    match n with
    | O | S O => (cur ++ [x]) :: chunk_aux p [] p rest
    | S n' => chunk_aux p (cur ++ [x]) n' rest
    end
  end.
Definition chunk (p : nat) (l : list obj) : list (list obj) := chunk_aux p [] p l.

(* ----------------------------------------------- the client's commit queue *)
(** ref.CommitsQueue: newest first; Insert puts a commit before the first one that is not newer *)
Fixpoint q_insert (g : cgraph) (c : commit) (q : list commit) : list commit :=
  match q with
  | [] => [c]
  | x :: q' => if ctime g x <=? ctime g c then c :: q else x :: q_insert g c q'
  end.

Definition qstate := (list commit * list commit)%type.   (* queue, seen *)

Definition q_new (g : cgraph) (init : list commit) : qstate :=
  fold_left (fun (s : qstate) c => if cmem c (snd s) then s else (q_insert g c (fst s), snd s ++ [c]))
            init ([], []).

Definition q_insert_parents (g : cgraph) (c : commit) (s : qstate) : qstate :=
  fold_left (fun (s : qstate) p => if cmem p (snd s) then s else (q_insert g p (fst s), snd s ++ [p]))
            (cpar g c) s.

(** popHaves: up to k commits whose table is stored; done = the queue ran dry *)
Fixpoint pop_haves (g : cgraph) (tables : list N) (fuel k : nat) (s : qstate) (acc : list commit)
  : list commit * bool * qstate :=
  match k with
  | O => (acc, false, s)
  | S k' =>
    match fuel with
    | O => (acc, true, s)
    | S f =>
      match fst s with
      | [] => (acc, true, s)
      | x :: q' =>
        let s' := q_insert_parents g x (q', snd s) in
        if cmem (ctbl g x) tables then pop_haves g tables f k' s' (acc ++ [x])
        else pop_haves g tables f k s' acc
      end
    end
  end.

(** CommitsQueue.RemoveAncestors: drops the queued commits that are ancestors-or-self of the ACKs *)
Definition remove_ancestors (g : cgraph) (acks : list commit) (s : qstate) : qstate :=
  (filter (fun c => negb (cmem c (anc_closure (to_graph g) acks))) (fst s), snd s).

(* -------------------------------------------------------- reference server *)
Record repo := mk_repo { r_objs : objs; r_refs : rstore }.

Definition ref_values (s : rstore) : list commit := map (fun e : name * (commit * list logent) => fst (snd e)) s.

Definition reachable (g : cgraph) (r : repo) : list commit := anc_closure (to_graph g) (ref_values (r_refs r)).

(** findCommons: the haves the server can reach from its refs, up to the first one it cannot *)
Fixpoint find_commons (known : list commit) (haves : list commit) : list commit :=
  match haves with
  | [] => []
  | h :: rest => if cmem h known then h :: find_commons known rest else []
  end.

(** does some want reach a root commit without meeting a common (findClosedSetOfObjects defers it) *)
Fixpoint rev_pass_avoid (g : cgraph) (commons : list commit) (rg : cgraph) (s : list commit) : list commit :=
  match rg with
  | [] => s
  | (c, _) :: r =>
    rev_pass_avoid g commons r (if cmem c s && negb (cmem c commons) then add_all s (cpar g c) else s)
  end.
Fixpoint close_avoid (g : cgraph) (commons : list commit) (rg : cgraph) (fuel : nat) (s : list commit)
  : list commit :=
  match fuel with
  | O => s
  | S f => let s' := rev_pass_avoid g commons rg s in
           if Nat.eqb (length s') (length s) then s else close_avoid g commons rg f s'
  end.
Definition reaches_root (g : cgraph) (commons wants : list commit) : bool :=
  existsb (fun c => negb (cmem c commons) && match cpar g c with [] => true | _ => false end)
          (close_avoid g commons (rev g) (S (length g)) wants).

(** commits within [depth] parent steps of the wants (all when depth = 0) *)
Fixpoint within_depth (g : cgraph) (depth : nat) (level : list commit) : list commit :=
  match depth with
  | O => []
  | S d => add_all level (within_depth g d (flat_map (cpar g) level))
  end.

(** the stream: parents first (the graph lists parents before children) *)
Definition plan (g : cgraph) (sender : objs) (wants commons : list commit) (depth : nat)
           (acked_tables : list N) : list obj :=
  let need := anc_closure (to_graph g) wants in
  let have := anc_closure (to_graph g) commons in
  let full := match depth with O => need | _ => within_depth g depth wants end in
  snd (fold_left
         (fun (acc : list N * list obj) (e : commit * cinfo) =>
            let c := fst e in
            if cmem c need && negb (cmem c have) then
              let t := ci_tbl (snd e) in
              if cmem c full && cmem t (o_tables sender) && negb (cmem t (fst acc)) && negb (cmem t acked_tables)
              then (fst acc ++ [t], snd acc ++ [OTable t; OCommit c])
              else (fst acc, snd acc ++ [OCommit c])
            else acc)
         g ([], [])).

(** ClosedSetsFinder.enqueueWants as it IS, as far as tables go: the wants are walked one after the
    other (Go map order: [order] is a parameter), each breadth-first WITHOUT a visited set, stopping at
    commons and at every commit popped during the walk of an earlier want; a commit popped at depth d
    gets its table selected when depth = 0 or d < depth.  (Known finding C08 tables-depend-on-want-order /
    C09 depth-rule-want-order: the result depends on [order]; the reference [plan] above selects by
    distance from ANY want.) *)
Fixpoint walk_want (g : cgraph) (commons seen : list commit) (depth : nat) (fuel : nat)
         (queue : list (commit * nat)) (popped : list commit) (tables : list N)
  : list commit * list N :=
  match fuel with
  | O => (popped, tables)
  | S f =>
    match queue with
    | [] => (popped, tables)
    | (c, d) :: rest =>
      if cmem c seen || cmem c commons then walk_want g commons seen depth f rest (popped ++ [c]) tables
      else
        let tables' := if match depth with O => true | _ => Nat.ltb d depth end
                       then add1 (ctbl g c) tables else tables in
        walk_want g commons seen depth f (rest ++ map (fun p => (p, S d)) (cpar g c)) (popped ++ [c]) tables'
    end
  end.

Definition tables_ord (g : cgraph) (commons : list commit) (depth : nat) (order : list commit) : list N :=
  snd (fold_left (fun (acc : list commit * list N) w =>
                    let '(popped, tables) := walk_want g commons (fst acc) depth 4000 [(w, O)] [] (snd acc) in
                    (add_all (fst acc) popped, tables))
                 order ([], [])).

(* ------------------------------------------------- upload-pack composition *)
(** negotiation rounds: returns the commons the server ends with and the number of rounds *)
Fixpoint negotiate (g : cgraph) (local : objs) (known : list commit) (wants : list commit)
         (k : nat) (fuel : nat) (s : qstate) (commons : list commit) (rounds : nat)
  : list commit * nat :=
  match fuel with
  | O => (commons, rounds)
  | S f =>
    let '(haves, done, s') := pop_haves g (o_tables local) (S (length g)) k s [] in
    let acks := find_commons known haves in
    let commons' := add_all commons acks in
    if negb done && match commons' with [] => false | _ => true end && reaches_root g commons' wants
    then negotiate g local known wants k f (remove_ancestors g acks s') commons' (S rounds)
    else (commons', S rounds)
  end.

Inductive fres := FNothing | FError | FDone (o : objs) (rounds packs : nat).

(** fetchObjects: the whole upload-pack session against the reference server *)
Definition fetch_objects (g : cgraph) (local remote : repo) (advertised : list commit)
           (depth k p : nat) (table_nego : bool) : fres :=
  let lo := r_objs local in
  let wants := filter (fun c => negb (cmem c (o_commits lo))) advertised in
  match wants with
  | [] => FNothing
  | _ =>
    let known := reachable g remote in
    (* ensureWantsAreReachable: reachable from a ref and full *)
    if negb (forallb (fun w => cmem w known && cmem (ctbl g w) (o_tables (r_objs remote))) wants)
    then FError else
    let '(commons, rounds) :=
        negotiate g lo known wants k (S (length g)) (q_new g (ref_values (r_refs local))) [] O in
    let acked := if table_nego then o_tables lo else [] in
    let stream := plan g (r_objs remote) wants commons depth acked in
    match receive_packs g lo wants (chunk p stream) with
    | Some (o', [], n) => FDone o' rounds n
    | _ => FError
    end
  end.

(** fetch.Fetch = identifyRefsToFetch ; fetchObjects ; saveFetchedRefs (model/RefUpdate.v) *)
Definition fetch (g : cgraph) (local remote : repo) (specs : list refspec) (gforce : bool)
           (depth k p : nat) (table_nego : bool) : N * repo :=
  let gg := to_graph g in
  let st := mk_state (r_refs local) (r_refs remote) (o_commits (r_objs local)) in
  let adv := map fi_new (fst (resolve_fetch specs (listing (r_refs remote)))) in
  match fetch_objects g local remote adv depth k p table_nego with
  | FError => (1, local)
  | res =>
    let o' := match res with FDone o' _ _ => o' | _ => r_objs local end in
    let r := fetch_step_h (is_ancestor gg) st specs gforce (fun _ => Some (o_commits o')) in
    (r_outcome r, mk_repo o' (lrefs (r_state r)))
  end.

(** the order of the two halves is what the translator re-reads from cmd/wrgl/fetch/root.go *)
Open Scope string_scope.
Definition is_fetch_half (s : string) : bool := String.eqb s "fetchObjects" || String.eqb s "saveFetchedRefs".
Fixpoint str_list_eqb (a b : list string) : bool :=
  match a, b with
  | [], [] => true
  | x :: a', y :: b' => String.eqb x y && str_list_eqb a' b'
  | _, _ => false
  end.
(** among the calls of fetch.Fetch the two halves occur exactly once each, objects first *)
Definition fetch_skel_ok (skel : list string) : bool :=
  str_list_eqb (filter is_fetch_half skel) ["fetchObjects"; "saveFetchedRefs"].

Inductive write := WObj (o : obj) | WRef (n : name).

(** the writes of a fetch, laid out by the skeleton *)
Definition fetch_writes (skel : list string) (objws : list obj) (refws : list name) : list write :=
  flat_map (fun s => if String.eqb s "fetchObjects" then map WObj objws
                     else if String.eqb s "saveFetchedRefs" then map WRef refws else []) skel.
Close Scope string_scope.

(* -------------------------------------------------------------------- push *)
(** NewReceivePackSession + the reference receive-pack server.  The client runs the closed-sets finder on
    its OWN repository: wants = update sums (must be reachable from a local ref and full), haves = the
    remote's refs, done = true. *)
Definition push (g : cgraph) (local remote : repo) (items : list pitem) (gforce : bool) (p : nat)
  : N * repo :=
  let gg := to_graph g in
  let ia := is_ancestor gg in
  match identify_updates ia gforce (r_refs local) (listing (r_refs remote)) items with
  | None => (1, remote)
  | Some (us, _) =>
    match us with
    | [] => (0, remote)
    | _ =>
      let wants := flat_map (fun u => match u_new u with Some c => [c] | None => [] end) us in
      let known := reachable g local in
      if negb (forallb (fun w => cmem w known && cmem (ctbl g w) (o_tables (r_objs local))) wants)
      then (1, remote) else
      let haves := map snd (listing (r_refs remote)) in
      let commons := filter (fun h => cmem h known) haves in
      let stream := plan g (r_objs local) wants commons O (o_tables (r_objs remote)) in
      (* NewShallowCommitError: a commit to send whose table is not stored locally *)
      if existsb (fun o => match o with
                           | OCommit c => negb (cmem (ctbl g c) (o_tables (r_objs local)))
                           | OTable _ => false end) stream
      then (1, remote) else
      let expected := filter (fun c => negb (cmem c (o_commits (r_objs remote)))) wants in
      (* rule R3 of the reference server: an update whose commit is not stored is rejected *)
      let apply o' :=
          let ok := filter (fun u => match u_new u with Some c => cmem c (o_commits o') | None => true end)
                           (sort_upds us) in
          (0, mk_repo o' (fst (fst (fold_left (server_apply ia false false) ok (r_refs remote, [], O))))) in
      match expected with
      | [] => apply (r_objs remote)
      | _ =>
        match receive_packs g (r_objs remote) expected (chunk p stream) with
        | Some (o', [], _) =>
          (* the reference server applies the refs as soon as everything IT expected has arrived and keeps
             answering later packfiles (objects it already has) with the same report *)
          apply o'
        | Some (o', _, _) => (0, mk_repo o' (r_refs remote))   (* report never came: no ref is updated *)
        | None => (1, remote)
        end
      end
    end
  end.

(* ---------------------------------------------------------- transport faults *)
(** A fault loses ONE response of the exchange entirely (the request has been processed by the server):
      mode  1 = the connection is aborted (the command fails),
            2 = an HTTP/2 stream reset; fetch.Fetch retries the whole exchange on that error, push does not;
      phase 1 = the answer to GET /refs/,
            2 = the first JSON answer of the upload-pack / receive-pack exchange,
            3 = the answer of the packfile exchange that carries the j-th commit object.
    A phase that does not occur in the exchange is no fault at all. *)
Record fault := mk_fault { f_mode : N; f_phase : N; f_j : nat }.

Definition is_table (o : obj) : bool := match o with OTable _ => true | OCommit _ => false end.
Definition commits_in (p : list obj) : nat := length (filter (fun o => negb (is_table o)) p).

Fixpoint pack_of_commit (j : nat) (packs : list (list obj)) (i : nat) : option nat :=
  match packs with
  | [] => None
  | p :: rest =>
    match j with
    | O => None
    | _ => if Nat.leb j (commits_in p) then Some i else pack_of_commit (j - commits_in p) rest (S i)
    end
  end.

(** the upload-pack exchange of [fetch_objects], made visible: (wants, is there a JSON answer, packfiles) *)
Definition session_view (g : cgraph) (local remote : repo) (advertised : list commit)
           (depth k p : nat) (table_nego : bool) : option (list commit * bool * list (list obj)) :=
  let lo := r_objs local in
  let wants := filter (fun c => negb (cmem c (o_commits lo))) advertised in
  match wants with
  | [] => None
  | _ =>
    let known := reachable g remote in
    if negb (forallb (fun w => cmem w known && cmem (ctbl g w) (o_tables (r_objs remote))) wants)
    then None else
    let '(commons, rounds) :=
        negotiate g lo known wants k (S (length g)) (q_new g (ref_values (r_refs local))) [] O in
    let acked := if table_nego then o_tables lo else [] in
    Some (wants,
          Nat.ltb 1 rounds || (table_nego && existsb is_table (plan g (r_objs remote) wants commons depth [])),
          chunk p (plan g (r_objs remote) wants commons depth acked))
  end.

Definition fetch_f (g : cgraph) (local remote : repo) (specs : list refspec) (gforce : bool)
           (depth k p : nat) (table_nego : bool) (f : fault) : N * repo :=
  let normal := fetch g local remote specs gforce depth k p table_nego in
  if f_mode f =? 0 then normal
  else if (f_mode f =? 3) || (f_mode f =? 4) then
    (* PERSISTENT faults: every packfile answer of upload-pack, on every attempt, is
         3 = cut inside the body of its last object (ReadObject: unexpected EOF - not retryable): the objects
             before the cut are stored, the command fails, no ref is written;
         4 = lost (connection reset).  fetch.Fetch retries a stream reset WITHOUT BOUND; the reference server's
             watchdog ends the exchange: nothing is stored, the command fails, no ref is written. *)
    let adv := map fi_new (fst (resolve_fetch specs (listing (r_refs remote)))) in
    match session_view g local remote adv depth k p table_nego with
    | None => normal
    | Some (wants, _, packs) =>
      if f_mode f =? 4 then (1, local)
      else match packs with
           | [] => normal
           | p1 :: _ =>
             match receive g (r_objs local) wants (removelast p1) with
             | Some (o', _) => (1, mk_repo o' (r_refs local))
             | None => (1, local)
             end
           end
    end
  else if f_phase f =? 1 then (1, local)
  else
    let adv := map fi_new (fst (resolve_fetch specs (listing (r_refs remote)))) in
    match session_view g local remote adv depth k p table_nego with
    | None => normal
    | Some (wants, has_json, packs) =>
      let hit := if f_phase f =? 2 then (if has_json then Some [] else None)
                 else match pack_of_commit (f_j f) packs O with
                      | Some i => Some (firstn i packs)
                      | None => None
                      end in
      match hit with
      | None => normal
      | Some received =>
        match receive_packs g (r_objs local) wants received with
        | Some (_, [], _) => normal          (* the session was complete before the faulted request *)
        | Some (o', _, _) =>
          let partial := mk_repo o' (r_refs local) in
          if f_mode f =? 1 then (1, partial)
          else fetch g partial remote specs gforce depth k p table_nego   (* retried from scratch *)
        | None => (1, local)
        end
      end
    end.

(** the refs step of the reference receive-pack server on an object store [o'] *)
Definition push_apply (g : cgraph) (remote : repo) (us : list update) (o' : objs) : repo :=
  let ok := filter (fun u => match u_new u with Some c => cmem c (o_commits o') | None => true end)
                   (sort_upds us) in
  mk_repo o' (fst (fst (fold_left (server_apply (is_ancestor (to_graph g)) false false) ok (r_refs remote, [], O)))).

(** the receive-pack exchange of [push], made visible: (updates, commits the server expects, packfiles);
    None = no request is sent (nothing to update, or the client refuses) *)
Definition push_view (g : cgraph) (local remote : repo) (items : list pitem) (gforce : bool) (p : nat)
  : option (list update * list commit * list (list obj)) :=
  let ia := is_ancestor (to_graph g) in
  match identify_updates ia gforce (r_refs local) (listing (r_refs remote)) items with
  | None => None
  | Some (us, _) =>
    match us with
    | [] => None
    | _ =>
      let wants := flat_map (fun u => match u_new u with Some c => [c] | None => [] end) us in
      let known := reachable g local in
      if negb (forallb (fun w => cmem w known && cmem (ctbl g w) (o_tables (r_objs local))) wants)
      then None else
      let commons := filter (fun h => cmem h known) (map snd (listing (r_refs remote))) in
      let stream := plan g (r_objs local) wants commons O (o_tables (r_objs remote)) in
      if existsb (fun o => match o with
                           | OCommit c => negb (cmem (ctbl g c) (o_tables (r_objs local)))
                           | OTable _ => false end) stream
      then None else
      Some (us, filter (fun c => negb (cmem c (o_commits (r_objs remote)))) wants, chunk p stream)
    end
  end.

Definition push_f (g : cgraph) (local remote : repo) (items : list pitem) (gforce : bool) (p : nat)
           (f : fault) : N * repo :=
  let normal := push g local remote items gforce p in
  if f_mode f =? 0 then normal
  else if f_phase f =? 1 then (1, remote)
  else
    match push_view g local remote items gforce p with
    | None => normal
    | Some (us, expected, packs) =>
      if f_phase f =? 2 then
        match expected with
        | [] => (1, push_apply g remote us (r_objs remote))   (* report lost after the refs were applied *)
        | _ => (1, remote)
        end
      else
        match expected with
        | [] => normal
        | _ =>
          match pack_of_commit (f_j f) packs O with
          | None => normal
          | Some i =>
            match receive_packs g (r_objs remote) expected (firstn (S i) packs) with
            | Some (o', [], _) => (1, push_apply g remote us o')
            | Some (o', _, _) => (1, mk_repo o' (r_refs remote))
            | None => (1, remote)
            end
          end
        end
    end.

(* ------------------------------------------------------------ tree coders *)
Definition d_cgraph (t : tree) : cgraph :=
  d_list (fun e => (d_N (d_nth 0 e),
                    mk_ci (d_list d_N (d_nth 1 e)) (d_N (d_nth 2 e)) (d_N (d_nth 3 e)))) t.
Definition d_plain_refs (t : tree) : rstore :=
  fold_left (fun s e => rset_log s (d_bytes (d_nth 0 e)) (d_N (d_nth 1 e)) ACT_SETUP) (d_list (fun x => x) t) [].
Definition d_repo (t : tree) : repo :=
  mk_repo (mk_objs (d_list d_N (d_nth 0 t)) (d_list d_N (d_nth 1 t))) (d_plain_refs (d_nth 2 t)).

Fixpoint insert_N (x : N) (l : list N) : list N :=
  match l with
  | [] => [x]
  | y :: l' => if x <=? y then x :: l else y :: insert_N x l'
  end.
Definition sort_N (l : list N) : list N := fold_left (fun acc x => insert_N x acc) l [].

Definition t_repo (r : repo) : tree :=
  Node [t_list Leaf (sort_N (o_commits (r_objs r))); t_list Leaf (sort_N (o_tables (r_objs r)));
        t_list (fun e : name * (commit * list logent) => Node [t_bytes (fst e); Leaf (fst (snd e))])
               (sort_refs (r_refs r))].

Definition pack_param (n : nat) : nat := match n with O => 2000%nat | _ => n end.

(** NewReceivePackSession refuses to send a commit whose table is not stored locally (NewShallowCommitError);
    true = this push is refused for that reason *)
Definition push_shallow_refused (g : cgraph) (local remote : repo) (items : list pitem) (gforce : bool) : bool :=
  let ia := is_ancestor (to_graph g) in
  match identify_updates ia gforce (r_refs local) (listing (r_refs remote)) items with
  | None => false
  | Some (us, _) =>
    match us with
    | [] => false
    | _ =>
      let wants := flat_map (fun u => match u_new u with Some c => [c] | None => [] end) us in
      let known := reachable g local in
      if negb (forallb (fun w => cmem w known && cmem (ctbl g w) (o_tables (r_objs local))) wants)
      then false else
      let commons := filter (fun h => cmem h known) (map snd (listing (r_refs remote))) in
      existsb (fun o => match o with
                        | OCommit c => negb (cmem (ctbl g c) (o_tables (r_objs local)))
                        | OTable _ => false end)
              (plan g (r_objs local) wants commons O (o_tables (r_objs remote)))
    end
  end.

(** [source_known] = false: the refusal cannot name a remote to fetch the missing tables from (the remote-tracking
    refs the shallow commits came through are gone); the code then panics instead of returning the error:
    outcome 2, nothing sent either way. *)
Definition push_k (source_known : bool) (g : cgraph) (local remote : repo) (items : list pitem)
           (gforce : bool) (p : nat) (f : fault) : N * repo :=
  if negb source_known && push_shallow_refused g local remote items gforce then (2, remote)
  else push_f g local remote items gforce p f.

Definition d_fault (t : tree) : fault :=
  mk_fault (d_N (d_nth 0 t)) (d_N (d_nth 1 t)) (d_nat (d_nth 2 t)).

Definition run_C09 (t : tree) : tree :=
  let g := d_cgraph (d_nth 0 t) in
  let local := d_repo (d_nth 1 t) in
  let remote := d_repo (d_nth 2 t) in
  let op := d_nth 3 t in
  match d_N (d_nth 0 op) with
  | 0 =>
    let k := match d_nat (d_nth 3 op) with O => 256%nat | n => n end in
    let '(out, l') := fetch_f g local remote (d_list d_spec (d_nth 6 op)) (d_bool (d_nth 1 op))
                              (d_nat (d_nth 2 op)) k (pack_param (d_nat (d_nth 4 op)))
                              (negb (d_N (d_nth 5 op) =? 0)) (d_fault (d_nth 7 op)) in
    Node [Leaf out; t_repo l'; t_repo remote]
  | _ =>
    let '(out, r') := push_k (negb (d_N (d_nth 5 op) =? 2)) g local remote (d_list d_pitem (d_nth 3 op))
                             (d_bool (d_nth 1 op)) (pack_param (d_nat (d_nth 2 op))) (d_fault (d_nth 4 op)) in
    Node [Leaf out; t_repo local; t_repo r']
  end.
