(** BlockIndex.Get of pkg/objects/block_index.go as it is written: sort.Search over
    sortedOff by the 16-byte key hash, then an equality test.  Definitions only.
    [h] is the key hash (MeowHash of the StrList encoding of the key values) read as a
    big-endian number, so Go's string comparison of two 16-byte sums is comparison in N. *)
From W.lib Require Import Tree Bytes GoSort.
From W.model Require Import Diff.
From Coq Require Import Arith Sorting.Permutation.

Section Hashed.
  Variable h : key -> N.

  Definition row0 : row := ([], 0%N).
  (* idx.Rows[idx.sortedOff[i]][:16] *)
  Definition hkey (b : block) (so : list nat) (i : nat) : N := h (fst (nth (nth i so 0) b row0)).

  Definition get_hashed (so : list nat) (b : block) (k : key) : option (nat * rowid) :=
    let n := length b in
    let i := search n (fun i => N.leb (h k) (hkey b so i)) in
    if n <=? i then None else
    let j := nth i so 0 in
    let '(k', r) := nth j b row0 in
    if N.eqb (h k') (h k) then Some (j, r) else None.

  (** what IndexBlock / IndexBlockFromBytes establish by sort.Sort(idx): sortedOff is a
      permutation of the row offsets, ordered by key hash *)
  Definition hsorted_perm (b : block) (so : list nat) : Prop :=
    Permutation so (seq 0 (length b)) /\
    forall p q, p <= q -> q < length so -> (hkey b so p <= hkey b so q)%N.
End Hashed.
