(** C15 - abstract specification of the ref store: a plain map from exact names
    to values plus a per-name log, and the operation language shared with the
    concrete SQL model (RefSql.v).  Definitions only.

    Layers in this file
    1. types: names/values are byte strings, [meta] is what a reflog carries
       besides old/new value (the time is not modelled: it is never compared);
    2. [prim]: the nine data methods of the Go interface ref.Store
       (pkg/ref/store.go) and [res], the observable result of one call
       (error CLASS only: ok / error / panic);
    3. [prog]: programs over the Store interface, used to transliterate the
       helpers of pkg/ref/refs.go (DeleteAllRemoteRefs, RenameAllRemoteRefs,
       DeleteTransactionRefs, listRefs, RenameRef, CopyRef, SaveRef,
       ListLocalRefs), which are written against that interface;
    4. [op]: what a client can do in one step (a primitive or a helper);
    5. the SPECIFICATION: state = finite map name -> value (a strictly sorted
       association list, so that equal maps are equal terms) + a total function
       name -> log (newest first, [[]] = no log).  Prefix selection is by LITERAL
       [is_prefix] (case-sensitive, no wildcard).  Bulk deletes and listings are
       given declaratively (a [filter] of the map), not as loops. *)
From W.lib Require Import Tree Bytes.
From Coq Require Import Arith.
From Coq Require Import String Ascii.
Local Open Scope N_scope.

Definition name := bytes.
Definition value := bytes.

Record meta := mk_meta {
  m_author : bytes; m_email : bytes; m_action : bytes; m_message : bytes;
  m_txid : option bytes }.

Record logent := mk_logent { le_old : option value; le_new : value; le_meta : meta }.

(** ** Go strings to bytes *)
Definition byte_of_ascii (a : Ascii.ascii) : N := Ascii.N_of_ascii a.
Fixpoint bytes_of_string (s : String.string) : bytes :=
  match s with String.EmptyString => [] | String.String a s' => byte_of_ascii a :: bytes_of_string s' end.

(* pkg/ref/refs.go constants (evaluated here so that no Coq [string] reaches the extraction); tied to the source by gen/Tie_C15.v through
   [model_ref_prefixes] = translator's [ref_prefixes] *)
Definition model_ref_prefixes : list String.string := ["heads/"; "tags/"; "remotes/"; "txs/"]%string.
Definition head_prefix : bytes := Eval vm_compute in bytes_of_string (nth 0 model_ref_prefixes ""%string).
Definition tag_prefix : bytes := Eval vm_compute in bytes_of_string (nth 1 model_ref_prefixes ""%string).
Definition remote_ref_prefix : bytes := Eval vm_compute in bytes_of_string (nth 2 model_ref_prefixes ""%string).
Definition tx_ref_prefix : bytes := Eval vm_compute in bytes_of_string (nth 3 model_ref_prefixes ""%string).
Definition slash : N := 47.
(* RemoteRef(remote, "") and TransactionRef(id, "") *)
Definition remote_prefix (r : bytes) : bytes := remote_ref_prefix ++ r ++ [slash].
Definition tx_prefix (id : bytes) : bytes := tx_ref_prefix ++ id ++ [slash].

(** ** The Store interface *)
Inductive prim :=
| PSet (k : name) (v : value)
| PSetLog (k : name) (v : value) (m : meta)
| PGet (k : name)
| PDelete (k : name)
| PFilter (ps ns : list bytes)
| PFilterKey (ps ns : list bytes)
| PRename (a b : name)
| PCopy (a b : name)
| PLogRead (k : name).      (* LogReader(k) and Read() until io.EOF or an error *)

Inductive res :=
| ROk                                   (* nil error, nothing else returned *)
| RErr                                  (* a non-nil error *)
| RPanic                                (* slice bounds panic in refs.go *)
| RVal (v : value)
| RMap (m : list (name * value))        (* a Go map, observed sorted by name *)
| RKeys (l : list name)                 (* a Go slice, in the order returned *)
| RLog (l : list logent) (complete : bool).
    (* entries in the order read; [complete] = the reader ended with io.EOF *)

(** ** Programs over the interface (refs.go) *)
Inductive prog :=
| Ret (r : res)
| Call (p : prim) (k : res -> prog).

Fixpoint interp {S : Type} (step : S -> prim -> S * res) (s : S) (p : prog) : S * res :=
  match p with
  | Ret r => (s, r)
  | Call o k => let '(s', r) := step s o in interp step s' (k r)
  end.

(* for _, b := range keys { err = s.Delete(b); if err != nil { return err } } *)
Fixpoint p_delete_each (ks : list name) : prog :=
  match ks with
  | [] => Ret ROk
  | k :: ks' => Call (PDelete k) (fun r => match r with ROk => p_delete_each ks' | _ => Ret RErr end)
  end.

(* DeleteAllRemoteRefs / DeleteTransactionRefs: FilterKey([prefix], nil), then the loop *)
Definition p_delete_prefix (p : bytes) : prog :=
  Call (PFilterKey [p] []) (fun r => match r with RKeys ks => p_delete_each ks | _ => Ret RErr end).

(* RenameAllRemoteRefs loop: name := k[n:]; Rename(RemoteRef(old,name), RemoteRef(new,name)) *)
Fixpoint p_rename_each (n : nat) (op np : bytes) (ks : list name) : prog :=
  match ks with
  | [] => Ret ROk
  | k :: ks' =>
      if (List.length k <? n)%nat then Ret RPanic
      else
        let nm := skipn n k in
        Call (PRename (op ++ nm) (np ++ nm))
             (fun r => match r with ROk => p_rename_each n op np ks' | _ => Ret RErr end)
  end.

Definition p_rename_remote (r r' : bytes) : prog :=
  let op := remote_prefix r in
  let np := remote_prefix r' in
  Call (PFilterKey [op] [])
       (fun x => match x with RKeys ks => p_rename_each (List.length op) op np ks | _ => Ret RErr end).

(** Finite maps as strictly sorted association lists. *)
Section SMap.
  Context {A : Type}.
  Fixpoint m_get (k : name) (m : list (name * A)) : option A :=
    match m with
    | [] => None
    | (k', v) :: m' => if beqb k k' then Some v else m_get k m'
    end.
  Fixpoint m_set (k : name) (v : A) (m : list (name * A)) : list (name * A) :=
    match m with
    | [] => [(k, v)]
    | (k', v') :: m' =>
        match bcmp k k' with
        | Lt => (k, v) :: m
        | Eq => (k, v) :: m'
        | Gt => (k', v') :: m_set k v m'
        end
    end.
  Definition m_del (k : name) (m : list (name * A)) : list (name * A) :=
    filter (fun kv => negb (beqb k (fst kv))) m.
End SMap.

(* listRefs: result[k[l:]] = v for k, v in the filtered map.  Go iterates the map
   in random order; here ascending, a later entry overwriting an earlier one - the
   result is order-independent exactly when the stripped names are distinct. *)
Definition strip_all (l : nat) (m : list (name * value)) : res :=
  if existsb (fun kv => (List.length (fst kv) <? l)%nat) m then RPanic
  else RMap (fold_left (fun acc kv => m_set (skipn l (fst kv)) (snd kv) acc) m []).

Definition p_list_refs (p : bytes) : prog :=
  Call (PFilter [p] []) (fun r => match r with RMap m => Ret (strip_all (List.length p) m) | _ => Ret RErr end).

Definition p_rename_ref (a b : name) : prog :=
  Call (PGet a) (fun r => match r with
    | RVal v => Call (PRename a b) (fun r2 => match r2 with ROk => Ret (RVal v) | _ => Ret RErr end)
    | _ => Ret RErr end).

Definition p_copy_ref (a b : name) : prog :=
  Call (PGet a) (fun r => match r with
    | RVal v => Call (PCopy a b) (fun r2 => match r2 with ROk => Ret (RVal v) | _ => Ret RErr end)
    | _ => Ret RErr end).

(* SaveRef: the value read by Get goes into reflog.OldOID, which the SQL store does
   not use (it re-reads the value inside its transaction) *)
Definition p_save_ref (k : name) (v : value) (m : meta) : prog :=
  Call (PGet k) (fun _ => Call (PSetLog k v m) Ret).

Definition p_list_local (ps ns : list bytes) : prog :=
  Call (PFilter ps (ns ++ [remote_ref_prefix])) Ret.

(** ** Client operations *)
Inductive op :=
| OP (p : prim)
| ODelRemote (r : bytes)                (* DeleteAllRemoteRefs(s, r) *)
| ORenRemote (r r' : bytes)             (* RenameAllRemoteRefs(s, r, r') *)
| ODelTx (id : bytes)                   (* DeleteTransactionRefs(s, id); id = uuid text *)
| OListRefs (p : bytes)                 (* listRefs(s, p): ListHeads/ListTags/ListRemoteRefs/ListTransactionRefs *)
| ORenameRef (a b : name)
| OCopyRef (a b : name)
| OSaveRef (k : name) (v : value) (m : meta)
| OListLocal (ps ns : list bytes).

Definition prog_of (o : op) : prog :=
  match o with
  | OP p => Call p Ret
  | ODelRemote r => p_delete_prefix (remote_prefix r)
  | ORenRemote r r' => p_rename_remote r r'
  | ODelTx id => p_delete_prefix (tx_prefix id)
  | OListRefs p => p_list_refs p
  | ORenameRef a b => p_rename_ref a b
  | OCopyRef a b => p_copy_ref a b
  | OSaveRef k v m => p_save_ref k v m
  | OListLocal ps ns => p_list_local ps ns
  end.

(** ** Specification *)
Record sstate := mk_sstate {
  refs : list (name * value);          (* strictly sorted by name *)
  logs : name -> list logent }.        (* newest first *)

Definition sinit : sstate := mk_sstate [] (fun _ => []).

Definition fupd {B} (f : name -> B) (k : name) (b : B) : name -> B :=
  fun k' => if beqb k k' then b else f k'.

(* literal prefix selection: (no prefixes, or some prefix matches) and no notPrefix matches *)
Definition sel (ps ns : list bytes) (k : name) : bool :=
  (match ps with [] => true | _ => existsb (fun p => is_prefix p k) ps end)
  && negb (existsb (fun p => is_prefix p k) ns).

Definition s_filter (ps ns : list bytes) (s : sstate) : list (name * value) :=
  filter (fun kv => sel ps ns (fst kv)) (refs s).

Definition sstep (s : sstate) (p : prim) : sstate * res :=
  match p with
  | PSet k v => (mk_sstate (m_set k v (refs s)) (logs s), ROk)
  | PSetLog k v m =>
      (mk_sstate (m_set k v (refs s))
                 (fupd (logs s) k (mk_logent (m_get k (refs s)) v m :: logs s k)), ROk)
  | PGet k => (s, match m_get k (refs s) with Some v => RVal v | None => RErr end)
  | PDelete k => (mk_sstate (m_del k (refs s)) (fupd (logs s) k []), ROk)
  | PFilter ps ns => (s, RMap (s_filter ps ns s))
  | PFilterKey ps ns => (s, RKeys (map fst (s_filter ps ns s)))
  | PRename a b =>
      match m_get a (refs s), m_get b (refs s) with
      | Some v, None =>
          (mk_sstate (m_del a (m_set b v (refs s)))
                     (fupd (fupd (logs s) b (logs s a)) a []), ROk)
      | _, _ => (s, RErr)
      end
  | PCopy a b =>
      match m_get a (refs s), m_get b (refs s) with
      | Some v, None =>
          (mk_sstate (m_set b v (refs s)) (fupd (logs s) b (logs s a)), ROk)
      | _, _ => (s, RErr)
      end
  | PLogRead k => (s, match logs s k with [] => RErr | l => RLog l true end)
  end.

(* bulk delete: exactly the names that literally start with [p] disappear, with their logs *)
Definition s_delete_prefix (p : bytes) (s : sstate) : sstate :=
  mk_sstate (filter (fun kv => negb (is_prefix p (fst kv))) (refs s))
            (fun k => if is_prefix p k then [] else logs s k).

(* bulk rename: the names under [op], in ascending order, are renamed one at a
   time to [np ++ rest]; the first failing rename stops the loop and is returned
   (earlier renames stay done) - this is what RenameAllRemoteRefs does *)
Fixpoint s_rename_each (n : nat) (np : bytes) (ks : list name) (s : sstate) : sstate * res :=
  match ks with
  | [] => (s, ROk)
  | k :: ks' =>
      match sstep s (PRename k (np ++ skipn n k)) with
      | (s', ROk) => s_rename_each n np ks' s'
      | (s', _) => (s', RErr)
      end
  end.

Definition s_list_refs (p : bytes) (s : sstate) : list (name * value) :=
  map (fun kv => (skipn (List.length p) (fst kv), snd kv))
      (filter (fun kv => is_prefix p (fst kv)) (refs s)).

Definition sstep_op (s : sstate) (o : op) : sstate * res :=
  match o with
  | OP p => sstep s p
  | ODelRemote r => (s_delete_prefix (remote_prefix r) s, ROk)
  | ODelTx id => (s_delete_prefix (tx_prefix id) s, ROk)
  | ORenRemote r r' =>
      let op := remote_prefix r in
      s_rename_each (List.length op) (remote_prefix r')
                    (map fst (filter (fun kv => is_prefix op (fst kv)) (refs s))) s
  | OListRefs p => (s, RMap (s_list_refs p s))
  | ORenameRef a b =>
      match sstep s (PRename a b), m_get a (refs s) with
      | (s', ROk), Some v => (s', RVal v)
      | _, _ => (s, RErr)
      end
  | OCopyRef a b =>
      match sstep s (PCopy a b), m_get a (refs s) with
      | (s', ROk), Some v => (s', RVal v)
      | _, _ => (s, RErr)
      end
  | OSaveRef k v m => sstep s (PSetLog k v m)
  | OListLocal ps ns => (s, RMap (s_filter ps (ns ++ [remote_ref_prefix]) s))
  end.

Fixpoint srun (s : sstate) (ops : list op) : list res :=
  match ops with
  | [] => []
  | o :: ops' => let '(s', r) := sstep_op s o in r :: srun s' ops'
  end.

Fixpoint sreach (s : sstate) (ops : list op) : sstate :=
  match ops with
  | [] => s
  | o :: ops' => sreach (fst (sstep_op s o)) ops'
  end.

(** which names an operation may touch (used by the frame theorem) *)
Definition touches (o : op) (k : name) : bool :=
  match o with
  | OP (PSet a _) | OP (PSetLog a _ _) | OP (PDelete a) | OSaveRef a _ _ => beqb a k
  | OP (PRename a b) | ORenameRef a b => beqb a k || beqb b k
  | OP (PCopy _ b) | OCopyRef _ b => beqb b k
  | OP (PGet _) | OP (PFilter _ _) | OP (PFilterKey _ _) | OP (PLogRead _) => false
  | OListRefs _ | OListLocal _ _ => false
  | ODelRemote r => is_prefix (remote_prefix r) k
  | ODelTx id => is_prefix (tx_prefix id) k
  | ORenRemote r r' => is_prefix (remote_prefix r) k || is_prefix (remote_prefix r') k
  end.
