(** Model of pkg/prune/prune.go (findCommitsToRemove, pruneTables, childrenFirst, Prune) with the part
    of pkg/ref/commits_queue.go it uses (Insert, Pop, InsertParents, PopInsertParents).
    Definitions only.  State and delete operations: PruneRepo.v.

    [prune_gen checked ordered s] = (deletes issued, in the order the Go code issues them; status).
    status: Done (nil error) | Err (an error is returned: the ref walk met a commit that is
    not stored, or a surviving commit / kept table cannot be read) | Panic (index out of
    range) | Fuel (model artefact, proved impossible).
    [checked = true]  is the code as it is now: every sort.Search slot is used only when
                      [idx < len(keys) && keys[idx] == key];
    [checked = false] is the code before fix 98a13da: the slot is indexed blindly.
    [ordered = true]  is the code as it is now: unreachable commits are deleted in childrenFirst order;
    [ordered = false] is the code before fix b7554dd: they are deleted in key order.

    Every slot lookup is literally: sorted key list + GoSort.search + (optional) equality.

    Exchange format (harness/c12.go emits the same):
      case   = (mode state (op ...) [env])
      mode   = 0 prune.Prune on a recording map-backed store | 1 `wrgl prune` | 2 `wrgl gc` (1,2: no delete trace)
             | 3 prune.Prune on a recording store over the real badger store of a repo dir
      env    = (tz ((txgroup age) ...))   tz: process time zone of the run (ignored here: the result must not
               depend on it); age (minutes) of the transaction row of group [num/4] of the txs/ refs, default 0
      state  = (commits tables tblidx prof blocks blkidx refs)
      commits= ((id tableid (parent ...)) ...)      tables = ((id (blk ...) (blkidx ...) . _) ...)
      tblidx, prof, blocks, blkidx = (id ...)       refs = ((kind num commit) ...)   (names are opaque here; the harness
                                                    turns (kind, num) into flat and multi-component heads/ tags/ remotes/ txs/ names)
      op     = (0)            prune
             | (1 kind num)   delete ref           | (2 kind num commit) set ref
             | (3 k)          prune on a store whose (k+1)-th Delete fails (crash/IO error after k deletes)
             | (4 ttl)        gc as cmd/wrgl gc_cmd.go runs it: transaction.GarbageCollect with TTL [ttl] minutes
                              (drops every txs/ ref of a transaction row at least that old), then prune;
                              obs as for prune plus a 4th element: the ref names (kind*2^32+num) left, ascending
      obs    = (r ...) one per op;  r = () for ref ops;
               prune: (status trace keysets),  status 0 ok | 1 error | 2 panic | 3 fuel
                 trace   = ((kind ...) (T ids) (TI ids) (P ids) (B ids) (BI ids) (C ids))   modes 0 and 3, else ()
                           kind order exact (0 table 1 tblidx 2 prof 3 block 4 blkidx 5 commit),
                           ids of each kind sorted ascending (the order inside a kind is not compared:
                           hash order resp. children-first order of the real sums)
                 keysets = (commits tables tblidx prof blocks blkidx) ascending, duplicate-free, after the op *)
From Coq Require Import String.
From W.lib Require Import Tree GoSort.
From W.model Require Import PruneRepo.
From Coq Require Import Arith List ZArith.
Import ListNotations.
Local Open Scope N_scope.

Inductive status := Done | Err | Panic | Fuel.
Inductive outcome (A : Type) := Ok (a : A) | Fail (st : status).
Arguments Ok {A} a.
Arguments Fail {A} st.

(* ---- slot lookups ---- *)

(* sort.Search(len(keys), func(i) bool { return string(keys[i]) >= string(key) }) *)
Definition slot (keys : list N) (key : N) : nat :=
  search (length keys) (fun i => key <=? nth i keys 0).

Fixpoint set_nth (i : nat) (l : list bool) : list bool :=
  match l, i with
  | [], _ => []
  | _ :: l', O => true :: l'
  | b :: l', S i' => b :: set_nth i' l'
  end.

(* found[slot] = true *)
Definition mark (checked : bool) (keys : list N) (found : list bool) (key : N) : outcome (list bool) :=
  let i := slot keys key in
  if checked then
    if (i <? length keys)%nat && (nth i keys 0 =? key) then Ok (set_nth i found) else Ok found
  else
    if (i <? length found)%nat then Ok (set_nth i found) else Fail Panic.

Fixpoint mark_all (checked : bool) (keys : list N) (found : list bool) (l : list N) : outcome (list bool) :=
  match l with
  | [] => Ok found
  | k :: l' =>
      match mark checked keys found k with
      | Fail e => Fail e
      | Ok found' => mark_all checked keys found' l'
      end
  end.

(* for i, f := range found { if f == b { ... keys[i] ... } } *)
Fixpoint select (b : bool) (keys : list N) (found : list bool) : list N :=
  match keys, found with
  | k :: keys', f :: found' => if Bool.eqb f b then k :: select b keys' found' else select b keys' found'
  | _, _ => []
  end.

(* ---- childrenFirst (Kahn): each commit before its to-remove parents ---- *)

(* pendingChildren: map[string]int, absent = 0 *)
Definition getz (m : list (N * Z)) (k : N) : Z := match get m k with Some v => v | None => 0%Z end.
Definition setz (k : N) (v : Z) (m : list (N * Z)) : list (N * Z) := (k, v) :: rem k m.

(* parents[sum]: the parents of [sum] that are in the to-remove set, in order, with repetitions;
   GetCommit error => no entry ("continue").  The Go code caches this in a map while counting;
   the store's commits do not change in between, so it is recomputed here. *)
Definition cf_parents (cm : list (N * commit)) (cs : list N) (c : N) : list N :=
  match get cm c with
  | None => []
  | Some co => filter (fun p => mem p cs) (c_parents co)
  end.

(* first loop: pendingChildren[p]++ for every to-remove parent occurrence *)
Definition cf_count (cm : list (N * commit)) (cs : list N) : list (N * Z) :=
  fold_left (fun m c => fold_left (fun m p => setz p (getz m p + 1)%Z m) (cf_parents cm cs c) m) cs [].

(* for _, p := range parents[sum] { pendingChildren[p]--; if pendingChildren[p] == 0 { queue = append(queue, p) } } *)
Fixpoint cf_dec (ps : list N) (pend : list (N * Z)) (queue : list N) : list (N * Z) * list N :=
  match ps with
  | [] => (pend, queue)
  | p :: ps' =>
      let v := (getz pend p - 1)%Z in
      cf_dec ps' (setz p v pend) (if (v =? 0)%Z then queue ++ [p] else queue)
  end.

Fixpoint cf_loop (fuel : nat) (cm : list (N * commit)) (cs : list N)
         (pend : list (N * Z)) (queue result : list N) : option (list N) :=
  match fuel with
  | O => None
  | S fuel' =>
      match queue with
      | [] => Some result
      | sum :: queue' =>
          let '(pend', queue'') := cf_dec (cf_parents cm cs sum) pend queue' in
          cf_loop fuel' cm cs pend' queue'' (result ++ [sum])
      end
  end.

Definition children_first (cm : list (N * commit)) (cs : list N) : option (list N) :=
  let pend := cf_count cm cs in
  cf_loop (S (length cs)) cm cs pend (filter (fun c => (getz pend c =? 0)%Z) cs) [].

(* ---- CommitsQueue ---- *)

(* sums/commits (parallel slices) and the seen set *)
Record queue := mkQ { q_items : list (N * commit); q_seen : list N }.

Section Walk.
  (** Insert places the commit by commit time (sort.Search over the times); times are not
      part of the state, so the position is an arbitrary policy: everything below is proved
      for every [pos]. *)
  Variable pos : list (N * commit) -> N -> commit -> nat.

  (* Insert: None = the GetCommit error *)
  Definition q_insert (s : state) (q : queue) (id : N) : option queue :=
    if mem id (q_seen q) then Some q
    else match get_commit s id with
         | None => None
         | Some c =>
             let p := pos (q_items q) id c in
             Some (mkQ (firstn p (q_items q) ++ (id, c) :: skipn p (q_items q)) (id :: q_seen q))
         end.

  (* InsertParents *)
  Fixpoint q_insert_all (s : state) (q : queue) (ps : list N) : option queue :=
    match ps with
    | [] => Some q
    | p :: ps' =>
        match q_insert s q p with
        | None => None
        | Some q' => q_insert_all s q' ps'
        end
    end.

  (* findCommitsToRemove: `for _, sum := range refMap { q.Insert(sum) }` - the error is dropped *)
  Definition q_insert_ref (s : state) (q : queue) (id : N) : queue :=
    match q_insert s q id with None => q | Some q' => q' end.

  (* the PopInsertParents loop of findCommitsToRemove *)
  Fixpoint walk (checked : bool) (s : state) (keys : list N) (fuel : nat) (q : queue) (found : list bool)
    : outcome (list bool) :=
    match fuel with
    | O => Fail Fuel
    | S fuel' =>
        match q_items q with
        | [] => Ok found                                   (* io.EOF *)
        | (sum, c) :: rest =>
            match q_insert_all s (mkQ rest (q_seen q)) (c_parents c) with
            | None => Fail Err
            | Some q' =>
                match mark checked keys found sum with
                | Fail e => Fail e
                | Ok found' => walk checked s keys fuel' q' found'
                end
            end
        end
    end.

  (* -> (commitsToRemove, survivingCommits) *)
  Definition find_commits (checked : bool) (s : state) : outcome (list N * list N) :=
    let q0 := fold_left (fun q r => q_insert_ref s q (snd r)) (refs s) (mkQ [] []) in
    let keys := commit_keys s in
    match walk checked s keys (S (length keys)) q0 (repeat false (length keys)) with
    | Fail e => Fail e
    | Ok found => Ok (select false keys found, select true keys found)
    end.

  (* ---- pruneTables ---- *)

  (* first loop: tableFound *)
  Fixpoint table_marks (checked : bool) (s : state) (tkeys : list N) (found : list bool) (surviving : list N)
    : outcome (list bool) :=
    match surviving with
    | [] => Ok found
    | c :: rest =>
        match get_commit s c with
        | None => Fail Err
        | Some cm =>
            match mark checked tkeys found (c_table cm) with
            | Fail e => Fail e
            | Ok found' => table_marks checked s tkeys found' rest
            end
        end
    end.

  Record tl_res := mkTl { tl_dels : list del; tl_status : status; tl_kb : list bool; tl_kbi : list bool }.

  (* second loop; [st] is the store as it is when the iteration runs (earlier iterations have
     deleted their tables), so GetTable reads the current store, as in the code *)
  Fixpoint table_loop (checked : bool) (st : state) (bkeys bikeys : list N) (l : list (N * bool))
           (kb kbi : list bool) : tl_res :=
    match l with
    | [] => mkTl [] Done kb kbi
    | (t, keep) :: l' =>
        if keep then
          match get_table st t with
          | None => mkTl [] Err kb kbi
          | Some tb =>
              match mark_all checked bkeys kb (t_blocks tb) with
              | Fail e => mkTl [] e kb kbi
              | Ok kb' =>
                  match mark_all checked bikeys kbi (t_blkidx tb) with
                  | Fail e => mkTl [] e kb' kbi
                  | Ok kbi' => table_loop checked st bkeys bikeys l' kb' kbi'
                  end
              end
          end
        else
          let ds := [Del KTable t; Del KTblIdx t; Del KProf t] in
          let r := table_loop checked (apply_dels ds st) bkeys bikeys l' kb kbi in
          mkTl (ds ++ tl_dels r) (tl_status r) (tl_kb r) (tl_kbi r)
    end.

  (* ---- Prune ---- *)
  Definition prune_gen (checked ordered : bool) (s : state) : list del * status :=
    match find_commits checked s with
    | Fail e => ([], e)
    | Ok (to_remove, surviving) =>
        match to_remove with
        | [] => ([], Done)                                  (* len(commitsToRemove) == 0 *)
        | _ :: _ =>
            let bkeys := block_keys s in
            let bikeys := blkidx_keys s in
            let tkeys := table_keys s in
            match table_marks checked s tkeys (repeat false (length tkeys)) surviving with
            | Fail e => ([], e)
            | Ok tfound =>
                let r := table_loop checked s bkeys bikeys (combine tkeys tfound)
                                    (repeat false (length bkeys)) (repeat false (length bikeys)) in
                match tl_status r with
                | Done =>
                    let pre := tl_dels r
                                 ++ map (Del KBlock) (select false bkeys (tl_kb r))
                                 ++ map (Del KBlkIdx) (select false bikeys (tl_kbi r)) in
                    (* childrenFirst reads the commits of the store as it is after the sweeps *)
                    match (if ordered then children_first (commits (apply_dels pre s)) to_remove
                           else Some to_remove) with
                    | None => (pre, Fuel)
                    | Some order => (pre ++ map (Del KCommit) order, Done)
                    end
                | e => (tl_dels r, e)
                end
            end
        end
    end.
End Walk.

(** the code as it is now, for a given queue discipline [pos] (theorems: for every [pos]) *)
Definition prune_with (pos : list (N * commit) -> N -> commit -> nat) (s : state) : list del * status :=
  prune_gen pos true true s.
(** state after a crash (or a failing store.Delete) once [n] deletes have been done *)
Definition crash_with pos (n : nat) (s : state) : state := apply_dels (firstn n (fst (prune_with pos s))) s.
(** state after an uninterrupted prune *)
Definition pruned_with pos (s : state) : state := apply_dels (fst (prune_with pos s)) s.

(** the queue discipline used when the model is run: append *)
Definition pos_append (items : list (N * commit)) (_ : N) (_ : commit) : nat := length items.

Definition prune (s : state) : list del * status := prune_with pos_append s.
Definition prune_unchecked (s : state) : list del * status := prune_gen pos_append false true s.
(* before fix b7554dd: unreachable commits deleted in key order *)
Definition prune_key_order (s : state) : list del * status := prune_gen pos_append true false s.
Definition crash (n : nat) (s : state) : state := crash_with pos_append n s.
Definition pruned (s : state) : state := pruned_with pos_append s.

(* ---- write-order skeleton (for gen/Tie_C12.v) ---- *)
(** The calls of prune.Prune that delete from the store or fix the order of deletes, in source
    order with pruneTables inlined at its call site: every call to objects.Delete* and to
    childrenFirst (whose result the DeleteCommit loop ranges over).  The theorems rely on exactly
    this order: table, then its index and profile; blocks; block indices; commits last and
    children first. *)
Definition prune_skel : list string :=
  ["DeleteTable"; "DeleteTableIndex"; "DeleteTableProfile"; "DeleteBlock"; "DeleteBlockIndex";
   "childrenFirst"; "DeleteCommit"]%string.
Definition prune_skel_ok (sk : list string) : bool :=
  if list_eq_dec String.string_dec sk prune_skel then true else false.

(* ---- exchange tree coders ---- *)
Definition d_commit (t : tree) : N * commit :=
  (d_N (d_nth 0 t), mkCommit (d_N (d_nth 1 t)) (d_list d_N (d_nth 2 t))).
Definition d_table (t : tree) : N * table :=
  (d_N (d_nth 0 t), mkTable (d_list d_N (d_nth 1 t)) (d_list d_N (d_nth 2 t))).
Definition ref_name (kind num : N) : N := kind * 4294967296 + num.
Definition d_ref (t : tree) : N * N :=
  (ref_name (d_N (d_nth 0 t)) (d_N (d_nth 1 t)), d_N (d_nth 2 t)).
Definition d_state (t : tree) : state :=
  mkState (d_list d_commit (d_nth 0 t)) (d_list d_table (d_nth 1 t))
          (d_list d_N (d_nth 2 t)) (d_list d_N (d_nth 3 t))
          (d_list d_N (d_nth 4 t)) (d_list d_N (d_nth 5 t))
          (d_list d_ref (d_nth 6 t)).

Definition kind_num (k : kind) : N :=
  match k with KTable => 0 | KTblIdx => 1 | KProf => 2 | KBlock => 3 | KBlkIdx => 4 | KCommit => 5 end.
Definition status_num (st : status) : N :=
  match st with Done => 0 | Err => 1 | Panic => 2 | Fuel => 3 end.
Definition ids_of (k : kind) (ds : list del) : list N :=
  flat_map (fun d => match d with Del k' id => if kind_eqb k k' then [id] else [] end) ds.
Definition t_ids (l : list N) : tree := Node (map Leaf l).
(* ascending, duplicates kept *)
Fixpoint insd (x : N) (l : list N) : list N :=
  match l with
  | [] => [x]
  | y :: l' => if x <=? y then x :: l else y :: insd x l'
  end.
Definition sortd (l : list N) : list N := fold_right insd [] l.
Definition t_trace (ds : list del) : tree :=
  Node [ Node (map (fun d => match d with Del k _ => Leaf (kind_num k) end) ds);
         t_ids (sortd (ids_of KTable ds)); t_ids (sortd (ids_of KTblIdx ds)); t_ids (sortd (ids_of KProf ds));
         t_ids (sortd (ids_of KBlock ds)); t_ids (sortd (ids_of KBlkIdx ds)); t_ids (sortd (ids_of KCommit ds)) ].
Definition t_keysets (s : state) : tree :=
  Node [ t_ids (commit_keys s); t_ids (table_keys s); t_ids (sortu (tblidx s)); t_ids (sortu (prof s));
         t_ids (block_keys s); t_ids (blkidx_keys s) ].

Definition set_refs (s : state) (r : list (N * N)) : state :=
  mkState (commits s) (tables s) (tblidx s) (prof s) (blocks s) (blkidx s) r.

(** the first half of `wrgl gc` (transaction.GarbageCollect): the refs of expired transactions go *)
Definition gc_refs (expired : N -> bool) (s : state) : state :=
  set_refs s (filter (fun r => negb (expired (fst r))) (refs s)).
(** gc = GarbageCollect, then Prune *)
Definition gc_with pos (expired : N -> bool) (s : state) : list del * status :=
  prune_with pos (gc_refs expired s).
Definition gced_with pos (expired : N -> bool) (s : state) : state :=
  pruned_with pos (gc_refs expired s).

(* the harness's naming: kind 3 = txs/, transaction group num/4, groups with (g mod 3) = 2 have no row *)
Definition tx_expired (ages : list (N * N)) (ttl : N) (name : N) : bool :=
  let kind := name / 4294967296 in
  let g := (name mod 4294967296) / 4 in
  (kind =? 3) && negb ((g mod 3) =? 2) && (ttl <=? match get ages g with Some a => a | None => 0 end).

(* one prune; [limit] = Some k: the (k+1)-th Delete fails *)
Definition run_prune (mode : N) (limit : option nat) (s : state) : state * tree :=
  let '(ds, st) := prune s in
  let '(ds', st') :=
    match limit with
    | Some k => if (k <? length ds)%nat then (firstn k ds, Err) else (ds, st)
    | None => (ds, st)
    end in
  let s' := apply_dels ds' s in
  (s', Node [Leaf (status_num st'); (if (mode =? 0) || (mode =? 3) then t_trace ds' else Node []); t_keysets s']).

Definition run_op (mode : N) (ages : list (N * N)) (s : state) (op : tree) : state * tree :=
  let tag := d_N (d_nth 0 op) in
  if tag =? 0 then run_prune mode None s
  else if tag =? 1 then
    (set_refs s (rem (ref_name (d_N (d_nth 1 op)) (d_N (d_nth 2 op))) (refs s)), Node [])
  else if tag =? 2 then
    let nm := ref_name (d_N (d_nth 1 op)) (d_N (d_nth 2 op)) in
    (set_refs s ((nm, d_N (d_nth 3 op)) :: rem nm (refs s)), Node [])
  else if tag =? 3 then run_prune mode (Some (d_nat (d_nth 1 op))) s
  else if tag =? 4 then
    let '(s', r) := run_prune mode None (gc_refs (tx_expired ages (d_N (d_nth 1 op))) s) in
    (s', match r with
         | Node l => Node (l ++ [t_ids (sortu (map fst (refs s')))])
         | Leaf _ => r
         end)
  else (s, Node []).

Fixpoint run_ops (mode : N) (ages : list (N * N)) (s : state) (ops : list tree) : list tree :=
  match ops with
  | [] => []
  | op :: ops' => let '(s', r) := run_op mode ages s op in r :: run_ops mode ages s' ops'
  end.

Definition run_C12 (c : tree) : tree :=
  let mode := d_N (d_nth 0 c) in
  let ages := d_list (fun t => (d_N (d_nth 0 t), d_N (d_nth 1 t))) (d_nth 1 (d_nth 3 c)) in
  Node (run_ops mode ages (d_state (d_nth 1 c)) (d_list (fun x => x) (d_nth 2 c))).
