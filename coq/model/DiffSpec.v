(** Specification for C04: well-formed tables and the diff defined by global key lookup.
    Definitions only. *)
From W.lib Require Import Tree Bytes.
From W.model Require Import Diff.
From Coq Require Import Arith ZArith Sorting.Sorted.

Definition klt_p (a b : key) : Prop := kcmp a b = Lt.

(** global lookup in the flat row list: position and row sum of the first row with key k *)
Fixpoint lookup (l : list row) (k : key) : option (nat * rowid) :=
  match l with
  | [] => None
  | (k', r) :: l' =>
      if keqb k' k then Some (0, r)
      else match lookup l' k with Some (p, r') => Some (S p, r') | None => None end
  end.

Section Spec.
  Variable bs : nat.

  (** every block but the last has exactly bs rows, the last has 1..bs, keys strictly
      increasing across the whole table *)
  Definition WF_blocks (bl : list block) : Prop :=
    (forall i b, nth_error bl i = Some b ->
                 1 <= length b <= bs /\ (S i < length bl -> length b = bs)) /\
    StronglySorted klt_p (map fst (concat bl)).
  Definition WF_table (t : tbl) : Prop := WF_blocks (t_blocks t).

  (* executable check, sound for WF_blocks (DiffSpec lemma wf_blocksb_sound in proofs) *)
  Fixpoint sizes_okb (bl : list block) : bool :=
    match bl with
    | [] => true
    | [b] => (1 <=? length b) && (length b <=? bs)
    | b :: bl' => (1 <=? length b) && (length b =? bs) && sizes_okb bl'
    end.
  Fixpoint sorted_keysb (l : list key) : bool :=
    match l with
    | [] => true
    | a :: l' => match l' with [] => true | b :: _ => klt a b && sorted_keysb l' end
    end.
  Definition wf_blocksb (bl : list block) : bool :=
    sizes_okb bl && sorted_keysb (map fst (concat bl)).

  (** pass 1: rows of table 1 in order, each looked up in table 2 *)
  Fixpoint spec_pass1 (emitUnchanged colsEqual : bool) (l1 : list row) (p : nat) (l2 : list row)
    : list dev :=
    match l1 with
    | [] => []
    | (k, r1) :: l1' =>
        match lookup l2 k with
        | Some (q, r2) =>
            if emitUnchanged || negb colsEqual || negb (N.eqb r1 r2)
            then [Modified k r1 p r2 q] else []
        | None => [Added k r1 p]
        end ++ spec_pass1 emitUnchanged colsEqual l1' (S p) l2
    end.

  (** pass 2: rows of table 2 in order that have no counterpart in table 1 *)
  Fixpoint spec_pass2 (l2 : list row) (p : nat) (l1 : list row) : list dev :=
    match l2 with
    | [] => []
    | (k, r2) :: l2' =>
        match lookup l1 k with
        | Some _ => []
        | None => [Removed k r2 p]
        end ++ spec_pass2 l2' (S p) l1
    end.

  Definition spec_diff_rows (emitUnchanged colsEqual : bool) (l1 l2 : list row) : list dev :=
    spec_pass1 emitUnchanged colsEqual l1 0 l2 ++ spec_pass2 l2 0 l1.

  Definition spec_diff (emitUnchanged : bool) (t1 t2 : tbl) : list dev :=
    let pkEqual := names_eqb (t_pk t1) (t_pk t2) in
    let colsEqual := names_eqb (t_cols t1) (t_cols t2) in
    if pkEqual && (negb (length (t_pk t1) =? 0) || colsEqual)
    then spec_diff_rows emitUnchanged colsEqual (concat (t_blocks t1)) (concat (t_blocks t2))
    else [].

  (** the row addressed by an offset, through diff.RowToBlockAndOffset *)
  Definition row_at (bl : list block) (off : nat) : option row :=
    let '(b, o) := row_to_block_and_offset bs off in
    match nth_error bl b with Some blk => nth_error blk o | None => None end.

  Definition dev_key (d : dev) : key :=
    match d with Added k _ _ | Modified k _ _ _ _ | Removed k _ _ => k end.

  (** what "each event's offsets address the right rows" means *)
  Definition dev_addr_ok (bl1 bl2 : list block) (d : dev) : Prop :=
    match d with
    | Added k r off => row_at bl1 off = Some (k, r) /\ lookup (concat bl2) k = None
    | Modified k r off r' off' => row_at bl1 off = Some (k, r) /\ row_at bl2 off' = Some (k, r')
    | Removed k r' off' => row_at bl2 off' = Some (k, r') /\ lookup (concat bl1) k = None
    end.

  (** swapping the arguments: added <-> removed, modified swaps new/old *)
  Definition dev_swap (d : dev) : dev :=
    match d with
    | Added k r off => Removed k r off
    | Removed k r off => Added k r off
    | Modified k r off r' off' => Modified k r' off' r off
    end.
  Definition is_removed (d : dev) : bool := match d with Removed _ _ _ => true | _ => false end.
End Spec.

(** the windows (start, end) that iterateAndMatch computes for blocks i, i+1, ... of table 1,
    with prevEnd threaded exactly as the loop does *)
Fixpoint windows_from (guard : bool) (A B : list key) (cnt i prevEnd : nat) : list (Z * Z) :=
  match cnt with
  | O => []
  | S cnt' =>
      let w := find_overlapping_g guard A B i prevEnd in
      w :: windows_from guard A B cnt' (S i) (Z.to_nat (snd w))
  end.
Definition windows (A B : list key) : list (Z * Z) := windows_from true A B (length A) 0 0.
