(** Model of pkg/diff/iterate.go (findOverlappingBlocks, getBlockIndices, iterateAndMatch),
    pkg/diff/diff.go (diffTables, diffRows) and pkg/objects/block_index.go (BlockIndex.Get).
    Definitions only.

    A table is its list of blocks; a block is its list of rows; a row is
    (key, rowid): key = the values of the primary-key columns (the whole row for a
    keyless table, as in sorter.pkIndices), rowid stands for the 16-byte hash of the row
    content.  The table index is the list of first keys of the blocks (that the stored
    index agrees with the blocks is C03; the harness feeds the stored index to the Go code).
    Go [int] values that can become negative ([start], [end], [prevStart], [prevEnd]) are [Z],
    so that the slice expressions of getBlockIndices can [Panic] exactly where Go does.

    Assumptions recorded here (premises of the tie, not of the theorems):
    - BlockIndex.Get looks a key up by its MeowHash through sort.Search + equality test; the
      model's [bget] looks it up by key equality (= no MeowHash collision between the keys of
      the two tables; [DiffHashed.v] shows the search-based Get computes [bget] for any
      injective hash).
    - all keys of both tables have the same number of components (guaranteed by the
      equal-pk-names guard); on such vectors the component loop of findOverlappingBlocks is
      [kcmp] (lib/Bytes.v).
    - the table index has one entry per block; every block index is present in the store.
    - offsets fit uint32, a block has at most 255 rows (byte row offset).

    Exchange format (run_C04):
      case kind 0:  (0 flags T1 T2)    T = (pknames columns rows); flags bit 0 = emitUnchanged
                    (bit 1 = "both tables in one object store", meaningful to the harness only)
                    pknames, columns = lists of byte strings; rows = ((key rowid) ...) in table
                    order, key = list of byte strings; the table's blocks are the 255-row chunks.
          observation: (status events)  status 0 ok / 2 panic;
                    event = (0 key row off)              added   (only in T1)
                          | (1 key row off oldrow oldoff) modified (in both, reported)
                          | (2 key oldrow oldoff)         removed (only in T2)
      case kind 1:  (1 idx1 idx2)  two table indices (lists of keys)
          observation: for every off1 < |idx1| the list over prevEnd = 0..|idx2| of
                    (start end) = findOverlappingBlocks(idx1, idx2, off1, prevEnd);
                    a negative number z is written as the node (|z|).
      case kind 2:  (2 mode T1 T2)   `wrgl diff --no-gui` (mode = how the CLI is driven, harness only)
      case kind 3:  (3 flags T1 T2)  DiffTables consumed through RowListReader / RowChangeReader
          observation of kinds 2 and 3: (status events), events without offsets:
                    (0 key row) | (1 key row oldrow) | (2 key oldrow), in emission order. *)
From W.lib Require Import Tree Bytes.
From Coq Require Import Arith ZArith.

Inductive outcome (A : Type) := Ok (a : A) | Panic.
Arguments Ok {A} a.
Arguments Panic {A}.

Definition key := list bytes.
Definition rowid := N.
Definition row := (key * rowid)%type.
Definition block := list row.

Record tbl := mk_tbl { t_pk : list bytes; t_cols : list bytes; t_blocks : list block }.

Definition first_key (b : block) : key := match b with [] => [] | (k, _) :: _ => k end.
Definition tindex (bl : list block) : list key := map first_key bl.

(** BlockIndex.Get: row offset and row sum of the row with this key *)
Fixpoint bget_from (b : block) (k : key) (o : nat) : option (nat * rowid) :=
  match b with
  | [] => None
  | (k', r) :: b' => if keqb k' k then Some (o, r) else bget_from b' k (S o)
  end.
Definition bget (b : block) (k : key) : option (nat * rowid) := bget_from b k 0.

(** the findStart loop over tblIdx2[j..]; None = start stays -1 *)
Fixpoint scan_start (l : list key) (s : key) (j : nat) : option nat :=
  match l with
  | [] => None
  | b :: l' =>
      match kcmp b s with
      | Gt => Some (if (j =? 0)%nat then j else (j - 1)%nat)
      | Lt => scan_start l' s (S j)
      | Eq => Some j
      end
  end.

(** the findEnd loop; None = end stays -1 *)
Fixpoint scan_end (l : list key) (s : key) (j : nat) : option nat :=
  match l with
  | [] => None
  | b :: l' =>
      match kcmp b s with
      | Gt => Some j
      | Lt => scan_end l' s (S j)
      | Eq => Some j
      end
  end.

(** findOverlappingBlocks; [guard] = the [n == 0] early return of the repaired code *)
Definition find_overlapping_g (guard : bool) (idx1 idx2 : list key) (off1 prevEnd : nat) : Z * Z :=
  let n := length idx2 in
  if guard && (n =? 0)%nat then (0%Z, 0%Z) else
  let pe := if (prevEnd =? 0)%nat then 1%nat else prevEnd in
  match scan_start (skipn (pe - 1) idx2) (nth off1 idx1 []) (pe - 1) with
  | None => ((Z.of_nat n - 1)%Z, Z.of_nat n)
  | Some start =>
      let e :=
        if (off1 <? length idx1 - 1)%nat then
          match scan_end (skipn start idx2) (nth (S off1) idx1 []) start with
          | Some j => j
          | None => n
          end
        else n in
      (Z.of_nat start, Z.of_nat e)
  end.
Definition find_overlapping := find_overlapping_g true.

(** slices of block-index pointers: [None] = nil entry left by make() *)
Definition slice := list (option block).

(* copy(dst, src): min(len) elements *)
Definition copy_into (dst src : slice) : slice := firstn (length dst) src ++ skipn (length src) dst.

Fixpoint set_nth {A} (i : nat) (x : A) (l : list A) : list A :=
  match l, i with
  | [], _ => []
  | _ :: l', O => x :: l'
  | y :: l', S i' => y :: set_nth i' x l'
  end.

(* for j := start; j < end; j++ { sl[j-slStart] = GetBlockIndex(tbl.BlockIndices[j]) } *)
Fixpoint load_loop (blocks2 : list block) (slStart j : Z) (cnt : nat) (sl : slice) : outcome slice :=
  match cnt with
  | O => Ok sl
  | S cnt' =>
      if ((j <? 0) || (Z.of_nat (length blocks2) <=? j))%Z then Panic else
      let p := (j - slStart)%Z in
      if ((p <? 0) || (Z.of_nat (length sl) <=? p))%Z then Panic else
      load_loop blocks2 slStart (j + 1)%Z cnt'
                (set_nth (Z.to_nat p) (Some (nth (Z.to_nat j) blocks2 [])) sl)
  end.

Definition get_block_indices (blocks2 : list block) (start e : Z) (prevSl : slice)
           (prevStart prevEnd : Z) : outcome slice :=
  if ((Z.of_nat (length blocks2) <=? start) || (start =? e))%Z then Ok [] else
  if (e - start <? 0)%Z then Panic (* make([]T, negative) *) else
  let sl0 : slice := repeat None (Z.to_nat (e - start)) in
  if (start <? prevEnd)%Z then
    let a := (start - prevStart)%Z in
    if ((a <? 0) || (Z.of_nat (length prevSl) <? a))%Z then Panic (* prevSl[a:] *) else
    let sl1 := copy_into sl0 (skipn (Z.to_nat a) prevSl) in
    load_loop blocks2 start prevEnd (Z.to_nat (e - prevEnd)) sl1
  else load_loop blocks2 start start (Z.to_nat (e - start)) sl0.

(** one callback invocation of iterateAndMatch *)
Record mrec := mk_mrec {
  m_key : key; m_row1 : rowid; m_row2 : option rowid; m_off1 : nat; m_off2 : nat }.

(* for k, idx := range indices2 { if off, sum := idx.Get(pk); sum != nil {...; break} } *)
Fixpoint lookup_sl (sl : slice) (k : key) (kk : nat) : outcome (option (nat * nat * rowid)) :=
  match sl with
  | [] => Ok None
  | None :: _ => Panic     (* nil *BlockIndex dereferenced by Get *)
  | Some b :: sl' =>
      match bget b k with
      | Some (o, r) => Ok (Some (kk, o, r))
      | None => lookup_sl sl' k (S kk)
      end
  end.

Section WithBlockSize.
  Variable bs : nat.      (* objects.BlockSize = 255 *)

  Fixpoint match_rows (b : block) (sl : slice) (start : Z) (i rowOff : nat) : outcome (list mrec) :=
    match b with
    | [] => Ok []
    | (k, r1) :: b' =>
        match lookup_sl sl k 0 with
        | Panic => Panic
        | Ok hit =>
            let m :=
              match hit with
              | Some (kk, o, r2) =>
                  mk_mrec k r1 (Some r2) (i * bs + rowOff) (Z.to_nat (Z.of_nat kk + start) * bs + o)
              | None => mk_mrec k r1 None (i * bs + rowOff) 0
              end in
            match match_rows b' sl start i (S rowOff) with
            | Panic => Panic
            | Ok ms => Ok (m :: ms)
            end
        end
    end.

  (* the loop of iterateAndMatch over the blocks of table 1, from block i on *)
  Fixpoint iterate_from (guard : bool) (idx1 idx2 : list key) (blocks2 : list block)
           (bl1 : list block) (i : nat) (prevSl : slice) (prevStart prevEnd : Z)
    : outcome (list mrec) :=
    match bl1 with
    | [] => Ok []
    | b :: bl1' =>
        let '(start, e) := find_overlapping_g guard idx1 idx2 i (Z.to_nat prevEnd) in
        match get_block_indices blocks2 start e prevSl prevStart prevEnd with
        | Panic => Panic
        | Ok sl =>
            match match_rows b sl start i 0 with
            | Panic => Panic
            | Ok ms =>
                match iterate_from guard idx1 idx2 blocks2 bl1' (S i) sl start e with
                | Panic => Panic
                | Ok ms' => Ok (ms ++ ms')
                end
            end
        end
    end.

  Definition iterate_and_match (guard : bool) (bl1 bl2 : list block) (idx1 idx2 : list key) :=
    iterate_from guard idx1 idx2 bl2 bl1 0 [] 0%Z 0%Z.

  (** objects.Diff as emitted on the channel *)
  Inductive dev :=
  | Added (k : key) (r : rowid) (off : nat)
  | Modified (k : key) (r : rowid) (off : nat) (r' : rowid) (off' : nat)
  | Removed (k : key) (r' : rowid) (off' : nat).

  Definition pass1_cb (emitUnchanged colsEqual : bool) (m : mrec) : list dev :=
    match m_row2 m with
    | Some r2 =>
        if emitUnchanged || negb colsEqual || negb (N.eqb (m_row1 m) r2)
        then [Modified (m_key m) (m_row1 m) (m_off1 m) r2 (m_off2 m)] else []
    | None => [Added (m_key m) (m_row1 m) (m_off1 m)]
    end.
  Definition pass2_cb (m : mrec) : list dev :=
    match m_row2 m with
    | Some _ => []
    | None => [Removed (m_key m) (m_row1 m) (m_off1 m)]
    end.

  Definition diff_rows_g (guard emitUnchanged colsEqual : bool)
             (bl1 bl2 : list block) (idx1 idx2 : list key) : outcome (list dev) :=
    match iterate_and_match guard bl1 bl2 idx1 idx2 with
    | Panic => Panic
    | Ok ms1 =>
        match iterate_and_match guard bl2 bl1 idx2 idx1 with
        | Panic => Panic
        | Ok ms2 => Ok (flat_map (pass1_cb emitUnchanged colsEqual) ms1 ++ flat_map pass2_cb ms2)
        end
    end.

  Definition names_eqb (a b : list bytes) : bool := keqb a b.

  (* diffTables with explicit table indices (what DiffTables receives) *)
  Definition diff_tables_idx (guard emitUnchanged : bool) (t1 t2 : tbl) (idx1 idx2 : list key)
    : outcome (list dev) :=
    let pkEqual := names_eqb (t_pk t1) (t_pk t2) in
    let colsEqual := names_eqb (t_cols t1) (t_cols t2) in
    if pkEqual && (negb (length (t_pk t1) =? 0)%nat || colsEqual)
    then diff_rows_g guard emitUnchanged colsEqual (t_blocks t1) (t_blocks t2) idx1 idx2
    else Ok [].

  Definition diff_tables_g (guard emitUnchanged : bool) (t1 t2 : tbl) : outcome (list dev) :=
    diff_tables_idx guard emitUnchanged t1 t2 (tindex (t_blocks t1)) (tindex (t_blocks t2)).

  (** the code as it is now / as it was before commit 7a1623b *)
  Definition diff_tables := diff_tables_g true.
  Definition diff_tables_prefix := diff_tables_g false.

  (* diff.RowToBlockAndOffset *)
  Definition row_to_block_and_offset (off : nat) : nat * nat := (off / bs, off - (off / bs) * bs).

  (** cutting a row list into blocks of bs rows (what the sorter/ingest does); fuel = length *)
  Fixpoint chunk_fuel (fuel : nat) (l : list row) : list block :=
    match fuel with
    | O => []
    | S f => match l with [] => [] | _ => firstn bs l :: chunk_fuel f (skipn bs l) end
    end.
  Definition chunk (l : list row) : list block := chunk_fuel (length l) l.
End WithBlockSize.

(** tree codecs (trusted only by the correspondence) *)
Definition d_key (t : tree) : key := d_list d_bytes t.
Definition d_row (t : tree) : row := (d_key (d_nth 0 t), d_N (d_nth 1 t)).
Definition d_tbl (t : tree) : tbl :=
  mk_tbl (d_list d_bytes (d_nth 0 t)) (d_list d_bytes (d_nth 1 t))
         (chunk 255 (d_list d_row (d_nth 2 t))).
Definition t_key (k : key) : tree := t_list t_bytes k.
Definition t_dev (d : dev) : tree :=
  match d with
  | Added k r off => Node [Leaf 0; t_key k; Leaf r; t_nat off]
  | Modified k r off r' off' => Node [Leaf 1; t_key k; Leaf r; t_nat off; Leaf r'; t_nat off']
  | Removed k r' off' => Node [Leaf 2; t_key k; Leaf r'; t_nat off']
  end.
Definition t_Z (z : Z) : tree :=
  if (z <? 0)%Z then Node [Leaf (Z.to_N (- z))] else Leaf (Z.to_N z).

Definition run_diff (c : tree) : tree :=
  match diff_tables 255 (N.odd (d_N (d_nth 1 c))) (d_tbl (d_nth 2 c)) (d_tbl (d_nth 3 c)) with
  | Ok evs => Node [Leaf 0; t_list t_dev evs]
  | Panic => Node [Leaf 2; Node []]
  end.

(* events as seen through consumers that show row contents, not offsets *)
Definition t_dev_noff (d : dev) : tree :=
  match d with
  | Added k r _ => Node [Leaf 0; t_key k; Leaf r]
  | Modified k r _ r' _ => Node [Leaf 1; t_key k; Leaf r; Leaf r']
  | Removed k r' _ => Node [Leaf 2; t_key k; Leaf r']
  end.
Definition run_proj (emitUnchanged : bool) (c : tree) : tree :=
  match diff_tables 255 emitUnchanged (d_tbl (d_nth 2 c)) (d_tbl (d_nth 3 c)) with
  | Ok evs => Node [Leaf 0; t_list t_dev_noff evs]
  | Panic => Node [Leaf 2; Node []]
  end.

Definition run_windows (c : tree) : tree :=
  let idx1 := d_list d_key (d_nth 1 c) in
  let idx2 := d_list d_key (d_nth 2 c) in
  t_list (fun off1 =>
            t_list (fun pe => let '(s, e) := find_overlapping idx1 idx2 off1 pe in Node [t_Z s; t_Z e])
                   (seq 0 (S (length idx2))))
         (seq 0 (length idx1)).

Definition run_C04 (c : tree) : tree :=
  match N.to_nat (d_N (d_nth 0 c)) with
  | 0%nat => run_diff c
  | 1%nat => run_windows c
  | 2%nat => run_proj false c
  | _ => run_proj (N.odd (d_N (d_nth 1 c))) c
  end.
