(** Commit graphs (shared by C11, C08, C12).  Definitions only.

    A commit id is a natural number in [N] (the harness maps content hashes to node
    indices).  A graph is an association list  id -> (commit time, parent ids);
    the FIRST entry for an id is the commit, an id without an entry is a commit
    that is absent from the store (GetCommit fails).  Nothing here assumes that
    parents exist, that the graph is acyclic or that times agree with topology.

    [reach g roots x]  : x is one of [roots] or can be reached from one of them by
                         following parent links of commits present in [g]
                         (an absent commit is reachable as an id but has no parents).
    [reach_list g roots] : executable enumeration of exactly that set (duplicate
                         free), total on every graph; [reachb] the membership test.
    Correctness lemmas: proofs/Graph_proofs.v ([reach_list_spec], [reachb_spec]). *)
From Coq Require Import List NArith ZArith Bool.
Import ListNotations.

Definition id := N.
Definition graph := list (id * (Z * list id)).

Fixpoint lookup (g : graph) (x : id) : option (Z * list id) :=
  match g with
  | [] => None
  | (y, c) :: r => if N.eqb x y then Some c else lookup r x
  end.

Definition has (g : graph) (x : id) : bool :=
  match lookup g x with Some _ => true | None => false end.
Definition parents (g : graph) (x : id) : option (list id) :=
  match lookup g x with Some (_, ps) => Some ps | None => None end.
(* parents of a present commit, [] for an absent one *)
Definition parents_of (g : graph) (x : id) : list id :=
  match lookup g x with Some (_, ps) => ps | None => [] end.
Definition ctime (g : graph) (x : id) : Z :=
  match lookup g x with Some (t, _) => t | None => 0%Z end.
Definition nodes (g : graph) : list id := map fst g.
Definition all_parents (g : graph) : list id := flat_map (fun e => snd (snd e)) g.

Definition mem (x : id) (l : list id) : bool := existsb (N.eqb x) l.

Inductive reach (g : graph) (roots : list id) : id -> Prop :=
| reach_root : forall x, In x roots -> reach g roots x
| reach_step : forall x y t ps,
    reach g roots x -> lookup g x = Some (t, ps) -> In y ps -> reach g roots y.

(** every parent of every present commit is present *)
Definition closed (g : graph) : Prop :=
  forall x t ps, lookup g x = Some (t, ps) -> forall p, In p ps -> lookup g p <> None.
Definition closedb (g : graph) : bool :=
  forallb (fun e => forallb (has g) (snd (snd e))) g.

(** the history below [roots] is complete in the store: every commit reachable from
    the roots (the roots included) is present.  [closed g] and present roots imply it. *)
Definition complete (g : graph) (roots : list id) : Prop :=
  forall x, reach g roots x -> lookup g x <> None.

(** worklist enumeration with a seen set: an id is pushed at most once *)
Fixpoint push_new (ps q seen : list id) : list id * list id :=
  match ps with
  | [] => (q, seen)
  | p :: r => if mem p seen then push_new r q seen else push_new r (p :: q) (p :: seen)
  end.

Fixpoint rl_loop (fuel : nat) (g : graph) (q seen popped : list id) : list id :=
  match fuel with
  | O => popped
  | S f =>
      match q with
      | [] => popped
      | x :: r =>
          let '(q', seen') := push_new (parents_of g x) r seen in
          rl_loop f g q' seen' (x :: popped)
      end
  end.

(* every id ever pushed is a root or a parent listed in g, each at most once *)
Definition rl_fuel (g : graph) (roots : list id) : nat :=
  S (length roots + length (all_parents g)).

Definition reach_list (g : graph) (roots : list id) : list id :=
  let '(q, seen) := push_new roots [] [] in
  rev (rl_loop (rl_fuel g roots) g q seen []).

Definition reachb (g : graph) (roots : list id) (x : id) : bool := mem x (reach_list g roots).

(** no commit is reachable from one of its own parents *)
Definition acyclic (g : graph) : Prop :=
  forall x t ps p, lookup g x = Some (t, ps) -> In p ps -> ~ reach g [p] x.
Definition acyclicb (g : graph) : bool :=
  forallb (fun e => forallb (fun p => negb (reachb g [p] (fst e))) (snd (snd e))) g.

(** common ancestors-or-self of a list of commits *)
Definition common_ancestor (g : graph) (cs : list id) (x : id) : Prop :=
  forall c, In c cs -> reach g [c] x.
Definition common_ancestorb (g : graph) (cs : list id) (x : id) : bool :=
  forallb (fun c => reachb g [c] x) cs.

(** the input at position [i] is [c], and it is an ancestor-or-self of the inputs at
    all other positions *)
Definition base_input (g : graph) (cs : list id) (i : nat) (c : id) : Prop :=
  nth_error cs i = Some c /\
  forall j d, nth_error cs j = Some d -> j <> i -> reach g [d] c.
