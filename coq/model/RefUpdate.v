(** C10 - "without force a ref only moves forward": executable model of the ref-update
    decision rules of fetch / push / merge / pull and of the ref store with logs.
    Definitions only (lemmas: proofs/RefUpdate_proofs.v).

    Transliterated from (code AS IT IS NOW):
      cmd/wrgl/fetch/root.go   identifyRefsToFetch, saveFetchedRefs (per-ref loop, tag rule,
                               ref.IsAncestorOf(db, oldSum, sum) gate), Fetch
      cmd/wrgl/push_cmd.go     identifyUpdates (same gate against the refs read from the remote)
      cmd/wrgl/merge_cmd.go    runMerge: base := SeekCommonAncestor(inputs); nonAncestral := inputs <> base;
                               0 -> identical, 1 -> fast-forward (or merge commit with --no-ff),
                               >=2 -> rejected with --ff-only, else merge commit over nonAncestral
      cmd/wrgl/pull_cmd.go     pullSingleRepo (refspecs given on the command line): fetch, merge heads =
                               destinations whose value differs from the branch, new-branch creation
                               (repaired 43d74b6: the branch is re-read after the fetch; [pull_step_prefix]
                               keeps the behaviour before the fix)
      pkg/ref/refs.go          SaveRef; pkg/ref/sql/store.go SetWithLog (old value read in the same
                               transaction), Delete (removes the ref's log)
      pkg/conf/refspec.go      DstForRef (exact / trailing-* glob; repaired 598c9ec: a ref shorter than the
                               glob prefix yields no destination instead of a slice panic)
    and, for push, the reference server's rule R1-R4 (harness/c09_server.go, trusted).

    The ancestry test and the merge base are PARAMETERS of every step function
    ([ia : commit -> commit -> bool], [sk : list commit -> seekres]); the theorems assume
    them sound (C11's theorems), the executable instance uses [is_ancestor g] / [seek_spec g].

    Exchange format (harness/c10.go uses the same):
      case  = (graph lrefs rrefs lhave op)
      graph = ((id (parent ...)) ...)           parents listed before children
      lrefs, rrefs = ((name id) ...)            name = ref name bytes without "refs/"; created by SaveRef, action 0
      lhave = (id ...)                          commits stored locally (closed under parents)
      op    = (0 gforce (spec ...))                          fetch;  spec  = (force glob src dst)
            | (1 gforce denyNonFF denyDeletes (pitem ...))   push;   pitem = (force (src)? dst)   src absent = delete
            | (2 mode branch (other ...) m)                  merge;  mode 0 ff | 1 no-ff | 2 ff-only; m = id of the
                                                             merge commit if one is created
            | (3 gforce mode branch (spec ...) m)            pull BRANCH origin SPEC...
            names in specs are without "refs/"; for a glob the name is the part before '*'
      obs   = (outcome nrej lrefs' rrefs')
      outcome 0 ok | 1 error (the harness reports a panic as 2; the model never does); nrej = number of
      rejections reported
      refs' = ((name id ((old? new action) ...)) ...) sorted by name, log newest first
      actions: 0 setup("commit") 1 fetch 2 merge 3 pull 4 receive-pack *)
From Coq Require Import List NArith Bool.
From W.lib Require Import Tree Bytes.
Import ListNotations.
Local Open Scope N_scope.

Definition commit := N.
Definition name := bytes.

(* ------------------------------------------------------------------ graph *)
Definition graph := list (commit * list commit).

Fixpoint parents (g : graph) (c : commit) : list commit :=
  match g with
  | [] => []
  | (x, ps) :: g' => if x =? c then ps else parents g' c
  end.

Definition cmem (c : commit) (l : list commit) : bool := existsb (N.eqb c) l.

Fixpoint add_all (acc xs : list commit) : list commit :=
  match xs with
  | [] => acc
  | x :: xs' => add_all (if cmem x acc then acc else acc ++ [x]) xs'
  end.

(** one pass over the graph, children first: a commit that is in the set brings its parents in.  On a graph
    that lists parents before children (every exchange case does) one pass over the reversed list already
    reaches the fixpoint; passes are repeated until the set stops growing (at most [length g] times), so the
    result does not depend on the listing order. *)
Fixpoint rev_pass (g : graph) (rg : graph) (s : list commit) : list commit :=
  match rg with
  | [] => s
  | (c, _) :: r => rev_pass g r (if cmem c s then add_all s (parents g c) else s)
  end.

Fixpoint close_fuel (g rg : graph) (fuel : nat) (s : list commit) : list commit :=
  match fuel with
  | O => s
  | S f => let s' := rev_pass g rg s in
           if Nat.eqb (length s') (length s) then s else close_fuel g rg f s'
  end.

(** ancestors-or-self of the commits in [s] *)
Definition anc_closure (g : graph) (s : list commit) : list commit := close_fuel g (rev g) (S (length g)) s.
Definition anc_set (g : graph) (c : commit) : list commit := anc_closure g [c].

(** executable instance of ref.IsAncestorOf(db, a, b): a is an ancestor-or-self of b *)
Definition is_ancestor (g : graph) (a b : commit) : bool := cmem a (anc_set g b).

(** specification: ancestor-or-self *)
Inductive anc (g : graph) : commit -> commit -> Prop :=
| anc_refl : forall a, anc g a a
| anc_step : forall a p b, In p (parents g b) -> anc g a p -> anc g a b.

(** result of ref.SeekCommonAncestor as far as ref updates depend on it *)
Inductive seekres := SInput (c : commit) | SOther | SNone.

Definition anc_of_all (g : graph) (c : commit) (cs : list commit) : bool :=
  forallb (fun d => is_ancestor g c d) cs.

(** specification-level merge base: the first input that is an ancestor-or-self of all
    inputs; else some non-input common ancestor if one exists; else none. *)
Definition seek_spec (g : graph) (cs : list commit) : seekres :=
  match find (fun c => anc_of_all g c cs) cs with
  | Some c => SInput c
  | None =>
    match cs with
    | [] => SNone
    | c0 :: _ => if existsb (fun x => anc_of_all g x cs) (anc_set g c0) then SOther else SNone
    end
  end.

(* -------------------------------------------------------------- ref names *)
Definition s_heads : name := [104;101;97;100;115;47].
Definition s_tags : name := [116;97;103;115;47].
Definition s_remotes : name := [114;101;109;111;116;101;115;47].
Definition s_txs : name := [116;120;115;47].

Inductive kind := KHead | KRemote | KTag | KCustom.

Definition kind_of (n : name) : kind :=
  if is_prefix s_heads n then KHead
  else if is_prefix s_tags n then KTag
  else if is_prefix s_remotes n then KRemote
  else KCustom.

Definition kind_is_tag (k : kind) : bool := match k with KTag => true | _ => false end.

(* ------------------------------------------------------------- decisions *)
Inductive action :=
| AUpToDate | ANew | AFastForward | AForced | ATagUpdate | ADelete | ANoop
| ARejectTag | ARejectNonFF.

Definition updates (a : action) : bool :=
  match a with ANew | AFastForward | AForced | ATagUpdate | ADelete => true | _ => false end.
Definition rejects (a : action) : bool :=
  match a with ARejectTag | ARejectNonFF => true | _ => false end.

(** saveFetchedRefs, body of the per-ref loop.  [present]: the destination ref exists;
    [same]: bytes.Equal(oldSum, sum); [ia]: ref.IsAncestorOf(db, oldSum, sum). *)
Definition fetch_decision (k : kind) (present same ia rforce gforce : bool) : action :=
  if present && same then AUpToDate
  else if present && kind_is_tag k then
    (if gforce || rforce then ATagUpdate else ARejectTag)
  else if negb present then ANew
  else if ia then AFastForward
  else if gforce || rforce then AForced
  else ARejectNonFF.

(** identifyUpdates.  [present]: the destination exists among the remote's refs; [src]: a source
    commit is given (absent = delete); [ia]: ref.IsAncestorOf(db, remoteValue, sum). *)
Definition push_decision (k : kind) (present same src ia rforce gforce : bool) : action :=
  if present then
    if same then AUpToDate
    else if negb src then ADelete
    else if kind_is_tag k then (if gforce || rforce then ATagUpdate else ARejectTag)
    else if ia then AFastForward
    else if gforce || rforce then AForced
    else ARejectNonFF
  else if src then ANew else ANoop.

Inductive mmode := MFF | MNoFF | MFFOnly.
Inductive maction := MIdentical | MFastForward | MCommitAll | MCommitNonAnc | MRejectNonFF.

(** runMerge after SeekCommonAncestor: [k] = number of inputs different from the base *)
Definition merge_decision (mode : mmode) (k : nat) : maction :=
  match k with
  | O => MIdentical
  | S O => match mode with MNoFF => MCommitAll | _ => MFastForward end
  | _ => match mode with MFFOnly => MRejectNonFF | _ => MCommitNonAnc end
  end.

(* -------------------------------------------------------------- ref store *)
Record logent := mk_log { l_old : option commit; l_new : commit; l_act : N }.
Definition rstore := list (name * (commit * list logent)).

Fixpoint rget (s : rstore) (n : name) : option commit :=
  match s with
  | [] => None
  | (m, (v, _)) :: s' => if beqb m n then Some v else rget s' n
  end.

Fixpoint rlogs (s : rstore) (n : name) : list logent :=
  match s with
  | [] => []
  | (m, (_, lg)) :: s' => if beqb m n then lg else rlogs s' n
  end.

(** ref.SaveRef = Store.SetWithLog: one transaction reads the old value, upserts the ref and
    appends (old, new, action) to the ref's log *)
Fixpoint rset_log (s : rstore) (n : name) (c : commit) (act : N) : rstore :=
  match s with
  | [] => [(n, (c, [mk_log None c act]))]
  | (m, (v, lg)) :: s' =>
    if beqb m n then (m, (c, mk_log (Some v) c act :: lg)) :: s'
    else (m, (v, lg)) :: rset_log s' n c act
  end.

(** Store.Delete: removes the ref and its log *)
Fixpoint rdel (s : rstore) (n : name) : rstore :=
  match s with
  | [] => []
  | (m, e) :: s' => if beqb m n then s' else (m, e) :: rdel s' n
  end.

Definition ACT_SETUP : N := 0.
Definition ACT_FETCH : N := 1.
Definition ACT_MERGE : N := 2.
Definition ACT_PULL : N := 3.
Definition ACT_RECV : N := 4.

(* ------------------------------------------------------------ transitions *)
Inductive side := Local | Remote.
Record trans := mk_trans {
  t_side : side; t_name : name; t_old : option commit; t_new : option commit; t_forced : bool }.

Definition opt_ceqb (o : option commit) (c : commit) : bool :=
  match o with Some x => x =? c | None => false end.
Definition is_some {A} (o : option A) : bool := match o with Some _ => true | None => false end.

Record state := mk_state { lrefs : rstore; rrefs : rstore; lhave : list commit }.

(* ------------------------------------------------------------------ fetch *)
Record refspec := mk_spec { rs_force : bool; rs_glob : bool; rs_src : name; rs_dst : name }.

(** Refspec.DstForRef on "refs/"-prefixed names (the common "refs/" is dropped on both sides).
    For a glob the ref must be at least as long as, and start with, the part before '*'
    (repaired: a shorter ref used to make p[:srcStarInd] panic; it now yields no destination). *)
Definition dst_for_ref (sp : refspec) (r : name) : option name :=
  if rs_glob sp then
    if Nat.ltb (length r) (length (rs_src sp)) then None
    else if is_prefix (rs_src sp) r then Some (rs_dst sp ++ skipn (length (rs_src sp)) r)
    else None
  else if beqb (rs_src sp) r then Some (rs_dst sp) else None.

Record fitem := mk_fitem { fi_src : name; fi_dst : name; fi_new : commit; fi_force : bool }.

(** what GET /refs/ returns: everything except remote-tracking and transaction refs *)
Definition listing (s : rstore) : list (name * commit) :=
  flat_map (fun e : name * (commit * list logent) =>
              let n := fst e in
              if is_prefix s_remotes n || is_prefix s_txs n then [] else [(n, fst (snd e))]) s.

Definition items_of_ref (specs : list refspec) (r : name) (c : commit) : list fitem :=
  flat_map (fun sp => match dst_for_ref sp r with
                      | Some d => [mk_fitem r d c (rs_force sp)]
                      | None => []
                      end) specs.

(** identifyRefsToFetch: (refs to fetch, uncovered tags) *)
Definition resolve_fetch (specs : list refspec) (l : list (name * commit))
  : list fitem * list (name * commit) :=
  fold_left (fun (acc : list fitem * list (name * commit)) (e : name * commit) =>
               let its' := items_of_ref specs (fst e) (snd e) in
               (fst acc ++ its',
                if match its' with [] => is_prefix s_tags (fst e) | _ => false end
                then snd acc ++ [e] else snd acc)) l ([], []).

Fixpoint insert_item (it : fitem) (l : list fitem) : list fitem :=
  match l with
  | [] => [it]
  | x :: l' => if klt [fi_src it; fi_dst it] [fi_src x; fi_dst x] then it :: l else x :: insert_item it l'
  end.
Definition sort_items (l : list fitem) : list fitem := fold_left (fun acc it => insert_item it acc) l [].

Definition facc := (rstore * list trans * nat)%type.

(** one iteration of the loop of saveFetchedRefs *)
Definition fetch_item (ia : commit -> commit -> bool) (gforce : bool) (acc : facc) (it : fitem) : facc :=
  let '(s, tr, nrej) := acc in
  let old := rget s (fi_dst it) in
  let a := fetch_decision (kind_of (fi_dst it)) (is_some old) (opt_ceqb old (fi_new it))
                          (match old with Some o => ia o (fi_new it) | None => false end)
                          (fi_force it) gforce in
  if updates a then
    (rset_log s (fi_dst it) (fi_new it) ACT_FETCH,
     tr ++ [mk_trans Local (fi_dst it) old (Some (fi_new it)) (gforce || fi_force it)], nrej)
  else (s, tr, if rejects a then S nrej else nrej).

Definition fetch_loop ia gforce (s : rstore) (items : list fitem) : facc :=
  fold_left (fetch_item ia gforce) items (s, [], O).

Record result := mk_result { r_state : state; r_trace : list trans; r_outcome : N; r_nrej : nat }.

(** fetch.Fetch: identifyRefsToFetch; fetchObjects; saveFetchedRefs.  [recv] stands for fetchObjects:
    given the advertised commits it answers the set of commits stored afterwards, or None when the
    transfer failed (then no ref is written).  model/Session.v plugs the upload-pack session in. *)
Definition fetch_step_h (ia : commit -> commit -> bool) (st : state)
           (specs : list refspec) (gforce : bool) (recv : list commit -> option (list commit)) : result :=
  let '(items, tags) := resolve_fetch specs (listing (rrefs st)) in
  match recv (map fi_new items) with
  | None => mk_result st [] 1 O
  | Some have' =>
    (* tags not covered by a refspec are stored when their commit is present and the name is free *)
    let extra := flat_map (fun e : name * commit =>
                             if cmem (snd e) have' && negb (is_some (rget (lrefs st) (fst e)))
                             then [mk_fitem (fst e) (fst e) (snd e) false] else []) tags in
    let '(s', tr, nrej) := fetch_loop ia gforce (lrefs st) (sort_items (items ++ extra)) in
    mk_result (mk_state s' (rrefs st) have') tr (match nrej with O => 0 | _ => 1 end) nrej
  end.

(** C10's view of fetchObjects: every advertised commit arrives with all its ancestors (C09) *)
Definition fetch_step (g : graph) (ia : commit -> commit -> bool) (st : state)
           (specs : list refspec) (gforce : bool) : result :=
  fetch_step_h ia st specs gforce (fun adv => Some (add_all (lhave st) (anc_closure g adv))).

(* ------------------------------------------------------------------- push *)
Record pitem := mk_pitem { pi_force : bool; pi_src : option name; pi_dst : name }.

Record update := mk_upd { u_dst : name; u_old : option commit; u_new : option commit; u_forced : bool }.

Fixpoint lookup (l : list (name * commit)) (n : name) : option commit :=
  match l with
  | [] => None
  | (m, v) :: l' => if beqb m n then Some v else lookup l' n
  end.

(** identifyUpdates over the refs read from the remote; None = an unresolvable source (error) *)
Fixpoint identify_updates (ia : commit -> commit -> bool) (gforce : bool) (local : rstore)
         (snapshot : list (name * commit)) (items : list pitem) : option (list update * nat) :=
  match items with
  | [] => Some ([], O)
  | it :: rest =>
    match (match pi_src it with
           | None => Some None
           | Some n => match rget local n with Some c => Some (Some c) | None => None end
           end) with
    | None => None
    | Some sum =>
      match identify_updates ia gforce local snapshot rest with
      | None => None
      | Some (us, nrej) =>
        let v := lookup snapshot (pi_dst it) in
        let a := push_decision (kind_of (pi_dst it)) (is_some v)
                               (match v, sum with Some x, Some y => x =? y | _, _ => false end)
                               (is_some sum)
                               (match v, sum with Some x, Some y => ia x y | _, _ => false end)
                               (pi_force it) gforce in
        if updates a then Some (mk_upd (pi_dst it) v sum (gforce || pi_force it) :: us, nrej)
        else Some (us, if rejects a then S nrej else nrej)
      end
    end
  end.

Definition oeqb (a b : option commit) : bool :=
  match a, b with
  | Some x, Some y => x =? y
  | None, None => true
  | _, _ => false
  end.

(** the reference server's rule R1..R4 for one update (harness/c09_server.go c09ApplyUpdates);
    R3 (commit stored) holds because the objects were received (C09) *)
Definition server_apply (ia : commit -> commit -> bool) (denyNonFF denyDeletes : bool)
           (acc : facc) (u : update) : facc :=
  let '(s, tr, nrej) := acc in
  let cur := rget s (u_dst u) in
  if negb (oeqb cur (u_old u)) then (s, tr, S nrej)                               (* R1 *)
  else match u_new u with
       | None => if denyDeletes then (s, tr, S nrej)                               (* R2 *)
                 else (rdel s (u_dst u), tr ++ [mk_trans Remote (u_dst u) cur None (u_forced u)], nrej)
       | Some c =>
         if match cur with Some o => denyNonFF && negb (ia o c) | None => false end
         then (s, tr, S nrej)                                                      (* R4 *)
         else (rset_log s (u_dst u) c ACT_RECV,
               tr ++ [mk_trans Remote (u_dst u) cur (Some c) (u_forced u)], nrej)
       end.

Fixpoint insert_upd (u : update) (l : list update) : list update :=
  match l with
  | [] => [u]
  | x :: l' => if blt (u_dst u) (u_dst x) then u :: l else x :: insert_upd u l'
  end.
Definition sort_upds (l : list update) : list update := fold_left (fun acc u => insert_upd u acc) l [].

Definition push_step (g : graph) (ia : commit -> commit -> bool) (st : state)
           (items : list pitem) (gforce denyNonFF denyDeletes : bool) : result :=
  match identify_updates ia gforce (lrefs st) (listing (rrefs st)) items with
  | None => mk_result st [] 1 O
  | Some (us, nrej) =>
    let '(s', tr, nrej') := fold_left (server_apply ia denyNonFF denyDeletes) (sort_upds us) (rrefs st, [], nrej) in
    mk_result (mk_state (lrefs st) s' (lhave st)) tr 0 nrej'
  end.

(* ------------------------------------------------------------------ merge *)
Fixpoint ceq_list (a b : list commit) : bool :=
  match a, b with
  | [], [] => true
  | x :: a', y :: b' => (x =? y) && ceq_list a' b'
  | _, _ => false
  end.

Definition non_ancestral (base : seekres) (cs : list commit) : list commit :=
  match base with
  | SInput b => filter (fun c => negb (c =? b)) cs
  | _ => cs
  end.

(** runMerge on already resolved inputs [cs] = branch value :: other commits.
    [m] is the merge commit a merging outcome creates; its parents (content addressing:
    a commit's identity determines its parents) must be the ones runMerge passes. *)
Definition merge_core (g : graph) (sk : list commit -> seekres) (s : rstore) (branch : name)
           (cs : list commit) (mode : mmode) (m : commit) : rstore * list trans * N * nat :=
  match sk cs with
  | SNone => (s, [], 1, O)
  | base =>
    let na := non_ancestral base cs in
    let old := rget s branch in
    match merge_decision mode (length na) with
    | MIdentical => (s, [], 0, O)
    | MFastForward =>
      match na with
      | x :: _ => (rset_log s branch x ACT_MERGE, [mk_trans Local branch old (Some x) false], 0, O)
      | [] => (s, [], 0, O)
      end
    | MCommitAll =>
      if ceq_list (parents g m) cs
      then (rset_log s branch m ACT_MERGE, [mk_trans Local branch old (Some m) false], 0, O)
      else (s, [], 3, O)
    | MCommitNonAnc =>
      if ceq_list (parents g m) na
      then (rset_log s branch m ACT_MERGE, [mk_trans Local branch old (Some m) false], 0, O)
      else (s, [], 3, O)
    | MRejectNonFF => (s, [], 1, S O)
    end
  end.

(** ref.InterpretCommitName(..., excludeTag = true) on a full ref name *)
Definition resolve_commitish (s : rstore) (n : name) : option commit :=
  if is_prefix s_tags n then None else rget s n.

Fixpoint resolve_all (s : rstore) (ns : list name) : option (list commit) :=
  match ns with
  | [] => Some []
  | n :: rest =>
    match resolve_commitish s n, resolve_all s rest with
    | Some c, Some cs => Some (c :: cs)
    | _, _ => None
    end
  end.

Definition merge_step (g : graph) (sk : list commit -> seekres) (st : state)
           (branch : name) (others : list name) (mode : mmode) (m : commit) : result :=
  let bn := s_heads ++ branch in
  match rget (lrefs st) bn, resolve_all (lrefs st) others with
  | Some b, Some cs =>
    let '(s', tr, out, nrej) := merge_core g sk (lrefs st) bn (b :: cs) mode m in
    mk_result (mk_state s' (rrefs st) (lhave st)) tr out nrej
  | _, _ => mk_result st [] 1 O
  end.

(* ------------------------------------------------------------------- pull *)
(** [fixed] = true: the code as it is now (the branch is re-read after the fetch: if the fetch half
    created it, the pull goes on as for an existing branch); false: the code before fix 43d74b6, where
    "new branch" was decided once, before the fetch. *)
Definition pull_step_gen (fixed : bool) (g : graph) (ia : commit -> commit -> bool)
           (sk : list commit -> seekres)
           (st : state) (branch : name) (specs : list refspec) (gforce : bool) (mode : mmode)
           (m : commit) : result :=
  let bn := s_heads ++ branch in
  let newbranch0 := negb (is_some (rget (lrefs st) bn)) in
  let rf := fetch_step g ia st specs gforce in
  if negb (r_outcome rf =? 0) then rf else
  let st1 := r_state rf in
  let newbranch := if fixed then newbranch0 && negb (is_some (rget (lrefs st1) bn)) else newbranch0 in
  (* extractMergeHeads reads the branch only when it is not a new branch *)
  let old := if newbranch then None else rget (lrefs st1) bn in
  (* merge heads: destinations of the given refspecs that exist and differ from the branch *)
  let heads := flat_map (fun sp : refspec =>
                           match rget (lrefs st1) (rs_dst sp) with
                           | Some c => if oeqb (Some c) old then [] else [(rs_dst sp, c)]
                           | None => []
                           end) specs in
  if newbranch then
    match heads with
    | [(hn, _)] =>
      match resolve_commitish (lrefs st1) hn with
      | Some c =>
        mk_result (mk_state (rset_log (lrefs st1) bn c ACT_PULL) (rrefs st1) (lhave st1))
                  (r_trace rf ++ [mk_trans Local bn (rget (lrefs st1) bn) (Some c) false]) 0 (r_nrej rf)
      | None => mk_result st1 (r_trace rf) 1 (r_nrej rf)
      end
    | _ => mk_result st1 (r_trace rf) 1 (r_nrej rf)
    end
  else
    match heads with
    | [] => rf
    | _ =>
      match old, resolve_all (lrefs st1) (map fst heads) with
      | Some b, Some cs =>
        let '(s', tr, out, nrej) := merge_core g sk (lrefs st1) bn (b :: cs) mode m in
        mk_result (mk_state s' (rrefs st1) (lhave st1)) (r_trace rf ++ tr) out (r_nrej rf + nrej)
      | _, _ => mk_result st1 (r_trace rf) 1 (r_nrej rf)
      end
    end.

Definition pull_step := pull_step_gen true.
Definition pull_step_prefix := pull_step_gen false.

(* --------------------------------------------------------------- histories *)
Inductive op :=
| OFetch (specs : list refspec) (gforce : bool)
| OPush (items : list pitem) (gforce denyNonFF denyDeletes : bool)
| OMerge (branch : name) (others : list name) (mode : mmode) (m : commit)
| OPull (branch : name) (specs : list refspec) (gforce : bool) (mode : mmode) (m : commit).

Definition step (g : graph) ia sk (st : state) (o : op) : result :=
  match o with
  | OFetch specs gf => fetch_step g ia st specs gf
  | OPush items gf dn dd => push_step g ia st items gf dn dd
  | OMerge b os mode m => merge_step g sk st b os mode m
  | OPull b specs gf mode m => pull_step g ia sk st b specs gf mode m
  end.

(** a history: the ops run one after the other, whatever their outcomes *)
Fixpoint run_ops (g : graph) ia sk (st : state) (ops : list op) : state * list trans :=
  match ops with
  | [] => (st, [])
  | o :: rest =>
    let r := step g ia sk st o in
    let '(st', tr) := run_ops g ia sk (r_state r) rest in
    (st', r_trace r ++ tr)
  end.

(* ------------------------------------------------------------ tree coders *)
Definition d_graph (t : tree) : graph :=
  d_list (fun e => (d_N (d_nth 0 e), d_list d_N (d_nth 1 e))) t.
Definition d_refs (t : tree) : rstore :=
  fold_left (fun s e => rset_log s (d_bytes (d_nth 0 e)) (d_N (d_nth 1 e)) ACT_SETUP) (d_list (fun x => x) t) [].
Definition d_spec (t : tree) : refspec :=
  mk_spec (d_bool (d_nth 0 t)) (d_bool (d_nth 1 t)) (d_bytes (d_nth 2 t)) (d_bytes (d_nth 3 t)).
Definition d_pitem (t : tree) : pitem :=
  mk_pitem (d_bool (d_nth 0 t)) (d_opt d_bytes (d_nth 1 t)) (d_bytes (d_nth 2 t)).
Definition d_mode (t : tree) : mmode :=
  match d_N t with 1 => MNoFF | 2 => MFFOnly | _ => MFF end.
Definition d_op (t : tree) : op :=
  match d_N (d_nth 0 t) with
  | 0 => OFetch (d_list d_spec (d_nth 2 t)) (d_bool (d_nth 1 t))
  | 1 => OPush (d_list d_pitem (d_nth 4 t)) (d_bool (d_nth 1 t)) (d_bool (d_nth 2 t)) (d_bool (d_nth 3 t))
  | 2 => OMerge (d_bytes (d_nth 2 t)) (d_list d_bytes (d_nth 3 t)) (d_mode (d_nth 1 t)) (d_N (d_nth 4 t))
  | _ => OPull (d_bytes (d_nth 3 t)) (d_list d_spec (d_nth 4 t)) (d_bool (d_nth 1 t)) (d_mode (d_nth 2 t)) (d_N (d_nth 5 t))
  end.

Fixpoint insert_ref (e : name * (commit * list logent)) (l : rstore) : rstore :=
  match l with
  | [] => [e]
  | x :: l' => if blt (fst e) (fst x) then e :: l else x :: insert_ref e l'
  end.
Definition sort_refs (s : rstore) : rstore := fold_left (fun acc e => insert_ref e acc) s [].

Definition t_log (e : logent) : tree :=
  Node [t_opt Leaf (l_old e); Leaf (l_new e); Leaf (l_act e)].
Definition t_refs (s : rstore) : tree :=
  t_list (fun e : name * (commit * list logent) =>
            Node [t_bytes (fst e); Leaf (fst (snd e)); t_list t_log (snd (snd e))]) (sort_refs s).

Definition run_C10 (t : tree) : tree :=
  let g := d_graph (d_nth 0 t) in
  let st := mk_state (d_refs (d_nth 1 t)) (d_refs (d_nth 2 t)) (d_list d_N (d_nth 3 t)) in
  let r := step g (is_ancestor g) (seek_spec g) st (d_op (d_nth 4 t)) in
  Node [Leaf (r_outcome r); t_nat (r_nrej r); t_refs (lrefs (r_state r)); t_refs (rrefs (r_state r))].
