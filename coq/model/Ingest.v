(** Model of table ingestion: pkg/ingest/{ingest.go, inserter.go}, slice.KeyIndices,
    objects.IndexBlockFromBytes / BlockIndex.Get, doctor.diagnoseCommit,
    diff.RowToBlockAndOffset and the decision of commitIfBranchFileHasChanged.
    (C01, C02, C03; the sorter is model/Sorter.v.)

    A row is [list bytes], a block is a list of rows, a block index is its decoded
    content; byte encodings are C06's business.  The store is content addressed: an
    object's "sum" is represented by the object itself (hash injectivity is an explicit
    hypothesis where identity matters, C02).  The hash of a cell list enters only through
    the Section variable [H] (MeowHash of the StrList encoding).

    Transliterated: KeyIndices (including "every matching column is appended"),
    ensureColumnNamesAreNotEmpty, insertBlock (save block, index it, record the async
    block), the arrival of async blocks in ANY order ([arrive], a permutation standing
    for worker scheduling), sortBlocks by offset, the table object, the table index,
    and the order of writes (blocks and indices, table index, table LAST); the panic of
    the block indexer on key indices that repeat a column (unreachable through KeyIndices).
    Not modelled: profile, progress bar, store I/O errors, uint32 wrap of RowsCount
    (fewer than 2^32 rows), compression.

    Exchange formats (mirrored by harness/c01.go, c03.go, c02.go):
      table case  = (kind columns pknames rows runSize arrival goparams)
         kind      0 = ingest.IngestTable + object read-back; 1 = wrgl commit + wrgl export;
                   2 = Sorter.AddRow for every row + Inserter.IngestTableFromSorter (no CSV);
                   C03 only, same model path (the model ingests [rows]; an eighth, Go-only
                   element carries the producer's extra input):
                   4 = merge result: rows = three-way merge of (base b1 b2) computed by the
                       harness, committed like cmd/wrgl commitMergeResult;
                   5 = doctor re-ingest of a stored table holding [rows] (with duplicates)
                       in this order; 6 = receipt of the ingested CSV through
                       ObjectSender / packfile / ObjectReceiver
         columns   node of cells (header), pknames node of cells, rows node of rows
         runSize   leaf; arrival node of leaves: scheduling keys, block i arrives in the
                   order of (arrival[i mod len], i)  (model only; Go schedules for real)
         goparams  (workers delimiter deps)  (Go only; deps = optional forced worker schedule)
      C01 observation = (status columns pk rowcount (block ...) export)
         status 0 ok | 1 error (unknown key column / cell over the limit) | 2 panic, rest empty
         block = node of crows; export = node of crows (header first) for kind 1, else ()
         crow = (0 cell ...) the row, or (1 keycell ...) when its key is ambiguous: some single
         run holds two different rows with that key (survivor depends on the unstable sort)
      C03 also has the case (3 nrows workers): a table of nrows rows with unique keys generated
         by the harness; observation (status rows nblocks nindices allreadable), computed by the
         model arithmetically (nblocks = nindices = ceil(nrows/255)), see run_C03_large
      C03 observation = (status rowcount (block ...) tblidx (blkidx ...) nidx diag)
         tblidx node of keys; blkidx = node of (key crow) per position; nidx = number of
         block indices; diag = 0 (no issue) or the issue code 1..6
      C02 case = (columns pknames (variant ...) (mutant ...) cli)
         variant = (rows runSize arrival goparams) -- the same logical table, permuted
         mutant  = (columns pknames rows)          -- differs in one cell / name / order / key
         cli     = 1: also drive commitIfBranchFileHasChanged four times (see harness/c02.go);
                   2: branch-file mode WITH the cache: a sixth element lists steps
                   (delta+100000 content all): write content 0/1/2 (variant 0 / variant 1 /
                   mutant 0), set the file's mtime to the cached commit's time + delta ms,
                   run wrgl commit BRANCH MSG (all = 1: commit --all)
      C02 observation = (status (block ...) (same ...) (differs ...) (cli ...))
         blocks of variant 0; same_i = table of variant i+1 equals that of variant 0;
         differs_j = table of mutant j differs from variant 0 (2 = mutant refused);
         cli = (for cli = 2) "a commit is created" for: first commit, the commit that creates
         the cache, every step;  (for cli = 1) () or the four decisions "a commit is created" for: first commit, unchanged
         file, file rewritten with variant 1, file rewritten with mutant 0. *)
From W.lib Require Import Tree Bytes GoSort.
From W.model Require Import Sorter.
From Coq Require Import Arith.
Local Open Scope N_scope.

(** slice.KeyIndices: for every key name, the indices of ALL columns carrying it (the
    loop says [continue], not [break]); error when a name matches no column, and error
    "specified more than once" when a matching column was already taken by the key *)
Fixpoint indices_of (k : bytes) (i : nat) (cols : list bytes) : list nat :=
  match cols with
  | [] => []
  | c :: cols' => if beqb c k then i :: indices_of k (S i) cols' else indices_of k (S i) cols'
  end.
Fixpoint key_indices_loop (cols names : list bytes) (seen : list nat) : option (list nat) :=
  match names with
  | [] => Some []
  | k :: names' =>
      let l := indices_of k 0 cols in
      if existsb (fun i => existsb (Nat.eqb i) seen) l then None
      else match l with
           | [] => None
           | _ => match key_indices_loop cols names' (l ++ seen) with
                  | None => None
                  | Some r => Some (l ++ r)
                  end
           end
  end.
Definition key_indices (cols names : list bytes) : option (list nat) := key_indices_loop cols names [].

(** ensureColumnNamesAreNotEmpty: empty names become unnamed__<j>, j counting up from 1
    past names already taken *)
Fixpoint dec_of (fuel : nat) (n : N) (acc : bytes) : bytes :=
  match fuel with
  | O => acc
  | S f => let acc' := (48 + n mod 10) :: acc in
           if n / 10 =? 0 then acc' else dec_of f (n / 10) acc'
  end.
Definition decimal (n : N) : bytes := dec_of (S (N.to_nat (N.log2 n))) n [].
Definition unnamed (j : N) : bytes := [117; 110; 110; 97; 109; 101; 100; 95; 95] ++ decimal j.
Definition name_taken (m : list bytes) (s : bytes) : bool := existsb (beqb s) m.
Fixpoint find_unnamed (fuel : nat) (m : list bytes) (j : N) : N :=
  match fuel with
  | O => j
  | S f => if name_taken m (unnamed j) then find_unnamed f m (j + 1) else j
  end.
Fixpoint ensure_names_loop (cols : list bytes) (m : list bytes) (j : N) : list bytes :=
  match cols with
  | [] => []
  | s :: cols' =>
      match s with
      | [] => let j' := find_unnamed (S (length m)) m j in
              unnamed j' :: ensure_names_loop cols' (unnamed j' :: m) j'
      | _ => s :: ensure_names_loop cols' m j
      end
  end.
Definition ensure_names (cols : list bytes) : list bytes := ensure_names_loop cols cols 1.

(** block index: per row position (hash of key, hash of row); positions sorted by key hash *)
Record blkidx := mk_blkidx { bi_rows : list (N * N); bi_sorted : list nat }.

Fixpoint insert_hp (e : N * nat) (l : list (N * nat)) : list (N * nat) :=
  match l with
  | [] => [e]
  | x :: l' => if fst e <? fst x then e :: l else x :: insert_hp e l'
  end.
Definition sorted_off (rows : list (N * N)) : list nat :=
  map snd (fold_right insert_hp [] (combine (map fst rows) (seq 0 (length rows)))).

Section Index.
  Variable H : list bytes -> N.
  (** IndexBlockFromBytes / IndexBlock: without a key the key hash is the row hash *)
  Definition index_entry (pk : list nat) (r : row) : N * N :=
    match pk with [] => (H r, H r) | _ => (H (key_of pk r), H r) end.
  Definition index_block (pk : list nat) (blk : list row) : blkidx :=
    let rows := map (index_entry pk) blk in mk_blkidx rows (sorted_off rows).
End Index.

(** BlockIndex.Get *)
Definition idx_get (idx : blkidx) (h : N) : option (nat * N) :=
  let n := length (bi_rows idx) in
  let at_sorted i := nth (nth i (bi_sorted idx) O) (bi_rows idx) (0, 0) in
  let i := search n (fun i => h <=? fst (at_sorted i)) in
  if (n <=? i)%nat then None
  else let j := nth i (bi_sorted idx) O in
       let e := nth j (bi_rows idx) (0, 0) in
       if fst e =? h then Some (j, snd e) else None.

Record table := mk_table {
  t_columns : list bytes;
  t_pk : list nat;
  t_rowscount : N;
  t_blocks : list (list row);     (* block sums, as contents *)
  t_blockidx : list blkidx        (* block index sums, as contents *)
}.
Definition rows_of (T : table) : list row := concat (t_blocks T).

Record asyncblock := mk_ab {
  ab_offset : nat; ab_rows : list row; ab_idx : blkidx; ab_pk : key; ab_count : nat }.

(** objects written to the store, in order *)
Inductive wobj :=
| WBlock (rows : list row)
| WBlockIdx (i : blkidx)
| WTableIdx (T : table) (keys : list key)
| WTable (T : table).

(** Inserter.sortBlocks: sort.Slice by Offset *)
Fixpoint insert_ab (a : asyncblock) (l : list asyncblock) : list asyncblock :=
  match l with
  | [] => [a]
  | x :: l' => if (ab_offset a <? ab_offset x)%nat then a :: l else x :: insert_ab a l'
  end.
Definition sort_blocks (l : list asyncblock) : list asyncblock := fold_right insert_ab [] l.

Inductive ingest_result :=
| IOk (T : table) (tidx : list key)
| IErrKey          (* KeyIndices: key column not found, or specified more than once *)
| IErrCell         (* AddRow: cell value is too long *)
| IPanic           (* key indices repeating a column handed directly to the inserter: PickFrom panics *)
| IFuel.           (* model artefact: never (proved) *)

(** a key index list with a repeated column *)
Fixpoint has_dup (l : list nat) : bool :=
  match l with [] => false | x :: l' => existsb (Nat.eqb x) l' || has_dup l' end.

Section Ingest.
  Variable H : list bytes -> N.
  Variable sort_rows : list nat -> list row -> list row.
  Variable arrive : list asyncblock -> list asyncblock.

  (** insertBlock for one block: SaveBlock, IndexBlockFromBytes + SaveBlockIndex, record *)
  Definition save_block (pk : list nat) (b : sblock) : asyncblock :=
    mk_ab (b_offset b) (b_rows b) (index_block H pk (b_rows b)) (b_pk b) (length (b_rows b)).

  (** ingestTableFromBlocks *)
  Definition ingest_blocks (columns : list bytes) (pk : list nat) (bs : list sblock)
    : table * list key * list wobj :=
    let arrived := arrive (map (save_block pk) bs) in
    let wr := concat (map (fun a => [WBlock (ab_rows a); WBlockIdx (ab_idx a)]) arrived) in
    let rowsCount := fold_left (fun n a => n + N.of_nat (ab_count a)) arrived 0 in
    let sorted := sort_blocks arrived in
    let T := mk_table (ensure_names columns) pk rowsCount (map ab_rows sorted) (map ab_idx sorted) in
    let tidx := map ab_pk sorted in
    (T, tidx, wr ++ [WTableIdx T tidx; WTable T]).

  (** IngestTableFromSorter.  KeyIndices never returns a repeated column; if a caller
      sets key indices that repeat one directly, indexing the first block panics
      ("corrupted strList bytes", StrListEditor.findOffsets via PickFrom) in the worker
      goroutine and the process dies; what was written before is not modelled. *)
  Definition ingest_from_sorter (columns : list bytes) (pk : list nat) (s : sorter)
    : ingest_result * list wobj :=
    match sorted_blocks sort_rows pk (length columns) [] s with
    | None => (IFuel, [])
    | Some bs =>
        if has_dup pk && negb (match bs with [] => true | _ => false end) then (IPanic, [])
        else let '(T, tidx, w) := ingest_blocks columns pk bs in (IOk T tidx, w)
    end.

  (** ingestTable: SortFile (header, KeyIndices, AddRow for every record) then the above *)
  Definition ingest_table (run_size : N) (columns pknames : list bytes) (rows : list row)
    : ingest_result * list wobj :=
    match key_indices columns pknames with
    | None => (IErrKey, [])
    | Some pk =>
        match add_rows sort_rows run_size pk new_sorter rows with
        | None => (IErrCell, [])
        | Some s => ingest_from_sorter columns pk s
        end
    end.
End Ingest.

(** diff.RowToBlockAndOffset *)
Definition row_to_block_and_offset (row : nat) : nat * nat :=
  let blk := (row / block_size)%nat in (blk, (row - blk * block_size)%nat).

(** doctor.diagnoseCommit on a stored table (with the first-row flag) *)
Inductive issue := IssPkIndex | IssPkEmpty | IssDupRows | IssRowsCount | IssIdxCount | IssIdxRows.
Fixpoint dup_scan (prev : row) (first : bool) (rows : list row) : bool :=
  match rows with
  | [] => false
  | r :: rows' => if negb first && row_eqb r prev then true else dup_scan r false rows'
  end.
Definition diagnose (T : table) : option issue :=
  let n := length (t_columns T) in
  if existsb (fun k => (n <=? k)%nat) (t_pk T) then Some IssPkIndex
  else if existsb (fun k => match nth k (t_columns T) [] with [] => true | _ => false end) (t_pk T)
  then Some IssPkEmpty
  else if dup_scan (repeat [] n) true (rows_of T) then Some IssDupRows
  else if negb (N.of_nat (length (rows_of T)) =? t_rowscount T) then Some IssRowsCount
  else if negb (Nat.eqb (length (t_blockidx T)) (length (t_blocks T))) then Some IssIdxCount
  else if negb (N.of_nat (fold_left (fun a i => (a + length (bi_rows i))%nat) (t_blockidx T) O) =? t_rowscount T)
  then Some IssIdxRows
  else None.

(** commitIfBranchFileHasChanged: commit unless the branch head's table id equals the
    id of the freshly ingested table.  [true] = a commit is created. *)
Definition commit_if_changed (head_table : option N) (tmp_table : N) : bool :=
  match head_table with Some old => negb (old =? tmp_table) | None => true end.

(** ensureTempCommit, the cache in front of that decision (branch-file mode: wrgl commit
    BRANCH MSG, commit --all).  The last ingestion of branch.file is kept as the commit
    <branch>-tmp; it is reused unless its message is not the file name, its key differs, or
    its time is BEFORE the file's modification time (com.Time.Before(fd.ModTime())).  Times
    in milliseconds; the commit time is stored with second precision (rounded down), the
    modification time is not rounded.  File name and key are constant here. *)
Definition cache_fresh (commit_time mtime : N) : bool := negb (commit_time <? mtime).

Record cstate := mk_cstate {
  cs_head : option N;             (* table id of the branch head *)
  cs_cache : option (N * N)       (* <branch>-tmp: (commit time, table id) *)
}.
(** one `wrgl commit BRANCH MSG`: [mtime] of the file, [now] = commit time if the file is
    ingested again, [table] = id of the table the file holds.  Result: new state, and whether
    a commit was created on the branch. *)
Definition branch_commit_step (st : cstate) (mtime now table : N) : cstate * bool :=
  let used := match cs_cache st with
              | Some (t, tb) => if cache_fresh t mtime then (t, tb) else (now, table)
              | None => (now, table)
              end in
  let created := commit_if_changed (cs_head st) (snd used) in
  (mk_cstate (if created then Some (snd used) else cs_head st) (Some used), created).

(** ------------------------------------------------------------------ *)
(** tree coders and run functions (trusted only by the correspondence)  *)

(** arrival order from scheduling keys: block i gets key ks[i mod |ks|]; stable sort *)
Fixpoint insert_keyed (e : nat * asyncblock) (l : list (nat * asyncblock)) :=
  match l with
  | [] => [e]
  | x :: l' => if (fst e <? fst x)%nat then e :: l else x :: insert_keyed e l'
  end.
Definition arrive_by (ks : list nat) (l : list asyncblock) : list asyncblock :=
  match ks with
  | [] => l
  | _ => map snd (fold_right insert_keyed []
                    (map (fun p => (nth (fst p mod length ks) ks O, snd p))
                         (combine (seq 0 (length l)) l)))
  end.

Definition no_hash (_ : list bytes) : N := 0.

(** result of the ingest, plus the keys that are ambiguous: some single run holds two
    different rows with that key, so the survivor depends on Go's unstable sort.Slice *)
Definition run_ingest (c : tree) : ingest_result * list key :=
  let columns := d_list d_bytes (d_nth 1 c) in
  let pknames := d_list d_bytes (d_nth 2 c) in
  let rows := d_list d_row (d_nth 3 c) in
  let rs := d_N (d_nth 4 c) in
  let ks := d_list d_nat (d_nth 5 c) in
  (fst (ingest_table no_hash isort_rows (arrive_by ks) rs columns pknames rows),
   match key_indices columns pknames with
   | None => []
   | Some pk =>
       match add_rows isort_rows rs pk new_sorter rows with
       | None => []
       | Some s => concat (map (ambiguous_in_run (pk_indices (length columns) pk)) (runs_of isort_rows pk s))
       end
   end).

Definition t_blocks_tree (cr : row -> tree) (T : table) : tree := t_list (t_list cr) (t_blocks T).

Definition run_C01 (c : tree) : tree :=
  let '(res, amb) := run_ingest c in
  match res with
  | IOk T _ =>
      let cr := canon_row amb (pk_indices (length (t_columns T)) (t_pk T)) in
      Node [Leaf 0; t_row (t_columns T); t_list t_nat (t_pk T); Leaf (t_rowscount T);
            t_blocks_tree cr T;
            match d_nat (d_nth 0 c) with
            | 1%nat => Node (Node (Leaf 0 :: map t_bytes (t_columns T)) :: map cr (rows_of T))
            | _ => Node []
            end]
  | IFuel => Leaf 98
  | IPanic => Node [Leaf 2; Node []; Node []; Leaf 0; Node []; Node []]
  | _ => Node [Leaf 1; Node []; Node []; Leaf 0; Node []; Node []]
  end.

Definition issue_code (i : option issue) : N :=
  match i with
  | None => 0
  | Some IssPkIndex => 1 | Some IssPkEmpty => 2 | Some IssDupRows => 3
  | Some IssRowsCount => 4 | Some IssIdxCount => 5 | Some IssIdxRows => 6
  end.

(** kind 3 = (3 nrows workers): a table of nrows rows with unique keys that the harness
    generates itself; only counts are observed after objects.GetTable:
    (status rows nblocks nindices allreadable).  The model does not process the rows: by
    C03_block_count a sound table of n rows has ceil(n/255) blocks and as many indices. *)
Definition run_C03_large (c : tree) : tree :=
  let n := d_N (d_nth 1 c) in
  let nb := (n + 254) / 255 in
  Node [Leaf 0; Leaf n; Leaf nb; Leaf nb; Leaf 1].

Definition run_C03_table (c : tree) : tree :=
  let '(res, amb) := run_ingest c in
  match res with
  | IOk T tidx =>
      let idx := pk_indices (length (t_columns T)) (t_pk T) in
      let cr := canon_row amb idx in
      Node [Leaf 0; Leaf (t_rowscount T); t_blocks_tree cr T; t_list t_row tidx;
            t_list (t_list (fun r => Node [t_row (key_of idx r); cr r])) (t_blocks T);
            t_nat (length (t_blockidx T));
            Leaf (issue_code (diagnose T))]
  | IFuel => Leaf 98
  | IPanic => Node [Leaf 2; Leaf 0; Node []; Node []; Node []; Leaf 0; Leaf 0]
  | _ => Node [Leaf 1; Leaf 0; Node []; Node []; Node []; Leaf 0; Leaf 0]
  end.

Definition run_C03 (c : tree) : tree :=
  match d_nat (d_nth 0 c) with
  | 3%nat => run_C03_large c
  | _ => run_C03_table c
  end.

(** structural equality of the identity-relevant part of tables: columns, pk, blocks *)
Fixpoint list_eqb {A} (eq : A -> A -> bool) (a b : list A) : bool :=
  match a, b with
  | [], [] => true
  | x :: a', y :: b' => eq x y && list_eqb eq a' b'
  | _, _ => false
  end.
Definition table_eqb (T1 T2 : table) : bool :=
  list_eqb beqb (t_columns T1) (t_columns T2) &&
  list_eqb Nat.eqb (t_pk T1) (t_pk T2) &&
  (t_rowscount T1 =? t_rowscount T2) &&
  list_eqb (list_eqb row_eqb) (t_blocks T1) (t_blocks T2).

Definition run_C02 (c : tree) : tree :=
  let columns := d_list d_bytes (d_nth 0 c) in
  let pknames := d_list d_bytes (d_nth 1 c) in
  let variant (v : tree) :=
    fst (ingest_table no_hash isort_rows (arrive_by (d_list d_nat (d_nth 2 v)))
                      (d_N (d_nth 1 v)) columns pknames (d_list d_row (d_nth 0 v))) in
  let mutant (m : tree) :=
    fst (ingest_table no_hash isort_rows (fun l => l) 4096
                      (d_list d_bytes (d_nth 0 m)) (d_list d_bytes (d_nth 1 m)) (d_list d_row (d_nth 2 m))) in
  let vs := map variant (d_list (fun t => t) (d_nth 2 c)) in
  let ms := map mutant (d_list (fun t => t) (d_nth 3 c)) in
  match vs with
  | IOk T0 _ :: rest =>
      (* identifiers: the position of the first equal table among the tables seen *)
      let id_of (T : table) (known : list table) : N :=
        (fix go (l : list table) (i : N) : N :=
           match l with [] => i | K :: l' => if table_eqb K T then i else go l' (i + 1) end) known 0 in
      let cli :=
        match d_nat (d_nth 4 c), rest, ms with
        | 1%nat, IOk T1 _ :: _, IOk M0 _ :: _ =>
            let known := [T0; T1; M0] in
            let i0 := id_of T0 known in
            [t_bool (commit_if_changed None i0);
             t_bool (commit_if_changed (Some i0) (id_of T0 known));
             t_bool (commit_if_changed (Some i0) (id_of T1 known));
             t_bool (commit_if_changed (Some i0) (id_of M0 known))]
        | 2%nat, IOk T1 _ :: _, IOk M0 _ :: _ =>
            (* branch-file mode with the cache: first commit, the commit that creates the
               cache, then steps (delta+100000 content all): the file gets content 0/1/2
               (variant 0, variant 1, mutant 0) and mtime = cached commit time + delta ms *)
            let known := [T0; T1; M0] in
            let id_c (k : nat) := id_of (nth k known T0) known in
            let st0 := mk_cstate (Some (id_c 0%nat)) None in
            let '(st1, c1) := branch_commit_step st0 0 1000000 (id_c 0%nat) in
            t_bool true :: t_bool c1 ::
            (fix go (st : cstate) (steps : list tree) : list tree :=
               match steps with
               | [] => []
               | sp :: steps' =>
                   let tc := match cs_cache st with Some (t, _) => t | None => 0 end in
                   let mtime := tc + d_N (d_nth 0 sp) - 100000 in
                   let '(st', cr) := branch_commit_step st mtime (tc + 10000) (id_c (d_nat (d_nth 1 sp))) in
                   t_bool cr :: go st' steps'
               end) st1 (d_list (fun t => t) (d_nth 5 c))
        | _, _, _ => []
        end in
      Node [Leaf 0; t_blocks_tree t_row T0;
            t_list (fun r => match r with IOk T _ => t_bool (table_eqb T0 T) | _ => Leaf 2 end) rest;
            t_list (fun r => match r with IOk T _ => t_bool (negb (table_eqb T0 T)) | _ => Leaf 2 end) ms;
            Node cli]
  | _ => Node [Leaf 1; Node []; Node []; Node []; Node []]
  end.
