(** Model of pkg/index/hash_set.go, index.go, fanout.go, utils.go.
    Definitions only.  A 16-byte hash is its big-endian value in N, so the
    byte-wise lexicographic loops of the Go code are [N.leb]/[N.ltb]/[N.eqb]
    and the first byte is [h / 2^120].  The file is (fanout, table); an empty
    file reads as an all-zero fanout (the EOF branches of insertIndex return 0,
    exactly what an all-zero fanout yields).  [None] = error/panic. *)
From W.lib Require Import Tree GoSort.
From Coq Require Import Arith.
Local Open Scope N_scope.

Definition hash := N.
Definition fb (h : hash) : nat := N.to_nat (h / 2 ^ 120).

Record hs := mk_hs {
  fanout : list nat;        (* 256 entries; in-memory copy = on-disk copy between ops *)
  table  : list hash;       (* file contents from byte 1024 on, 16 bytes per entry *)
  size   : nat;             (* s.size *)
  batch  : list hash;
  bsz    : nat }.

Definition zeros256 : list nat := repeat 0%nat 256.
Definition hs_new (batch_size : nat) : hs :=
  mk_hs zeros256 [] 0 [] (if Nat.eqb batch_size 0 then 1024%nat else batch_size).

(* insertIndex *)
Definition insert_index (fan : list nat) (tbl : list hash) (b : hash) : option nat :=
  let k := fb b in
  let startInd := if Nat.eqb k 0 then 0%nat else nth (k - 1) fan 0%nat in
  let endInd := nth k fan 0%nat in
  if Nat.eqb startInd endInd then Some startInd
  else if (length tbl <? endInd)%nat then None   (* readHash past EOF inside sort.Search panics *)
  else Some (startInd +
         search (endInd - startInd)
           (fun pos => N.leb b (nth (startInd + pos) tbl 0%N)))%nat.

(* indexOf: Some (Some pos) found, Some None = -1 *)
Definition index_of (fan : list nat) (tbl : list hash) (b : hash) : option (option nat) :=
  match insert_index fan tbl b with
  | None => None
  | Some pos =>
      match nth_error tbl pos with
      | Some h => if h =? b then Some (Some pos) else Some None
      | None => Some None                         (* EOF => not equal *)
      end
  end.

(* file write at entry i; writing past the end extends the file with zero bytes *)
Fixpoint upd (i : nat) (h : hash) (t : list hash) : list hash :=
  match i, t with
  | O, [] => [h]
  | O, _ :: t' => h :: t'
  | S i', [] => 0 :: upd i' h []
  | S i', x :: t' => x :: upd i' h t'
  end.

(* for i := end-1; i >= off; i-- { t[delta+i] = t[i] }   with k = end - off *)
Fixpoint shift_loop (k off delta : nat) (t : list hash) : option (list hash) :=
  match k with
  | O => Some t
  | S k' =>
      let i := (off + k')%nat in
      match nth_error t i with
      | None => None
      | Some h => shift_loop k' off delta (upd (delta + i) h t)
      end
  end.

Fixpoint write_group (dst : nat) (hs : list hash) (t : list hash) : list hash :=
  match hs with
  | [] => t
  | h :: hs' => write_group (S dst) hs' (upd dst h t)
  end.

(* grouping by insert offset, in order of first appearance *)
Fixpoint group_add (off : nat) (b : hash) (gs : list (nat * list hash)) : list (nat * list hash) :=
  match gs with
  | [] => [(off, [b])]
  | (o, l) :: gs' => if Nat.eqb o off then (o, l ++ [b]) :: gs' else (o, l) :: group_add off b gs'
  end.

Fixpoint make_groups (fan : list nat) (tbl : list hash) (bs : list hash)
         (gs : list (nat * list hash)) : option (list (nat * list hash)) :=
  match bs with
  | [] => Some gs
  | b :: bs' =>
      match insert_index fan tbl b with
      | None => None
      | Some off => make_groups fan tbl bs' (group_add off b gs)
      end
  end.

(* sort.Slice instances: any sorting permutation gives this result because the
   group offsets are distinct and the order on hashes is total. *)
Fixpoint ins_hash (h : hash) (l : list hash) : list hash :=
  match l with [] => [h] | x :: l' => if h <=? x then h :: l else x :: ins_hash h l' end.
Definition sort_hashes (l : list hash) : list hash := fold_right ins_hash [] l.

Fixpoint ins_group (g : nat * list hash) (l : list (nat * list hash)) :=
  match l with
  | [] => [g]
  | x :: l' => if (fst x <=? fst g)%nat then g :: l else x :: ins_group g l'
  end.
Definition sort_groups_desc (l : list (nat * list hash)) := fold_right ins_group [] l.

(* the per-group loop body of addToHashTable, state (end, dst, table) *)
Fixpoint apply_groups (gs : list (nat * list hash)) (e dst : nat) (t : list hash)
  : option (list hash) :=
  match gs with
  | [] => Some t
  | (off, hs0) :: gs' =>
      let hs1 := sort_hashes hs0 in
      let l := length hs1 in
      match shift_loop (e - off) off (dst - e) t with
      | None => None
      | Some t1 =>
          let dst' := (dst - e + off - l)%nat in
          apply_groups gs' off dst' (write_group dst' hs1 t1)
      end
  end.

Definition add_to_hash_table (s : hs) : option (list hash) :=
  match make_groups (fanout s) (table s) (batch s) [] with
  | None => None
  | Some gs =>
      apply_groups (sort_groups_desc gs) (size s) (size s + length (batch s)) (table s)
  end.

(* addToFanoutTable: every k >= first byte gains one per batch entry *)
Fixpoint bump_from (k : nat) (fan : list nat) : list nat :=
  match fan with
  | [] => []
  | x :: fan' => match k with O => S x :: bump_from O fan' | S k' => x :: bump_from k' fan' end
  end.
Definition add_to_fanout (fan : list nat) (bs : list hash) : list nat :=
  fold_left (fun f b => bump_from (fb b) f) bs fan.

Definition flush (s : hs) : option hs :=
  match add_to_hash_table s with
  | None => None
  | Some t =>
      Some (mk_hs (add_to_fanout (fanout s) (batch s)) t
                  (size s + length (batch s)) [] (bsz s))
  end.

Definition add (s : hs) (h : hash) : option hs :=
  match index_of (fanout s) (table s) h with
  | None => None
  | Some (Some _) => Some s
  | Some None =>
      let s' := mk_hs (fanout s) (table s) (size s) (batch s ++ [h]) (bsz s) in
      if (bsz s <=? length (batch s'))%nat then flush s' else Some s'
  end.

Definition has (s : hs) (h : hash) : option bool :=
  match index_of (fanout s) (table s) h with
  | None => None
  | Some (Some _) => Some true
  | Some None => Some false
  end.

(* Close + NewHashSet on the same file: the unflushed batch is lost,
   fanout is re-read, size = fanout[255]. *)
Definition reopen (s : hs) (batch_size : nat) : hs :=
  mk_hs (fanout s) (table s) (nth 255 (fanout s) 0%nat) []
        (if Nat.eqb batch_size 0 then 1024%nat else batch_size).

(** Operation language used by theorems and by the correspondence driver. *)
Inductive op := OAdd (h : hash) | OFlush | OHas (h : hash) | OReopen (b : nat) | OLen | ODump.
Inductive out := RUnit | RBool (b : bool) | RNat (n : nat) | RDump (f : list nat) (t : list hash) | RErr.

Definition step (s : hs) (o : op) : hs * out :=
  match o with
  | OAdd h => match add s h with Some s' => (s', RUnit) | None => (s, RErr) end
  | OFlush => match flush s with Some s' => (s', RUnit) | None => (s, RErr) end
  | OHas h => match has s h with Some b => (s, RBool b) | None => (s, RErr) end
  | OReopen b => (reopen s b, RUnit)
  | OLen => (s, RNat (size s))
  | ODump => (s, RDump (fanout s) (firstn (size s) (table s)))
  end.

Fixpoint run_ops (s : hs) (ops : list op) : list out :=
  match ops with
  | [] => []
  | o :: ops' => let '(s', r) := step s o in r :: run_ops s' ops'
  end.

(** tree codecs (trusted only by the correspondence) *)
Definition hash_of_bytes (b : bytes) : hash := fold_left (fun acc x => acc * 256 + x) b 0.
Definition d_op (t : tree) : op :=
  match N.to_nat (d_N (d_nth 0 t)) with
  | 0%nat => OAdd (hash_of_bytes (d_bytes (d_nth 1 t)))
  | 1%nat => OFlush
  | 2%nat => OHas (hash_of_bytes (d_bytes (d_nth 1 t)))
  | 3%nat => OReopen (d_nat (d_nth 1 t))
  | 4%nat => OLen
  | _ => ODump
  end.
Fixpoint bytes_of_hash (n : nat) (h : hash) (acc : bytes) : bytes :=
  match n with O => acc | S n' => bytes_of_hash n' (h / 256) ((h mod 256) :: acc) end.
Definition t_out (r : out) : tree :=
  match r with
  | RUnit => Node []
  | RBool b => Node [Leaf 1; t_bool b]
  | RNat n => Node [Leaf 2; t_nat n]
  | RDump f t => Node [Leaf 3; t_list t_nat f; t_list (fun h => t_bytes (bytes_of_hash 16 h [])) t]
  | RErr => Node [Leaf 9]
  end.
(* case = (batch_size (op ...)) *)
Definition run_C20 (c : tree) : tree :=
  t_list t_out (run_ops (hs_new (d_nat (d_nth 0 c))) (d_list d_op (d_nth 1 c))).
