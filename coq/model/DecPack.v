(** Decoder models, part 4: packfile reader and pkt-lines.
    (pkg/encoding/packfile/packfile.go readVersion / decodeObjTypeAndLen / ReadObject,
     pkg/encoding/pktline/pktline.go ReadPktLine)          Definitions only. *)
From Coq Require Import String.
From Coq Require Import List Lia Arith ZArith.
From W.lib Require Import Tree Bytes GoSlice Reader.
From W.model Require Import DecPrim.
Local Open Scope N_scope.
Local Open Scope prog_scope.

Definition two64 : N := 18446744073709551616.
Definition max_int64 : N := 9223372036854775807.

(* uint64(x) << bits  for a non-negative int shift count (>= 64 gives 0) *)
Definition shl64 (x : N) (bits : N) : N :=
  if 64 <=? bits then 0 else (N.shiftl x bits) mod two64.

(** the loop of decodeObjTypeAndLen: state (u, bits) *)
Definition objhdr_step (st : N * N) : prog (N * N + N) :=
  let '(u, bits) := st in
  '(b, e) <- rdf S_pack_hdr1 1 ;;
  match e with
  | Some CEof => Fail COther                               (* "reading size: data corrupted" *)
  | Some c => Fail c
  | None =>
      x <- lift (idx (pad 1 b) 0) ;;
      let u' := N.lor u (shl64 (x mod 128) bits) in
      if (x / 128) mod 2 =? 0 then Ret (inr u') else Ret (inl (u', bits + 7))
  end.

(** decodeObjTypeAndLen: (objType, u) *)
Definition objhdr_read (F : nat) : prog (N * N) :=
  _ <- alloc 1 ;;                                         (* b := make([]byte, 1) *)
  b <- rd_exact S_pack_hdr0 1 ;;
  x <- lift (idx b 0) ;;
  let ot := (x / 16) mod 8 in
  u <- loop_u F objhdr_step (x mod 16, 4) ;;
  Ret (ot, u).

(** PackfileReader.ReadObject: (objType, body).  bytes.Buffer grows while data arrives:
    charged 512 (bytes.MinRead) plus what was actually written. *)
Definition object_read (F : nat) : prog (N * bytes) :=
  '(ot, u) <- objhdr_read F ;;
  if max_int64 <? u then Fail COther
  else
    '(d, e) <- cpf S_pack_body u ;;
    _ <- alloc (512 + N.of_nat (length d)) ;;
    match e with
    | Some CEof => Fail CUnexp
    | Some c => Fail c
    | None => Ret (ot, d)
    end.

(** readVersion: every failure is re-created with %v *)
Definition pack_magic : bytes := L_PACK.
Definition packfile_version (F : nat) : prog N :=
  _ <- alloc (parser_buf_charge 4) ;;                     (* r.buf.Buffer(4) *)
  '(m, e) <- rdf S_pack_magic 4 ;;
  match e with
  | Some _ => Fail COther
  | None =>
      if beqb (pad 4 m) pack_magic then
        '(v, e2) <- rdf S_pack_version 4 ;;
        match e2 with
        | Some _ => Fail COther
        | None => lift (be_u32 (pad 4 v))
        end
      else Fail COther
  end.

(** What a consumer of a packfile stream sees: NewPackfileReader, then ReadObject until it
    fails: (version, objects, class of the terminating error) -- io.EOF is the clean end. *)
Definition object_seq (F : nat) : prog (list (N * bytes) * errclass) :=
  loop_u F (fun objs =>
              r <- attempt (object_read F) ;;
              match r with
              | inl CFuel => Fail CFuel
              | inl e => Ret (inr (objs, e))
              | inr o => Ret (inl (objs ++ [o]))
              end) [].

Definition packfile_read (F : nat) : prog (N * list (N * bytes) * errclass) :=
  v <- packfile_version F ;;
  '(objs, e) <- object_seq F ;;
  Ret (v, objs, e).

(** hex.Decode of exactly 4 bytes into 2 *)
Definition hexval (c : N) : option N :=
  if (48 <=? c) && (c <=? 57) then Some (c - 48)
  else if (97 <=? c) && (c <=? 102) then Some (c - 87)
  else if (65 <=? c) && (c <=? 70) then Some (c - 55)
  else None.

Definition hex4 (b : bytes) : option N :=
  match b with
  | [a; b; c; d] =>
      match hexval a, hexval b, hexval c, hexval d with
      | Some a, Some b, Some c, Some d => Some (((a * 16 + b) * 16 + c) * 16 + d)
      | _, _, _, _ => None
      end
  | _ => None
  end.

(** ReadPktLine *)
Definition pktline_read : prog bytes :=
  '(b, e) <- next_bytes 4 ;;
  match e with
  | Some c => Fail c
  | None =>
      _ <- alloc 2 ;;                                     (* b2 := make([]byte, 2) *)
      match hex4 b with
      | None => Fail COther
      | Some u =>
          if u =? 0 then Ret []
          else
            '(b2, e2) <- next_bytes (N.to_nat u) ;;
            match e2 with
            | Some c => Fail c
            | None =>
                s <- lift (slice_to b2 (N.to_nat u - 1)) ;;   (* string(b[:u-1]) *)
                _ <- alloc (u - 1) ;;
                Ret s
            end
      end
  end.

(** ReadPktLine repeatedly on one Parser until it fails *)
Definition pktline_seq (F : nat) : prog (list bytes * errclass) :=
  loop_u F (fun ls =>
              r <- attempt pktline_read ;;
              match r with
              | inl CFuel => Fail CFuel
              | inl e => Ret (inr (ls, e))
              | inr l => Ret (inl (ls ++ [l]))
              end) [].
