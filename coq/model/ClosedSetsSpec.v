(** C08 - specification vocabulary for the negotiation model (definitions only). *)
From Coq Require Import List NArith Bool Arith Permutation.
From W.lib Require Import Tree.
From W.model Require Import ClosedSets.
Import ListNotations.

(** ** the commit graph *)
Definition parent_of (g : store) (c p : cid) : Prop := In p (parents_of g c).

(** [anc g c a]: a is an ancestor-or-self of c *)
Inductive anc (g : store) : cid -> cid -> Prop :=
| anc_refl : forall c, anc g c c
| anc_step : forall c p a, parent_of g c p -> anc g p a -> anc g c a.

Definition reach (g : store) (roots : list cid) (c : cid) : Prop :=
  exists r, In r roots /\ anc g r c.

(** parents of stored commits are stored (the object store is closed) *)
Definition closed (g : store) : Prop :=
  forall c p, parent_of g c p -> get_commit g p <> None.
Definition refs_ok (g : store) (refs : list cid) : Prop :=
  forall r, In r refs -> get_commit g r <> None.
(** content addressing makes every real history acyclic; the witness is a rank *)
Definition acyclic (g : store) : Prop :=
  exists rank : cid -> nat, forall c p, parent_of g c p -> rank p < rank c.
(** isFullCommit: the commit is stored and so is its table *)
Definition full (g : store) (c : cid) : Prop :=
  exists cm, get_commit g c = Some cm /\ table_exist g (c_table cm) = true.

(** ** the two parameters of the model *)
Definition sort_fun (qsort : list qitem -> list qitem) : Prop :=
  forall l, Permutation (qsort l) l.
Definition order_fun (ord : nat -> list cid -> list cid) : Prop :=
  forall i l, Permutation (ord i l) l.

(** ** visits of one walk
    [visf g stop s d k x]: starting from the queue entry (s, depth d) the walk reaches x at
    depth k along a parent path all of whose nodes (s and x included) are stored and not
    stopped.  [vis g stop w] = visits of the walk that starts at want w. *)
Inductive visf (g : store) (stop : cid -> bool) (s : cid) (d : nat) : nat -> cid -> Prop :=
| visf_0 : stop s = false -> get_commit g s <> None -> visf g stop s d d s
| visf_S : forall k c p, visf g stop s d k c -> parent_of g c p -> stop p = false ->
                         get_commit g p <> None -> visf g stop s d (S k) p.
Definition vis (g : store) (stop : cid -> bool) (w : cid) : nat -> cid -> Prop :=
  visf g stop w 0.

(** a queue entry (s, d) of the walk from w is legitimate *)
Definition pend (g : store) (stop : cid -> bool) (w s : cid) (d : nat) : Prop :=
  (s = w /\ d = 0) \/ exists c d', d = S d' /\ vis g stop w d' c /\ parent_of g c s.

(** plain parent path of length k *)
Inductive path (g : store) : cid -> nat -> cid -> Prop :=
| path_0 : forall c, path g c 0 c
| path_S : forall c k x p, path g c k x -> parent_of g x p -> path g c (S k) p.

(** ** contracts on the send list *)
(** parent-first: every parent of every listed commit is a common or occurs earlier *)
Definition order_ok (g : store) (commons l : list cid) : Prop :=
  forall l1 c l2, l = l1 ++ c :: l2 ->
                  forall p, parent_of g c p -> In p commons \/ In p l1.
(** covered: listed, or an ancestor-or-self of a common *)
Definition covered (g : store) (commons l : list cid) (a : cid) : Prop :=
  In a l \/ exists k, In k commons /\ anc g k a.

(** wants of the rounds that were accepted *)
Fixpoint accepted_wants (rs : list round) (os : list round_obs) : list cid :=
  match rs, os with
  | r :: rs', ROk _ :: os' => r_wants r ++ accepted_wants rs' os'
  | _ :: rs', _ :: os' => accepted_wants rs' os'
  | _, _ => []
  end.
(** acks of all rounds *)
Fixpoint all_acks (os : list round_obs) : list cid :=
  match os with
  | ROk acks :: os' => acks ++ all_acks os'
  | _ :: os' => all_acks os'
  | [] => []
  end.

(** ** heights (termination measure) *)
Fixpoint ht (g : store) (k : nat) (c : cid) : Prop :=
  match k with
  | O => parents_of g c = []
  | S k' => forall p, In p (parents_of g c) -> ht g k' p
  end.

(** the path count used as fuel, at saturation height *)
Definition npaths_sat (g : store) (stop : cid -> bool) (c : cid) : nat :=
  npaths g stop (S (ncommits g)) c.
