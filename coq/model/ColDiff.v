(** Model of pkg/diff/coldiff.go: CompareColumns (insertToNames with anchor groups,
    addLayer Added/Removed sets, hoistPKToStart, computeIndexMap) and
    RearrangeRow / RearrangeBaseRow.  Definitions only.

    Column names are byte strings.  Go maps from names to indices built by
    stringSliceToMap keep the LAST index of a repeated name ([map_idx]).
    Index sets (Added/Removed) are boolean lists aligned with Names; index maps
    (BaseIdx/OtherIdx: Names index -> position in the table's own columns) are
    [list (option nat)] aligned with Names.  ColDiff.Moved is not modelled (it is
    only displayed by the diff/merge widgets). *)
From W.lib Require Import Tree Bytes GoSlice.
From Coq Require Import Arith.

Definition name := bytes.

(** stringSliceToMap(l)[s]: last index of s *)
Fixpoint find_last_from (s : name) (l : list name) (i : nat) (acc : option nat) : option nat :=
  match l with
  | [] => acc
  | x :: t => find_last_from s t (S i) (if beqb x s then Some i else acc)
  end.
Definition map_idx (l : list name) (s : name) : option nat := find_last_from s l 0 None.
Definition mem_name (l : list name) (s : name) : bool := existsb (fun x => beqb x s) l.
(** Go: m[s] of a missing key is the zero value *)
Definition map_idx0 (l : list name) (s : name) : nat :=
  match map_idx l s with Some i => i | None => 0 end.

(** ---- insertToNames ----
    The loop walks [cols]; a name already in Names (the map is taken BEFORE the
    loop) moves the anchor to its index, any other name is appended to the group of
    the current anchor (-1 = [None] initially).  Names is then rebuilt as
    group(-1), names[0], group(0), names[1], group(1), ... *)
Fixpoint collect_groups (names : list name) (cols : list name) (anchor : option nat)
  : list (option nat * name) :=
  match cols with
  | [] => []
  | s :: t =>
      match map_idx names s with
      | Some i => collect_groups names t (Some i)
      | None => (anchor, s) :: collect_groups names t anchor
      end
  end.

Definition anchor_eqb (a b : option nat) : bool :=
  match a, b with
  | None, None => true
  | Some x, Some y => Nat.eqb x y
  | _, _ => false
  end.

Definition group_of (g : list (option nat * name)) (a : option nat) : list name :=
  map snd (filter (fun p => anchor_eqb (fst p) a) g).

Fixpoint weave (g : list (option nat * name)) (names : list name) (i : nat) : list name :=
  match names with
  | [] => []
  | x :: t => x :: group_of g (Some i) ++ weave g t (S i)
  end.

Definition insert_to_names (names cols : list name) : list name :=
  let g := collect_groups names cols None in
  group_of g None ++ weave g names 0.

(** Names before the key is hoisted: others in order, then the base *)
Definition names0 (base : list name) (others : list (list name)) : list name :=
  insert_to_names (fold_left insert_to_names others []) base.

(** ---- addLayer ---- index sets over the pre-hoist Names *)
Definition added0 (nm base cols : list name) : list bool :=
  map (fun i => existsb (fun s => negb (mem_name base s) && anchor_eqb (map_idx nm s) (Some i)) cols)
      (seq 0 (length nm)).
Definition removed0 (nm base cols : list name) : list bool :=
  map (fun i => existsb (fun s => negb (mem_name cols s) && anchor_eqb (map_idx nm s) (Some i)) base)
      (seq 0 (length nm)).

(** ---- hoistPKToStart ---- sort.Stable over (Names, Added, Removed) with
    Less = "key column before non-key column, key columns by their key position".
    A stable sort is determined by its key: elements of rank 0, 1, ... in their
    original order, then the elements without rank. *)
Record colent := { ce_name : name; ce_added : list bool; ce_removed : list bool }.

Definition rank_eqb (r : option nat) (e : colent) (pk : list name) : bool :=
  anchor_eqb (map_idx pk (ce_name e)) r.

Definition hoist (pk : list name) (l : list colent) : list colent :=
  flat_map (fun r => filter (fun e => rank_eqb (Some r) e pk) l) (seq 0 (length pk))
  ++ filter (fun e => rank_eqb None e pk) l.

(** the pre-hoist entries: name i with its membership in every layer's sets *)
Definition entries (nm : list name) (adds rems : list (list bool)) : list colent :=
  map (fun i => {| ce_name := nth i nm [];
                   ce_added := map (fun a => nth i a false) adds;
                   ce_removed := map (fun a => nth i a false) rems |})
      (seq 0 (length nm)).

(** ---- computeIndexMap ---- m[namesM[s]] = i for i, s in cols (later wins) *)
Fixpoint find_last_pos_from {A} (f : A -> bool) (l : list A) (i : nat) (acc : option nat) : option nat :=
  match l with
  | [] => acc
  | x :: t => find_last_pos_from f t (S i) (if f x then Some i else acc)
  end.
Definition idx_map (nm cols : list name) : list (option nat) :=
  map (fun n => find_last_pos_from (fun s => Nat.eqb (map_idx0 nm s) n) cols 0 None)
      (seq 0 (length nm)).

Record coldiff := {
  cd_names : list name;
  cd_added : list (list bool);      (* per layer, aligned with names *)
  cd_removed : list (list bool);
  cd_base_idx : list (option nat);
  cd_other_idx : list (list (option nat));
  cd_base_pk : list nat;
  cd_other_pk : list (list nat)
}.

(** a table header: (columns, primary key names) *)
Definition header := (list name * list name)%type.

Definition compare_columns (base : header) (others : list header) : res coldiff :=
  match others with
  | [] => Panic                                  (* others[0][1]: index out of range *)
  | o0 :: _ =>
      let ocols := map fst others in
      let nm0 := names0 (fst base) ocols in
      let adds0 := map (added0 nm0 (fst base)) ocols in
      let rems0 := map (removed0 nm0 (fst base)) ocols in
      let es := hoist (snd o0) (entries nm0 adds0 rems0) in
      let nm := map ce_name es in
      let layers := seq 0 (length others) in
      Ok {| cd_names := nm;
            cd_added := map (fun l => map (fun e => nth l (ce_added e) false) es) layers;
            cd_removed := map (fun l => map (fun e => nth l (ce_removed e) false) es) layers;
            cd_base_idx := idx_map nm (fst base);
            cd_other_idx := map (fun o => idx_map nm (fst o)) others;
            cd_base_pk := map (map_idx0 nm) (snd base);
            cd_other_pk := map (fun o => map (map_idx0 nm) (snd o)) others |}
  end.

(** RearrangeRow / RearrangeBaseRow: cell i of the result is row[idx[i]] when the
    table has column i, "" otherwise.  (row[j] is in range for rows of the table's
    width - the block codec guarantees that width.) *)
Definition rearrange (idx : list (option nat)) (row : list bytes) : list bytes :=
  map (fun o => match o with Some j => nth j row [] | None => [] end) idx.

Definition cd_layers (cd : coldiff) : nat := length (cd_added cd).
Definition in_added (cd : coldiff) (layer i : nat) : bool := nth i (nth layer (cd_added cd) []) false.
Definition in_removed (cd : coldiff) (layer i : nat) : bool := nth i (nth layer (cd_removed cd) []) false.

(** tree coders *)
Definition t_idx (l : list (option nat)) : tree := t_list (t_opt t_nat) l.
Definition true_positions (l : list bool) : list nat :=
  map fst (filter snd (combine (seq 0 (length l)) l)).
Definition t_coldiff_parts (cd : coldiff) : list tree :=
  [ t_list t_bytes (cd_names cd);
    Node (map (fun l => Node [t_list t_nat (true_positions (nth l (cd_added cd) []));
                             t_list t_nat (true_positions (nth l (cd_removed cd) []))])
              (seq 0 (cd_layers cd)));
    t_idx (cd_base_idx cd);
    t_list t_idx (cd_other_idx cd);
    t_list t_nat (cd_base_pk cd);
    t_list (t_list t_nat) (cd_other_pk cd) ].
