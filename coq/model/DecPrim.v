(** Decoder models, part 1: primitives, encoding.Parser, objline scalars and fields.
    (pkg/encoding/parser.go, pkg/encoding/objline/{scalar.go,field.go})
    Definitions only.  Every decoder is a [prog] (lib/Reader.v) built from [rdf] (one
    io.ReadFull at a named site), [cpf] (io.CopyN), [alloc] and [bind]; loops take the
    fuel [F] (a linear function of the input length, see DecRun.v). *)
From Coq Require Import String Ascii.
From Coq Require Import List Lia Arith ZArith.
From W.lib Require Import Tree Bytes GoSlice Reader.
Local Open Scope N_scope.
Local Open Scope prog_scope.

Fixpoint bs (s : string) : bytes :=
  match s with EmptyString => [] | String a s' => N_of_ascii a :: bs s' end.


(** labels as byte strings (precomputed so that Coq's [string] does not reach the extraction) *)
Definition L_columns : bytes := Eval compute in bs "columns".
Definition L_pk : bytes := Eval compute in bs "pk".
Definition L_rows : bytes := Eval compute in bs "rows".
Definition L_table : bytes := Eval compute in bs "table".
Definition L_authorName : bytes := Eval compute in bs "authorName".
Definition L_authorEmail : bytes := Eval compute in bs "authorEmail".
Definition L_time : bytes := Eval compute in bs "time".
Definition L_message : bytes := Eval compute in bs "message".
Definition L_parent : bytes := Eval compute in bs "parent".
Definition L_version : bytes := Eval compute in bs "version".
Definition L_fields : bytes := Eval compute in bs "fields".
Definition L_rowsCount : bytes := Eval compute in bs "rowsCount".
Definition L_colsCount : bytes := Eval compute in bs "colsCount".
Definition L_PACK : bytes := Eval compute in bs "PACK".

(** primitives *)
Definition rdf (st : site) (n : nat) : prog (bytes * ioerr) := Rd st n (fun d e => Ret (d, e)).
Definition cpf (st : site) (n : N) : prog (bytes * ioerr) := Cp st n (fun d e => Ret (d, e)).
Definition alloc (c : N) : prog unit := Alloc c (Ret tt).

(** io.ReadFull(r, buf) followed by "if err != nil { return err }": the n bytes, or the
    error with its class (EOF when nothing was read, ErrUnexpectedEOF when cut short) *)
Definition rd_exact (st : site) (n : nat) : prog bytes :=
  '(d, e) <- rdf st n ;;
  match e with Some c => Fail c | None => Ret d end.

(** errors wrapped with %v lose their identity; the model's own out-of-fuel marker is kept *)
Definition wrap_v (e : errclass) : errclass := match e with CFuel => CFuel | _ => COther end.
Definition ioerr_is_eof (e : ioerr) : bool := match e with Some CEof => true | _ => false end.

(** misc.Buffer.Buffer(n): the scratch buffer doubles its increment on every growth
    (4, 8, 16, ...; cap = 2g-4 after the increment g), so growing to hold n bytes allocates
    a capacity < 2n+4.  Charged at EVERY call (upper bound: the real buffer is reused). *)
Definition parser_buf_charge (n : nat) : N := match n with O => 0 | _ => 2 * N.of_nat n + 4 end.

(** Parser.NextBytes(n): (b, err) with b the n-byte scratch buffer *)
Definition next_bytes (n : nat) : prog (bytes * ioerr) :=
  _ <- alloc (parser_buf_charge n) ;;
  '(d, e) <- rdf S_parser_next n ;;
  Ret (pad n d, e).

(** objline scalars *)
Definition read_u16 : prog N :=
  '(b, e) <- next_bytes 2 ;;
  match e with Some c => Fail c | None => lift (be_u16 b) end.

Definition read_u32 : prog N :=
  '(b, e) <- next_bytes 4 ;;
  match e with Some c => Fail c | None => lift (be_u32 b) end.

(* float64 values are kept as their 64 bits *)
Definition read_f64 : prog N :=
  '(b, e) <- next_bytes 8 ;;
  match e with Some c => Fail c | None => lift (be_u64 b) end.

Definition read_bool : prog bool :=
  '(b, e) <- next_bytes 1 ;;
  match e with
  | Some c => Fail c
  | None =>
      x <- lift (idx b 0) ;;
      if x =? 0 then Ret false else if x =? 1 then Ret true else Fail COther
  end.

(* ReadString: a 0-byte EOF on the body is returned as io.EOF AFTER *s was assigned *)
Definition read_string : prog bytes :=
  '(b, e) <- next_bytes 2 ;;
  match e with
  | Some c => Fail c
  | None =>
      l <- lift (be_u16 b) ;;
      '(b2, e2) <- next_bytes (N.to_nat l) ;;
      match e2 with
      | Some CEof => _ <- alloc l ;; Fail CEof
      | Some c => Fail c
      | None => _ <- alloc l ;; Ret b2
      end
  end.

(** time: (unix seconds, zone offset in seconds); strconv.ParseInt and time.Parse are
    outside-world total functions (Section variables of everything that decodes a commit) *)
Record gotime := mk_time { t_sec : Z; t_off : Z }.
Definition zero_time : gotime := mk_time (-62135596800)%Z 0%Z.

Definition all_zero (b : bytes) : bool := forallb (fun x => x =? 0) b.

Section Time.
  Variable parse_int : bytes -> option Z.    (* strconv.ParseInt(s, 10, 64) *)
  Variable parse_tz : bytes -> option Z.     (* time.Parse("-0700", s) -> offset seconds *)

  (* DecodeTime(s): s[0:10], s[11:16] *)
  Definition decode_time (s : bytes) : prog gotime :=
    a <- lift (slice_range s 0 10) ;;
    match parse_int a with
    | None => Fail COther
    | Some sec =>
        z <- lift (slice_range s 11 16) ;;
        match parse_tz z with
        | None => Fail COther
        | Some off => Ret (mk_time sec off)
        end
    end.

  Definition read_time : prog gotime :=
    '(b, e) <- next_bytes 16 ;;
    match e with
    | Some c => Fail c
    | None => if all_zero b then Ret zero_time else decode_time b
    end.
End Time.

(** objline.ReadBytes(b): io.ReadFull(p, b) *)
Definition read_bytes_into (n : nat) : prog bytes := rd_exact S_objline_readbytes n.

(** consumeStr *)
Definition consume_str (s : bytes) : prog unit :=
  '(b, e) <- next_bytes (length s) ;;
  match e with
  | Some c => Fail c
  | None => if beqb b s then Ret tt else Fail COther
  end.

(** ReadField(p, label, f): a clean EOF before the label stays io.EOF, every other failure
    is re-created with %v *)
Definition read_field {A} (label : bytes) (f : prog A) : prog A :=
  r <- attempt (consume_str (label ++ [32])) ;;
  match r with
  | inl CEof => Fail CEof
  | inl e => Fail (wrap_v e)
  | inr _ =>
      r2 <- attempt f ;;
      match r2 with
      | inl e => Fail (wrap_v e)
      | inr a =>
          r3 <- attempt (consume_str [10]) ;;
          match r3 with
          | inl e => Fail (wrap_v e)
          | inr _ => Ret a
          end
      end
  end.
