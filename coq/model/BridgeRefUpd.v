(** Bridge B7b (C15 -> C10): the ref writes of fetch / push / merge / pull histories
    (model/RefUpdate.v) performed on the SQL model of pkg/ref/sql (model/RefSql.v).
    Definitions only (lemmas: proofs/BridgeRefUpd_proofs.v; statements: props/Compose3.v).

    model/RefUpdate.v (C10) carries its own ref store: [rstore], an association list
    name -> (commit, log) with [rset_log] (= ref.SaveRef / Store.SetWithLog, "one transaction
    reads the old value, upserts the ref and appends (old, new, action)") and [rdel]
    (= Store.Delete).  Its step functions are not parametric in the store, but every store
    write they make is recorded in the trace of transitions ([trans]: side, name, old value,
    new value).  The bridge replays exactly these writes on the SQL model, one ref.Store call
    per transition, in trace order:

      [op_of_trans t]        SaveRef name (cv new) meta   for a set,   Store.Delete name   for a delete
      [ops_of_trace sd tr]   the calls made on the store of side [sd] (the local repository / the
                             reference server's repository)

    and [URel s d] says that the SQL database [d] holds what the abstract store [s] holds, READ
    THROUGH THE SQL STORE'S OWN QUERIES: Get = [cget], LogReader = [clog] (complete, newest first,
    with the same old/new values).  Since the relation is re-established after every single
    transition (proofs: [wsteps_sim]), every read the decision rules make of the abstract store
    (rget, in the middle of an operation too) returns what Get on the SQL store returns at that
    point.

    Section variables: [cv : commit -> value] the 16-byte sum of a commit (premise: injective is NOT needed
    - values are only compared through the abstract store); [mt : trans -> meta] whatever SaveRef is
    passed besides name and sum (author, action, message): never compared. *)
From Coq Require Import List NArith Bool.
From W.lib Require Import Tree Bytes.
From W.model Require Import RefStore Like RefSql.
From W.model Require RefUpdate.
Import ListNotations.
Local Open Scope N_scope.

Section Upd.
  Variable cv : RefUpdate.commit -> value.
  Variable mt : RefUpdate.trans -> meta.

  Definition op_of_trans (t : RefUpdate.trans) : op :=
    match RefUpdate.t_new t with
    | Some c => OSaveRef (RefUpdate.t_name t) (cv c) (mt t)
    | None => OP (PDelete (RefUpdate.t_name t))
    end.

  Definition on_side (sd : RefUpdate.side) (t : RefUpdate.trans) : bool :=
    match sd, RefUpdate.t_side t with
    | RefUpdate.Local, RefUpdate.Local => true
    | RefUpdate.Remote, RefUpdate.Remote => true
    | _, _ => false
    end.

  Definition ops_of_trace (sd : RefUpdate.side) (tr : list RefUpdate.trans) : list op :=
    map op_of_trans (filter (on_side sd) tr).

  Definition ent_ok (le : logent) (e : RefUpdate.logent) : Prop :=
    le_old le = option_map cv (RefUpdate.l_old e) /\ le_new le = cv (RefUpdate.l_new e).

  (** the SQL database [d] holds what the abstract store [s] holds *)
  Definition URel (s : RefUpdate.rstore) (d : db) : Prop :=
    forall n, cget d n = option_map cv (RefUpdate.rget s n) /\
              exists l, clog d n = (l, true) /\ Forall2 ent_ok l (RefUpdate.rlogs s n).

  (** the (old, new) pairs of a reflog as read from the SQL store, newest first *)
  Definition sql_moves (d : db) (n : name) : list (option value * value) :=
    map (fun le => (le_old le, le_new le)) (fst (clog d n)).

  (** the local transitions of a trace on ref [n], in trace order *)
  Definition local_on (n : name) (t : RefUpdate.trans) : bool :=
    on_side RefUpdate.Local t && beqb (RefUpdate.t_name t) n.
  Definition move_of (t : RefUpdate.trans) : list (option value * value) :=
    match RefUpdate.t_new t with
    | Some c => [(option_map cv (RefUpdate.t_old t), cv c)]
    | None => []
    end.
End Upd.

(** an abstract store is a map: no name twice (true of every store built by [d_refs] and preserved
    by every step; [rdel] removes the first entry only) *)
Definition names_nodup (s : RefUpdate.rstore) : Prop := NoDup (map fst s).
