(** C13 - repository state, atomic writes, invariants (definitions only).

    Self-contained state machine for the crash-consistency property C13.

    Content addressing is modelled as IDENTITY OF CONTENT (DESIGN section 7): the id of a
    block / block index is an abstract number (one number per distinct content), the id of a
    table IS its content [(meta, [(block, block index) ...])] and the id of a commit IS its
    content [(table, parents, nonce)] where the nonce stands for everything that does not
    matter to the property (time stamp, author, message).  Hence "MeowHash is injective" holds
    by construction and a re-run of [commit] that produces a commit with a new time stamp is a
    commit with a new nonce.  [shape_of] erases the nonces: it is the "history shape" the
    re-run theorems compare.

    One [write] = one badger [Set]/[Delete] (pkg/objects/badger/store.go) or one SQL
    transaction of the ref store (pkg/ref/sql/store.go SetWithLog: ref + reflog in one
    transaction; Delete: reflog + ref in one transaction).  Atomicity of a single write and
    the durability order of the two stores are HYPOTHESES of C13 (level: partial).

    Finite sets / maps are lists (listing order = key enumeration order of the store, which
    nothing but prune's deletion order depends on). *)
From Coq Require Import List NArith Bool.
Import ListNotations.
Local Open Scope N_scope.

(* ------------------------------------------------------------------ objects *)

Record table := mkTable { t_meta : N; t_rows : list (N * N) }.
(** [t_rows]: one (block id, block-index id) pair per block.  objects.Table.ReadFrom reads
    exactly BlocksCount block sums and BlocksCount block-index sums, so the two lists of a
    decoded table always have the same length: pairs are faithful. *)
Definition t_blocks (t : table) : list N := map fst (t_rows t).
Definition t_blkidx (t : table) : list N := map snd (t_rows t).

Inductive cid := Cid (ctab : table) (cpar : list cid) (cnonce : N).
Definition c_table (c : cid) : table := match c with Cid t _ _ => t end.
Definition c_parents (c : cid) : list cid := match c with Cid _ p _ => p end.
Definition c_nonce (c : cid) : N := match c with Cid _ _ n => n end.

Inductive shape := Shape (stab : table) (spar : list shape).
Fixpoint shape_of (c : cid) : shape :=
  match c with Cid t ps _ => Shape t (map shape_of ps) end.

(** all commits reachable from [c] through parent links, [c] included *)
Fixpoint ancestors (c : cid) : list cid :=
  match c with Cid _ ps _ => c :: flat_map ancestors ps end.

(* ------------------------------------------------------------------ decidable equality *)

Fixpoint list_eqb {A} (e : A -> A -> bool) (l1 l2 : list A) : bool :=
  match l1, l2 with
  | [], [] => true
  | x :: l1', y :: l2' => e x y && list_eqb e l1' l2'
  | _, _ => false
  end.
Definition pair_eqb (a b : N * N) : bool := N.eqb (fst a) (fst b) && N.eqb (snd a) (snd b).
Definition table_eqb (a b : table) : bool :=
  N.eqb (t_meta a) (t_meta b) && list_eqb pair_eqb (t_rows a) (t_rows b).
Fixpoint cid_eqb (a b : cid) : bool :=
  match a, b with
  | Cid t1 p1 n1, Cid t2 p2 n2 =>
      table_eqb t1 t2 && N.eqb n1 n2 &&
      (fix go (l1 l2 : list cid) : bool :=
         match l1, l2 with
         | [], [] => true
         | x :: l1', y :: l2' => cid_eqb x y && go l1' l2'
         | _, _ => false
         end) p1 p2
  end.
Fixpoint shape_eqb (a b : shape) : bool :=
  match a, b with
  | Shape t1 p1, Shape t2 p2 =>
      table_eqb t1 t2 &&
      (fix go (l1 l2 : list shape) : bool :=
         match l1, l2 with
         | [], [] => true
         | x :: l1', y :: l2' => shape_eqb x y && go l1' l2'
         | _, _ => false
         end) p1 p2
  end.

Definition memb {A} (e : A -> A -> bool) (x : A) (l : list A) : bool := existsb (e x) l.
(** [Set] of a key: content addressed, so setting an existing key is the identity *)
Definition addb {A} (e : A -> A -> bool) (x : A) (l : list A) : list A :=
  if memb e x l then l else l ++ [x].
Definition delb {A} (e : A -> A -> bool) (x : A) (l : list A) : list A :=
  filter (fun y => negb (e x y)) l.
Definition inclb {A} (e : A -> A -> bool) (l1 l2 : list A) : bool :=
  forallb (fun x => memb e x l2) l1.

(* ------------------------------------------------------------------ state *)

(** a ref: name |-> (commit, full) where the ghost flag [full] records that the ref was
    written by commit / merge (the refs HeadsFull speaks about) *)
Definition refval := (cid * bool)%type.
Definition logent := (option cid * cid)%type.   (* (old value, new value) *)

Record state := mkState {
  commits : list cid;
  tables  : list table;
  tblidx  : list table;     (* table ids that have a table index *)
  prof    : list table;     (* table ids that have a profile *)
  blocks  : list N;
  blkidx  : list N;
  refs    : list (N * refval);
  logs    : list (N * list logent)
}.

Definition empty_state : state := mkState [] [] [] [] [] [] [] [].

Definition get_ref (r : N) (s : state) : option refval :=
  match find (fun e => N.eqb (fst e) r) (refs s) with Some e => Some (snd e) | None => None end.
Definition head_of (r : N) (s : state) : option cid :=
  match get_ref r s with Some (c, _) => Some c | None => None end.
Definition get_log (r : N) (s : state) : list logent :=
  match find (fun e => N.eqb (fst e) r) (logs s) with Some e => snd e | None => [] end.
Definition del_key {V} (r : N) (l : list (N * V)) : list (N * V) :=
  filter (fun e => negb (N.eqb (fst e) r)) l.

(* ------------------------------------------------------------------ atomic writes *)

Inductive write :=
| PutBlock (b : N)
| PutBlkIdx (i : N)
| PutTblIdx (t : table)
| PutProf (t : table)
| PutTable (t : table)
| PutCommit (c : cid)
| SetRefLog (r : N) (c : cid) (full : bool)   (* ref.Store.SetWithLog: ref + reflog, one transaction *)
| DelRef (r : N)                              (* ref.Store.Delete: reflog + ref, one transaction *)
| DelBlock (b : N)
| DelBlkIdx (i : N)
| DelTable (t : table)
| DelTblIdx (t : table)
| DelProf (t : table)
| DelCommit (c : cid).

Definition apply (w : write) (s : state) : state :=
  match s with
  | mkState cs ts tis ps bs bis rs ls =>
    match w with
    | PutBlock b   => mkState cs ts tis ps (addb N.eqb b bs) bis rs ls
    | PutBlkIdx i  => mkState cs ts tis ps bs (addb N.eqb i bis) rs ls
    | PutTblIdx t  => mkState cs ts (addb table_eqb t tis) ps bs bis rs ls
    | PutProf t    => mkState cs ts tis (addb table_eqb t ps) bs bis rs ls
    | PutTable t   => mkState cs (addb table_eqb t ts) tis ps bs bis rs ls
    | PutCommit c  => mkState (addb cid_eqb c cs) ts tis ps bs bis rs ls
    | SetRefLog r c f =>
        mkState cs ts tis ps bs bis
          ((r, (c, f)) :: del_key r rs)
          ((r, (head_of r s, c) :: get_log r s) :: del_key r ls)
    | DelRef r     => mkState cs ts tis ps bs bis (del_key r rs) (del_key r ls)
    | DelBlock b   => mkState cs ts tis ps (delb N.eqb b bs) bis rs ls
    | DelBlkIdx i  => mkState cs ts tis ps bs (delb N.eqb i bis) rs ls
    | DelTable t   => mkState cs (delb table_eqb t ts) tis ps bs bis rs ls
    | DelTblIdx t  => mkState cs ts (delb table_eqb t tis) ps bs bis rs ls
    | DelProf t    => mkState cs ts tis (delb table_eqb t ps) bs bis rs ls
    | DelCommit c  => mkState (delb cid_eqb c cs) ts tis ps bs bis rs ls
    end
  end.

Definition apply_all (ws : list write) (s : state) : state := fold_left (fun s w => apply w s) ws s.

(** the state a crash after the [n]-th write of [ws] leaves behind; an injected write error
    at position [n] leaves the same state (the operation returns the error) *)
Definition crash (n : nat) (ws : list write) (s : state) : state := apply_all (firstn n ws) s.

(* ------------------------------------------------------------------ invariants *)

(** every stored commit's parents are stored *)
Definition Closed (s : state) : Prop :=
  forall c, In c (commits s) -> forall p, In p (c_parents c) -> In p (commits s).
(** every ref points at a stored commit *)
Definition RefsResolve (s : state) : Prop :=
  forall r c f, In (r, (c, f)) (refs s) -> In c (commits s).
(** a table that is present (what TableExist / isFullCommit / popHaves / NewShallowCommitError
    consult) has all its blocks, block indices and its table index *)
Definition TableUsable (s : state) : Prop :=
  forall t, In t (tables s) ->
    (forall b, In b (t_blocks t) -> In b (blocks s)) /\
    (forall i, In i (t_blkidx t) -> In i (blkidx s)) /\
    In t (tblidx s).
(** a ref written by commit / merge points at a commit whose table is present *)
Definition HeadsFull (s : state) : Prop :=
  forall r c, In (r, (c, true)) (refs s) -> In (c_table c) (tables s).

(** the key listing of the commit store has no duplicate key *)
Definition WF (s : state) : Prop := NoDup (commits s).

Definition Inv3 (s : state) : Prop := RefsResolve s /\ TableUsable s /\ HeadsFull s.
Definition Inv (s : state) : Prop := Closed s /\ Inv3 s.

(** the weakening of [Closed] that survives prune's arbitrary commit deletion order:
    everything reachable from a ref is stored *)
Definition ReachClosed (s : state) : Prop :=
  forall r c f, In (r, (c, f)) (refs s) -> forall a, In a (ancestors c) -> In a (commits s).

(** NOT an invariant of every operation (merge writes the profile after the table); commit
    and receive keep it *)
Definition Profiled (s : state) : Prop := forall t, In t (tables s) -> In t (prof s).

(* boolean checkers, used by [run_C13] and by the [_refuted] witnesses *)
Definition closed_b (s : state) : bool :=
  forallb (fun c => inclb cid_eqb (c_parents c) (commits s)) (commits s).
Definition refs_resolve_b (s : state) : bool :=
  forallb (fun e => memb cid_eqb (fst (snd e)) (commits s)) (refs s).
Definition table_usable_b (s : state) : bool :=
  forallb (fun t => inclb N.eqb (t_blocks t) (blocks s) && inclb N.eqb (t_blkidx t) (blkidx s)
                    && memb table_eqb t (tblidx s)) (tables s).
Definition heads_full_b (s : state) : bool :=
  forallb (fun e => negb (snd (snd e)) || memb table_eqb (c_table (fst (snd e))) (tables s)) (refs s).
Definition inv3_b (s : state) : bool := refs_resolve_b s && table_usable_b s && heads_full_b s.
Definition inv_b (s : state) : bool := closed_b s && inv3_b s.
Definition reach_closed_b (s : state) : bool :=
  forallb (fun e => inclb cid_eqb (ancestors (fst (snd e))) (commits s)) (refs s).
Definition profiled_b (s : state) : bool := inclb table_eqb (tables s) (prof s).

(* ------------------------------------------------------------------ observables *)

(** what a re-run is compared on: ref name |-> history shape (table ids + parent structure,
    commit nonces erased) *)
Definition ref_shape (s : state) (r : N) : option shape :=
  match get_ref r s with Some (c, _) => Some (shape_of c) | None => None end.
Definition obs_eq (s1 s2 : state) : Prop := forall r, ref_shape s1 r = ref_shape s2 r.

Definition opt_shape_eqb (a b : option shape) : bool :=
  match a, b with
  | None, None => true
  | Some x, Some y => shape_eqb x y
  | _, _ => false
  end.
Definition obs_eqb (s1 s2 : state) : bool :=
  forallb (fun r => opt_shape_eqb (ref_shape s1 r) (ref_shape s2 r))
          (map fst (refs s1) ++ map fst (refs s2)).
